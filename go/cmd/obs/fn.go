package main

import (
	"IG-Parser/core/tree"
	"encoding/json"
	"igpverif/sx"
	"strconv"
)

// handleFn exercises exported helper functions on directly generated arguments.
func handleFn(r *Req) Resp {
	switch r.Fn {
	case "odometer":
		// args: list of array lengths; nodes are labelled "i.j"
		var lens []int
		if err := json.Unmarshal(r.Args, &lens); err != nil {
			return Resp{"bad": err.Error()}
		}
		arrays := make([][]*tree.Node, len(lens))
		for i, l := range lens {
			arrays[i] = make([]*tree.Node, l)
			for j := 0; j < l; j++ {
				arrays[i][j] = &tree.Node{Entry: strconv.Itoa(i) + "." + strconv.Itoa(j)}
			}
		}
		stmts, err := tree.GenerateNodeArrayPermutations(arrays...)
		rows := make([][]string, len(stmts))
		for i, s := range stmts {
			rows[i] = make([]string, len(s))
			for j, n := range s {
				rows[i][j] = n.Entry.(string)
			}
		}
		return Resp{"err": err.ErrorCode, "rows": rows}
	case "refs":
		// args: {"ids":[...], "ranges":bool, "inc":bool}
		var a struct {
			Ids    []int `json:"ids"`
			Ranges bool  `json:"ranges"`
			Inc    bool  `json:"inc"`
		}
		if err := json.Unmarshal(r.Args, &a); err != nil {
			return Resp{"bad": err.Error()}
		}
		var refs []string
		for _, id := range a.Ids {
			refs = tree.GenerateReferenceSlice(refs, id, a.Ranges, a.Inc)
		}
		if refs == nil {
			refs = []string{}
		}
		return Resp{"refs": refs}
	case "link":
		// args: {"tree": node, "p": "010", "q": "11"}: FindLogicalLinkage between two nodes of a built tree
		var a struct {
			Tree string `json:"tree"`
			P    string `json:"p"`
			Q    string `json:"q"`
		}
		if err := json.Unmarshal(r.Args, &a); err != nil {
			return Resp{"bad": err.Error()}
		}
		root, e := sx.ParseNode(a.Tree)
		if e != nil {
			return Resp{"bad": e.Error()}
		}
		p, q := sx.NodeAt(root, a.P), sx.NodeAt(root, a.Q)
		if p == nil || q == nil {
			return Resp{"bad": "path outside the tree"}
		}
		found, ops, err := tree.FindLogicalLinkage(p, q)
		if ops == nil {
			ops = []string{}
		}
		return Resp{"found": found, "ops": ops, "err": err.ErrorCode}
	}
	return Resp{"bad": "unknown fn " + r.Fn}
}
