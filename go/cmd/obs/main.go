// obs: observation worker. Reads one JSON request per line on stdin and answers one JSON object per
// line on a duplicate of the original stdout (the implementation prints diagnostics to os.Stdout).
package main

import (
	"IG-Parser/core/endpoints"
	"IG-Parser/core/exporter/tabular"
	"IG-Parser/core/parser"
	"IG-Parser/core/tree"
	"bufio"
	"encoding/hex"
	"encoding/json"
	"fmt"
	"igpverif/sx"
	"io"
	"log"
	"os"
	"runtime/debug"
	"strings"
	"time"
	"unicode/utf8"
)

type Req struct {
	Mode string `json:"mode"`
	Stmt string `json:"stmt"`
	Tree string `json:"tree"`
	Id   string `json:"id"`
	Orig string `json:"orig"`
	// tabular options
	Ext  bool   `json:"ext"`
	Anno bool   `json:"anno"`
	Dyn  bool   `json:"dyn"`
	Hdr  bool   `json:"hdr"`
	Fmt  string `json:"fmt"`
	PO   string `json:"po"`
	PI   string `json:"pi"`
	// visual options
	Flat  bool `json:"flat"`
	Bin   bool `json:"bin"`
	Dov   bool `json:"dov"`
	AcTop bool `json:"actop"`
	// generic arguments for fn mode
	Fn   string          `json:"fn"`
	Args json.RawMessage `json:"args"`
	Reps int             `json:"reps"`
}

type Resp map[string]interface{}

// withOut stores an output string; when it is not valid UTF-8 (JSON encoding would replace bytes) the
// exact bytes are added in hex.
func withOut(r Resp, out string) Resp {
	r["out"] = out
	if !utf8.ValidString(out) {
		r["outx"] = hex.EncodeToString([]byte(out))
	}
	return r
}

func setTabGlobals(r *Req) {
	tabular.SetIncludeSharedElementsInTabularOutput(true)
	tabular.SetProduceIGExtendedOutput(false)
	tabular.SetDynamicOutput(r.Dyn)
	tabular.SetProduceIGExtendedOutput(r.Ext)
	tabular.SetIncludeAnnotations(r.Anno)
	tabular.SetIncludeHeaders(r.Hdr)
}
func setVisGlobals(r *Req) {
	tabular.SetDynamicOutput(r.Dyn)
	tabular.SetProduceIGExtendedOutput(r.Ext)
	tabular.SetIncludeAnnotations(r.Anno)
	tabular.SetIncludeDegreeOfVariability(r.Dov)
	tree.SetFlatPrinting(r.Flat)
	tree.SetBinaryPrinting(r.Bin)
	tree.SetMoveActivationConditionsToFront(r.AcTop)
	tree.SetIncludeSharedElementsInVisualOutput(true)
}

func dflt(s, d string) string {
	if s == "" {
		return d
	}
	return s
}

func tabResult(res []tabular.TabularOutputResult, err tree.ParsingError) Resp {
	out := ""
	var rows [][]map[string]string
	var hdrs [][]string
	for _, x := range res {
		out += x.Output
		for _, row := range x.StatementMap {
			for k, v := range row {
				if !utf8.ValidString(v) {
					// JSON encoding would replace the invalid bytes: hand the exact bytes over in hex
					row[k] = "\x00hex:" + hex.EncodeToString([]byte(v))
				}
			}
		}
		rows = append(rows, x.StatementMap)
		hdrs = append(hdrs, x.HeaderSymbols)
	}
	return withOut(Resp{"err": err.ErrorCode, "rows": rows, "hdr": hdrs}, out)
}

func showPint(n *tree.Node) string {
	if n == nil {
		return "nil"
	}
	if n.IsEmptyOrNilNode() {
		return "E"
	}
	if n.Left == nil && n.Right == nil && n.LogicalOperator == "" {
		return "L<" + fmt.Sprint(n.Entry) + ">"
	}
	return "C(" + n.LogicalOperator + " " + showPint(n.Left) + " " + showPint(n.Right) + " sl=[" + strings.Join(n.SharedLeft, ";") + "] sr=[" + strings.Join(n.SharedRight, ";") + "])"
}

func handle(r *Req) (resp Resp) {
	defer func() {
		if x := recover(); x != nil {
			resp = Resp{"panic": fmt.Sprint(x), "stack": string(debug.Stack())}
		}
	}()
	switch r.Mode {
	case "parse":
		nodes, err := parser.ParseStatement(r.Stmt)
		d := make([]string, len(nodes))
		links := ""
		for i, n := range nodes {
			d[i] = sx.DumpNode(n, 0)
			if links == "" {
				links = sx.ParentLinks(n, 0)
			}
		}
		resp := Resp{"err": err.ErrorCode, "nodes": d}
		if links != "" {
			resp["parent_links"] = links
		}
		if len(nodes) == 1 {
			eff := [][2][]string{}
			sx.EffShared(nodes[0], 0, &eff)
			resp["eff_shared"] = eff
		}
		return resp
	case "tab":
		setTabGlobals(r)
		res, err := endpoints.ConvertIGScriptToTabularOutput(r.Orig, r.Stmt, r.Id, dflt(r.Fmt, tabular.OUTPUT_TYPE_CSV), "", true, r.Hdr,
			dflt(r.PO, tabular.ORIGINAL_STATEMENT_OUTPUT_NONE), dflt(r.PI, tabular.IG_SCRIPT_OUTPUT_NONE))
		return tabResult(res, err)
	case "vis":
		setVisGlobals(r)
		out, err := endpoints.ConvertIGScriptToVisualTree(r.Stmt, r.Id, "")
		return withOut(Resp{"err": err.ErrorCode, "valid": json.Valid([]byte(out))}, out)
	case "visd":
		// endpoint-level: the parsed tree (dumped before printing) together with the endpoint's output
		setVisGlobals(r)
		nodes, perr := parser.ParseStatement(r.Stmt)
		d := make([]string, len(nodes))
		for i, n := range nodes {
			d[i] = sx.DumpNode(n, 0)
		}
		setVisGlobals(r)
		out, err := endpoints.ConvertIGScriptToVisualTree(r.Stmt, r.Id, "")
		return withOut(Resp{"err": err.ErrorCode, "perr": perr.ErrorCode, "nodes": d, "valid": json.Valid([]byte(out))}, out)
	case "bdump":
		st, e := sx.ParseStmt(r.Tree)
		if e != nil {
			return Resp{"bad": e.Error()}
		}
		return Resp{"tree": sx.DumpStmt(st, 0)}
	case "bdov":
		st, e := sx.ParseStmt(r.Tree)
		if e != nil {
			return Resp{"bad": e.Error()}
		}
		fields := map[string][]interface{}{}
		for i, p := range sx.FieldPtrs(st) {
			if *p != nil {
				v, err := (*p).CalculateStateComplexity()
				fields[sx.FieldNames[i]] = []interface{}{v, err.ErrorCode}
			}
		}
		return Resp{"total": st.CalculateComplexity().TotalStateComplexity, "fields": fields}
	case "bvis":
		st, e := sx.ParseStmt(r.Tree)
		if e != nil {
			return Resp{"bad": e.Error()}
		}
		setVisGlobals(r)
		root := &tree.Node{Entry: st}
		out, err := root.PrintNodeTree(nil, r.Flat, r.Bin, r.Anno, r.Dov, r.AcTop, 0)
		return withOut(Resp{"err": err.ErrorCode, "valid": json.Valid([]byte(out))}, out)
	case "bvisn":
		// root given as a node (pair combinations, node arrays)
		root, e := sx.ParseNode(r.Tree)
		if e != nil {
			return Resp{"bad": e.Error()}
		}
		setVisGlobals(r)
		out, err := root.PrintNodeTree(nil, r.Flat, r.Bin, r.Anno, r.Dov, r.AcTop, 0)
		return withOut(Resp{"err": err.ErrorCode, "valid": json.Valid([]byte(out))}, out)
	case "btab":
		st, e := sx.ParseStmt(r.Tree)
		if e != nil {
			return Resp{"bad": e.Error()}
		}
		setTabGlobals(r)
		root := []*tree.Node{{Entry: st}}
		res := tabular.GenerateTabularOutputFromParsedStatements(root, "", r.Orig, r.Stmt, r.Id, "", true, tree.AGGREGATE_IMPLICIT_LINKAGES,
			tabular.CellSeparator, dflt(r.Fmt, tabular.OUTPUT_TYPE_CSV), r.Hdr, dflt(r.PO, tabular.ORIGINAL_STATEMENT_OUTPUT_NONE), dflt(r.PI, tabular.IG_SCRIPT_OUTPUT_NONE))
		errc := tree.ParsingError{ErrorCode: tree.PARSING_NO_ERROR}
		for _, x := range res {
			if x.Error.ErrorCode != tree.PARSING_NO_ERROR {
				errc = x.Error
				break
			}
		}
		return tabResult(res, errc)
	case "btabn":
		// tabular export of a built root node (statement, or pair combination of statements)
		root, e := sx.ParseNode(r.Tree)
		if e != nil {
			return Resp{"bad": e.Error()}
		}
		sx.LinkEmbedded(root)
		setTabGlobals(r)
		res := tabular.GenerateTabularOutputFromParsedStatements([]*tree.Node{root}, "", r.Orig, r.Stmt, r.Id, "", true, tree.AGGREGATE_IMPLICIT_LINKAGES,
			tabular.CellSeparator, dflt(r.Fmt, tabular.OUTPUT_TYPE_CSV), r.Hdr, dflt(r.PO, tabular.ORIGINAL_STATEMENT_OUTPUT_NONE), dflt(r.PI, tabular.IG_SCRIPT_OUTPUT_NONE))
		errc := tree.ParsingError{ErrorCode: tree.PARSING_NO_ERROR}
		for _, x := range res {
			if x.Error.ErrorCode != tree.PARSING_NO_ERROR {
				errc = x.Error
				break
			}
		}
		return tabResult(res, errc)
	case "tabd":
		// endpoint-level: the parsed tree (dumped before exporting) together with the endpoint's result
		setTabGlobals(r)
		nodes, perr := parser.ParseStatement(tabular.CleanInput(r.Stmt, tabular.CellSeparator))
		d := make([]string, len(nodes))
		for i, n := range nodes {
			d[i] = sx.DumpNode(n, 0)
		}
		setTabGlobals(r)
		res, err := endpoints.ConvertIGScriptToTabularOutput(r.Orig, r.Stmt, r.Id, dflt(r.Fmt, tabular.OUTPUT_TYPE_CSV), "", true, r.Hdr,
			dflt(r.PO, tabular.ORIGINAL_STATEMENT_OUTPUT_NONE), dflt(r.PI, tabular.IG_SCRIPT_OUTPUT_NONE))
		resp := tabResult(res, err)
		resp["perr"] = perr.ErrorCode
		resp["nodes"] = d
		return resp
	case "pint":
		// the combination parser alone: outcome class and node tree in the notation of ocaml/comborun.ml
		n, _, err := parser.ParseIntoNodeTree(r.Stmt, false, "(", ")")
		if err.ErrorCode == tree.PARSING_NO_ERROR || err.ErrorCode == tree.PARSING_ERROR_NO_COMBINATIONS {
			return Resp{"res": err.ErrorCode + " " + showPint(n)}
		}
		return Resp{"res": err.ErrorCode}
	case "fn":
		return handleFn(r)
	}
	return Resp{"bad": "unknown mode " + r.Mode}
}

func main() {
	log.SetOutput(io.Discard)
	realOut := os.Stdout
	devnull, _ := os.OpenFile(os.DevNull, os.O_WRONLY, 0)
	os.Stdout = devnull
	sc := bufio.NewScanner(os.Stdin)
	sc.Buffer(make([]byte, 1<<24), 1<<24)
	w := bufio.NewWriter(realOut)
	defer w.Flush()
	enc := json.NewEncoder(w)
	enc.SetEscapeHTML(false)
	for sc.Scan() {
		var r Req
		if err := json.Unmarshal(sc.Bytes(), &r); err != nil {
			enc.Encode(Resp{"bad": "request: " + err.Error()})
			w.Flush()
			continue
		}
		t0 := time.Now()
		resp := handle(&r)
		if r.Reps > 1 {
			// in-process repetitions (C12): the same request again; the first differing answer is attached
			canon := func(x Resp) []byte {
				c := Resp{}
				for k, v := range x {
					if k != "stack" {
						c[k] = v
					}
				}
				b, _ := json.Marshal(c)
				return b
			}
			first := canon(resp)
			for k := 1; k < r.Reps; k++ {
				again := handle(&r)
				b := canon(again)
				if string(b) != string(first) {
					resp["rep_diff"] = Resp{"at": k, "resp": again}
					break
				}
			}
			resp["reps_done"] = r.Reps
		}
		resp["us"] = time.Since(t0).Microseconds()
		enc.Encode(resp)
		w.Flush()
	}
}
