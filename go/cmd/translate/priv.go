package main

import (
	"fmt"
	"go/ast"
	"strings"
)

// ---------------------------------------------------------------- G3: private properties (C16)
// ProcessPrivateComponentLinkages: the switch that chooses, per source component name and per pass (simple/complex),
// the property tree searched for matching suffixes, and the switch that resets the statement's property field when
// its last element was withdrawn.
//   priv_link_table  : (source component name, complex pass?, property field searched)
//   priv_reset_table : (source component name, property field reset)
func genPriv(w *strings.Builder) {
	key := "parser.ProcessPrivateComponentLinkages"
	fd := funcs[key]
	var links, resets []string
	if fd == nil {
		unsup("%s not found", key)
	} else {
		var visit func(n ast.Node, guard string, complex string)
		visit = func(n ast.Node, guard string, complex string) {
			switch x := n.(type) {
			case *ast.BlockStmt:
				for _, st := range x.List {
					visit(st, guard, complex)
				}
			case *ast.SwitchStmt:
				for _, cc := range x.Body.List {
					cl := cc.(*ast.CaseClause)
					g := ""
					if len(cl.List) == 1 {
						if s, ok := evalString(cl.List[0], "parser"); ok {
							g = s
						}
					} else if len(cl.List) > 1 {
						unsup("%s: case with several values", key)
					}
					for _, st := range cl.Body {
						visit(st, g, complex)
					}
				}
			case *ast.IfStmt:
				if id, ok := x.Cond.(*ast.Ident); ok && id.Name == "complex" {
					visit(x.Body, guard, "true")
					if x.Else != nil {
						visit(x.Else, guard, "false")
					}
					return
				}
				// if reflect.DeepEqual(pair.Tgt, s.X) { s.X = nil }
				if c, ok := x.Cond.(*ast.CallExpr); ok && src(c.Fun) == "reflect.DeepEqual" && len(c.Args) == 2 && guard != "" {
					f, ok1 := fieldOf(c.Args[1], "s")
					okBody := false
					if len(x.Body.List) >= 1 {
						for _, st := range x.Body.List {
							if as, ok := st.(*ast.AssignStmt); ok && len(as.Lhs) == 1 && len(as.Rhs) == 1 && src(as.Rhs[0]) == "nil" {
								if f2, ok2 := fieldOf(as.Lhs[0], "s"); ok2 && f2 == f {
									okBody = true
								}
							}
						}
					}
					if ok1 && okBody {
						resets = append(resets, fmt.Sprintf("(%s, %s)", coqStr(guard), f))
					} else {
						unsup("%s: %s", key, firstLine(src(x)))
					}
					return
				}
				visit(x.Body, guard, complex)
				if x.Else != nil {
					visit(x.Else, guard, complex)
				}
			case *ast.ForStmt:
				visit(x.Body, guard, complex)
			case *ast.RangeStmt:
				visit(x.Body, guard, complex)
			case *ast.AssignStmt:
				if len(x.Rhs) == 1 {
					if c, ok := x.Rhs[0].(*ast.CallExpr); ok && src(c.Fun) == "FindNodesLinkedViaSuffix" {
						if len(c.Args) == 2 && src(c.Args[0]) == "sourceComponentElement" && guard != "" && complex != "" {
							if f, ok := fieldOf(c.Args[1], "s"); ok {
								links = append(links, fmt.Sprintf("(%s, %s, %s)", coqStr(guard), complex, f))
								return
							}
						}
						unsup("%s: %s", key, firstLine(src(x)))
					}
				}
			}
		}
		visit(fd.Body, "", "")
	}
	fmt.Fprintf(w, "Definition priv_link_table : list (str * bool * field) := %s.\n", coqList(links))
	fmt.Fprintf(w, "Definition priv_reset_table : list (str * field) := %s.\n\n", coqList(resets))
}
