package main

import (
	"fmt"
	"go/ast"
	"go/token"
	"strings"
)

// ---------------------------------------------------------------- G6: decoding of request parameters and the positional hand-over
//
// From converterHandler:
//   form_vars   : formValueX := r.FormValue(shared.PARAM_Y)                      -> (formValueX, "Y's value")
//   post_rules  : if formValueX == shared.CHECKBOX_ON { .. v = A } else { .. v = B } -> PRule "formValueX" [(v, A)] [(v, B)]
//   get_rules   : val, suc = extractUrlParameters(r, shared.PARAM_Y); check = evaluateBooleanUrlParameters(..);
//                 [if !suc { check = D }]  if check { .. v = A } else { .. v = B }  -> URule "y" (Some D | None) [(v, A)] [(v, B)]
//   handover    : handleTabularOutput(args...) / handleVisualOutput(args...)       -> (callee parameter, argument text)
// and from the two handlers the argument lists of the endpoint calls.

func boolAssigns(list []ast.Stmt) []string {
	var out []string
	for _, st := range list {
		as, ok := st.(*ast.AssignStmt)
		if !ok || len(as.Lhs) != 1 || len(as.Rhs) != 1 {
			continue
		}
		id, ok := as.Lhs[0].(*ast.Ident)
		if !ok {
			continue
		}
		if v, ok := as.Rhs[0].(*ast.Ident); ok && (v.Name == "true" || v.Name == "false") {
			out = append(out, fmt.Sprintf("(%s, %s)", coqStr(id.Name), v.Name))
		}
	}
	return out
}

func genWebDecode(w *strings.Builder) {
	fd := funcs["converter.converterHandler"]
	if fd == nil {
		unsup("converter.converterHandler not found")
		fmt.Fprintf(w, "Definition form_vars : list (str * str) := [].\nDefinition post_rules : list prule := [].\nDefinition get_rules : list urule := [].\nDefinition handover_tab : list (str * str) := [].\nDefinition handover_vis : list (str * str) := [].\nDefinition endpoint_args_tab : list (str * str) := [].\nDefinition endpoint_args_vis : list (str * str) := [].\n")
		return
	}
	var formVars, postRules, getRules []string
	param := func(e ast.Expr) (string, bool) { return evalString(e, "converter") }
	// top-level statements
	for _, st := range fd.Body.List {
		switch s := st.(type) {
		case *ast.AssignStmt:
			if len(s.Lhs) == 1 && len(s.Rhs) == 1 {
				if c, ok := s.Rhs[0].(*ast.CallExpr); ok && src(c.Fun) == "r.FormValue" && len(c.Args) == 1 {
					if p, ok := param(c.Args[0]); ok {
						formVars = append(formVars, fmt.Sprintf("(%s, %s)", coqStr(src(s.Lhs[0])), coqStr(p)))
					} else {
						unsup("converterHandler: form parameter %s", src(c.Args[0]))
					}
				}
			}
		case *ast.IfStmt:
			cond := strings.Join(strings.Fields(src(s.Cond)), " ")
			if be, ok := s.Cond.(*ast.BinaryExpr); ok && be.Op == token.EQL && src(be.Y) == "shared.CHECKBOX_ON" && s.Else != nil {
				if eb, ok := s.Else.(*ast.BlockStmt); ok {
					postRules = append(postRules, fmt.Sprintf("PRule %s %s %s", coqStr(src(be.X)), coqList(boolAssigns(s.Body.List)), coqList(boolAssigns(eb.List))))
				}
				continue
			}
			if strings.HasPrefix(cond, "r.Method != http.MethodPost") && s.Else == nil && len(s.Body.List) > 6 {
				getRules = append(getRules, getBlock(s.Body.List, param, "")...)
			}
		}
	}
	// hand-over calls
	hand := func(name string) []string {
		var out []string
		callee := funcs["converter."+name]
		ast.Inspect(fd.Body, func(n ast.Node) bool {
			c, ok := n.(*ast.CallExpr)
			if !ok || src(c.Fun) != name || callee == nil {
				return true
			}
			i := 0
			for _, f := range callee.Type.Params.List {
				for _, nm := range f.Names {
					if i < len(c.Args) {
						out = append(out, fmt.Sprintf("(%s, %s)", coqStr(nm.Name), coqStr(strings.Join(strings.Fields(src(c.Args[i])), ""))))
					}
					i++
				}
			}
			return true
		})
		return out
	}
	endpointArgs := func(handler, endpoint string) []string {
		var out []string
		h := funcs["converter."+handler]
		callee := funcs["endpoints."+endpoint]
		if h == nil || callee == nil {
			unsup("%s / %s not found", handler, endpoint)
			return out
		}
		ast.Inspect(h.Body, func(n ast.Node) bool {
			c, ok := n.(*ast.CallExpr)
			if !ok || src(c.Fun) != "endpoints."+endpoint {
				return true
			}
			i := 0
			for _, f := range callee.Type.Params.List {
				for _, nm := range f.Names {
					if i < len(c.Args) {
						out = append(out, fmt.Sprintf("(%s, %s)", coqStr(nm.Name), coqStr(strings.Join(strings.Fields(src(c.Args[i])), ""))))
					}
					i++
				}
			}
			return true
		})
		return out
	}
	fmt.Fprintf(w, "Definition form_vars : list (str * str) := %s.\n", coqList(formVars))
	fmt.Fprintf(w, "Definition post_rules : list prule := %s.\n", coqList(postRules))
	fmt.Fprintf(w, "Definition get_rules : list urule := %s.\n", coqList(getRules))
	fmt.Fprintf(w, "Definition handover_tab : list (str * str) := %s.\n", coqList(hand("handleTabularOutput")))
	fmt.Fprintf(w, "Definition handover_vis : list (str * str) := %s.\n", coqList(hand("handleVisualOutput")))
	fmt.Fprintf(w, "Definition endpoint_args_tab : list (str * str) := %s.\n", coqList(endpointArgs("handleTabularOutput", "ConvertIGScriptToTabularOutput")))
	fmt.Fprintf(w, "Definition endpoint_args_vis : list (str * str) := %s.\n\n", coqList(endpointArgs("handleVisualOutput", "ConvertIGScriptToVisualTree")))
}

// getBlock walks the statements of the GET branch: extractUrlParameters / evaluateBooleanUrlParameters / default / if check.
func getBlock(list []ast.Stmt, param func(ast.Expr) (string, bool), guard string) []string {
	var out []string
	cur, dflt, haveCheck := "", "None", false
	for _, st := range list {
		switch s := st.(type) {
		case *ast.AssignStmt:
			if len(s.Rhs) == 1 {
				if c, ok := s.Rhs[0].(*ast.CallExpr); ok {
					switch src(c.Fun) {
					case "extractUrlParameters":
						if len(c.Args) == 2 {
							if p, ok := param(c.Args[1]); ok {
								cur, dflt, haveCheck = p, "None", false
							}
						}
					case "evaluateBooleanUrlParameters":
						if len(c.Args) == 3 {
							if p, ok := param(c.Args[0]); ok && p == cur && src(c.Args[1]) == "val" && src(c.Args[2]) == "suc" {
								haveCheck = true
							} else {
								unsup("converterHandler: evaluateBooleanUrlParameters(%s) after extractUrlParameters(%s)", src(c.Args[0]), cur)
							}
						}
					}
				}
			}
		case *ast.IfStmt:
			cond := strings.Join(strings.Fields(src(s.Cond)), "")
			switch {
			case cond == "!suc" && haveCheck && len(s.Body.List) == 1:
				if as, ok := s.Body.List[0].(*ast.AssignStmt); ok && src(as.Lhs[0]) == "check" {
					dflt = "(Some " + src(as.Rhs[0]) + ")"
				}
			case cond == "check" && haveCheck && s.Else != nil:
				if eb, ok := s.Else.(*ast.BlockStmt); ok {
					out = append(out, fmt.Sprintf("URule %s %s %s %s %s", coqStr(cur), dflt, coqList(boolAssigns(s.Body.List)), coqList(boolAssigns(eb.List)), coqStr(guard)))
				}
				haveCheck = false
			case strings.HasPrefix(cond, "formValue") && s.Else == nil:
				// a guarded block (the header switch): same parameter context continues inside
				inner := getBlockFrom(s.Body.List, param, cond, cur, dflt, haveCheck)
				out = append(out, inner...)
				haveCheck = false
			}
		}
	}
	return out
}

func getBlockFrom(list []ast.Stmt, param func(ast.Expr) (string, bool), guard, cur, dflt string, haveCheck bool) []string {
	var out []string
	for _, st := range list {
		s, ok := st.(*ast.IfStmt)
		if !ok {
			continue
		}
		cond := strings.Join(strings.Fields(src(s.Cond)), "")
		switch {
		case cond == "!suc" && haveCheck && len(s.Body.List) == 1:
			if as, ok := s.Body.List[0].(*ast.AssignStmt); ok && src(as.Lhs[0]) == "check" {
				dflt = "(Some " + src(as.Rhs[0]) + ")"
			}
		case cond == "check" && haveCheck && s.Else != nil:
			if eb, ok := s.Else.(*ast.BlockStmt); ok {
				out = append(out, fmt.Sprintf("URule %s %s %s %s %s", coqStr(cur), dflt, coqList(boolAssigns(s.Body.List)), coqList(boolAssigns(eb.List)), coqStr(guard)))
			}
		}
	}
	return out
}
