package main

import (
	"go/ast"
	"go/parser"
	"go/token"
	"os"
	"strconv"
	"strings"
)

// constant and variable initialiser expressions per package: "pkg.Name" -> expr
var constExpr = map[string]ast.Expr{}
var constPkg = map[string]string{}

// package-level variables (as opposed to constants): "pkg.Name"
var varNames = map[string]bool{}

func collectConsts(dir string) {
	pkgs, err := parser.ParseDir(fset, dir, func(fi os.FileInfo) bool { return !strings.HasSuffix(fi.Name(), "_test.go") }, 0)
	if err != nil {
		panic(err)
	}
	for _, p := range pkgs {
		for _, f := range p.Files {
			for _, d := range f.Decls {
				gd, ok := d.(*ast.GenDecl)
				if !ok || (gd.Tok != token.CONST && gd.Tok != token.VAR) {
					continue
				}
				for _, sp := range gd.Specs {
					vs := sp.(*ast.ValueSpec)
					if gd.Tok == token.VAR {
						for _, n := range vs.Names {
							varNames[p.Name+"."+n.Name] = true
						}
					}
					for i, n := range vs.Names {
						if i < len(vs.Values) {
							constExpr[p.Name+"."+n.Name] = vs.Values[i]
							constPkg[p.Name+"."+n.Name] = p.Name
						}
					}
				}
			}
		}
	}
}

// evalString evaluates a constant string expression in the context of package pkg.
func evalString(e ast.Expr, pkg string) (string, bool) {
	switch x := e.(type) {
	case *ast.BasicLit:
		if x.Kind == token.STRING {
			s, err := strconv.Unquote(x.Value)
			return s, err == nil
		}
	case *ast.Ident:
		if v, ok := constExpr[pkg+"."+x.Name]; ok {
			return evalString(v, pkg)
		}
	case *ast.SelectorExpr:
		if id, ok := x.X.(*ast.Ident); ok {
			if v, ok := constExpr[id.Name+"."+x.Sel.Name]; ok {
				return evalString(v, id.Name)
			}
		}
	case *ast.BinaryExpr:
		if x.Op == token.ADD {
			a, ok1 := evalString(x.X, pkg)
			b, ok2 := evalString(x.Y, pkg)
			return a + b, ok1 && ok2
		}
	case *ast.ParenExpr:
		return evalString(x.X, pkg)
	}
	return "", false
}
