package main

import (
	"fmt"
	"go/ast"
	"strings"
)

// ---------------------------------------------------------------- G3: PrintTree order, property map, flat tables
func genVisual(w *strings.Builder) {
	// PrintTree: sequence of components = append(components, s.X ...), possibly guarded by moveActivationConditionsToFront
	fd := funcs["tree.*Statement.PrintTree"]
	var order []string
	if fd == nil {
		unsup("PrintTree not found")
	} else {
		recv := recvName(fd)
		appendOf := func(st ast.Stmt, guard string) {
			as, ok := st.(*ast.AssignStmt)
			if !ok || len(as.Lhs) != 1 || src(as.Lhs[0]) != "components" {
				return
			}
			c, ok := as.Rhs[0].(*ast.CallExpr)
			if !ok || src(c.Fun) != "append" || len(c.Args) < 1 || src(c.Args[0]) != "components" {
				if _, isLit := as.Rhs[0].(*ast.CompositeLit); isLit {
					return // initialisation components := []*Node{}
				}
				unsup("PrintTree: components assigned from %s", src(as.Rhs[0]))
				return
			}
			var fs []string
			for _, a := range c.Args[1:] {
				f, ok := fieldOf(a, recv)
				if !ok {
					unsup("PrintTree: appended %s", src(a))
					continue
				}
				fs = append(fs, f)
			}
			order = append(order, fmt.Sprintf("(%s, %s)", guard, coqList(fs)))
		}
		for _, st := range fd.Body.List {
			switch x := st.(type) {
			case *ast.AssignStmt:
				appendOf(x, "GAlways")
			case *ast.IfStmt:
				cond := strings.Join(strings.Fields(src(x.Cond)), "")
				if cond == "moveActivationConditionsToFront" || cond == "!moveActivationConditionsToFront" {
					g := "GIfFront"
					if cond[0] == '!' {
						g = "GIfNotFront"
					}
					if x.Else != nil {
						unsup("PrintTree: else branch on %s", cond)
					}
					for _, s2 := range x.Body.List {
						if _, ok := s2.(*ast.AssignStmt); ok {
							appendOf(s2, g)
						} else {
							unsup("PrintTree: statement under %s: %s", cond, firstLine(src(s2)))
						}
					}
				} else {
					// any other if must not touch components
					ast.Inspect(x, func(m ast.Node) bool {
						if as, ok := m.(*ast.AssignStmt); ok && len(as.Lhs) == 1 && src(as.Lhs[0]) == "components" {
							unsup("PrintTree: components modified under %s", cond)
						}
						return true
					})
				}
			}
		}
	}
	// GetPropertyComponent: switch over component name
	var props []string
	fd = funcs["tree.*Statement.GetPropertyComponent"]
	if fd == nil {
		unsup("GetPropertyComponent not found")
	} else {
		recv := recvName(fd)
		ast.Inspect(fd.Body, func(m ast.Node) bool {
			sw, ok := m.(*ast.SwitchStmt)
			if !ok {
				return true
			}
			if strings.Join(strings.Fields(src(sw.Tag)), "") != "n.GetComponentName()" {
				unsup("GetPropertyComponent: switch on %s", src(sw.Tag))
			}
			for _, cc := range sw.Body.List {
				cl := cc.(*ast.CaseClause)
				if len(cl.List) != 1 {
					unsup("GetPropertyComponent: case list %v", len(cl.List))
					continue
				}
				name, ok := evalString(cl.List[0], "tree")
				if !ok {
					unsup("GetPropertyComponent: case %s", src(cl.List[0]))
					continue
				}
				// body: if s.X != nil { out = append(out, s.X) } ; if complex && s.Y != nil { out = append(out, s.Y) }
				var simple, complexF string
				for _, st := range cl.Body {
					is, ok := st.(*ast.IfStmt)
					if !ok || len(is.Body.List) != 1 {
						unsup("GetPropertyComponent: case %s body", name)
						continue
					}
					as, ok := is.Body.List[0].(*ast.AssignStmt)
					if !ok {
						unsup("GetPropertyComponent: case %s body", name)
						continue
					}
					c, ok := as.Rhs[0].(*ast.CallExpr)
					if !ok || src(c.Fun) != "append" || len(c.Args) != 2 || src(c.Args[0]) != "out" {
						unsup("GetPropertyComponent: case %s appends %s", name, src(as.Rhs[0]))
						continue
					}
					f, ok := fieldOf(c.Args[1], recv)
					if !ok {
						unsup("GetPropertyComponent: case %s appends %s", name, src(c.Args[1]))
						continue
					}
					cond := strings.Join(strings.Fields(src(is.Cond)), "")
					want := recv + "." + src(c.Args[1])[len(recv)+1:] + "!=nil"
					if cond == want {
						if simple != "" || complexF != "" {
							unsup("GetPropertyComponent: case %s order", name)
						}
						simple = f
					} else if cond == "complex&&"+want {
						complexF = f
					} else {
						unsup("GetPropertyComponent: case %s condition %s", name, cond)
					}
				}
				if simple == "" || complexF == "" {
					unsup("GetPropertyComponent: case %s incomplete", name)
					continue
				}
				props = append(props, fmt.Sprintf("(%s, %s, %s)", coqStr(name), simple, complexF))
			}
			return false
		})
	}
	flat := func(key string) []string {
		var out []string
		fd := funcs[key]
		if fd == nil {
			unsup("%s not found", key)
			return out
		}
		recv := recvName(fd)
		for _, st := range fd.Body.List {
			as, ok := st.(*ast.AssignStmt)
			if !ok {
				continue
			}
			c, ok := as.Rhs[0].(*ast.CallExpr)
			if !ok || !strings.HasSuffix(src(c.Fun), ".printComponent") {
				continue
			}
			// out = s.printComponent(out, 0, s.X, SYMBOL, complex, true, includeComponentSymbol)
			if len(c.Args) != 7 || src(as.Lhs[0]) != "out" || src(c.Args[0]) != "out" || src(c.Args[5]) != "true" || src(c.Args[6]) != "includeComponentSymbol" {
				unsup("%s: call %s", key, firstLine(src(c)))
				continue
			}
			f, ok := fieldOf(c.Args[2], recv)
			sym, ok2 := evalString(c.Args[3], "tree")
			if !ok || !ok2 {
				unsup("%s: call %s", key, firstLine(src(c)))
				continue
			}
			out = append(out, fmt.Sprintf("(%s, %s, %s)", f, coqStr(sym), src(c.Args[4])))
		}
		return out
	}
	fmt.Fprintf(w, "Definition vis_T : vis_tables := mkVisT\n  %s\n  %s\n  %s\n  %s\n  dov_W.\n\n",
		coqList(order), coqList(props), coqList(flat("tree.*Statement.StringFlat")), coqList(flat("tree.Statement.StringFlatStatement")))
	// flag hand-over at every recursive call inside the printer
	var sites []string
	for _, key := range []string{"tree.*Statement.PrintTree", "tree.*Node.PrintNodeTree", "tree.*Node.appendPropertyNodes"} {
		fd := funcs[key]
		if fd == nil {
			continue
		}
		ast.Inspect(fd.Body, func(m ast.Node) bool {
			c, ok := m.(*ast.CallExpr)
			if !ok {
				return true
			}
			sel, ok := c.Fun.(*ast.SelectorExpr)
			if !ok {
				return true
			}
			name := sel.Sel.Name
			if name != "PrintNodeTree" && name != "PrintTree" && name != "appendPropertyNodes" {
				return true
			}
			var args []string
			for _, a := range c.Args {
				args = append(args, strings.Join(strings.Fields(src(a)), ""))
			}
			// keep only the flag part and the level expression
			n := len(args)
			if n < 6 {
				unsup("printer call %s with %d arguments", name, n)
				return true
			}
			sites = append(sites, fmt.Sprintf("(%s, %s)", coqStr(name), coqStr(strings.Join(args[n-6:], ","))))
			return true
		})
	}
	fmt.Fprintf(w, "Definition vis_flag_sites : list (str * str) := %s.\n\n", coqList(sites))
}

func firstLine(s string) string {
	if i := strings.IndexByte(s, '\n'); i >= 0 {
		return s[:i]
	}
	return s
}
