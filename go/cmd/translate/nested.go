package main

import (
	"fmt"
	"go/ast"
	"strings"
)

// ---------------------------------------------------------------- G3: where nested statements are attached
// parseNestedStatements (switch on the component) and parseNestedStatementCombination (chain of prefix tests):
// every   stmtToAttachTo.X, _ = attachComplexComponent(stmtToAttachTo.Y, ...)   with the symbol that guards it.
func nestedWiring(key string) []string {
	fd := funcs[key]
	var out []string
	if fd == nil {
		unsup("%s not found", key)
		return out
	}
	var visit func(n ast.Node, guard string)
	record := func(st ast.Stmt, guard string) {
		as, ok := st.(*ast.AssignStmt)
		if !ok || len(as.Rhs) != 1 || len(as.Lhs) < 1 {
			return
		}
		c, ok := as.Rhs[0].(*ast.CallExpr)
		if !ok || src(c.Fun) != "attachComplexComponent" || len(c.Args) < 1 {
			return
		}
		tgt, ok1 := fieldOf(as.Lhs[0], "stmtToAttachTo")
		srcF, ok2 := fieldOf(c.Args[0], "stmtToAttachTo")
		if !ok1 || !ok2 || guard == "" {
			unsup("%s: %s", key, firstLine(src(st)))
			return
		}
		out = append(out, fmt.Sprintf("(%s, %s, %s)", coqStr(guard), tgt, srcF))
	}
	visit = func(n ast.Node, guard string) {
		switch x := n.(type) {
		case *ast.BlockStmt:
			for _, st := range x.List {
				visit(st, guard)
			}
		case *ast.SwitchStmt:
			for _, cc := range x.Body.List {
				cl := cc.(*ast.CaseClause)
				g := guard
				if len(cl.List) == 1 {
					if s, ok := evalString(cl.List[0], "parser"); ok {
						g = s
					}
				}
				for _, st := range cl.Body {
					visit(st, g)
				}
			}
		case *ast.IfStmt:
			g := guard
			if c, ok := x.Cond.(*ast.CallExpr); ok && src(c.Fun) == "strings.HasPrefix" && len(c.Args) == 2 {
				if s, ok := evalString(c.Args[1], "parser"); ok {
					g = s
				}
			}
			visit(x.Body, g)
			if x.Else != nil {
				visit(x.Else, guard)
			}
		case *ast.ForStmt:
			visit(x.Body, guard)
		case *ast.RangeStmt:
			visit(x.Body, guard)
		case *ast.AssignStmt:
			record(x, guard)
		}
	}
	visit(fd.Body, "")
	return out
}

func genNested(w *strings.Builder) {
	fmt.Fprintf(w, "Definition nested_wiring : list (str * field * field) := %s.\n", coqList(nestedWiring("parser.parseNestedStatements")))
	fmt.Fprintf(w, "Definition nested_combo_wiring : list (str * field * field) := %s.\n\n", coqList(nestedWiring("parser.parseNestedStatementCombination")))
}

// CopyComponentsFromStatement: stmtToCopyTo.X = copyComponentValue(stmtToCopyTo.Y, stmtToCopyFrom.Z)  ->  (X, Y, Z)
func genCopy(w *strings.Builder) {
	fd := funcs["tree.CopyComponentsFromStatement"]
	var out []string
	if fd == nil {
		unsup("tree.CopyComponentsFromStatement not found")
	} else {
		for _, st := range fd.Body.List {
			as, ok := st.(*ast.AssignStmt)
			if !ok {
				if _, isRet := st.(*ast.ReturnStmt); !isRet {
					unsup("CopyComponentsFromStatement: statement %s", firstLine(src(st)))
				}
				continue
			}
			if len(as.Lhs) != 1 || len(as.Rhs) != 1 {
				unsup("CopyComponentsFromStatement: statement %s", firstLine(src(st)))
				continue
			}
			c, ok := as.Rhs[0].(*ast.CallExpr)
			if !ok || src(c.Fun) != "copyComponentValue" || len(c.Args) != 2 {
				unsup("CopyComponentsFromStatement: statement %s", firstLine(src(st)))
				continue
			}
			x, ok1 := fieldOf(as.Lhs[0], "stmtToCopyTo")
			y, ok2 := fieldOf(c.Args[0], "stmtToCopyTo")
			z, ok3 := fieldOf(c.Args[1], "stmtToCopyFrom")
			if !ok1 || !ok2 || !ok3 {
				unsup("CopyComponentsFromStatement: statement %s", firstLine(src(st)))
				continue
			}
			out = append(out, fmt.Sprintf("(%s, %s, %s)", x, y, z))
		}
	}
	fmt.Fprintf(w, "Definition copy_table : list (field * field * field) := %s.\n\n", coqList(out))
}
