package main

import (
	"fmt"
	"go/ast"
	"strings"
)

// ---------------------------------------------------------------- G2/G3: tables of the tabular exporter
// tt_leaf:   the getComponentLeafArray calls of Statement.generateLeafArrays, in order
// tt_schema: IGComponentSymbols filtered by GetStaticTabularOutputSchema (unconditional keys / all keys), with
//
//	the names of IGComponentSymbolNameMap
func genTabular(w *strings.Builder) {
	var leaf []string
	if fd := funcs["tree.*Statement.generateLeafArrays"]; fd != nil {
		recv := recvName(fd)
		for _, st := range fd.Body.List {
			as, ok := st.(*ast.AssignStmt)
			if !ok || len(as.Rhs) != 1 {
				continue
			}
			c, ok := as.Rhs[0].(*ast.CallExpr)
			if !ok || src(c.Fun) != "getComponentLeafArray" {
				continue
			}
			if len(c.Args) != 7 || src(c.Args[0]) != "nodesMap" || src(c.Args[1]) != "referenceMap" || src(c.Args[5]) != "aggregateImplicitLinkages" || src(c.Args[6]) != "level" {
				unsup("generateLeafArrays: call %s", firstLine(src(c)))
				continue
			}
			f, ok1 := fieldOf(c.Args[2], recv)
			sym, ok2 := evalString(c.Args[3], "tree")
			cx := src(c.Args[4])
			if !ok1 || !ok2 || (cx != "true" && cx != "false") {
				unsup("generateLeafArrays: call %s", firstLine(src(c)))
				continue
			}
			leaf = append(leaf, fmt.Sprintf("(%s, %s, %s)", f, coqStr(sym), cx))
		}
	} else {
		unsup("tree.*Statement.generateLeafArrays not found")
	}
	// symbol order
	var symbols []string
	if e, ok := constExpr["tree.IGComponentSymbols"]; ok {
		if cl, ok := e.(*ast.CompositeLit); ok {
			for _, el := range cl.Elts {
				s, ok := evalString(el, "tree")
				if !ok {
					unsup("IGComponentSymbols: element %s", src(el))
					continue
				}
				symbols = append(symbols, s)
			}
		}
	} else {
		unsup("tree.IGComponentSymbols not found")
	}
	names := map[string]string{}
	if e, ok := constExpr["tree.IGComponentSymbolNameMap"]; ok {
		if cl, ok := e.(*ast.CompositeLit); ok {
			for _, el := range cl.Elts {
				kv, ok := el.(*ast.KeyValueExpr)
				if !ok {
					continue
				}
				k, ok1 := evalString(kv.Key, "tree")
				v, ok2 := evalString(kv.Value, "tree")
				if !ok1 || !ok2 {
					unsup("IGComponentSymbolNameMap: entry %s", firstLine(src(el)))
					continue
				}
				names[k] = v
			}
		}
	} else {
		unsup("tree.IGComponentSymbolNameMap not found")
	}
	// schema: staticComponentFrequency[KEY] = 1, unconditional or under "if include_ANNOTATIONS"
	plain := map[string]bool{}
	anno := map[string]bool{}
	if fd := funcs["tabular.GetStaticTabularOutputSchema"]; fd != nil {
		var assign func(st ast.Stmt, guarded bool)
		assign = func(st ast.Stmt, guarded bool) {
			switch x := st.(type) {
			case *ast.AssignStmt:
				if len(x.Lhs) != 1 || len(x.Rhs) != 1 {
					return
				}
				ix, ok := x.Lhs[0].(*ast.IndexExpr)
				if !ok {
					return // the make(...) statement
				}
				if src(ix.X) != "staticComponentFrequency" || src(x.Rhs[0]) != "1" {
					unsup("GetStaticTabularOutputSchema: statement %s", firstLine(src(st)))
					return
				}
				k, ok := evalString(ix.Index, "tabular")
				if !ok {
					unsup("GetStaticTabularOutputSchema: key %s", src(ix.Index))
					return
				}
				anno[k] = true
				if !guarded {
					plain[k] = true
				}
			case *ast.IfStmt:
				if src(x.Cond) != "include_ANNOTATIONS" || x.Else != nil || guarded {
					unsup("GetStaticTabularOutputSchema: condition %s", src(x.Cond))
					return
				}
				for _, s := range x.Body.List {
					assign(s, true)
				}
			case *ast.ReturnStmt:
			default:
				unsup("GetStaticTabularOutputSchema: statement %s", firstLine(src(st)))
			}
		}
		for _, st := range fd.Body.List {
			assign(st, false)
		}
	} else {
		unsup("tabular.GetStaticTabularOutputSchema not found")
	}
	sch := func(m map[string]bool) []string {
		var out []string
		for _, s := range symbols {
			if m[s] {
				out = append(out, fmt.Sprintf("(%s, %s)", coqStr(s), coqStr(names[s])))
			}
		}
		return out
	}
	// every schema key must be a known symbol, otherwise its column silently disappears
	for k := range anno {
		found := false
		for _, s := range symbols {
			if s == k {
				found = true
			}
		}
		if !found {
			unsup("GetStaticTabularOutputSchema: key %q is not in IGComponentSymbols", k)
		}
	}
	fmt.Fprintf(w, "Definition tab_T : tab_tables := mkTabT\n  %s\n  (vt_flat vis_T)\n  %s\n  %s.\n\n", coqList(leaf), coqList(sch(plain)), coqList(sch(anno)))
}
