// translate: regenerates the table-like parts of the Coq model (coq/Gen/*.v) from the current
// source of the repository.  Usage: translate <repo> <outdir>
package main

import (
	"encoding/json"
	"fmt"
	"go/ast"
	"go/parser"
	"go/printer"
	"go/token"
	"os"
	"path/filepath"
	"sort"
	"strings"
)

var fset = token.NewFileSet()

func src(n ast.Node) string {
	var b strings.Builder
	printer.Fprint(&b, fset, n)
	return b.String()
}

var funcs = map[string]*ast.FuncDecl{}

func parseDir(dir string) {
	pkgs, err := parser.ParseDir(fset, dir, func(fi os.FileInfo) bool { return !strings.HasSuffix(fi.Name(), "_test.go") }, parser.ParseComments)
	if err != nil {
		panic(err)
	}
	for _, p := range pkgs {
		for fname, f := range p.Files {
			// skip files guarded by a build tag other than the default build (verif-only files are add-only hooks)
			_ = fname
			for _, d := range f.Decls {
				if fd, ok := d.(*ast.FuncDecl); ok {
					name := fd.Name.Name
					if fd.Recv != nil {
						name = src(fd.Recv.List[0].Type) + "." + name
					}
					funcs[p.Name+"."+name] = fd
				}
			}
		}
	}
}

var goField = map[string]string{
	"Attributes": "FA", "AttributesPropertySimple": "FAp", "AttributesPropertyComplex": "FApC", "Deontic": "FD", "Aim": "FI",
	"DirectObject": "FBdir", "DirectObjectComplex": "FBdirC", "DirectObjectPropertySimple": "FBdirp", "DirectObjectPropertyComplex": "FBdirpC",
	"IndirectObject": "FBind", "IndirectObjectComplex": "FBindC", "IndirectObjectPropertySimple": "FBindp", "IndirectObjectPropertyComplex": "FBindpC",
	"ConstitutedEntity": "FE", "ConstitutedEntityPropertySimple": "FEp", "ConstitutedEntityPropertyComplex": "FEpC", "Modal": "FM", "ConstitutiveFunction": "FF",
	"ConstitutingProperties": "FP", "ConstitutingPropertiesComplex": "FPC", "ConstitutingPropertiesPropertySimple": "FPp", "ConstitutingPropertiesPropertyComplex": "FPpC",
	"ActivationConditionSimple": "FCac", "ActivationConditionComplex": "FCacC", "ExecutionConstraintSimple": "FCex", "ExecutionConstraintComplex": "FCexC", "OrElse": "FO"}

var unsupported []string

func unsup(format string, a ...interface{}) {
	unsupported = append(unsupported, fmt.Sprintf(format, a...))
}

// field of an expression "s.<Field>"
func fieldOf(e ast.Expr, recv string) (string, bool) {
	sel, ok := e.(*ast.SelectorExpr)
	if !ok {
		return "", false
	}
	if id, ok := sel.X.(*ast.Ident); !ok || id.Name != recv {
		return "", false
	}
	f, ok := goField[sel.Sel.Name]
	return f, ok
}

func coqList(items []string) string { return "[" + strings.Join(items, "; ") + "]" }

func coqStr(s string) string {
	// Coq string literal: double the quotes; only printable ASCII is expected here
	return "$\"" + strings.ReplaceAll(s, "\"", "\"\"") + "\""
}

func recvName(fd *ast.FuncDecl) string {
	if fd.Recv != nil && len(fd.Recv.List) > 0 && len(fd.Recv.List[0].Names) > 0 {
		return fd.Recv.List[0].Names[0].Name
	}
	return ""
}

// ---------------------------------------------------------------- G3: CalculateComplexity
func genComplexity(w *strings.Builder) {
	fd := funcs["tree.*Statement.CalculateComplexity"]
	if fd == nil {
		unsup("CalculateComplexity not found")
		return
	}
	recv := recvName(fd)
	vars := map[string]string{}
	var calls, leading, cond []string
	thr, dflt, cdflt := "", "", ""
	resolve := func(e ast.Expr, what string) []string {
		var out []string
		ast.Inspect(e, func(m ast.Node) bool {
			if id, ok := m.(*ast.Ident); ok {
				if f, ok := vars[id.Name]; ok {
					out = append(out, f)
				} else if id.Obj != nil && id.Obj.Kind == ast.Var {
					unsup("CalculateComplexity: %s uses %s which is not a component complexity", what, id.Name)
				}
			}
			return true
		})
		return out
	}
	totalSeen := false
	for _, st := range fd.Body.List {
		as, ok := st.(*ast.AssignStmt)
		if !ok {
			continue
		}
		if len(as.Rhs) == 1 {
			if c, ok := as.Rhs[0].(*ast.CallExpr); ok {
				fn := src(c.Fun)
				if strings.HasSuffix(fn, ".CalculateStateComplexity") && len(as.Lhs) == 2 {
					sel := c.Fun.(*ast.SelectorExpr)
					if f, ok := fieldOf(sel.X, recv); ok {
						vars[src(as.Lhs[0])] = f
						calls = append(calls, f)
					} else {
						unsup("CalculateComplexity: call on %s", src(sel.X))
					}
					continue
				}
				if fn == "shared.AggregateIfGreaterThan" && len(c.Args) == 3 {
					if src(c.Args[0]) != "leadingStmtStates" {
						unsup("CalculateComplexity: AggregateIfGreaterThan over %s", src(c.Args[0]))
					}
					thr, dflt = src(c.Args[1]), src(c.Args[2])
					if src(as.Lhs[0]) != "statesOnGivenLevel" {
						unsup("CalculateComplexity: aggregate assigned to %s", src(as.Lhs[0]))
					}
					continue
				}
				if fn == "shared.FindMaxValue" && len(c.Args) == 2 {
					cl, ok := c.Args[0].(*ast.CompositeLit)
					if !ok || len(cl.Elts) != 1 {
						unsup("CalculateComplexity: FindMaxValue argument %s", src(c.Args[0]))
					} else {
						// the single element must be a sum of component complexities
						var chk func(e ast.Expr)
						chk = func(e ast.Expr) {
							switch x := e.(type) {
							case *ast.BinaryExpr:
								if x.Op != token.ADD {
									unsup("CalculateComplexity: condition term operator %s", x.Op)
								}
								chk(x.X)
								chk(x.Y)
							case *ast.Ident:
							case *ast.ParenExpr:
								chk(x.X)
							default:
								unsup("CalculateComplexity: condition term %s", src(e))
							}
						}
						chk(cl.Elts[0])
						cond = resolve(cl.Elts[0], "condition term")
					}
					cdflt = src(c.Args[1])
					if src(as.Lhs[0]) != "conditionsComplexity" {
						unsup("CalculateComplexity: max assigned to %s", src(as.Lhs[0]))
					}
					continue
				}
			}
			if len(as.Lhs) == 1 && src(as.Lhs[0]) == "leadingStmtStates" {
				cl, ok := as.Rhs[0].(*ast.CompositeLit)
				if !ok {
					unsup("CalculateComplexity: leadingStmtStates is not a literal")
					continue
				}
				for _, e := range cl.Elts {
					if id, ok := e.(*ast.Ident); ok {
						if f, ok := vars[id.Name]; ok {
							leading = append(leading, f)
							continue
						}
					}
					unsup("CalculateComplexity: leadingStmtStates element %s", src(e))
				}
				continue
			}
			if len(as.Lhs) == 1 && src(as.Lhs[0]) == "results.TotalStateComplexity" {
				t := strings.Join(strings.Fields(src(as.Rhs[0])), " ")
				if t != "statesOnGivenLevel * conditionsComplexity" && t != "conditionsComplexity * statesOnGivenLevel" {
					unsup("CalculateComplexity: total = %s", t)
				}
				totalSeen = true
			}
		}
	}
	if !totalSeen {
		unsup("CalculateComplexity: assignment of TotalStateComplexity not found")
	}
	// a complexity variable (or one of the three derived values) must be assigned exactly once
	assigned := map[string]int{}
	ast.Inspect(fd.Body, func(m ast.Node) bool {
		switch x := m.(type) {
		case *ast.AssignStmt:
			for _, l := range x.Lhs {
				assigned[src(l)]++
			}
		case *ast.IncDecStmt:
			assigned[src(x.X)] += 2
		case *ast.UnaryExpr:
			if x.Op == token.AND {
				assigned[src(x.X)] += 2
			}
		}
		return true
	})
	for v := range vars {
		if assigned[v] != 1 {
			unsup("CalculateComplexity: %s assigned %d times", v, assigned[v])
		}
	}
	for _, v := range []string{"leadingStmtStates", "statesOnGivenLevel", "conditionsComplexity", "results.TotalStateComplexity"} {
		if assigned[v] != 1 {
			unsup("CalculateComplexity: %s assigned %d times", v, assigned[v])
		}
	}
	num := func(s string) string {
		for _, c := range s {
			if c < '0' || c > '9' {
				unsup("CalculateComplexity: non-literal constant %s", s)
				return "0"
			}
		}
		if s == "" {
			unsup("CalculateComplexity: missing constant")
			return "0"
		}
		return s
	}
	fmt.Fprintf(w, "Definition dov_W : dov_wiring := mkDovW\n  %s\n  %s\n  %s\n  %s %s %s.\n\n", coqList(calls), coqList(leading), coqList(cond), num(thr), num(dflt), num(cdflt))
}

func main() {
	if len(os.Args) < 3 {
		fmt.Fprintln(os.Stderr, "usage: translate <repo> <outdir>")
		os.Exit(2)
	}
	repo, out := os.Args[1], os.Args[2]
	for _, d := range []string{"core/exporter/tabular", "core/tree", "core/shared", "core/parser", "core/endpoints", "web/converter/shared", "web/converter"} {
		parseDir(filepath.Join(repo, d))
		collectConsts(filepath.Join(repo, d))
	}
	var w strings.Builder
	w.WriteString("(* GENERATED by go/cmd/translate from the repository source - do not edit. *)\n")
	w.WriteString("From Coq Require Import List ZArith Strings.Byte.\nFrom IGP Require Import Base.Str Model.Tree Model.DoV Model.Leaves Model.Flat Model.Visual Model.Link Model.Tabular Model.Nested Model.Pairs.\nImport ListNotations.\nLocal Open Scope Z_scope.\n\n")
	genComplexity(&w)
	genVisual(&w)
	genTabular(&w)
	genNested(&w)
	genCopy(&w)
	genPriv(&w)
	sort.Strings(unsupported)
	var us []string
	for _, u := range unsupported {
		us = append(us, coqStr(u))
	}
	fmt.Fprintf(&w, "Definition wiring_unsupported : list str := %s.\n", coqList(us))
	writeIfChanged(filepath.Join(out, "Wiring.v"), w.String())

	// G4 / G5: handler programs (AST) and read/write sets (SSA, computed by gossa and handed over as JSON)
	ssaSetsByRoot := map[string]ssaSets{}
	ssaNote := "no SSA read/write sets were supplied"
	if len(os.Args) > 3 {
		if data, err := os.ReadFile(os.Args[3]); err == nil {
			if err := json.Unmarshal(data, &ssaSetsByRoot); err == nil {
				ssaNote = ""
			} else {
				ssaNote = "SSA read/write sets unreadable: " + err.Error()
			}
		}
	}
	unsupported = nil
	var h strings.Builder
	h.WriteString("(* GENERATED by go/cmd/translate (handler programs, from the syntax tree) and gossa (read/write sets, from the SSA form) - do not edit. *)\n")
	h.WriteString("From Coq Require Import List Strings.Byte.\nFrom IGP Require Import Base.Str Model.Handlers Model.WebDecode.\nImport ListNotations.\n\n")
	genHandlers(&h, ssaSetsByRoot)
	genWebDecode(&h)
	if ssaNote != "" {
		unsup("%s", ssaNote)
	}
	for k, v := range ssaSetsByRoot {
		if v.Error != "" {
			unsup("gossa %s: %s", k, v.Error)
		}
	}
	sort.Strings(unsupported)
	us = nil
	for _, u := range unsupported {
		us = append(us, coqStr(u))
	}
	fmt.Fprintf(&h, "Definition handlers_unsupported : list str := %s.\n", coqList(us))
	var dyn []string
	for _, d := range ssaSetsByRoot["handler"].Dynamic {
		dyn = append(dyn, coqStr(d))
	}
	fmt.Fprintf(&h, "Definition dynamic_call_sites : list str := %s.\n", coqList(dyn))
	writeIfChanged(filepath.Join(out, "Handlers.v"), h.String())

	// G7: every range over a map and every other source of run-to-run variation in code reachable from the two
	// conversion endpoints (SSA reachability; hash = enclosing if-conditions + printed statement)
	var g strings.Builder
	g.WriteString("(* GENERATED by gossa (SSA reachability from the conversion endpoints) via go/cmd/translate - do not edit. *)\n")
	g.WriteString("From Coq Require Import List Strings.Byte.\nFrom IGP Require Import Base.Str.\nImport ListNotations.\n\n")
	seenSite := map[string]bool{}
	var sites, nondet []string
	seenN := map[string]bool{}
	siteErr := ""
	for _, root := range []string{"endpoint_tab", "endpoint_vis"} {
		ss, ok := ssaSetsByRoot[root]
		if !ok || ss.Error != "" {
			siteErr = "no SSA inventory for " + root + " " + ss.Error
			continue
		}
		for _, r := range ss.MapRanges {
			k := fmt.Sprintf("(%s, %d, %s)", coqStr(r.Func), r.Ord, coqStr(r.Hash))
			if !seenSite[k] {
				seenSite[k] = true
				sites = append(sites, k+" (* "+strings.ReplaceAll(r.Head, "*)", "* )")+" *)")
			}
		}
		for _, n := range ss.Nondet {
			if !seenN[n] {
				seenN[n] = true
				nondet = append(nondet, coqStr(n))
			}
		}
	}
	sort.Strings(sites)
	sort.Strings(nondet)
	g.WriteString("Definition map_range_sites : list (str * nat * str) := [\n  " + strings.Join(sites, ";\n  ") + "].\n")
	fmt.Fprintf(&g, "Definition nondet_sources : list str := %s.\n", coqList(nondet))
	var se []string
	if siteErr != "" {
		se = append(se, coqStr(siteErr))
	}
	fmt.Fprintf(&g, "Definition sites_unsupported : list str := %s.\n", coqList(se))
	writeIfChanged(filepath.Join(out, "Sites.v"), g.String())
}

func writeIfChanged(path, content string) {
	old, err := os.ReadFile(path)
	if err == nil && string(old) == content {
		return
	}
	if err := os.WriteFile(path, []byte(content), 0644); err != nil {
		panic(err)
	}
}
