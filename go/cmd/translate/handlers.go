package main

import (
	"fmt"
	"go/ast"
	"go/token"
	"strings"
)

// ---------------------------------------------------------------- G4: the handlers as straight-line programs over the global switches
//
// handleTabularOutput / handleVisualOutput are read as a sequence of assignments to package-level variables (through
// the setters they call, inlined) followed by the conversion; the endpoint's own assignments before it parses are part
// of the sequence. Everything that is not an assignment of a global from a parameter, a constant, another global or a
// conditional of those, a logging call or a yield hook becomes GUnsupported and makes the side condition fail.
//
//	src   ::= SParam name | SConst bool | SGlobal name | SNot src | SIte src src src | SOpaque text
//	instr ::= GSet global src | GConvert | GLock | GUnlock | GUnsupported text

var isVar = map[string]bool{} // "pkg.Name" of package-level variables (filled by collectVars)

func collectVars() {
	for k, e := range constExpr {
		_ = e
		if varNames[k] {
			isVar[k] = true
		}
	}
}

type env struct {
	pkg    string
	params map[string]string // local name -> Coq src term
}

func (e *env) global(x ast.Expr) (string, bool) {
	switch v := x.(type) {
	case *ast.Ident:
		if _, isLocal := e.params[v.Name]; isLocal {
			return "", false
		}
		if varNames[e.pkg+"."+v.Name] {
			return e.pkg + "." + v.Name, true
		}
	case *ast.SelectorExpr:
		if id, ok := v.X.(*ast.Ident); ok && varNames[id.Name+"."+v.Sel.Name] {
			return id.Name + "." + v.Sel.Name, true
		}
	}
	return "", false
}

func (e *env) src(x ast.Expr) string {
	switch v := x.(type) {
	case *ast.Ident:
		if v.Name == "true" || v.Name == "false" {
			return "(SConst " + v.Name + ")"
		}
		if s, ok := e.params[v.Name]; ok {
			return s
		}
	case *ast.UnaryExpr:
		if v.Op == token.NOT {
			return "(SNot " + e.src(v.X) + ")"
		}
	case *ast.ParenExpr:
		return e.src(v.X)
	case *ast.CallExpr:
		// getter: a function whose body is "return <global>"
		if fd := calleeDecl(v, e.pkg); fd != nil && len(v.Args) == 0 && fd.Body != nil && len(fd.Body.List) == 1 {
			if rs, ok := fd.Body.List[0].(*ast.ReturnStmt); ok && len(rs.Results) == 1 {
				ce := &env{pkg: calleePkg(v, e.pkg), params: map[string]string{}}
				if g, ok := ce.global(rs.Results[0]); ok {
					return "(SGlobal " + coqStr(g) + ")"
				}
			}
		}
	}
	if g, ok := e.global(x); ok {
		return "(SGlobal " + coqStr(g) + ")"
	}
	return "(SOpaque " + coqStr(firstLine(src(x))) + ")"
}

func calleePkg(c *ast.CallExpr, cur string) string {
	if sel, ok := c.Fun.(*ast.SelectorExpr); ok {
		if id, ok := sel.X.(*ast.Ident); ok {
			return id.Name
		}
	}
	return cur
}

func calleeDecl(c *ast.CallExpr, cur string) *ast.FuncDecl {
	switch f := c.Fun.(type) {
	case *ast.Ident:
		return funcs[cur+"."+f.Name]
	case *ast.SelectorExpr:
		if id, ok := f.X.(*ast.Ident); ok {
			return funcs[id.Name+"."+f.Sel.Name]
		}
	}
	return nil
}

func isNoise(c *ast.CallExpr) bool {
	s := src(c.Fun)
	return s == "Println" || s == "log.Println" || s == "fmt.Println" || s == "log.Printf" || s == "verifYield"
}

// stmts translates a statement list; stops (returning true) after the conversion call named convName.
func (e *env) stmts(list []ast.Stmt, convName string, out *[]string, depth int) bool {
	for _, st := range list {
		switch s := st.(type) {
		case *ast.ExprStmt:
			c, ok := s.X.(*ast.CallExpr)
			if !ok {
				*out = append(*out, "GUnsupported "+coqStr(firstLine(src(st))))
				continue
			}
			if isNoise(c) {
				continue
			}
			e.call(c, out, depth)
		case *ast.AssignStmt:
			// the conversion call, or an assignment of a global, or a local definition
			if len(s.Rhs) == 1 {
				if c, ok := s.Rhs[0].(*ast.CallExpr); ok && strings.HasSuffix(src(c.Fun), convName) && convName != "" {
					e.conversion(c, out, depth)
					return true
				}
			}
			if len(s.Lhs) == 1 && len(s.Rhs) == 1 {
				if g, ok := e.global(s.Lhs[0]); ok {
					*out = append(*out, fmt.Sprintf("GSet %s %s", coqStr(g), e.src(s.Rhs[0])))
					continue
				}
				if id, ok := s.Lhs[0].(*ast.Ident); ok {
					// local variable: remember what it was computed from
					e.params[id.Name] = e.src(s.Rhs[0])
					continue
				}
			}
			*out = append(*out, "GUnsupported "+coqStr(firstLine(src(st))))
		case *ast.IfStmt:
			if s.Init != nil {
				*out = append(*out, "GUnsupported "+coqStr(firstLine(src(st))))
				continue
			}
			cond := e.src(s.Cond)
			var thenI, elseI []string
			e.stmts(s.Body.List, "", &thenI, depth)
			if s.Else != nil {
				if b, ok := s.Else.(*ast.BlockStmt); ok {
					e.stmts(b.List, "", &elseI, depth)
				} else {
					elseI = append(elseI, "GUnsupported "+coqStr("else-if"))
				}
			}
			// merge: every global assigned in a branch gets a conditional source
			tm, em := setsOf(thenI), setsOf(elseI)
			if tm == nil || em == nil {
				*out = append(*out, "GUnsupported "+coqStr(firstLine(src(st))))
				continue
			}
			seen := map[string]bool{}
			for _, kv := range append(append([][2]string{}, tm...), em...) {
				g := kv[0]
				if seen[g] {
					continue
				}
				seen[g] = true
				a, b := "(SGlobal "+coqStr(g)+")", "(SGlobal "+coqStr(g)+")"
				for _, x := range tm {
					if x[0] == g {
						a = x[1]
					}
				}
				for _, x := range em {
					if x[0] == g {
						b = x[1]
					}
				}
				*out = append(*out, fmt.Sprintf("GSet %s (SIte %s %s %s)", coqStr(g), cond, a, b))
			}
		case *ast.ReturnStmt:
			return false
		default:
			*out = append(*out, "GUnsupported "+coqStr(firstLine(src(st))))
		}
	}
	return false
}

// setsOf: the instructions of a branch as (global, src) pairs; nil if the branch holds anything but plain assignments.
func setsOf(instrs []string) [][2]string {
	out := [][2]string{}
	for _, i := range instrs {
		if !strings.HasPrefix(i, "GSet ") {
			return nil
		}
		rest := i[len("GSet "):]
		// global is the first Coq string literal  $"..."
		end := strings.Index(rest[2:], "\"") + 3
		out = append(out, [2]string{unCoq(rest[:end]), strings.TrimSpace(rest[end:])})
	}
	return out
}

func unCoq(s string) string { return strings.TrimSuffix(strings.TrimPrefix(s, "$\""), "\"") }

// call inlines a setter-like function of the repository.
func (e *env) call(c *ast.CallExpr, out *[]string, depth int) {
	fd := calleeDecl(c, e.pkg)
	name := src(c.Fun)
	if name == "handlerMutex.Lock" || strings.HasSuffix(name, "Mutex.Lock") || strings.HasSuffix(name, "Lock.Lock") {
		*out = append(*out, "GLock")
		return
	}
	if strings.HasSuffix(name, "Mutex.Unlock") || strings.HasSuffix(name, "Lock.Unlock") {
		*out = append(*out, "GUnlock")
		return
	}
	if fd == nil || fd.Body == nil || depth > 4 {
		*out = append(*out, "GUnsupported "+coqStr("call "+firstLine(src(c))))
		return
	}
	ce := &env{pkg: calleePkg(c, e.pkg), params: map[string]string{}}
	i := 0
	for _, f := range fd.Type.Params.List {
		for _, n := range f.Names {
			if i < len(c.Args) {
				ce.params[n.Name] = e.src(c.Args[i])
			}
			i++
		}
	}
	ce.stmts(fd.Body.List, "", out, depth+1)
}

// conversion: the endpoint call. Its own prefix (everything before it calls the parser) is inlined, then GConvert.
func (e *env) conversion(c *ast.CallExpr, out *[]string, depth int) {
	fd := calleeDecl(c, e.pkg)
	if fd == nil || fd.Body == nil {
		*out = append(*out, "GUnsupported "+coqStr("conversion "+firstLine(src(c))))
		return
	}
	ce := &env{pkg: calleePkg(c, e.pkg), params: map[string]string{}}
	i := 0
	for _, f := range fd.Type.Params.List {
		for _, n := range f.Names {
			if i < len(c.Args) {
				ce.params[n.Name] = e.src(c.Args[i])
			}
			i++
		}
	}
	// arguments that are read from globals at the call (e.g. tabular.IncludeHeader()) are reads of the conversion
	var argReads []string
	for _, a := range c.Args {
		s := e.src(a)
		if strings.HasPrefix(s, "(SGlobal ") {
			argReads = append(argReads, strings.TrimSuffix(strings.TrimPrefix(s, "(SGlobal "), ")"))
		}
	}
	for _, st := range fd.Body.List {
		// stop at the first statement that calls the parser
		if strings.Contains(src(st), "parser.ParseStatement(") {
			break
		}
		switch s := st.(type) {
		case *ast.ExprStmt:
			if cc, ok := s.X.(*ast.CallExpr); ok && !isNoise(cc) {
				ce.call(cc, out, depth+1)
			}
		case *ast.AssignStmt:
			if len(s.Lhs) == 1 && len(s.Rhs) == 1 {
				if g, ok := ce.global(s.Lhs[0]); ok {
					*out = append(*out, fmt.Sprintf("GSet %s %s", coqStr(g), ce.src(s.Rhs[0])))
				} else if id, ok := s.Lhs[0].(*ast.Ident); ok {
					// local := pure expression (CleanInput, a global constant ...): a local of the conversion
					ce.params[id.Name] = ce.src(s.Rhs[0])
				}
			}
		}
	}
	*out = append(*out, "GConvert "+coqList(argReads))
}

func genHandlers(w *strings.Builder, ssaJSON map[string]ssaSets) {
	prog := func(key, conv string) []string {
		fd := funcs[key]
		var out []string
		if fd == nil {
			unsup("%s not found", key)
			return []string{"GUnsupported " + coqStr(key+" not found")}
		}
		e := &env{pkg: "converter", params: map[string]string{}}
		for _, f := range fd.Type.Params.List {
			for _, n := range f.Names {
				e.params[n.Name] = "(SParam " + coqStr(n.Name) + ")"
			}
		}
		if !e.stmts(fd.Body.List, conv, &out, 0) {
			out = append(out, "GUnsupported "+coqStr("conversion call "+conv+" not found in "+key))
		}
		return out
	}
	// is the whole generic handler under a lock?  (first statements: X.Lock(); defer X.Unlock())
	locked := "false"
	if fd := funcs["converter.converterHandler"]; fd != nil {
		var sawLock, sawDefer bool
		for _, st := range fd.Body.List {
			s := strings.Join(strings.Fields(src(st)), "")
			if s == `verifYield(w,"enter")` {
				continue
			}
			if strings.HasSuffix(s, ".Lock()") && !sawLock {
				sawLock = true
				continue
			}
			if strings.HasPrefix(s, "defer") && strings.HasSuffix(s, ".Unlock()") && sawLock {
				sawDefer = true
			}
			break
		}
		if sawLock && sawDefer {
			locked = "true"
		}
	}
	// what a request does outside the handler lock: statements of the two entry handlers other than logging and the
	// delegation to the generic handler, and statements of the generic handler in front of the Lock() call
	var unlocked []string
	for _, key := range []string{"converter.ConverterHandlerTabular", "converter.ConverterHandlerVisual"} {
		fd := funcs[key]
		if fd == nil {
			unsup("%s not found", key)
			continue
		}
		for _, st := range fd.Body.List {
			if es, ok := st.(*ast.ExprStmt); ok {
				if c, ok := es.X.(*ast.CallExpr); ok && (isNoise(c) || src(c.Fun) == "converterHandler") {
					continue
				}
			}
			unlocked = append(unlocked, key+": "+firstLine(src(st)))
		}
	}
	if fd := funcs["converter.converterHandler"]; fd != nil && locked == "true" {
		for _, st := range fd.Body.List {
			s := strings.Join(strings.Fields(src(st)), "")
			if strings.HasSuffix(s, ".Lock()") {
				break
			}
			if es, ok := st.(*ast.ExprStmt); ok {
				if c, ok := es.X.(*ast.CallExpr); ok && isNoise(c) {
					continue
				}
			}
			unlocked = append(unlocked, "converter.converterHandler: "+firstLine(src(st)))
		}
	}
	strs := func(l []string) string {
		var o []string
		for _, x := range l {
			o = append(o, coqStr(x))
		}
		return coqList(o)
	}
	fmt.Fprintf(w, "Definition handle_tab : list ginstr := %s.\n\n", coqList(prog("converter.handleTabularOutput", "ConvertIGScriptToTabularOutput")))
	fmt.Fprintf(w, "Definition handle_vis : list ginstr := %s.\n\n", coqList(prog("converter.handleVisualOutput", "ConvertIGScriptToVisualTree")))
	fmt.Fprintf(w, "Definition handler_locked : bool := %s.\n\n", locked)
	fmt.Fprintf(w, "Definition handler_unlocked_statements : list str := %s.\n\n", strs(unlocked))
	fmt.Fprintf(w, "Definition reads_tab : list str := %s.\nDefinition reads_vis : list str := %s.\n", strs(ssaJSON["handle_tab"].Reads), strs(ssaJSON["handle_vis"].Reads))
	fmt.Fprintf(w, "Definition runtime_writes : list str := %s.\n", strs(ssaJSON["handler"].Writes))
	fmt.Fprintf(w, "Definition conversion_writes_tab : list str := %s.\nDefinition conversion_writes_vis : list str := %s.\n\n", strs(ssaJSON["endpoint_tab"].Writes), strs(ssaJSON["endpoint_vis"].Writes))
}

type ssaSets struct {
	Funcs   int      `json:"funcs"`
	Reads   []string `json:"reads"`
	Writes  []string `json:"writes"`
	Dynamic []string `json:"dynamic_call_sites"`
	Error   string   `json:"error"`
	// G7 inventories
	MapRanges []struct {
		Func string `json:"func"`
		Ord  int    `json:"ord"`
		Hash string `json:"hash"`
		Head string `json:"head"`
	} `json:"map_ranges"`
	Nondet []string `json:"nondet_sources"`
}
