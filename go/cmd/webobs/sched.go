//go:build verif

package main

import (
	"IG-Parser/web/converter"
	"net/http"
	"net/http/httptest"
	"strconv"
	"strings"
	"sync"
	"time"
)

// Controlled scheduling of concurrent requests. Every request runs on its own goroutine with its own recorder;
// the verif yield hook of the handlers (web/converter/verif_yield_on.go) parks a request at each yield point until
// the scheduler releases it. A schedule is a list of request indices: "let request i run to its next yield point".
// A released request that neither reaches its next yield point nor returns within the quiescence window is taken
// to be blocked (on the handler lock); it continues on its own once the lock is free.
type thr struct {
	rec     *httptest.ResponseRecorder
	release chan struct{}
	event   chan string // "point:<name>" | "done"
	done    bool
	parked  bool
	point   string
	waiting bool // released at "enter" while another request holds the handler lock
	resp    WResp
}

const quiescence = 40 * time.Millisecond
const stepTimeout = 20 * time.Second

func runSchedule(reqs []WReq, schedule string, locked bool) []WResp {
	inside := -1 // the request between its release at "enter" and its return (the lock holder, if there is a lock)
	ths := make([]*thr, len(reqs))
	byRec := map[http.ResponseWriter]*thr{}
	var mu sync.Mutex
	for i := range reqs {
		t := &thr{rec: httptest.NewRecorder(), release: make(chan struct{}), event: make(chan string, 16)}
		ths[i] = t
		byRec[t.rec] = t
	}
	converter.VerifYield = func(w http.ResponseWriter, point string) {
		mu.Lock()
		t := byRec[w]
		mu.Unlock()
		if t == nil {
			return
		}
		t.event <- "point:" + point
		<-t.release
	}
	defer func() { converter.VerifYield = nil }()
	// a request arrives when the schedule first names it (arrival is a step of its own: what a handler does before its
	// first yield point happens then, possibly while another request is converting); it then parks at "enter"
	started := make([]bool, len(reqs))
	launch := func(i int) {
		started[i] = true
		go func(i int) {
			t := ths[i]
			defer func() {
				if x := recover(); x != nil {
					t.resp = WResp{"panic": "panic in handler"}
				}
				t.event <- "done"
			}()
			serve(reqs[i], t.rec)
		}(i)
	}
	trace := []string{}
	wait := func(i int, d time.Duration) bool {
		t := ths[i]
		select {
		case ev := <-t.event:
			if ev == "done" {
				t.done = true
				t.parked = false
				if inside == i {
					inside = -1
				}
			} else {
				t.parked = true
				t.point = strings.TrimPrefix(ev, "point:")
				if t.waiting {
					t.waiting = false
					inside = i
				}
			}
			trace = append(trace, strconv.Itoa(i)+":"+ev)
			return true
		case <-time.After(d):
			return false
		}
	}
	drain := func() {
		// requests that were in flight may have moved on meanwhile
		for i, t := range ths {
			if started[i] && !t.done && !t.parked && !(t.waiting && inside != -1) {
				wait(i, quiescence)
			}
		}
	}
	var order []int
	for _, s := range strings.Split(schedule, ",") {
		if s = strings.TrimSpace(s); s != "" {
			if n, err := strconv.Atoi(s); err == nil && n >= 0 && n < len(ths) {
				order = append(order, n)
			}
		}
	}
	for _, i := range order {
		t := ths[i]
		drain()
		if !started[i] {
			launch(i)
			trace = append(trace, strconv.Itoa(i)+":arrives")
			wait(i, 5*time.Second)
			continue
		}
		if t.done {
			continue
		}
		if t.waiting {
			trace = append(trace, strconv.Itoa(i)+":waits-for-lock")
			continue
		}
		if t.parked {
			t.parked = false
			if locked && t.point == "enter" {
				if inside != -1 && inside != i {
					// it will block on the handler lock until the holder has returned
					t.waiting = true
					t.release <- struct{}{}
					trace = append(trace, strconv.Itoa(i)+":waits-for-lock")
					continue
				}
				inside = i
			}
			t.release <- struct{}{}
		}
		if !wait(i, stepTimeout) {
			trace = append(trace, strconv.Itoa(i)+":no-progress")
		}
		// a request that was waiting for the lock moves on as soon as the holder has returned
		if inside == -1 {
			for k, u := range ths {
				if u.waiting {
					wait(k, stepTimeout)
					break
				}
			}
		}
	}
	// run everything to completion, lowest index first
	for rounds := 0; rounds < 200; rounds++ {
		all := true
		for i, t := range ths {
			if !started[i] {
				launch(i)
				wait(i, 5*time.Second)
			}
			if t.done {
				continue
			}
			all = false
			if t.parked {
				t.parked = false
				t.release <- struct{}{}
			}
			if t.waiting && inside != -1 {
				continue
			}
			wait(i, stepTimeout)
		}
		if all {
			break
		}
	}
	out := make([]WResp, len(ths))
	for i, t := range ths {
		if t.resp != nil {
			out[i] = t.resp
		} else if !t.done {
			out[i] = WResp{"stuck": true}
		} else {
			out[i] = result(t.rec)
		}
		out[i]["trace"] = strings.Join(trace, " ")
	}
	return out
}

// runRace serves the requests on real threads without any control, n rounds; returns the responses of the last round
// and, per request, the number of rounds in which its body differed from the first round's.
func runRace(reqs []WReq, n int) []WResp {
	converter.VerifYield = nil
	first := make([]string, len(reqs))
	diff := make([]int, len(reqs))
	var last []*httptest.ResponseRecorder
	for round := 0; round < n; round++ {
		recs := make([]*httptest.ResponseRecorder, len(reqs))
		var wg sync.WaitGroup
		for i := range reqs {
			recs[i] = httptest.NewRecorder()
			wg.Add(1)
			go func(i int) {
				defer wg.Done()
				defer func() { recover() }()
				serve(reqs[i], recs[i])
			}(i)
		}
		wg.Wait()
		for i := range reqs {
			b := recs[i].Body.String()
			if round == 0 {
				first[i] = b
			} else if b != first[i] {
				diff[i]++
			}
		}
		last = recs
	}
	out := make([]WResp, len(reqs))
	for i := range reqs {
		out[i] = result(last[i])
		out[i]["rounds_differing"] = diff[i]
	}
	return out
}
