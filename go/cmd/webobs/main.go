package main

func main() {}
