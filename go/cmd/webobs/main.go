// webobs: drives the two web handlers of the repository through net/http/httptest, without a network.
// One JSON request per line on stdin, one JSON answer per line on (a duplicate of) stdout.
//
//	{"seq":[{"page":"tab","method":"POST","form":{...},"query":{...}}, ...]}   requests served one after another by this process
//	{"conc":[...requests...], "schedule":"0,1,1,0,..."}                        requests served concurrently under a schedule (see sched.go)
package main

import (
	"IG-Parser/web/converter"
	"bufio"
	"encoding/hex"
	"encoding/json"
	"fmt"
	"io"
	"log"
	"net/http"
	"net/http/httptest"
	"net/url"
	"os"
	"runtime/debug"
	"strings"
	"unicode/utf8"
)

type WReq struct {
	Page   string            `json:"page"`
	Method string            `json:"method"`
	Form   map[string]string `json:"form"`
	Query  map[string]string `json:"query"`
}

type Line struct {
	Seq      []WReq `json:"seq"`
	Conc     []WReq `json:"conc"`
	Schedule string `json:"schedule"`
	Race     int    `json:"race"`
	Locked   bool   `json:"locked"`
}

type WResp map[string]interface{}

func build(q WReq) *http.Request {
	vals := url.Values{}
	for k, v := range q.Form {
		vals.Set(k, v)
	}
	qs := url.Values{}
	for k, v := range q.Query {
		qs.Set(k, v)
	}
	target := "/"
	if q.Page == "vis" {
		target = "/visual/"
	}
	if len(qs) > 0 {
		target += "?" + qs.Encode()
	}
	var r *http.Request
	if q.Method == "POST" {
		r = httptest.NewRequest(http.MethodPost, target, strings.NewReader(vals.Encode()))
		r.Header.Set("Content-Type", "application/x-www-form-urlencoded")
	} else {
		r = httptest.NewRequest(http.MethodGet, target, nil)
	}
	return r
}

func serve(q WReq, w http.ResponseWriter) {
	r := build(q)
	if q.Page == "vis" {
		converter.ConverterHandlerVisual(w, r)
	} else {
		converter.ConverterHandlerTabular(w, r)
	}
}

func result(rec *httptest.ResponseRecorder) WResp {
	body := rec.Body.String()
	resp := WResp{"status": rec.Code}
	if utf8.ValidString(body) {
		resp["body"] = body
	} else {
		resp["bodyx"] = hex.EncodeToString([]byte(body))
	}
	return resp
}

func one(q WReq) (resp WResp) {
	defer func() {
		if x := recover(); x != nil {
			resp = WResp{"panic": fmt.Sprint(x), "stack": string(debug.Stack())}
		}
	}()
	rec := httptest.NewRecorder()
	serve(q, rec)
	return result(rec)
}

func main() {
	log.SetOutput(io.Discard)
	realOut := os.Stdout
	devnull, _ := os.OpenFile(os.DevNull, os.O_WRONLY, 0)
	os.Stdout = devnull
	converter.Logging = false
	converter.Init()
	sc := bufio.NewScanner(os.Stdin)
	sc.Buffer(make([]byte, 1<<24), 1<<24)
	w := bufio.NewWriter(realOut)
	defer w.Flush()
	enc := json.NewEncoder(w)
	enc.SetEscapeHTML(false)
	for sc.Scan() {
		var l Line
		if err := json.Unmarshal(sc.Bytes(), &l); err != nil {
			enc.Encode(WResp{"bad": "request: " + err.Error()})
			w.Flush()
			continue
		}
		var out []WResp
		switch {
		case l.Conc != nil && l.Race > 0:
			out = runRace(l.Conc, l.Race)
		case l.Conc != nil:
			out = runSchedule(l.Conc, l.Schedule, l.Locked)
		default:
			for _, q := range l.Seq {
				out = append(out, one(q))
			}
		}
		enc.Encode(WResp{"responses": out})
		w.Flush()
	}
}
