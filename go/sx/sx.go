// Package sx: the s-expression exchange format for tree.Node / tree.Statement values
// shared by the Go harness, the OCaml model driver and the Python generators.
//
//	node  := (L ct suf ann (shl*) (shr*) entry (priv*)) | (C ct suf ann (shl*) (shr*) OP node node)
//	entry := ~ | xHEX | (T stmt) | (NS node*)
//	stmt  := (ST (FIELD node)*)
//	ct    := xHEX ; suf, ann := ~ | xHEX ; OP := AND|OR|XOR|bAND|wAND
package sx

import (
	"IG-Parser/core/tree"
	"encoding/hex"
	"fmt"
	"strings"
)

var FieldNames = []string{"A", "Ap", "ApC", "D", "I", "Bdir", "BdirC", "Bdirp", "BdirpC", "Bind", "BindC", "Bindp", "BindpC",
	"E", "Ep", "EpC", "M", "F", "P", "PC", "Pp", "PpC", "Cac", "CacC", "Cex", "CexC", "O"}

// FieldPtrs returns the addresses of the 27 component fields in the order of FieldNames.
func FieldPtrs(s *tree.Statement) []**tree.Node {
	return []**tree.Node{&s.Attributes, &s.AttributesPropertySimple, &s.AttributesPropertyComplex, &s.Deontic, &s.Aim,
		&s.DirectObject, &s.DirectObjectComplex, &s.DirectObjectPropertySimple, &s.DirectObjectPropertyComplex,
		&s.IndirectObject, &s.IndirectObjectComplex, &s.IndirectObjectPropertySimple, &s.IndirectObjectPropertyComplex,
		&s.ConstitutedEntity, &s.ConstitutedEntityPropertySimple, &s.ConstitutedEntityPropertyComplex, &s.Modal, &s.ConstitutiveFunction,
		&s.ConstitutingProperties, &s.ConstitutingPropertiesComplex, &s.ConstitutingPropertiesPropertySimple, &s.ConstitutingPropertiesPropertyComplex,
		&s.ActivationConditionSimple, &s.ActivationConditionComplex, &s.ExecutionConstraintSimple, &s.ExecutionConstraintComplex, &s.OrElse}
}

func hx(s string) string { return "x" + hex.EncodeToString([]byte(s)) }

func optIface(v interface{}) string {
	if v == nil {
		return "~"
	}
	if s, ok := v.(string); ok {
		return hx(s)
	}
	return "!" // not a string: outside the model
}

func strs(l []string) string {
	p := make([]string, len(l))
	for i, s := range l {
		p[i] = hx(s)
	}
	return "(" + strings.Join(p, " ") + ")"
}

var validOps = map[string]bool{"AND": true, "OR": true, "XOR": true, "bAND": true, "wAND": true}

// DumpNode serialises a node by value. Shapes outside the model (one child only, entry on an
// operator node, unknown operator, non-string suffix) are written as (X reason) so that the reader rejects them.
func DumpNode(n *tree.Node, depth int) string {
	if n == nil {
		return "(X nil)"
	}
	if depth > 200 {
		return "(X depth)"
	}
	head := hx(n.ComponentType) + " " + optIface(n.Suffix) + " " + optIface(n.Annotations) + " " + strs(n.SharedLeft) + " " + strs(n.SharedRight)
	if n.Left == nil && n.Right == nil {
		if n.LogicalOperator != "" {
			return "(X leaf-with-operator)"
		}
		priv := make([]string, len(n.PrivateNodeLinks))
		for i, p := range n.PrivateNodeLinks {
			priv[i] = DumpNode(p, depth+1)
		}
		return "(L " + head + " " + dumpEntry(n.Entry, depth+1) + " (" + strings.Join(priv, " ") + "))"
	}
	if n.Left == nil || n.Right == nil {
		return "(X one-child)"
	}
	if n.Entry != nil {
		return "(X entry-on-combination)"
	}
	if !validOps[n.LogicalOperator] {
		return "(X operator:" + hx(n.LogicalOperator) + ")"
	}
	if len(n.PrivateNodeLinks) > 0 {
		return "(X private-on-combination)"
	}
	return "(C " + head + " " + n.LogicalOperator + " " + DumpNode(n.Left, depth+1) + " " + DumpNode(n.Right, depth+1) + ")"
}

func dumpEntry(e interface{}, depth int) string {
	switch v := e.(type) {
	case nil:
		return "~"
	case string:
		return hx(v)
	case *tree.Statement:
		if v == nil {
			return "(X nil-statement)"
		}
		return "(T " + DumpStmt(v, depth) + ")"
	case []*tree.Node:
		p := make([]string, len(v))
		for i, x := range v {
			p[i] = DumpNode(x, depth+1)
		}
		return "(NS " + strings.Join(p, " ") + ")"
	default:
		return fmt.Sprintf("(X entry-type:%T)", e)
	}
}

func DumpStmt(s *tree.Statement, depth int) string {
	var b strings.Builder
	b.WriteString("(ST")
	for i, p := range FieldPtrs(s) {
		if *p != nil {
			b.WriteString(" (" + FieldNames[i] + " " + DumpNode(*p, depth+1) + ")")
		}
	}
	b.WriteString(")")
	return b.String()
}

// ---------------------------------------------------------------- reader

type tok struct {
	s string
}

type reader struct {
	toks []string
	pos  int
}

func tokenize(s string) []string {
	var out []string
	i := 0
	for i < len(s) {
		c := s[i]
		switch {
		case c == ' ' || c == '\t' || c == '\n':
			i++
		case c == '(' || c == ')':
			out = append(out, string(c))
			i++
		default:
			j := i
			for j < len(s) && s[j] != ' ' && s[j] != '(' && s[j] != ')' && s[j] != '\t' && s[j] != '\n' {
				j++
			}
			out = append(out, s[i:j])
			i = j
		}
	}
	return out
}

func (r *reader) next() string {
	if r.pos >= len(r.toks) {
		panic("sx: unexpected end")
	}
	t := r.toks[r.pos]
	r.pos++
	return t
}
func (r *reader) peek() string {
	if r.pos >= len(r.toks) {
		panic("sx: unexpected end")
	}
	return r.toks[r.pos]
}
func (r *reader) expect(t string) {
	if g := r.next(); g != t {
		panic("sx: expected " + t + " got " + g)
	}
}
func unhx(t string) string {
	if len(t) == 0 || t[0] != 'x' {
		panic("sx: expected hex string, got " + t)
	}
	b, err := hex.DecodeString(t[1:])
	if err != nil {
		panic("sx: bad hex " + t)
	}
	return string(b)
}
func (r *reader) optStr() interface{} {
	t := r.next()
	if t == "~" {
		return nil
	}
	return unhx(t)
}
func (r *reader) strList() []string {
	r.expect("(")
	var out []string
	for r.peek() != ")" {
		out = append(out, unhx(r.next()))
	}
	r.expect(")")
	return out
}

func (r *reader) node() *tree.Node {
	r.expect("(")
	kind := r.next()
	n := &tree.Node{}
	n.ComponentType = unhx(r.next())
	n.Suffix = r.optStr()
	n.Annotations = r.optStr()
	n.SharedLeft = r.strList()
	n.SharedRight = r.strList()
	switch kind {
	case "L":
		n.Entry = r.entry()
		r.expect("(")
		for r.peek() != ")" {
			n.PrivateNodeLinks = append(n.PrivateNodeLinks, r.node())
		}
		r.expect(")")
	case "C":
		n.LogicalOperator = r.next()
		n.Left = r.node()
		n.Right = r.node()
		n.Left.Parent = n
		n.Right.Parent = n
	default:
		panic("sx: bad node kind " + kind)
	}
	r.expect(")")
	return n
}

func (r *reader) entry() interface{} {
	t := r.next()
	if t == "~" {
		return nil
	}
	if t != "(" {
		return unhx(t)
	}
	k := r.next()
	switch k {
	case "T":
		s := r.stmt()
		r.expect(")")
		return s
	case "NS":
		var ns []*tree.Node
		for r.peek() != ")" {
			ns = append(ns, r.node())
		}
		r.expect(")")
		if ns == nil {
			ns = []*tree.Node{}
		}
		return ns
	}
	panic("sx: bad entry kind " + k)
}

func (r *reader) stmt() *tree.Statement {
	r.expect("(")
	r.expect("ST")
	s := &tree.Statement{}
	ptrs := FieldPtrs(s)
	for r.peek() != ")" {
		r.expect("(")
		name := r.next()
		idx := -1
		for i, f := range FieldNames {
			if f == name {
				idx = i
			}
		}
		if idx < 0 {
			panic("sx: bad field " + name)
		}
		*ptrs[idx] = r.node()
		r.expect(")")
	}
	r.expect(")")
	return s
}

// ParseStmt builds a *tree.Statement (with parent pointers) from its serialisation.
func ParseStmt(s string) (st *tree.Statement, err error) {
	defer func() {
		if x := recover(); x != nil {
			err = fmt.Errorf("%v", x)
		}
	}()
	r := &reader{toks: tokenize(s)}
	st = r.stmt()
	return
}

// ParseNode builds a *tree.Node from its serialisation.
func ParseNode(s string) (n *tree.Node, err error) {
	defer func() {
		if x := recover(); x != nil {
			err = fmt.Errorf("%v", x)
		}
	}()
	r := &reader{toks: tokenize(s)}
	n = r.node()
	return
}

// LinkEmbedded gives the nodes embedded in a node-array entry the parent the parser gives them
// (extrapolateStatementWithPairedComponents: tpNode[0].Parent = v2.Parent, i.e. the combination node above the
// leaf that holds the array), throughout the tree below n, nested statements included.
func LinkEmbedded(n *tree.Node) {
	if n == nil {
		return
	}
	LinkEmbedded(n.Left)
	LinkEmbedded(n.Right)
	switch e := n.Entry.(type) {
	case []*tree.Node:
		for _, v := range e {
			if v != nil {
				v.Parent = n.Parent
				LinkEmbeddedBelow(v)
			}
		}
	case *tree.Statement:
		for _, p := range FieldPtrs(e) {
			LinkEmbedded(*p)
		}
	}
	for _, p := range n.PrivateNodeLinks {
		LinkEmbedded(p)
	}
}

// LinkEmbeddedBelow descends into an embedded node without touching its own parent.
func LinkEmbeddedBelow(v *tree.Node) {
	LinkEmbedded(v.Left)
	LinkEmbedded(v.Right)
	if st, ok := v.Entry.(*tree.Statement); ok {
		for _, p := range FieldPtrs(st) {
			LinkEmbedded(*p)
		}
	}
}

// NodeAt follows a path of '0' (left) / '1' (right) from n.
func NodeAt(n *tree.Node, path string) *tree.Node {
	for _, c := range path {
		if n == nil {
			return nil
		}
		if c == '0' {
			n = n.Left
		} else {
			n = n.Right
		}
	}
	return n
}

// ParentLinks walks a tree the way DumpNode does and reports the first combination whose child does not point back to it
// ("" = every Left/Right child has the combination as its Parent). GetComponentName, GetSharedLeft/Right, GetSuffix,
// GetAnnotations and the linkage search read the tree upwards through these pointers.
func ParentLinks(n *tree.Node, depth int) string {
	if n == nil || depth > 200 {
		return ""
	}
	if n.Left != nil || n.Right != nil {
		for _, c := range []*tree.Node{n.Left, n.Right} {
			if c == nil {
				continue
			}
			if c.Parent != n {
				what := "nil"
				if c.Parent != nil {
					what = "another node (operator '" + c.Parent.LogicalOperator + "', component '" + c.Parent.GetComponentName() + "')"
				}
				return "child of combination '" + n.LogicalOperator + "' (component '" + n.GetComponentName() + "') has parent " + what
			}
			if r := ParentLinks(c, depth+1); r != "" {
				return r
			}
		}
		return ""
	}
	for _, p := range n.PrivateNodeLinks {
		if r := parentLinksEntry(p.Entry, depth+1); r != "" {
			return r
		}
	}
	return parentLinksEntry(n.Entry, depth+1)
}

func parentLinksEntry(e interface{}, depth int) string {
	switch v := e.(type) {
	case *tree.Statement:
		if v == nil {
			return ""
		}
		for _, p := range FieldPtrs(v) {
			if r := ParentLinks(*p, depth+1); r != "" {
				return r
			}
		}
	case []*tree.Node:
		for _, x := range v {
			if r := ParentLinks(x, depth+1); r != "" {
				return r
			}
		}
	}
	return ""
}

// EffShared lists, for every value of the tree in written order (nested statements and pair statements included), what
// GetSharedLeft and GetSharedRight report for it - the counterpart of the model's eff_shared (Spec/Shared.v).
func EffShared(n *tree.Node, depth int, out *[][2][]string) {
	if n == nil || depth > 200 {
		return
	}
	if n.Left != nil || n.Right != nil {
		EffShared(n.Left, depth+1, out)
		EffShared(n.Right, depth+1, out)
		return
	}
	*out = append(*out, [2][]string{append([]string{}, n.GetSharedLeft()...), append([]string{}, n.GetSharedRight()...)})
	switch v := n.Entry.(type) {
	case *tree.Statement:
		if v != nil {
			for _, p := range FieldPtrs(v) {
				EffShared(*p, depth+1, out)
			}
		}
	case []*tree.Node:
		for _, x := range v {
			EffShared(x, depth+1, out)
		}
	}
}
