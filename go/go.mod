module igpverif

go 1.16

require IG-Parser v0.0.0

replace IG-Parser => /repo
