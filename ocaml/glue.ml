(* glue.ml - conversions between OCaml strings/ints and the extracted inductives, and the reader of
   the s-expression exchange format (see go/sx/sx.go). Trusted glue; self-tested at start-up. *)
type ostr = string
module OS = String
open Model

let byte_of_int (i : int) : byte = (Obj.magic i : byte)
let int_of_byte (b : byte) : int = (Obj.magic b : int)
let to_bytes (s : ostr) : byte list = List.init (OS.length s) (fun i -> byte_of_int (Char.code s.[i]))
let of_bytes (l : byte list) : ostr =
  let b = Buffer.create 16 in List.iter (fun x -> Buffer.add_char b (Char.chr (int_of_byte x))) l; Buffer.contents b

let selftest () =
  (* the 256-constructor variant is numbered in declaration order: x00 = 0 ... xff = 255 *)
  assert (int_of_byte X00 = 0); assert (int_of_byte X41 = 65); assert (int_of_byte Xff = 255);
  assert (of_bytes (to_bytes "aZ\000\255") = "aZ\000\255")

let rec nat_of_int n = if n <= 0 then O else S (nat_of_int (n - 1))
let rec int_of_nat = function O -> 0 | S n -> 1 + int_of_nat n
let rec pos_of_int n = if n = 1 then XH else if n land 1 = 0 then XO (pos_of_int (n lsr 1)) else XI (pos_of_int (n lsr 1))
let z_of_int n = if n = 0 then Z0 else if n > 0 then Zpos (pos_of_int n) else Zneg (pos_of_int (-n))
let n_of_int n = if n = 0 then N0 else Npos (pos_of_int n)
let rec int_of_pos = function XH -> 1 | XO p -> 2 * int_of_pos p | XI p -> 2 * int_of_pos p + 1
let int_of_z = function Z0 -> 0 | Zpos p -> int_of_pos p | Zneg p -> - (int_of_pos p)
let int_of_n = function N0 -> 0 | Npos p -> int_of_pos p

let hex_of_string s =
  let b = Buffer.create (2 * OS.length s + 1) in
  Buffer.add_char b 'x';
  OS.iter (fun c -> Buffer.add_string b (Printf.sprintf "%02x" (Char.code c))) s; Buffer.contents b
let hex_of_bytes l = hex_of_string (of_bytes l)
let string_of_hex t =
  if OS.length t = 0 || t.[0] <> 'x' then failwith ("expected hex string, got " ^ t);
  let n = (OS.length t - 1) / 2 in
  OS.init n (fun i -> Char.chr (int_of_string ("0x" ^ OS.sub t (1 + 2 * i) 2)))

(* ---------------- tokens *)
let tokenize (s : ostr) : ostr list =
  let n = OS.length s in
  let rec go i acc =
    if i >= n then List.rev acc else
    match s.[i] with
    | ' ' | '\t' | '\n' -> go (i + 1) acc
    | '(' -> go (i + 1) ("(" :: acc)
    | ')' -> go (i + 1) (")" :: acc)
    | _ ->
      let j = ref i in
      while !j < n && (match s.[!j] with ' ' | '(' | ')' | '\t' | '\n' -> false | _ -> true) do incr j done;
      go !j (OS.sub s i (!j - i) :: acc)
  in go 0 []

type rd = { mutable toks : ostr list }
let next r = match r.toks with [] -> failwith "sx: unexpected end" | t :: tl -> r.toks <- tl; t
let peek r = match r.toks with [] -> failwith "sx: unexpected end" | t :: _ -> t
let expect r t = let g = next r in if g <> t then failwith ("sx: expected " ^ t ^ " got " ^ g)

let field_names = ["A"; "Ap"; "ApC"; "D"; "I"; "Bdir"; "BdirC"; "Bdirp"; "BdirpC"; "Bind"; "BindC"; "Bindp"; "BindpC";
  "E"; "Ep"; "EpC"; "M"; "F"; "P"; "PC"; "Pp"; "PpC"; "Cac"; "CacC"; "Cex"; "CexC"; "O"]
let field_of_name (s : ostr) : field =
  let rec go ns fs = match ns, fs with
    | n :: ns', f :: fs' -> if n = s then f else go ns' fs'
    | _ -> failwith ("sx: bad field " ^ s) in
  go field_names all_fields
let name_of_field (f : field) : ostr = List.nth field_names (int_of_nat (field_idx f))

let op_of_name = function
  | "AND" -> AND | "OR" -> OR | "XOR" -> XOR | "bAND" -> BAND | "wAND" -> WAND
  | s -> failwith ("sx: bad operator " ^ s)

let opt_str r = let t = next r in if t = "~" then None else Some (to_bytes (string_of_hex t))
let str_list r =
  expect r "(";
  let rec go acc = if peek r = ")" then (ignore (next r); List.rev acc) else go (to_bytes (string_of_hex (next r)) :: acc) in
  go []

let rec rnode r : node =
  expect r "(";
  let kind = next r in
  if kind = "X" then failwith ("sx: shape outside the model: " ^ (try next r with _ -> "?"));
  let ct = to_bytes (string_of_hex (next r)) in
  let suf = opt_str r in
  let ann = opt_str r in
  let sl = str_list r in
  let sr = str_list r in
  let m = { ctype = ct; suffix = suf; annot = ann; shl = sl; shr = sr } in
  let n =
    match kind with
    | "L" ->
      let e = rentry r in
      expect r "(";
      let rec go acc = if peek r = ")" then (ignore (next r); List.rev acc) else go (rnode r :: acc) in
      let priv = go [] in
      Leaf (m, e, priv)
    | "C" ->
      let o = op_of_name (next r) in
      let l = rnode r in
      let rt = rnode r in
      Comb (m, o, l, rt)
    | k -> failwith ("sx: bad node kind " ^ k) in
  expect r ")"; n
and rentry r : entry =
  let t = next r in
  if t = "~" then ENil
  else if t <> "(" then EStr (to_bytes (string_of_hex t))
  else begin
    match next r with
    | "T" -> let s = rstmt r in expect r ")"; EStmt s
    | "NS" ->
      let rec go acc = if peek r = ")" then (ignore (next r); List.rev acc) else go (rnode r :: acc) in
      ENodes (go [])
    | "X" -> failwith "sx: entry outside the model"
    | k -> failwith ("sx: bad entry kind " ^ k)
  end
and rstmt r : stmt =
  expect r "("; expect r "ST";
  let rec go acc =
    if peek r = ")" then (ignore (next r); List.rev acc)
    else begin
      expect r "(";
      let f = field_of_name (next r) in
      let n = rnode r in
      expect r ")";
      go ((f, n) :: acc)
    end in
  Stmt (go [])

let stmt_of_string s = rstmt { toks = tokenize s }
let node_of_string s = rnode { toks = tokenize s }

(* ---------------- writer (same format) *)
let opt_out = function None -> "~" | Some s -> hex_of_bytes s
let strs_out l = "(" ^ OS.concat " " (List.map hex_of_bytes l) ^ ")"
let rec wnode = function
  | Leaf (m, e, priv) ->
    "(L " ^ whead m ^ " " ^ wentry e ^ " (" ^ OS.concat " " (List.map wnode priv) ^ "))"
  | Comb (m, o, l, r) ->
    "(C " ^ whead m ^ " " ^ of_bytes (op_name o) ^ " " ^ wnode l ^ " " ^ wnode r ^ ")"
and whead m = hex_of_bytes m.ctype ^ " " ^ opt_out m.suffix ^ " " ^ opt_out m.annot ^ " " ^ strs_out m.shl ^ " " ^ strs_out m.shr
and wentry = function
  | ENil -> "~" | EStr s -> hex_of_bytes s
  | EStmt s -> "(T " ^ wstmt s ^ ")"
  | ENodes ns -> "(NS " ^ OS.concat " " (List.map wnode ns) ^ ")"
and wstmt (Stmt fs) = "(ST" ^ OS.concat "" (List.map (fun (f, n) -> " (" ^ name_of_field f ^ " " ^ wnode n ^ ")") fs) ^ ")"

let res_out (f : 'a -> ostr) (r : 'a res) : ostr =
  match r with
  | Ok a -> "ok:" ^ f a
  | Err c -> "err:" ^ of_bytes c
  | Panic n -> "panic:" ^ string_of_int (int_of_nat n)
  | Fatal n -> "fatal:" ^ string_of_int (int_of_nat n)
  | OutOfFuel -> "fuel"
