(* comborun.ml - driver of the extracted combination-parser model: one expression per line (hex when prefixed by x),
   answers the outcome class and the node tree in the notation of go/cmd/obs mode pint. *)
open Combo
let to_bytes (s : string) : byte list = List.init (String.length s) (fun i -> (Obj.magic (Char.code s.[i]) : byte))
let of_bytes (l : byte list) : string = String.concat "" (List.map (fun (b : byte) -> String.make 1 (Char.chr (Obj.magic b : int))) l)
let rec nat_of_int n = if n <= 0 then O else S (nat_of_int (n-1))
let opname = function AND -> "AND" | OR -> "OR" | XOR -> "XOR" | WAND -> "wAND" | BAND -> "bAND"
let rec show = function
  | NEmpty -> "E"
  | NLeaf e -> "L<" ^ of_bytes e ^ ">"
  | NComb (o, l, r, sl, sr) ->
    let so = function None -> "nil" | Some n -> show n in
    "C(" ^ opname o ^ " " ^ so l ^ " " ^ so r ^ " sl=[" ^ String.concat ";" (List.map of_bytes sl) ^ "] sr=[" ^ String.concat ";" (List.map of_bytes sr) ^ "])"
let errname = function IMBALANCED -> "IMBALANCED_PARENTHESES" | OP_OUTSIDE -> "LOGICAL_OPERATOR_OUTSIDE_COMBINATION" | INVALID_COMBINATION -> "INVALID_COMBINATION_IN_INPUT" | INVALID_OP_COMB -> "INVALID_LOGICAL_OPERATOR_COMBINATIONS" | EMPTY_LEAF -> "EMPTY_LEAF_VALUE" | NO_COMBINATIONS -> "NO_COMBINATIONS_IN_INPUT"
let () =
  try while true do
    let line = input_line stdin in
    let r = parse lpar rpar (nat_of_int (String.length line + 5)) (to_bytes line) false in
    (match r with
     | Ok ((n, _), nocomb) -> print_endline ((if nocomb then "NO_COMBINATIONS_IN_INPUT " else "NO_ERROR_DURING_PARSING ") ^ show n)
     | Err e -> print_endline (errname e)
     | Panic _ -> print_endline "PANIC"
     | OutOfFuel -> print_endline "FUEL")
  done with End_of_file -> ()
