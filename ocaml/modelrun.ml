(* modelrun.ml - driver of the extracted model. One request per line: mode TAB arg TAB arg ...;
   one answer line per request. *)
module OS = String
type ostr = string
open Model
open Glue

let split_tab s = OS.split_on_char '\t' s

let rec jn_out (JN (_, name, comp, level, hasc, children, pos, prop, anno, dov)) : ostr =
  let opt k = function None -> "" | Some v -> ",\"" ^ k ^ "\":\"" ^ hex_of_bytes v ^ "\"" in
  "{\"name\":\"" ^ hex_of_bytes name ^ "\"" ^ opt "comp" comp ^ ",\"level\":" ^ string_of_int (int_of_nat level)
  ^ (if hasc then ",\"children\":[" ^ OS.concat "," (List.map jn_out children) ^ "]" else "")
  ^ (if pos then ",\"pos\":\"x62\"" else "") ^ opt "prop" prop ^ opt "anno" anno ^ opt "dov" dov ^ "}"

let handle (line : ostr) : ostr =
  match split_tab line with
  | ["dov"; tree] ->
    (* model: total and per-field values; spec: dov_total; wf flag *)
    let (Stmt fs) as s = stmt_of_string tree in
    let fields = List.map (fun (f, n) -> name_of_field f ^ "=" ^ res_out (fun z -> string_of_int (int_of_z z)) (node_cx dov_W n)) fs in
    let specfields = List.map (fun (f, n) -> name_of_field f ^ "=" ^ string_of_int (int_of_z (dov_node n))) fs in
    Printf.sprintf "total=%s spec=%d wf=%b fields=%s specfields=%s"
      (res_out (fun z -> string_of_int (int_of_z z)) (stmt_cx dov_W s))
      (int_of_z (dov_total s)) (dov_wf_stmt s) (OS.concat "," fields) (OS.concat "," specfields)
  | ["vis"; flags; tree] ->
    let s = stmt_of_string tree in
    let b i = flags.[i] = '1' in
    let o = { o_flat = b 0; o_bin = b 1; o_anno = b 2; o_dov = b 3; o_actop = b 4 } in
    (if vwf_stmt s then "wf " else "nwf ") ^ res_out hex_of_bytes (vis_print vis_T o (vis_fuel s) s)
  | ["visn"; flags; tree] ->
    (* root given as a node (what ParseStatement returns): Leaf with a statement, or a pair combination *)
    let n = node_of_string tree in
    let b i = flags.[i] = '1' in
    let o = { o_flat = b 0; o_bin = b 1; o_anno = b 2; o_dov = b 3; o_actop = b 4 } in
    let fuel = nat_of_int (2 * int_of_nat (node_size n) + 8) in
    res_out hex_of_bytes (vis_print_node vis_T o fuel n)
  | ["jsonn"; flags; tree] ->
    let n = node_of_string tree in
    let b i = flags.[i] = '1' in
    let o = { o_flat = b 0; o_bin = b 1; o_anno = b 2; o_dov = b 3; o_actop = b 4 } in
    let fuel = nat_of_int (2 * int_of_nat (node_size n) + 8) in
    res_out (fun js -> "[" ^ OS.concat "," (List.map jn_out js) ^ "]") (to_json_node vis_T o fuel n)
  | ["shared"; tree] ->
    (* Spec/Shared.v: left and right shared text of every value of the root node, in written order *)
    let n = node_of_string tree in
    let fuel = nat_of_int (2 * int_of_nat (node_size n) + 8) in
    let strs l = "[" ^ OS.concat "," (List.map (fun x -> "\"" ^ hex_of_bytes x ^ "\"") l) ^ "]" in
    "ok [" ^ OS.concat "," (List.map (fun (l, r) -> "[" ^ strs l ^ "," ^ strs r ^ "]") (eff_shared fuel n [])) ^ "]"
  | ["lvn"; flags; tree] ->
    (* specification Spec/VisView.v: the shown values (comp, text, level, flat label) of the root node *)
    let n = node_of_string tree in
    let b i = flags.[i] = '1' in
    let fuel = nat_of_int (2 * int_of_nat (node_size n) + 8) in
    let sv (((c, t), l), p) = "[\"" ^ hex_of_bytes c ^ "\",\"" ^ hex_of_bytes t ^ "\"," ^ string_of_int (int_of_nat l) ^ ","
                              ^ (match p with None -> "null" | Some x -> "\"" ^ hex_of_bytes x ^ "\"") ^ "]" in
    res_out (fun vs -> "[" ^ OS.concat "," (List.map sv vs) ^ "]") (lv (spec_vis vis_T) (b 0) (b 4) fuel None n [] O)
  | ["tab"; flags; po; pi; id; orig; igs; tree] ->
    (* static tabular export of a root node: per top-level statement its rows and its printed text *)
    let n = node_of_string tree in
    let b i = flags.[i] = '1' in
    let c = { t_ext = b 0; t_anno = b 1; t_gs = b 2 } in
    let inc = function "none" -> INone | "first" -> IFirst | "all" -> IAll | _ -> IOther in
    let fuel = nat_of_int (int_of_nat (node_size n) + 3) in
    let row_out r = "{" ^ OS.concat "," (List.filter_map (fun (k, v) -> if v = [] then None else Some ("\"" ^ hex_of_bytes k ^ "\":\"" ^ hex_of_bytes v ^ "\"")) r) ^ "}" in
    res_out (fun rs -> "[" ^ OS.concat "," (List.map (fun (rows, out) ->
        "{\"rows\":[" ^ OS.concat "," (List.map row_out rows) ^ "],\"out\":\"" ^ hex_of_bytes out ^ "\"}") rs) ^ "]")
      (tab_root tab_T c fuel n (let i = to_bytes (string_of_hex id) in if OS.length flags > 4 && b 4 then endpoint_id i else i) (b 3) (inc po) (inc pi) (to_bytes (string_of_hex orig)) (to_bytes (string_of_hex igs)))
  | ["tabspec"; tree] ->
    (* specification of the rows of ONE statement (Spec/TabSpec.v): choices in product order and linkage entries *)
    let n = node_of_string tree in
    (match stmt_of_node n with
     | Ok s ->
       let t = spec_table in
       let cell x = match spec_cell_text x with
         | Some (c, v) -> "[\"" ^ hex_of_bytes c ^ "\",\"" ^ hex_of_bytes v ^ "\"]"
         | None -> "[\"" ^ hex_of_bytes (comp_name (node_meta x.l_n) x.l_a) ^ "\",null]" in
       let rows = spec_rows t s in
       let ops l = OS.concat " " (List.map (fun o -> of_bytes (op_name o)) l) in
       let link ((c, o), rs) = "[\"" ^ hex_of_bytes c ^ "\",\"" ^ ops o ^ "\",[" ^ OS.concat "," (List.map (fun i -> string_of_int (int_of_nat i)) rs) ^ "]]" in
       let core x = match x.l_n with Leaf (_, EStr v, _) -> "\"" ^ hex_of_bytes v ^ "\"" | _ -> "null" in
       "ok:{\"cores\":[" ^ OS.concat "," (List.map (fun r -> "[" ^ OS.concat "," (List.map core r) ^ "]") rows) ^ "],\"choices\":[" ^ OS.concat "," (List.map (fun r -> "[" ^ OS.concat "," (List.map cell r) ^ "]") rows)
       ^ "],\"links\":[" ^ OS.concat "," (List.map (fun l -> "[" ^ OS.concat "," (List.map link l) ^ "]") (spec_links t s)) ^ "]}"
     | r -> res_out (fun _ -> "") r)
  | ["link"; tree; p; q] ->
    let n = node_of_string tree in
    let path s = List.map (fun c -> c = '1') (List.init (OS.length s) (OS.get s)) in
    let ops l = OS.concat " " (List.map (fun o -> of_bytes (op_name o)) l) in
    (match find_linkage n (path p) (path q) with
     | Ok (found, l) -> Printf.sprintf "ok:%b:%s:%s" found (ops l) (ops (path_ops n (path p) (path q)))
     | r -> res_out (fun _ -> "") r)
  | ["refs"; ids] ->
    let ids = if ids = "" then [] else List.map int_of_string (OS.split_on_char ',' ids) in
    let refs = List.fold_left (fun acc i -> add_ref acc (nat_of_int i)) [] ids in
    OS.concat "," (List.map of_bytes refs) ^ ":" ^ OS.concat "," (List.map (fun z -> string_of_int (int_of_z z)) (expand_refs refs))
  | ["privn"; tree] ->
    (* private-property linking (Model/Priv.v) of a root node as ParseStatement returns it, nested statements included *)
    let n = node_of_string tree in
    let fuel = nat_of_int (2 * int_of_nat (node_size n) + 8) in
    wnode (deep_node priv_link_table fuel n)
  | ["echo"; tree] -> wstmt (stmt_of_string tree)
  | m :: _ -> "bad:unknown mode " ^ m
  | [] -> "bad:empty"

let () =
  selftest ();
  try
    while true do
      let line = input_line stdin in
      let out = try handle line with Failure m -> "bad:" ^ m | Stack_overflow -> "bad:stack overflow" | Not_found -> "bad:not found" in
      print_string out; print_char '\n'
    done
  with End_of_file -> ()
