// gossa: read/write sets of package-level variables (G5 of DESIGN.md) computed on the SSA form of the repository.
// Usage: gossa <repo>   -> JSON on stdout.
//
// Call graph: static callees, closures (anonymous functions of a reachable function), and - for calls through an
// interface or a function value - nothing (they are listed as dynamic call sites). Restricted to functions of the
// repository's own packages (IG-Parser/...).  Test files are not loaded.
package main

import (
	"bytes"
	"crypto/sha1"
	"encoding/json"
	"fmt"
	"go/ast"
	"go/printer"
	"go/token"
	"go/types"
	"os"
	"sort"
	"strings"

	"golang.org/x/tools/go/packages"
	"golang.org/x/tools/go/ssa"
	"golang.org/x/tools/go/ssa/ssautil"
)

func own(f *ssa.Function) bool {
	return f != nil && f.Pkg != nil && strings.HasPrefix(f.Pkg.Pkg.Path(), "IG-Parser")
}

func gname(g *ssa.Global) string { return g.Pkg.Pkg.Name() + "." + g.Name() }

// isLock: a package-level sync.Mutex / sync.RWMutex is synchronisation, not configuration state
func isLock(g *ssa.Global) bool {
	t := g.Type().String()
	return strings.Contains(t, "sync.Mutex") || strings.Contains(t, "sync.RWMutex")
}

type sets struct {
	Funcs   int      `json:"funcs"`
	Reads   []string `json:"reads"`
	Writes  []string `json:"writes"`
	Dynamic []string `json:"dynamic_call_sites"`
	// G7: sources of run-to-run variation in reachable code: every range over a map (function, hash of the
	// statement's printed text, its first line), every go statement, select, and use of time / math/rand / os.Getpid etc.
	MapRanges []mapRange `json:"map_ranges"`
	Nondet    []string   `json:"nondet_sources"`
}

type mapRange struct {
	Func string `json:"func"`
	Ord  int    `json:"ord"` // ordinal among the map ranges of the function, in source order
	Hash string `json:"hash"`
	Head string `json:"head"`
	pos  token.Pos
}

// range statements by position of their "for" keyword
var rangeStmts = map[token.Pos]*ast.RangeStmt{}

// conditions of the if statements that enclose a range statement (innermost last): the guard under which it runs
var rangeGuards = map[token.Pos][]ast.Expr{}
var theFset *token.FileSet

func rangeText(pos token.Pos) (string, string) {
	rs := rangeStmts[pos]
	if rs == nil {
		return "unknown", "range statement not found in the syntax tree"
	}
	var b bytes.Buffer
	for _, g := range rangeGuards[pos] {
		b.WriteString("if ")
		printer.Fprint(&b, theFset, g)
		b.WriteString(" => ")
	}
	guard := b.String()
	b.Reset()
	printer.Fprint(&b, theFset, rs)
	// comments are not part of the node's printed text; whitespace is normalised by the printer
	txt := b.String()
	h := sha1.Sum([]byte(guard + txt))
	head := txt
	if i := strings.Index(head, "\n"); i >= 0 {
		head = head[:i]
	}
	return fmt.Sprintf("%x", h[:6]), head
}


// String() and Error() methods of the repository's own types: reachable from anywhere through fmt
var stringers []*ssa.Function

func reach(root *ssa.Function) sets {
	seen := map[*ssa.Function]bool{}
	dyn := map[string]bool{}
	reads, writes := map[string]bool{}, map[string]bool{}
	ranges := map[token.Pos]mapRange{}
	nondet := map[string]bool{}
	var walk func(f *ssa.Function)
	walk = func(f *ssa.Function) {
		if !own(f) || seen[f] {
			return
		}
		seen[f] = true
		for _, a := range f.AnonFuncs {
			walk(a)
		}
		for _, b := range f.Blocks {
			for _, in := range b.Instrs {
				// any operand that is the address of a global: a load, a store, or an escaping address
				switch v := in.(type) {
				case *ssa.Store:
					if g, ok := v.Addr.(*ssa.Global); ok && strings.HasPrefix(g.Pkg.Pkg.Path(), "IG-Parser") && !isLock(g) {
						writes[gname(g)] = true
					}
					if g, ok := v.Val.(*ssa.Global); ok && strings.HasPrefix(g.Pkg.Pkg.Path(), "IG-Parser") && !isLock(g) {
						reads[gname(g)] = true // address taken
						writes[gname(g)] = true
					}
				default:
					for _, op := range in.Operands(nil) {
						if g, ok := (*op).(*ssa.Global); ok && strings.HasPrefix(g.Pkg.Pkg.Path(), "IG-Parser") && !isLock(g) {
							reads[gname(g)] = true
							if u, isLoad := in.(*ssa.UnOp); !(isLoad && u.Op == token.MUL) {
								// address used by something other than a plain load (field address, call argument ...): may be written through
								if _, isField := in.(*ssa.FieldAddr); !isField {
									if _, isIdx := in.(*ssa.IndexAddr); !isIdx {
										writes[gname(g)] = true
									}
								}
							}
						}
					}
				}
				fname := f.Pkg.Pkg.Name() + "." + f.Name()
				if f.Parent() != nil {
					fname = f.Pkg.Pkg.Name() + "." + f.Parent().Name() + "." + f.Name()
				}
				if r, ok := in.(*ssa.Range); ok {
					if _, isMap := r.X.Type().Underlying().(*types.Map); isMap {
						h, head := rangeText(r.Pos())
						ranges[r.Pos()] = mapRange{Func: fname, Hash: h, Head: head, pos: r.Pos()}
					}
				}
				if _, ok := in.(*ssa.Go); ok {
					nondet[fname+": go statement"] = true
				}
				if _, ok := in.(*ssa.Select); ok {
					nondet[fname+": select"] = true
				}
				if c, ok := in.(ssa.CallInstruction); ok {
					if sc := c.Common().StaticCallee(); sc != nil && sc.Pkg != nil {
						switch sc.Pkg.Pkg.Path() {
						case "time", "math/rand", "math/rand/v2", "crypto/rand":
							nondet[fname+": "+sc.Pkg.Pkg.Path()+"."+sc.Name()] = true
						case "os":
							if sc.Name() == "Getpid" || sc.Name() == "Getenv" || sc.Name() == "Hostname" {
								nondet[fname+": os."+sc.Name()] = true
							}
						}
					}
					if sc := c.Common().StaticCallee(); sc != nil {
						walk(sc)
					} else if c.Common().IsInvoke() {
						dyn[f.Pkg.Pkg.Name()+"."+f.Name()+": interface method "+c.Common().Method.Name()] = true
					} else if _, isBuiltin := c.Common().Value.(*ssa.Builtin); !isBuiltin {
						dyn[f.Pkg.Pkg.Name()+"."+f.Name()+": function value of type "+c.Common().Value.Type().String()] = true
					}
				}
			}
		}
	}
	walk(root)
	for _, m := range stringers {
		walk(m)
	}
	s := sets{Funcs: len(seen)}
	for k := range reads {
		s.Reads = append(s.Reads, k)
	}
	for k := range writes {
		s.Writes = append(s.Writes, k)
	}
	for k := range dyn {
		s.Dynamic = append(s.Dynamic, k)
	}
	for _, v := range ranges {
		s.MapRanges = append(s.MapRanges, v)
	}
	sort.Slice(s.MapRanges, func(i, j int) bool {
		a, b := s.MapRanges[i], s.MapRanges[j]
		if a.Func != b.Func {
			return a.Func < b.Func
		}
		return a.pos < b.pos
	})
	for i := range s.MapRanges {
		if i > 0 && s.MapRanges[i-1].Func == s.MapRanges[i].Func {
			s.MapRanges[i].Ord = s.MapRanges[i-1].Ord + 1
		}
	}
	for k := range nondet {
		s.Nondet = append(s.Nondet, k)
	}
	sort.Strings(s.Nondet)
	sort.Strings(s.Reads)
	sort.Strings(s.Writes)
	sort.Strings(s.Dynamic)
	return s
}

func main() {
	if len(os.Args) < 2 {
		fmt.Fprintln(os.Stderr, "usage: gossa <repo>")
		os.Exit(2)
	}
	cfg := &packages.Config{Mode: packages.LoadAllSyntax, Dir: os.Args[1], Fset: token.NewFileSet(), Tests: false}
	pkgs, err := packages.Load(cfg, "./core/...", "./web/...")
	if err != nil {
		fmt.Fprintln(os.Stderr, err)
		os.Exit(1)
	}
	if packages.PrintErrors(pkgs) > 0 {
		os.Exit(1)
	}
	theFset = cfg.Fset
	packages.Visit(pkgs, nil, func(p *packages.Package) {
		for _, file := range p.Syntax {
			var stack []ast.Node
			ast.Inspect(file, func(n ast.Node) bool {
				if n == nil {
					stack = stack[:len(stack)-1]
					return true
				}
				if rs, ok := n.(*ast.RangeStmt); ok {
					rangeStmts[rs.For] = rs
					for i, anc := range stack {
						if is, ok := anc.(*ast.IfStmt); ok {
							// only when the range statement sits in the then-branch (or deeper in it)
							if i+1 < len(stack) && stack[i+1] == ast.Node(is.Body) || i+1 == len(stack) {
								rangeGuards[rs.For] = append(rangeGuards[rs.For], is.Cond)
							}
						}
					}
				}
				stack = append(stack, n)
				return true
			})
		}
	})
	prog, _ := ssautil.AllPackages(pkgs, ssa.InstantiateGenerics)
	prog.Build()
	roots := map[string][2]string{
		"handle_tab":   {"IG-Parser/web/converter", "handleTabularOutput"},
		"handle_vis":   {"IG-Parser/web/converter", "handleVisualOutput"},
		"handler":      {"IG-Parser/web/converter", "converterHandler"},
		"endpoint_tab": {"IG-Parser/core/endpoints", "ConvertIGScriptToTabularOutput"},
		"endpoint_vis": {"IG-Parser/core/endpoints", "ConvertIGScriptToVisualTree"},
	}
	for f := range ssautil.AllFunctions(prog) {
		if own(f) && f.Signature.Recv() != nil && (f.Name() == "String" || f.Name() == "Error") && f.Signature.Params().Len() == 0 {
			stringers = append(stringers, f)
		}
	}
	out := map[string]interface{}{}
	for key, r := range roots {
		var fn *ssa.Function
		for f := range ssautil.AllFunctions(prog) {
			if f.Pkg != nil && f.Pkg.Pkg.Path() == r[0] && f.Name() == r[1] && f.Parent() == nil {
				fn = f
			}
		}
		if fn == nil {
			out[key] = map[string]string{"error": "function not found: " + r[0] + "." + r[1]}
			continue
		}
		out[key] = reach(fn)
	}
	// go statements, time and math/rand uses in the repository's own non-test code reachable from the handler
	json.NewEncoder(os.Stdout).Encode(out)
}
