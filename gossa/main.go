// gossa: read/write sets of package-level variables (G5 of DESIGN.md) computed on the SSA form of the repository.
// Usage: gossa <repo>   -> JSON on stdout.
//
// Call graph: static callees, closures (anonymous functions of a reachable function), and - for calls through an
// interface or a function value - nothing (they are listed as dynamic call sites). Restricted to functions of the
// repository's own packages (IG-Parser/...).  Test files are not loaded.
package main

import (
	"encoding/json"
	"fmt"
	"go/token"
	"os"
	"sort"
	"strings"

	"golang.org/x/tools/go/packages"
	"golang.org/x/tools/go/ssa"
	"golang.org/x/tools/go/ssa/ssautil"
)

func own(f *ssa.Function) bool {
	return f != nil && f.Pkg != nil && strings.HasPrefix(f.Pkg.Pkg.Path(), "IG-Parser")
}

func gname(g *ssa.Global) string { return g.Pkg.Pkg.Name() + "." + g.Name() }

// isLock: a package-level sync.Mutex / sync.RWMutex is synchronisation, not configuration state
func isLock(g *ssa.Global) bool {
	t := g.Type().String()
	return strings.Contains(t, "sync.Mutex") || strings.Contains(t, "sync.RWMutex")
}

type sets struct {
	Funcs   int      `json:"funcs"`
	Reads   []string `json:"reads"`
	Writes  []string `json:"writes"`
	Dynamic []string `json:"dynamic_call_sites"`
}

// String() and Error() methods of the repository's own types: reachable from anywhere through fmt
var stringers []*ssa.Function

func reach(root *ssa.Function) sets {
	seen := map[*ssa.Function]bool{}
	dyn := map[string]bool{}
	reads, writes := map[string]bool{}, map[string]bool{}
	var walk func(f *ssa.Function)
	walk = func(f *ssa.Function) {
		if !own(f) || seen[f] {
			return
		}
		seen[f] = true
		for _, a := range f.AnonFuncs {
			walk(a)
		}
		for _, b := range f.Blocks {
			for _, in := range b.Instrs {
				// any operand that is the address of a global: a load, a store, or an escaping address
				switch v := in.(type) {
				case *ssa.Store:
					if g, ok := v.Addr.(*ssa.Global); ok && strings.HasPrefix(g.Pkg.Pkg.Path(), "IG-Parser") && !isLock(g) {
						writes[gname(g)] = true
					}
					if g, ok := v.Val.(*ssa.Global); ok && strings.HasPrefix(g.Pkg.Pkg.Path(), "IG-Parser") && !isLock(g) {
						reads[gname(g)] = true // address taken
						writes[gname(g)] = true
					}
				default:
					for _, op := range in.Operands(nil) {
						if g, ok := (*op).(*ssa.Global); ok && strings.HasPrefix(g.Pkg.Pkg.Path(), "IG-Parser") && !isLock(g) {
							reads[gname(g)] = true
							if u, isLoad := in.(*ssa.UnOp); !(isLoad && u.Op == token.MUL) {
								// address used by something other than a plain load (field address, call argument ...): may be written through
								if _, isField := in.(*ssa.FieldAddr); !isField {
									if _, isIdx := in.(*ssa.IndexAddr); !isIdx {
										writes[gname(g)] = true
									}
								}
							}
						}
					}
				}
				if c, ok := in.(ssa.CallInstruction); ok {
					if sc := c.Common().StaticCallee(); sc != nil {
						walk(sc)
					} else if c.Common().IsInvoke() {
						dyn[f.Pkg.Pkg.Name()+"."+f.Name()+": interface method "+c.Common().Method.Name()] = true
					} else if _, isBuiltin := c.Common().Value.(*ssa.Builtin); !isBuiltin {
						dyn[f.Pkg.Pkg.Name()+"."+f.Name()+": function value of type "+c.Common().Value.Type().String()] = true
					}
				}
			}
		}
	}
	walk(root)
	for _, m := range stringers {
		walk(m)
	}
	s := sets{Funcs: len(seen)}
	for k := range reads {
		s.Reads = append(s.Reads, k)
	}
	for k := range writes {
		s.Writes = append(s.Writes, k)
	}
	for k := range dyn {
		s.Dynamic = append(s.Dynamic, k)
	}
	sort.Strings(s.Reads)
	sort.Strings(s.Writes)
	sort.Strings(s.Dynamic)
	return s
}

func main() {
	if len(os.Args) < 2 {
		fmt.Fprintln(os.Stderr, "usage: gossa <repo>")
		os.Exit(2)
	}
	cfg := &packages.Config{Mode: packages.LoadAllSyntax, Dir: os.Args[1], Fset: token.NewFileSet(), Tests: false}
	pkgs, err := packages.Load(cfg, "./core/...", "./web/...")
	if err != nil {
		fmt.Fprintln(os.Stderr, err)
		os.Exit(1)
	}
	if packages.PrintErrors(pkgs) > 0 {
		os.Exit(1)
	}
	prog, _ := ssautil.AllPackages(pkgs, ssa.InstantiateGenerics)
	prog.Build()
	roots := map[string][2]string{
		"handle_tab":   {"IG-Parser/web/converter", "handleTabularOutput"},
		"handle_vis":   {"IG-Parser/web/converter", "handleVisualOutput"},
		"handler":      {"IG-Parser/web/converter", "converterHandler"},
		"endpoint_tab": {"IG-Parser/core/endpoints", "ConvertIGScriptToTabularOutput"},
		"endpoint_vis": {"IG-Parser/core/endpoints", "ConvertIGScriptToVisualTree"},
	}
	for f := range ssautil.AllFunctions(prog) {
		if own(f) && f.Signature.Recv() != nil && (f.Name() == "String" || f.Name() == "Error") && f.Signature.Params().Len() == 0 {
			stringers = append(stringers, f)
		}
	}
	out := map[string]interface{}{}
	for key, r := range roots {
		var fn *ssa.Function
		for f := range ssautil.AllFunctions(prog) {
			if f.Pkg != nil && f.Pkg.Pkg.Path() == r[0] && f.Name() == r[1] && f.Parent() == nil {
				fn = f
			}
		}
		if fn == nil {
			out[key] = map[string]string{"error": "function not found: " + r[0] + "." + r[1]}
			continue
		}
		out[key] = reach(fn)
	}
	// go statements, time and math/rand uses in the repository's own non-test code reachable from the handler
	json.NewEncoder(os.Stdout).Encode(out)
}
