(* Calibration for C08: the printed text is a JSON document, for every tree and every byte string. *)
From Coq Require Import List Arith Bool Lia NArith Strings.Byte.
Import ListNotations.
Open Scope list_scope.
Definition str := list byte.

(* ---------------- spec: RFC 8259 over bytes (bytes >= 0x80 are taken as UTF-8 payload) ---------------- *)
Definition is_ws (c : byte) : bool := Byte.eqb c " " || Byte.eqb c x0a || Byte.eqb c x0d || Byte.eqb c x09.
Definition W (s : str) : Prop := forallb is_ws s = true.
Definition is_digit (c : byte) : bool := (48 <=? Byte.to_N c)%N && (Byte.to_N c <=? 57)%N.
Definition is_hex (c : byte) : bool :=
  is_digit c || ((97 <=? Byte.to_N c)%N && (Byte.to_N c <=? 102)%N) || ((65 <=? Byte.to_N c)%N && (Byte.to_N c <=? 70)%N).
Definition unescaped (c : byte) : bool :=            (* %x20-21 / %x23-5B / %x5D-10FFFF *)
  (32 <=? Byte.to_N c)%N && negb (Byte.eqb c """") && negb (Byte.eqb c "\").
Definition simple_escape (c : byte) : bool :=
  existsb (Byte.eqb c) [""""; "\"; "/"; "b"; "f"; "n"; "r"; "t"]%byte.

Inductive SBody : str -> Prop :=
| sb_nil : SBody []
| sb_char c s : unescaped c = true -> SBody s -> SBody (c :: s)
| sb_esc c s : simple_escape c = true -> SBody s -> SBody ("\"%byte :: c :: s)
| sb_u h1 h2 h3 h4 s : is_hex h1 = true -> is_hex h2 = true -> is_hex h3 = true -> is_hex h4 = true ->
    SBody s -> SBody ("\"%byte :: "u"%byte :: h1 :: h2 :: h3 :: h4 :: s).

Definition q : byte := """".
Inductive JV : str -> Prop :=
| jv_int ds : ds <> [] -> forallb is_digit ds = true -> (length ds = 1 \/ hd "0"%byte ds <> "0"%byte) -> JV ds
| jv_str b : SBody b -> JV (q :: b ++ [q])
| jv_arr0 w : W w -> JV ("["%byte :: w ++ ["]"%byte])
| jv_arr es : JElems es -> JV ("["%byte :: es ++ ["]"%byte])
| jv_obj0 w : W w -> JV ("{"%byte :: w ++ ["}"%byte])
| jv_obj ms : JMembers ms -> JV ("{"%byte :: ms ++ ["}"%byte])
with JElems : str -> Prop :=
| je_one w1 v w2 : W w1 -> JV v -> W w2 -> JElems (w1 ++ v ++ w2)
| je_cons w1 v w2 rest : W w1 -> JV v -> W w2 -> JElems rest -> JElems (w1 ++ v ++ w2 ++ ","%byte :: rest)
with JMembers : str -> Prop :=
| jm_one w1 k w2 w3 v w4 : W w1 -> SBody k -> W w2 -> W w3 -> JV v -> W w4 ->
    JMembers (w1 ++ (q :: k ++ [q]) ++ w2 ++ ":"%byte :: w3 ++ v ++ w4)
| jm_cons w1 k w2 w3 v w4 rest : W w1 -> SBody k -> W w2 -> W w3 -> JV v -> W w4 -> JMembers rest ->
    JMembers (w1 ++ (q :: k ++ [q]) ++ w2 ++ ":"%byte :: w3 ++ v ++ w4 ++ ","%byte :: rest).
Definition JsonText (s : str) : Prop := exists w1 v w2, W w1 /\ JV v /\ W w2 /\ s = w1 ++ v ++ w2.

(* ---------------- model: escaping as in the (repaired) printer ---------------- *)
Definition hexdigit (n : N) : byte :=
  match Byte.of_N (if (n <? 10)%N then 48 + n else 87 + n)%N with Some b => b | None => "0"%byte end.
Definition esc1 (c : byte) : str :=
  if Byte.eqb c """" then ["'"%byte]                       (* EscapeSymbolsForExport *)
  else if Byte.eqb c "\" then ["\"; "\"]%byte
  else if (Byte.to_N c <? 32)%N then ["\"; "u"; "0"; "0"]%byte ++ [hexdigit (Byte.to_N c / 16); hexdigit (Byte.to_N c mod 16)]
  else [c].
Definition esc (s : str) : str := flat_map esc1 s.

Lemma hexdigit_hex n : (n < 16)%N -> is_hex (hexdigit n) = true.
Proof.
  intros H. assert (E : In n (map N.of_nat (seq 0 16))).
  { apply in_map_iff. exists (N.to_nat n). split; [apply N2Nat.id|apply in_seq; lia]. }
  cbn in E. repeat (destruct E as [<-|E]; [reflexivity|]). destruct E.
Qed.

Lemma SBody_app a b : SBody a -> SBody b -> SBody (a ++ b).
Proof. intros Ha Hb. induction Ha; cbn [app]; [exact Hb|apply sb_char|apply sb_esc|apply sb_u]; auto. Qed.

Lemma esc1_body c : SBody (esc1 c).
Proof.
  unfold esc1. destruct (Byte.eqb c """") eqn:E1.
  - apply sb_char; [reflexivity|constructor].
  - destruct (Byte.eqb c "\") eqn:E2.
    + apply sb_esc; [reflexivity|constructor].
    + destruct (Byte.to_N c <? 32)%N eqn:E3.
      * apply N.ltb_lt in E3. cbn [app].
        apply sb_u; try reflexivity; try constructor; apply hexdigit_hex.
        -- apply N.div_lt_upper_bound; lia.
        -- apply N.mod_lt; lia.
      * apply sb_char; [|constructor]. unfold unescaped. rewrite E1, E2. cbn [negb andb].
        rewrite !andb_true_r. apply N.leb_le. apply N.ltb_ge in E3. exact E3.
Qed.
Lemma esc_body s : SBody (esc s).
Proof. induction s as [|c s IH]; cbn; [constructor|]. apply SBody_app; [apply esc1_body|exact IH]. Qed.

(* ---------------- model: the printer (leaf / binary operator, binary mode), hand-placed separators kept ---------------- *)
Inductive tree := TLeaf (text comp : str) | TOp (opname comp : str) (l r : tree).
Definition lit (s : list byte) : str := s.
Definition k_name : str := [q; "n"; "a"; "m"; "e"; q]%byte.
Definition k_comp : str := [q; "c"; "o"; "m"; "p"; q]%byte.
Definition k_level : str := [q; "l"; "e"; "v"; "e"; "l"; q]%byte.
Definition k_children : str := [q; "c"; "h"; "i"; "l"; "d"; "r"; "e"; "n"; q]%byte.
Definition colon : str := [":"; " "]%byte.
Definition sep_nl : str := [","; x0a]%byte.             (* TREE_PRINTER_SEPARATOR *)
Definition sep_sp : str := [","; " "]%byte.


Lemma W_app a b : W a -> W b -> W (a ++ b).
Proof. unfold W. intros. rewrite forallb_app. rewrite H, H0. reflexivity. Qed.
Lemma W_nil : W []. Proof. reflexivity. Qed.

Lemma JMembers_ws_l w ms : W w -> JMembers ms -> JMembers (w ++ ms).
Proof.
  intros Hw H. destruct H as [w1 k w2 w3 v w4 H1 Hk H2 H3 Hv H4 | w1 k w2 w3 v w4 rest H1 Hk H2 H3 Hv H4 Hr].
  - rewrite app_assoc. apply jm_one; auto using W_app.
  - rewrite app_assoc. apply jm_cons; auto using W_app.
Qed.
Lemma JElems_ws_l w es : W w -> JElems es -> JElems (w ++ es).
Proof.
  intros Hw H. destruct H as [w1 v w2 H1 Hv H2 | w1 v w2 rest H1 Hv H2 Hr].
  - rewrite app_assoc. apply je_one; auto using W_app.
  - rewrite app_assoc. apply je_cons; auto using W_app.
Qed.

(* members as the printer writes them:  "key": value   and   "key": value,<ws>rest *)
Definition member (k v : str) : str := (q :: k ++ [q]) ++ colon ++ v.
Lemma member_one k v : SBody k -> JV v -> JMembers (member k v).
Proof.
  intros Hk Hv. unfold member, colon.
  pose proof (jm_one [] k [] [" "%byte] v [] W_nil Hk W_nil eq_refl Hv W_nil) as H.
  cbn [app] in H. rewrite app_nil_r in H. cbn [app]. rewrite <- app_assoc in H. cbn [app] in H. rewrite <- app_assoc. cbn [app]. exact H.
Qed.
Lemma member_cons k v w rest : SBody k -> JV v -> W w -> JMembers rest -> JMembers (member k v ++ ","%byte :: w ++ rest).
Proof.
  intros Hk Hv Hw Hr. unfold member, colon.
  pose proof (jm_cons [] k [] [" "%byte] v [] (w ++ rest) W_nil Hk W_nil eq_refl Hv W_nil (JMembers_ws_l _ _ Hw Hr)) as H.
  cbn [app] in H. rewrite <- !app_assoc in H. cbn [app] in H. cbn [app]. rewrite <- !app_assoc. cbn [app]. exact H.
Qed.

Lemma elems_one v : JV v -> JElems v.
Proof. intros H. pose proof (je_one [] v [] W_nil H W_nil) as G. cbn [app] in G. rewrite app_nil_r in G. exact G. Qed.
Lemma elems_cons v w rest : JV v -> W w -> JElems rest -> JElems (v ++ ","%byte :: w ++ rest).
Proof.
  intros Hv Hw Hr. pose proof (je_cons [] v [] (w ++ rest) W_nil Hv W_nil (JElems_ws_l _ _ Hw Hr)) as G.
  cbn [app] in G. exact G.
Qed.

Section Printer.
Variable itoa : nat -> str.
Hypothesis itoa_int : forall n, JV (itoa n).

Fixpoint print (lvl : nat) (t : tree) : str :=
  match t with
  | TLeaf text comp =>
      "{"%byte :: (member [ "n"; "a"; "m"; "e" ]%byte (q :: esc text ++ [q]) ++ sep_sp ++
                   member [ "c"; "o"; "m"; "p" ]%byte (q :: comp ++ [q]) ++ sep_sp ++
                   member [ "l"; "e"; "v"; "e"; "l" ]%byte (itoa lvl)) ++ ["}"%byte]
  | TOp opname comp l r =>
      "{"%byte :: (member [ "n"; "a"; "m"; "e" ]%byte (q :: opname ++ [q]) ++ sep_nl ++
                   member [ "c"; "h"; "i"; "l"; "d"; "r"; "e"; "n" ]%byte
                          ("["%byte :: (print lvl l ++ sep_nl ++ print lvl r) ++ ["]"%byte]) ++ sep_sp ++
                   member [ "c"; "o"; "m"; "p" ]%byte (q :: comp ++ [q]) ++ sep_sp ++
                   member [ "l"; "e"; "v"; "e"; "l" ]%byte (itoa lvl)) ++ ["}"%byte]
  end.

Fixpoint wf (t : tree) : Prop :=
  match t with
  | TLeaf _ comp => SBody comp
  | TOp opname comp l r => SBody opname /\ SBody comp /\ wf l /\ wf r
  end.

Lemma key_body (k : str) : forallb unescaped k = true -> SBody k.
Proof. induction k as [|c k IH]; cbn; intros H; [constructor|]. apply andb_true_iff in H. destruct H. apply sb_char; auto. Qed.

(* C08 in miniature: whatever bytes the annotated texts contain, the output is one JSON value *)
Theorem print_is_json t : wf t -> forall lvl, JV (print lvl t).
Proof.
  induction t as [text comp|opname comp l IHl r IHr]; intros Hwf lvl; cbn [print].
  - apply jv_obj. unfold sep_sp.
    apply (member_cons _ _ [" "%byte]); [apply key_body; reflexivity|apply jv_str, esc_body|reflexivity|].
    apply (member_cons _ _ [" "%byte]); [apply key_body; reflexivity|apply jv_str, Hwf|reflexivity|].
    apply member_one; [apply key_body; reflexivity|apply itoa_int].
  - destruct Hwf as [Ho [Hc [Hl Hr]]]. apply jv_obj. unfold sep_sp, sep_nl.
    apply (member_cons _ _ [x0a]); [apply key_body; reflexivity|apply jv_str, Ho|reflexivity|].
    apply (member_cons _ _ [" "%byte]); [apply key_body; reflexivity| |reflexivity|].
    + apply jv_arr. apply (elems_cons _ [x0a]); [apply IHl, Hl|reflexivity|apply elems_one, IHr, Hr].
    + apply (member_cons _ _ [" "%byte]); [apply key_body; reflexivity|apply jv_str, Hc|reflexivity|].
      apply member_one; [apply key_body; reflexivity|apply itoa_int].
Qed.
End Printer.
Print Assumptions print_is_json.
