(* Calibration for C05: FindLogicalLinkage on pure trees. Node identity = reversed path from the root
   (head = last step), so "Parent" is `tl` and pointer comparisons are path comparisons. *)
From Coq Require Import List Bool Arith Lia.
Import ListNotations.

Inductive op := AND | OR | XOR | BAND | WAND.
Inductive tree := Lf | Nd (o : op) (l r : tree).
Definition rpath := list bool.                       (* false = Left, true = Right *)
Definition rpeq (a b : rpath) : bool := if list_eq_dec bool_dec a b then true else false.

Fixpoint sub (t : tree) (p : list bool) : option tree :=      (* p is a FORWARD path *)
  match p, t with
  | [], _ => Some t
  | d :: p', Nd _ l r => sub (if d then r else l) p'
  | _ :: _, Lf => None
  end.
Definition child (st : option tree) (d : bool) : option tree :=
  match st with Some (Nd _ l r) => Some (if d then r else l) | _ => None end.

(* searchDownward(origin, lastNode, startNode, targetNode, opsPath); None = out of fuel *)
Fixpoint down (f : nat) (last sp : rpath) (st : option tree) (tg : rpath) (ops : list op)
  : option (bool * list op) :=
  match f with
  | 0 => None
  | S f' =>
    match st with
    | None => Some (false, ops)                          (* nil start node: IsLeafNode() is true for nil *)
    | Some s =>
      if rpeq sp tg then Some (true, ops) else
      match s with
      | Lf => Some (false, ops)
      | Nd o l r =>
        let ops1 := ops ++ [o] in
        let side (d : bool) (k : option (bool * list op)) : option (bool * list op) :=
          let cp := d :: sp in
          if rpeq cp last then k else                   (* startNode.Left != lastNode *)
          let c := Some (if d then r else l) in
          match down f' cp cp c tg ops1 with
          | None => None
          | Some (true, o2) => Some (true, o2)
          | Some (false, ops2) =>                       (* "Delegate downwards": the redundant re-exploration *)
            match down f' (false :: cp) (false :: cp) (child c false) tg ops2 with
            | None => None
            | Some (true, o3) => Some (true, o3)
            | Some (false, _) =>
              match down f' (true :: cp) (true :: cp) (child c true) tg ops2 with
              | None => None
              | Some (true, o3) => Some (true, o3)
              | Some (false, _) => k
              end
            end
          end in
        side false (side true (Some (false, ops1)))
      end
    end
  end.

(* searchUpward(origin, lastNode, targetNode, opsPath) *)
Fixpoint up (f big : nat) (root : tree) (last tg : rpath) (ops : list op) : option (bool * list op) :=
  match f with
  | 0 => None
  | S f' =>
    match last with
    | [] => Some (false, ops)                            (* lastNode.Parent == nil *)
    | _ :: pp =>
      let pst := sub root (rev pp) in
      match down big last pp pst tg ops with
      | None => None
      | Some (true, o2) => Some (true, o2)
      | Some (false, _) =>
        let ops' := match pst with Some (Nd o _ _) => ops ++ [o] | _ => ops end in
        up f' big root pp tg ops'
      end
    end
  end.

Definition find_linkage (big : nat) (root : tree) (p q : rpath) : option (bool * list op) :=
  match down big p p (sub root (rev p)) q [] with
  | None => None
  | Some (true, o) => Some (true, o)
  | Some (false, _) => up (S (length p)) big root p q []
  end.

(* ---- spec: operators from p's parent up to the lowest common ancestor and down to q's parent ---- *)
Fixpoint ops_along (t : tree) (p : list bool) : list op :=
  match p, t with
  | d :: p', Nd o l r => o :: ops_along (if d then r else l) p'
  | _, _ => []
  end.
Fixpoint path_ops (t : tree) (p q : list bool) : list op :=      (* forward paths of two different leaves *)
  match t, p, q with
  | Nd o l r, dp :: p', dq :: q' =>
    if Bool.eqb dp dq then path_ops (if dp then r else l) p' q'
    else rev (ops_along (if dp then r else l) p') ++ [o] ++ ops_along (if dq then r else l) q'
  | _, _, _ => []
  end.

(* ---- exhaustive validation of the port against the spec on all small trees (a test, not the theorem) ---- *)
Fixpoint leaves (t : tree) : list (list bool) :=
  match t with Lf => [[]] | Nd _ l r => map (cons false) (leaves l) ++ map (cons true) (leaves r) end.
Fixpoint height (t : tree) : nat := match t with Lf => 0 | Nd _ l r => S (Nat.max (height l) (height r)) end.
Fixpoint trees (n : nat) : list tree :=               (* all trees of height <= n over {AND, OR, XOR} *)
  match n with
  | 0 => [Lf]
  | S n' => let ts := trees n' in
            Lf :: flat_map (fun o => flat_map (fun l => map (fun r => Nd o l r) ts) ts) [AND; OR; XOR]
  end.
Definition op_eqb (a b : op) := match a, b with AND,AND|OR,OR|XOR,XOR|BAND,BAND|WAND,WAND => true | _,_ => false end.
Fixpoint ops_eqb (a b : list op) := match a, b with [], [] => true | x::a', y::b' => op_eqb x y && ops_eqb a' b' | _,_ => false end.
Definition check_tree (t : tree) : bool :=
  let ls := leaves t in
  forallb (fun p => forallb (fun q =>
    if rpeq p q then true else
    match find_linkage (2 * height t + 3) t (rev p) (rev q) with
    | Some (true, o) => ops_eqb o (path_ops t p q)
    | _ => false
    end) ls) ls.

Definition all_small_ok : bool := forallb check_tree (trees 3).
Lemma port_matches_spec_on_small_trees : all_small_ok = true.
Proof. vm_compute. reflexivity. Qed.
Eval vm_compute in (length (trees 3)).
Print Assumptions port_matches_spec_on_small_trees.
