(* Draft signatures: types, spec definitions and the statements of the property theorems.
   Statements are given as Prop-valued definitions over Section variables that stand
   for the model functions; nothing is assumed or admitted. Type-checked with Coq 8.16.1. *)
From Coq Require Import List Arith Bool ZArith Permutation Sorted Strings.Byte.
Import ListNotations.

Definition str := list byte.
Inductive res (A : Type) := Ok (a : A) | Err (code : str) | Panic (site : nat) | Fatal (site : nat) | OutOfFuel.
Arguments Ok {A}. Arguments Err {A}. Arguments Panic {A}. Arguments Fatal {A}. Arguments OutOfFuel {A}.
Definition returns {A} (r : res A) : Prop := match r with Ok _ | Err _ => True | _ => False end.

(* ------------------------------------------------------------------ trees *)
Inductive op := AND | OR | XOR | BAND | WAND.
Record meta := { ctype : str; suffix : option str; annot : option str; shL : list str; shR : list str }.
Inductive field :=                                   (* the 27 fields of tree.Statement *)
| FA | FAp | FApC | FD | FI | FBdir | FBdirC | FBdirp | FBdirpC | FBind | FBindC | FBindp | FBindpC
| FE | FEp | FEpC | FM | FF | FP | FPC | FPp | FPpC | FCac | FCacC | FCex | FCexC | FO.
Inductive node :=
| Leaf (m : meta) (e : entry) (priv : list node)     (* priv = PrivateNodeLinks, detached values *)
| Comb (m : meta) (o : op) (l r : node)
with entry := ENil | EStr (s : str) | EStmt (st : stmt) | ENodes (ns : list node)
with stmt := Stmt (get : list (field * node)).       (* absent field = nil pointer *)
Definition dir := bool.                              (* false = left, true = right *)
Definition path := list dir.                         (* node identity = path from the component root *)

(* ------------------------------------------------------------------ spec: grammar of C01 *)
Inductive wop := WAnd | WOr | WXor.
Inductive ctree :=
| CT_leaf (w : str)
| CT_op (o : wop) (chain : bool) (l r : ctree)        (* chain: l is a same-operator node written without its parentheses *)
| CT_shared (sl : str) (t : ctree) (sr : str).        (* "(sl (..) sr)": text shared by every value of t *)
Inductive content := C_leaf (w : str) | C_comb (outer_parens : bool) (t : ctree).
Inductive sym := SA | SAp | SD | SI | SBdir | SBdirp | SBind | SBindp | SCac | SCex | SE | SEp | SM | SF | SP | SPp.
Inductive part := Filler (w : str) | Comp (s : sym) (suffix annot : str) (c : content).
Definition bstmt := list part.

Section Spec.
Variable render : bstmt -> str.                      (* Spec/Render.v: the printer *)
Variable denote : bstmt -> stmt.                     (* Spec/Denote.v: leaves in source order, operators as written,
                                                        chains left-associated, BAND between annotations of one symbol,
                                                        WAND between sibling combinations, shared text on the Comb node *)
Variable wf : bstmt -> Prop.                         (* documented grammar + the side conditions the proof needs *)
Variable perm_keeping_same_type : bstmt -> bstmt -> Prop.
Variable refill : bstmt -> bstmt -> Prop.            (* same parts, different Filler *)

(* ------------------------------------------------------------------ model functions (signatures) *)
Variable tables : Type.                              (* Gen.*: regexes, orders, wiring lists *)
Variable tables_ok : tables -> bool.                 (* the decidable side conditions, by vm_compute on Gen *)
Variable oracle : Type.                              (* iteration order of every Go map *)
Variable cfg : Type.                                 (* the 15 process-global switches *)
Variable parse_statement : tables -> oracle -> nat -> str -> res (list node).
Variable fuel_for : str -> nat.
Variable wf_stmt : stmt -> Prop.
Variable stmt_of : list node -> option stmt.         (* single statement wrapped in a node *)

(* C01 *)
Definition C01_roundtrip : Prop :=
  forall T O st, tables_ok T = true -> wf st ->
    parse_statement T O (fuel_for (render st)) (render st) = Ok [Leaf (Build_meta [] None None [] []) (EStmt (denote st)) []].
(* C18 (flat statements), corollary of C01 once denote is invariant *)
Definition C18_parse_invariant : Prop :=
  forall T O st st', tables_ok T = true -> wf st -> wf st' ->
    (perm_keeping_same_type st st' \/ refill st st') ->
    parse_statement T O (fuel_for (render st')) (render st') = parse_statement T O (fuel_for (render st)) (render st).
(* for ALL strings *)
Variable count : byte -> str -> nat.
Variable IMBALANCED : str.
Definition C11_imbalanced_parens : Prop :=
  forall T O f s, f > 0 -> count "("%byte s <> count ")"%byte s -> parse_statement T O f s = Err IMBALANCED.
Variable strings_of : list node -> list str.         (* every leaf entry, suffix, annotation, shared text *)
Variable built_from : str -> str -> Prop.            (* chars of the first come from slices of the second plus "( )" and space *)
Definition parse_leaf_provenance : Prop :=
  forall T O f s t, parse_statement T O f s = Ok t -> forall x, In x (strings_of t) -> built_from x s.
Definition parse_establishes_wf : Prop :=
  forall T O f s t st, parse_statement T O f s = Ok t -> stmt_of t = Some st -> wf_stmt st.
Definition C10_parse_total : Prop :=
  forall T O s, tables_ok T = true -> returns (parse_statement T O (fuel_for s) s).
Definition C12_oracle_independent : Prop :=
  forall T O1 O2 f s, parse_statement T O1 f s = parse_statement T O2 f s.

(* ------------------------------------------------------------------ C04: odometer and rows *)
Fixpoint cart {A} (ls : list (list A)) : list (list A) :=
  match ls with [] => [[]] | l :: rest => flat_map (fun x => map (cons x) (cart rest)) l end.
Definition nonempty {A} (l : list A) : bool := match l with [] => false | _ => true end.
Variable odometer : forall A, list (list A) -> res (list (list A)).   (* port of GenerateNodeArrayPermutations *)
Definition odometer_is_product : Prop :=
  forall A (ls : list (list A)), ls <> [] -> odometer A ls = Ok (cart (filter nonempty ls)).
Definition leafref := (field * path)%type.
Variable alternatives : tables -> stmt -> list (list leafref).        (* spec: per component, split at WAND, BAND aggregated *)
Record row := { row_id : str; choice : list leafref; cells : list (str * str) }.
Variable tab_rows : tables -> cfg -> oracle -> stmt -> str -> res (list row * list row).   (* own rows, rows of nested groups *)
Definition C04_rows_are_product : Prop :=
  forall T c O s id own nested, tables_ok T = true -> wf_stmt s -> tab_rows T c O s id = Ok (own, nested) ->
    map choice own = cart (alternatives T s).       (* equality of lists: no row twice, none missing, in odometer order *)

(* ------------------------------------------------------------------ C05: linkage *)
Variable leaf_at : node -> path -> Prop.
Variable path_ops : node -> path -> path -> list op. (* spec: operators from p's parent up to the LCA and down to q's parent *)
Variable find_linkage : nat -> node -> path -> path -> res (option (list op)).   (* port of searchDownward/searchUpward *)
Variable size : node -> nat.
Definition find_linkage_spec : Prop :=
  forall t p q, leaf_at t p -> leaf_at t q -> p <> q -> find_linkage (size t * size t) t p q = Ok (Some (path_ops t p q)).
Variable add_ref : list str -> nat -> list str.      (* port of GenerateReferenceSlice with ranges *)
Variable expand_refs : list str -> list nat.
Definition refs_roundtrip : Prop :=
  forall ids, StronglySorted lt ids -> expand_refs (fold_left add_ref ids []) = ids.

(* ------------------------------------------------------------------ C06: identifiers *)
Variable id_chars_ok : str -> Prop.                  (* letters, digits, dots *)
Variable all_refs : list row -> list str.            (* reference cells and both linkage cells, ranges expanded *)
Variable is_group_prefix : str -> str -> Prop.
Definition C06_ids_unique : Prop :=
  forall T c O s id own nested, tables_ok T = true -> id_chars_ok id -> wf_stmt s ->
    tab_rows T c O s id = Ok (own, nested) -> NoDup (map row_id (own ++ nested)).
Definition C06_refs_resolve : Prop :=
  forall T c O s id own nested r, tables_ok T = true -> id_chars_ok id -> wf_stmt s ->
    tab_rows T c O s id = Ok (own, nested) -> In r (all_refs (own ++ nested)) ->
    exists x, In x (own ++ nested) /\ (row_id x = r \/ is_group_prefix r (row_id x)).

(* ------------------------------------------------------------------ C07: table shape, for all inputs *)
Variable opts : Type.
Variable tab_convert : tables -> cfg -> oracle -> str (*orig*) -> str (*stmt*) -> str (*id*) -> opts -> res str.
Variable lines : str -> list str.
Variable cells_of : str -> list str.
Variable forbidden : byte -> bool.                   (* separator, CR, LF, double quote *)
Definition C07_rectangular_and_safe : Prop :=
  forall T c O orig s id o out, tables_ok T = true -> tab_convert T c O orig s id o = Ok out ->
    (forall l1 l2, In l1 (lines out) -> In l2 (lines out) -> length (cells_of l1) = length (cells_of l2)) /\
    (forall l x, In l (lines out) -> In x (cells_of l) -> forallb (fun b => negb (forbidden b)) x = true).

(* ------------------------------------------------------------------ C08 / C09 / C17 / C20: visual *)
Inductive json := JNum (z : Z) | JStr (s : str) | JArr (l : list json) | JObj (l : list (str * json)).
Variable Json : str -> json -> Prop.                 (* Spec/Json.v: RFC 8259 text denotes value *)
Variable vopts : Type.
Variable vis_print : tables -> vopts -> stmt -> res str.          (* port of PrintTree/PrintNodeTree: string concatenation *)
Variable to_json : tables -> vopts -> stmt -> json.               (* the structured value it serialises *)
Definition C08_valid : Prop :=
  forall T o s out, tables_ok T = true -> wf_stmt s -> vis_print T o s = Ok out -> Json out (to_json T o s).
Variable view : Type.                                (* per component: operator tree, leaf texts with shared text, levels, properties, annotations *)
Variable view_of_stmt : stmt -> view.
Variable view_of_json : json -> option view.
Variable binary_tree_mode : vopts.
Definition C09_binary_roundtrip : Prop :=
  forall T s, tables_ok T = true -> wf_stmt s -> view_of_json (to_json T binary_tree_mode s) = Some (view_of_stmt s).
Variable entries : json -> list (str * str * Z).     (* (component, value text, level) *)
Definition C17_entries_invariant : Prop :=
  forall T o s, tables_ok T = true -> wf_stmt s ->
    Permutation (entries (to_json T o s)) (entries (to_json T binary_tree_mode s)).
Variable dov_spec : node -> Z.                       (* 1 | l+r-1 (AND,BAND,WAND) | l+r (XOR) | l+r+1 (OR) | nested total *)
Variable node_complexity : tables -> node -> res Z.  (* port of CalculateStateComplexity *)
Definition C20_node : Prop :=
  forall T n, tables_ok T = true -> node_complexity T n = Ok (dov_spec n).

(* ------------------------------------------------------------------ C13 / C14: global switches *)
Variable gvar request response : Type.
Variable value : Type.
Definition gstate := gvar -> value.
Inductive instr :=
| ISet (g : gvar) (e : request -> gstate -> value)
| IConvert (reads : list gvar) (conv : request -> gstate -> response)
| ILock | IUnlock | IYield (point : nat).
Variable run_seq : list instr -> list request -> gstate -> list response.        (* requests one after another *)
Variable covers : list instr -> bool.                (* every variable read by a conversion is set earlier in the same
                                                        program from the request alone *)
Variable frame_ok : list instr -> Prop.              (* IConvert's conv depends on the state through `reads` only *)
Definition C13_history_independent : Prop :=
  forall p h r g0, covers p = true -> frame_ok p ->
    nth_error (run_seq p (h ++ [r]) g0) (length h) = nth_error (run_seq p [r] g0) 0.
Variable locked : list instr -> bool.                (* the whole program lies between ILock and IUnlock *)
Variable schedule : Type.
Variable run_conc : list instr -> list request -> schedule -> gstate -> option (list response).  (* None: schedule not executable *)
Definition C14_schedule_independent : Prop :=
  forall p reqs sch g0 resp, locked p = true -> covers p = true -> frame_ok p ->
    run_conc p reqs sch g0 = Some resp ->
    forall i r, nth_error reqs i = Some r -> nth_error resp i = nth_error (run_seq p [r] g0) 0.
End Spec.
