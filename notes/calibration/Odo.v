From Coq Require Import List Arith Bool Lia.
Import ListNotations.

(* ---- spec ---- *)
Fixpoint cart {A} (ls : list (list A)) : list (list A) :=
  match ls with
  | [] => [[]]
  | l :: rest => flat_map (fun x => map (cons x) (cart rest)) l
  end.
Definition nonempty {A} (l : list A) : bool := match l with [] => false | _ => true end.

(* ---- model of GenerateNodeArrayPermutations ---- *)
Inductive res (A : Type) := Ok (a : A) | ErrEmpty | Panic | OutOfFuel.
Arguments Ok {A}. Arguments ErrEmpty {A}. Arguments Panic {A}. Arguments OutOfFuel {A}.

(* state: (pos_i, array_i) from the LAST array to the first *)
Section Odo.
Context {A : Type}.
Definition dig := (nat * list A)%type.

Fixpoint shift (carry : bool) (l : list dig) : option (list dig) :=
  match l with
  | [] => Some []
  | (p, a) :: rest =>
    let p := if carry then S p else p in
    if (0 <? p) && (length a <=? p) then
      match rest with
      | [] => None
      | [(p0, a0)] => if S p0 =? length a0 then None else option_map (cons (0, a)) (shift true rest)
      | _ => option_map (cons (0, a)) (shift true rest)
      end
    else option_map (cons (p, a)) (shift false rest)
  end.

Definition row (st : list dig) : list A :=
  flat_map (fun d => match nth_error (snd d) (fst d) with Some x => [x] | None => [] end) (rev st).

Definition bump (st : list dig) : list dig :=
  match st with [] => [] | (p, a) :: r => (S p, a) :: r end.

Fixpoint run (fuel : nat) (st : list dig) (ct n : nat) (acc : list (list A)) : res (list (list A)) :=
  match fuel with
  | 0 => OutOfFuel
  | S f =>
    match shift false st with
    | None => Ok (rev acc)
    | Some st' =>
      if n <=? ct then Panic else
      run f (bump st') (S ct) n (row st' :: acc)
    end
  end.

Definition count (ls : list (list A)) : nat :=
  fold_left (fun n a => if length a =? 0 then n else n * length a) ls 1.

Definition odometer (ls : list (list A)) : res (list (list A)) :=
  match ls with
  | [] => ErrEmpty
  | _ => let n := count ls in
         run (S (S n)) (map (fun a => (0, a)) (rev ls)) 0 n []
  end.
End Odo.

(* sanity *)
Eval vm_compute in odometer [[1;2];[];[3;4;5]].
Eval vm_compute in odometer [[];[1;2]].
Eval vm_compute in odometer [[1]].
Eval vm_compute in (cart (filter nonempty [[1;2];[];[3;4;5]])).
