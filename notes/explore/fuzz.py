import random, sys
random.seed(int(sys.argv[1])); n=int(sys.argv[2])
toks=['A','A,p','D','I','Bdir','Bdir,p','Bind','Cac','Cex','E','E,p','M','F','P','P,p','O','(',')','{','}','[',']','[AND]','[OR]','[XOR]','[wAND]','[bAND]',' ',' ',' ','x','y z','1',',',',p','[a=b]','A(x)','I(y)','Cac{A(a) I(b)}','{I(a) [XOR] I(b)}','A1','"','\\']
for i in range(n):
    k=random.randint(1,14)
    s=''.join(random.choice(toks) for _ in range(k))
    # balance-ish: half the time fix counts
    if random.random()<0.7:
        d=s.count('(')-s.count(')')
        s = s + (')'*d if d>0 else '') ; s = ('('*(-d) if d<0 else '') + s
        d=s.count('{')-s.count('}')
        s = s + ('}'*d if d>0 else '') ; s = ('{'*(-d) if d<0 else '') + s
    print(s)
