package main

import (
	"strings"
	"fmt"
	"go/token"
	"go/types"
	"os"
	"sort"

	"golang.org/x/tools/go/callgraph"
	"golang.org/x/tools/go/callgraph/cha"
	"golang.org/x/tools/go/packages"
	"golang.org/x/tools/go/ssa"
	"golang.org/x/tools/go/ssa/ssautil"
)

func main() {
	cfg := &packages.Config{Mode: packages.LoadAllSyntax, Dir: "/repo", Fset: token.NewFileSet()}
	pkgs, err := packages.Load(cfg, "./core/...", "./web/...")
	if err != nil { fmt.Println(err); os.Exit(1) }
	prog, _ := ssautil.AllPackages(pkgs, ssa.InstantiateGenerics)
	prog.Build()
	_ = cha.CallGraph
	// find roots
	var roots []*ssa.Function
	for f := range ssautil.AllFunctions(prog) {
		if f.Pkg != nil && f.Pkg.Pkg.Path() == "IG-Parser/core/endpoints" && (f.Name() == "ConvertIGScriptToTabularOutput" || f.Name() == "ConvertIGScriptToVisualTree") {
			roots = append(roots, f)
		}
	}
	for _, root := range roots {
		seen := map[*ssa.Function]bool{}
		dyn := map[string]bool{}
		var walk func(f *ssa.Function)
		walk = func(f *ssa.Function) {
			if f == nil || seen[f] { return }
			if f.Pkg == nil || !strings.HasPrefix(f.Pkg.Pkg.Path(), "IG-Parser") { return }
			seen[f] = true
			for _, a := range f.AnonFuncs { walk(a) }
			for _, b := range f.Blocks { for _, in := range b.Instrs {
				if c, ok := in.(ssa.CallInstruction); ok {
					if sc := c.Common().StaticCallee(); sc != nil { walk(sc) } else if !c.Common().IsInvoke() { dyn[f.Name()] = true } else { dyn[f.Name()+":invoke:"+c.Common().Method.Name()] = true }
				}
			}}
		}
		walk(root)
		var _ callgraph.Node
		fmt.Println(" dynamic calls in:", dyn)
		reads := map[string]bool{}; writes := map[string]bool{}
		for f := range seen {
			if f.Pkg == nil || len(f.Pkg.Pkg.Path()) < 9 || f.Pkg.Pkg.Path()[:9] != "IG-Parser" { continue }
			for _, b := range f.Blocks { for _, in := range b.Instrs {
				switch v := in.(type) {
				case *ssa.UnOp:
					if g, ok := v.X.(*ssa.Global); ok && v.Op == token.MUL { reads[g.Pkg.Pkg.Name()+"."+g.Name()] = true }
				case *ssa.Store:
					if g, ok := v.Addr.(*ssa.Global); ok { writes[g.Pkg.Pkg.Name()+"."+g.Name()] = true }
				}
			}}
		}
		var r, w []string
		for k := range reads { r = append(r, k) }; for k := range writes { w = append(w, k) }
		sort.Strings(r); sort.Strings(w)
		fmt.Println(root.Name(), "funcs:", len(seen)); fmt.Println(" reads:", r); fmt.Println(" writes:", w)
	}
	_ = types.Typ
}
