package main

import (
	"IG-Parser/core/exporter/tabular"
	"IG-Parser/core/parser"
	"IG-Parser/core/tree"
	"fmt"
	"io"
	"log"
	"os"
	"time"
)

func leaf(s string) *tree.Node { return &tree.Node{Entry: s} }
func comb(op string, l, r *tree.Node) *tree.Node {
	n := &tree.Node{LogicalOperator: op, Left: l, Right: r}
	l.Parent = n; r.Parent = n
	return n
}

func main() {
	log.SetOutput(io.Discard)
	devnull, _ := os.OpenFile(os.DevNull, os.O_WRONLY, 0); real := os.Stdout; os.Stdout = devnull
	// built tree for: A(a [AND] b [AND] c) I((x [OR] y) [XOR] z)
	a := comb("AND", comb("AND", leaf("a"), leaf("b")), leaf("c")); a.ComponentType = "A"
	i := comb("XOR", comb("OR", leaf("x"), leaf("y")), leaf("z")); i.ComponentType = "I"
	st := &tree.Statement{Attributes: a, Aim: i}
	built := []*tree.Node{{Entry: st}}
	parsed, _ := parser.ParseStatement("A(a [AND] b [AND] c) I((x [OR] y) [XOR] z)")
	tabular.SetProduceIGExtendedOutput(true)
	t0 := time.Now()
	var o1, o2 string
	for k := 0; k < 200; k++ {
		r := tabular.GenerateTabularOutputFromParsedStatements(built, "", "", "", "7", "", true, true, "|", tabular.OUTPUT_TYPE_CSV, true, tabular.ORIGINAL_STATEMENT_OUTPUT_NONE, tabular.IG_SCRIPT_OUTPUT_NONE)
		o1 = r[0].Output
	}
	d1 := time.Since(t0)
	r2 := tabular.GenerateTabularOutputFromParsedStatements(parsed, "", "", "", "7", "", true, true, "|", tabular.OUTPUT_TYPE_CSV, true, tabular.ORIGINAL_STATEMENT_OUTPUT_NONE, tabular.IG_SCRIPT_OUTPUT_NONE)
	o2 = r2[0].Output
	t0 = time.Now()
	var v1 string
	for k := 0; k < 200; k++ { v1, _ = built[0].PrintNodeTree(nil, false, true, false, true, false, 0) }
	d2 := time.Since(t0)
	v2, _ := parsed[0].PrintNodeTree(nil, false, true, false, true, false, 0)
	fmt.Fprintln(real, "tab equal:", o1 == o2, "per export:", d1/200, " vis equal:", v1 == v2, "per print:", d2/200)
}
