package main

import (
	"IG-Parser/core/endpoints"
	"IG-Parser/core/exporter/tabular"
	"IG-Parser/core/tree"
	"bufio"
	"encoding/json"
	"fmt"
	"io"
	"log"
	"os"
	"time"
)

type In struct {
	Stmt string `json:"stmt"`
	Id   string `json:"id"`
	Orig string `json:"orig"`
	// tabular
	Ext, Anno, Dyn, Hdr bool
	Fmt  string
	PO, PI string
	// visual
	Flat, Bin, Dov, AcTop bool
	Modes []string // which to run: "tab","vis"
}
type Out struct {
	TabErr string `json:"taberr,omitempty"`
	TabOut string `json:"tabout,omitempty"`
	VisErr string `json:"viserr,omitempty"`
	VisOut string `json:"visout,omitempty"`
	Panic  string `json:"panic,omitempty"`
	Ms     int64  `json:"ms"`
}

func run(in In) (o Out) {
	defer func() { if r := recover(); r != nil { o.Panic = fmt.Sprint(r) } }()
	t0 := time.Now()
	for _, m := range in.Modes {
		switch m {
		case "tab":
			tabular.SetProduceIGExtendedOutput(false); tabular.SetIncludeSharedElementsInTabularOutput(true)
			tabular.SetDynamicOutput(in.Dyn); tabular.SetProduceIGExtendedOutput(in.Ext); tabular.SetIncludeAnnotations(in.Anno); tabular.SetIncludeHeaders(in.Hdr)
			f := in.Fmt; if f == "" { f = tabular.OUTPUT_TYPE_CSV }
			po := in.PO; if po == "" { po = tabular.ORIGINAL_STATEMENT_OUTPUT_NONE }
			pi := in.PI; if pi == "" { pi = tabular.IG_SCRIPT_OUTPUT_NONE }
			res, err := endpoints.ConvertIGScriptToTabularOutput(in.Orig, in.Stmt, in.Id, f, "", true, in.Hdr, po, pi)
			o.TabErr = err.ErrorCode
			for _, r := range res { o.TabOut += r.Output }
		case "vis":
			tabular.SetDynamicOutput(in.Dyn); tabular.SetIncludeAnnotations(in.Anno); tabular.SetIncludeDegreeOfVariability(in.Dov)
			tree.SetFlatPrinting(in.Flat); tree.SetBinaryPrinting(in.Bin); tree.SetMoveActivationConditionsToFront(in.AcTop)
			out, err := endpoints.ConvertIGScriptToVisualTree(in.Stmt, in.Id, "")
			o.VisErr = err.ErrorCode; o.VisOut = out
		}
	}
	o.Ms = time.Since(t0).Milliseconds()
	return
}

func main() {
	log.SetOutput(io.Discard)
	sc := bufio.NewScanner(os.Stdin); sc.Buffer(make([]byte, 1<<22), 1<<22)
	realOut := os.Stdout
	devnull, _ := os.OpenFile(os.DevNull, os.O_WRONLY, 0)
	os.Stdout = devnull
	w := bufio.NewWriter(realOut); defer w.Flush()
	enc := json.NewEncoder(w)
	for sc.Scan() {
		var in In
		if err := json.Unmarshal(sc.Bytes(), &in); err != nil { enc.Encode(Out{Panic: "bad input " + err.Error()}); continue }
		enc.Encode(run(in)); w.Flush()
	}
}
