import random
random.seed(3)
stm=[
"A,p(National Organic Program's) A(Program Manager), Cex(on behalf of the Secretary), D(must) I(inform), I(review [AND] (recertify [XOR] sanction)) Bdir(approved (certified production [AND] handling operations [AND] accredited certifying agents)) Cex(according to the guidelines provided in the (Act [XOR] regulations in this part)) if Cac{Cac{A(Program Manager) I(suspects [OR] establishes) Bdir(violations)} [AND] Cac{E(Program Manager) F(is authorized) for the P,p(relevant) P(region)}}, or else O{O{A,p(Manager's) A(supervisor) D(may) I(suspend [XOR] revoke) Bdir,p(Program Manager's) Bdir(authority)} [XOR] O{A(regional board) D(may) I(warn [OR] fine) Bdir,p(violating) Bdir(Program Manager)}}",
"A(actor1) {I(action1) Bdir(directobject1) [XOR] {I(action2) Bdir(directobject2) Bind(indirectobject2) [AND] I(action3) Bdir(directobject3) Cex(constraint3)}} Cac(condition1)",
"A(Program Manager) D(may) I(administer) Bdir(sanctions) Cac{Cac{A(Program Manager) I(suspects) Bdir{A(farmer) I(violates [OR] does not comply) with Bdir(regulations)}} [OR] Cac{A(Program Manager) I(has witnessed) Bdir,p(farmer's) Bdir(non-compliance) Cex(in the past)}}",
"Cac{A(Program Manager) I(suspects [OR] establishes) Bdir(violations)}",
"Cac{Cac{A(b) I(y)} [AND] Cac{A(c) I(z)}}",
"Cac1[ann=x]{Cac{A(b) I(y)} [AND] {Cac{A(c) I(z)} [XOR] Cac{A(d) I(w)}}}",
"A1[x=y](actor 1) I(act) A,p(first) Bdir1,p[prop=(a,b)](z) A[a=[b,c]](q)",
"{I(x) Bdir(o1) [XOR] I(y) Bdir(o2)}", "[stmtann]{I(x) [AND] I(y)} trailing", "A(x) {I(y)} {} {{}}",
]
toks=['A','A,p','D','I','Bdir','Bdir,p','Cac','Cex','E','P','O','(',')','{','}','[',']','[AND]','[OR]','[XOR]',' ',' ','x','y z','1',',','[a=b]','A(x)','I(y)','Cac{A(a) I(b)}','{I(a) [XOR] I(b)}','A1','é','’']
for i in range(150):
    stm.append(''.join(random.choice(toks) for _ in range(random.randint(1,16))))
for s in stm:
    for k in ['CPC','NCT','HDR_A','ANNP','BRACE','COMBPAR']:
        print(k+'\t'+s)
