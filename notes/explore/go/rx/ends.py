import json, sys, time
sys.setrecursionlimit(100000)
d=json.load(open('ast.json')); nodes={n['id']:n for n in d['nodes']}; roots=d['roots']

def in_class(runes, c):
    for i in range(0,len(runes),2):
        if runes[i] <= c <= runes[i+1]: return True
    return False

class M:
    def __init__(self, text):
        self.t=[ord(ch) for ch in text]; self.n=len(self.t); self.memo={}; self.work=0
    def ends(self, rid, i):
        key=(rid,i)
        r=self.memo.get(key)
        if r is not None: return r
        nd=nodes[rid]; op=nd['op']; t=self.t
        self.work+=1
        if op=='Literal':
            rs=nd['rune']; res=[i+len(rs)] if t[i:i+len(rs)]==rs else []
        elif op=='CharClass':
            res=[i+1] if i<self.n and in_class(nd['rune'], t[i]) else []
        elif op=='EmptyMatch': res=[i]
        elif op=='BeginText': res=[i] if i==0 else []
        elif op=='EndText': res=[i] if i==self.n else []
        elif op=='Capture': res=self.ends(nd['sub'][0], i)
        elif op=='Concat':
            cur=[i]
            for s in nd['sub']:
                nxt=[]; seen=set()
                for e in cur:
                    for e2 in self.ends(s,e):
                        if e2 not in seen: seen.add(e2); nxt.append(e2)
                cur=nxt
                if not cur: break
            res=cur
        elif op=='Alternate':
            res=[]; seen=set()
            for s in nd['sub']:
                for e in self.ends(s,i):
                    if e not in seen: seen.add(e); res.append(e)
        elif op=='Quest':
            res=[]; seen=set()
            for e in self.ends(nd['sub'][0],i):
                if e not in seen: seen.add(e); res.append(e)
            if i not in seen: res.append(i)
        elif op in ('Star','Plus'):
            # greedy: one iteration (must consume), then star again, else stop
            s=nd['sub'][0]
            res=[]; seen=set()
            for e in self.ends(s,i):
                if e==i: continue
                for e2 in self.star(rid,s,e):
                    if e2 not in seen: seen.add(e2); res.append(e2)
            if op=='Star':
                if i not in seen: res.append(i)
        else: raise Exception(op)
        self.memo[key]=res
        return res
    def star(self, rid, s, i):
        key=('*',rid,i)
        r=self.memo.get(key)
        if r is not None: return r
        res=[]; seen=set()
        for e in self.ends(s,i):
            if e==i: continue
            for e2 in self.star(rid,s,e):
                if e2 not in seen: seen.add(e2); res.append(e2)
        if i not in seen: res.append(i)
        self.memo[key]=res
        return res
    def findall(self, root):
        out=[]; pos=0
        while pos<=self.n:
            found=None
            for s in range(pos, self.n+1):
                es=self.ends(root,s)
                if es: found=(s,es[0]); break
            if not found: break
            out.append([found[0],found[1]])
            pos = found[1] if found[1]>found[0] else found[1]+1
        return out

if __name__=='__main__':
    tot=0; mism=0; t0=time.time(); maxw=0
    golines=open(sys.argv[2]).read().splitlines()
    for ln,(line,g) in enumerate(zip(open(sys.argv[1]).read().split('\n'), golines)):
        k,t=line.split('\t',1)
        m=M(t); r=m.findall(roots[k]); maxw=max(maxw,m.work)
        off=[0]
        for ch in t: off.append(off[-1]+len(ch.encode('utf-8')))
        r=[[off[a],off[b]] for a,b in r]
        gs=str(r).replace(',','').replace('[ ','[')
        # normalise go format [[a b] [c d]]
        exp='['+' '.join('[%d %d]'%(a,b) for a,b in r)+']'
        tot+=1
        if exp!=g:
            mism+=1
            if mism<10: print('MISMATCH',k,repr(t[:120]),'py',exp,'go',g)
    print(tot,'cases',mism,'mismatches',round(time.time()-t0,1),'s maxwork',maxw)
