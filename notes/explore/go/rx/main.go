package main

import (
	"IG-Parser/core/parser"
	"bufio"
	"encoding/json"
	"fmt"
	"os"
	"regexp"
	"regexp/syntax"
)

type N struct {
	Id   int     `json:"id"`
	Op   string  `json:"op"`
	Sub  []int   `json:"sub,omitempty"`
	Rune []int32 `json:"rune,omitempty"`
	Min  int     `json:"min,omitempty"`
	Max  int     `json:"max,omitempty"`
	Flags int    `json:"flags,omitempty"`
}

var ids = map[string]int{}
var nodes []N

func conv(r *syntax.Regexp) int {
	key := fmt.Sprintf("%d|%d|%s", r.Op, r.Flags, r.String())
	if id, ok := ids[key]; ok { return id }
	n := N{Op: r.Op.String(), Min: r.Min, Max: r.Max, Flags: int(r.Flags)}
	for _, s := range r.Sub { n.Sub = append(n.Sub, conv(s)) }
	n.Rune = r.Rune
	n.Id = len(nodes)
	ids[key] = n.Id
	nodes = append(nodes, n)
	return n.Id
}

func main() {
	pats := map[string]string{
		"CPC": parser.COMPONENT_PAIR_COMBINATIONS,
		"NCT": parser.NESTED_COMBINATIONS_TERMINATED,
		"HDR_A": "A" + parser.COMPONENT_SUFFIX_SYNTAX + parser.COMPONENT_ANNOTATION_SYNTAX + "\\(",
		"ANNP": parser.COMPONENT_ANNOTATION_SYNTAX + "\\(",
		"BRACE": parser.COMPONENT_SUFFIX_SYNTAX + parser.COMPONENT_ANNOTATION_SYNTAX + "\\{",
		"COMBPAR": parser.COMBINATION_PATTERN_PARENTHESES,
	}
	if os.Args[1] == "ast" {
		roots := map[string]int{}
		for k, p := range pats {
			re, err := syntax.Parse(p, syntax.Perl)
			if err != nil { panic(err) }
			roots[k] = conv(re.Simplify())
		}
		json.NewEncoder(os.Stdout).Encode(map[string]interface{}{"nodes": nodes, "roots": roots})
		return
	}
	// match mode: lines "PAT\ttext" -> print FindAllStringIndex
	comp := map[string]*regexp.Regexp{}
	for k, p := range pats { comp[k] = regexp.MustCompile(p) }
	sc := bufio.NewScanner(os.Stdin); sc.Buffer(make([]byte, 1<<20), 1<<20)
	for sc.Scan() {
		line := sc.Text()
		var k, t string
		for i := 0; i < len(line); i++ { if line[i] == '\t' { k, t = line[:i], line[i+1:]; break } }
		fmt.Println(comp[k].FindAllStringIndex(t, -1))
	}
}
