package main

import (
	"IG-Parser/core/parser"
	"IG-Parser/core/tree"
	"bufio"
	"fmt"
	"io"
	"log"
	"os"
	"strings"
)

func show(n *tree.Node) string {
	if n == nil { return "nil" }
	if n.IsEmptyOrNilNode() { return "E" }
	if n.Left == nil && n.Right == nil && n.LogicalOperator == "" {
		return "L<" + fmt.Sprint(n.Entry) + ">"
	}
	return "C(" + n.LogicalOperator + " " + show(n.Left) + " " + show(n.Right) + " sl=[" + strings.Join(n.SharedLeft, ";") + "] sr=[" + strings.Join(n.SharedRight, ";") + "])"
}

func main() {
	log.SetOutput(io.Discard)
	sc := bufio.NewScanner(os.Stdin)
	sc.Buffer(make([]byte, 1<<20), 1<<20)
	w := bufio.NewWriter(os.Stdout)
	defer w.Flush()
	for sc.Scan() {
		func() {
			defer func() { if r := recover(); r != nil { fmt.Fprintln(w, "PANIC") } }()
			n, _, err := parser.ParseIntoNodeTree(sc.Text(), false, "(", ")")
			if err.ErrorCode == tree.PARSING_NO_ERROR || err.ErrorCode == tree.PARSING_ERROR_NO_COMBINATIONS {
				fmt.Fprintln(w, err.ErrorCode, show(n))
			} else {
				fmt.Fprintln(w, err.ErrorCode)
			}
		}()
	}
}
