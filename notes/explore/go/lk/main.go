package main

import (
	"IG-Parser/core/tree"
	"fmt"
	"io"
	"log"
	"math/rand"
	"strings"
)

var ops = []string{"AND", "OR", "XOR", "bAND", "wAND"}

func gen(r *rand.Rand, d int, leaves *[]*tree.Node) *tree.Node {
	if d == 0 || r.Intn(3) == 0 {
		n := &tree.Node{Entry: fmt.Sprint("l", len(*leaves))}
		*leaves = append(*leaves, n)
		return n
	}
	l := gen(r, d-1, leaves)
	rr := gen(r, d-1, leaves)
	n, _ := tree.Combine(l, rr, ops[r.Intn(len(ops))])
	return n
}

func anc(n *tree.Node) []*tree.Node { // parents from nearest to root
	var a []*tree.Node
	for p := n.Parent; p != nil; p = p.Parent { a = append(a, p) }
	return a
}

func expected(p, q *tree.Node) []string {
	ap, aq := anc(p), anc(q)
	// find LCA
	idx := map[*tree.Node]int{}
	for i, x := range aq { idx[x] = i }
	var out []string
	for _, x := range ap {
		out = append(out, x.LogicalOperator)
		if j, ok := idx[x]; ok {
			for k := j - 1; k >= 0; k-- { out = append(out, aq[k].LogicalOperator) }
			return out
		}
	}
	return nil
}

func main() {
	log.SetOutput(io.Discard)
	r := rand.New(rand.NewSource(1))
	tot, bad := 0, 0
	for t := 0; t < 3000; t++ {
		var leaves []*tree.Node
		gen(r, 1+r.Intn(5), &leaves)
		for _, p := range leaves { for _, q := range leaves {
			if p == q { continue }
			ok, got, err := tree.FindLogicalLinkage(p, q)
			exp := expected(p, q)
			tot++
			if !ok || err.ErrorCode != tree.TREE_NO_ERROR || strings.Join(got, " ") != strings.Join(exp, " ") {
				bad++
				if bad < 8 { fmt.Println("MISMATCH", ok, got, exp, len(leaves)) }
			}
		}}
	}
	fmt.Println(tot, bad)
}
