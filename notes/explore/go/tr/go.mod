module scratchtr

go 1.16
