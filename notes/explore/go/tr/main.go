package main

import (
	"fmt"
	"go/ast"
	"go/parser"
	"go/printer"
	"go/token"
	"os"
	"path/filepath"
	"strings"
)

var fset = token.NewFileSet()

func src(n ast.Node) string { var b strings.Builder; printer.Fprint(&b, fset, n); return b.String() }

func parseDir(dir string) map[string]*ast.FuncDecl {
	out := map[string]*ast.FuncDecl{}
	pkgs, err := parser.ParseDir(fset, dir, func(fi os.FileInfo) bool { return !strings.HasSuffix(fi.Name(), "_test.go") }, 0)
	if err != nil { panic(err) }
	for _, p := range pkgs { for _, f := range p.Files { for _, d := range f.Decls {
		if fd, ok := d.(*ast.FuncDecl); ok {
			name := fd.Name.Name
			if fd.Recv != nil { name = src(fd.Recv.List[0].Type) + "." + name }
			out[p.Name+"."+name] = fd
		}
	}}}
	return out
}

// translate a setter body into instructions (assignment of package-level var from param / const; if/else on the assigned bool)
func setter(fd *ast.FuncDecl, pkg string, arg string, all map[string]*ast.FuncDecl, depth int) []string {
	var out []string
	param := ""
	if fd.Type.Params != nil && len(fd.Type.Params.List) == 1 { param = fd.Type.Params.List[0].Names[0].Name }
	subst := func(e ast.Expr) string { s := src(e); if s == param { return arg }; return s }
	var walk func(stmts []ast.Stmt, guard string)
	walk = func(stmts []ast.Stmt, guard string) {
		for _, st := range stmts {
			switch s := st.(type) {
			case *ast.AssignStmt:
				out = append(out, fmt.Sprintf("ISet %s%s.%s := %s", guard, pkg, src(s.Lhs[0]), subst(s.Rhs[0])))
			case *ast.IfStmt:
				c := src(s.Cond)
				walk(s.Body.List, guard+"[if "+c+"] ")
				if eb, ok := s.Else.(*ast.BlockStmt); ok { walk(eb.List, guard+"[if !"+c+"] ") }
			case *ast.ExprStmt:
				if call, ok := s.X.(*ast.CallExpr); ok {
					fn := src(call.Fun)
					if strings.HasPrefix(fn, "log.") || fn == "Println" { continue }
					key := fn; if !strings.Contains(fn, ".") { key = pkg + "." + fn }
					if g, ok := all[key]; ok && depth < 3 {
						a := ""; if len(call.Args) == 1 { a = subst(call.Args[0]) }
						out = append(out, setter(g, strings.Split(key, ".")[0], a, all, depth+1)...)
					} else { out = append(out, "Unsupported "+src(s)) }
				}
			default:
				out = append(out, "Unsupported "+src(st))
			}
		}
	}
	walk(fd.Body.List, "")
	return out
}

func main() {
	repo := "/repo"
	all := map[string]*ast.FuncDecl{}
	for _, d := range []string{"core/exporter/tabular", "core/tree", "web/converter/shared", "web/converter", "core/endpoints"} {
		for k, v := range parseDir(filepath.Join(repo, d)) { all[k] = v }
	}
	// ---- G4: handler preludes ----
	for _, h := range []string{"converter.handleTabularOutput", "converter.handleVisualOutput"} {
		fmt.Println("== G4", h)
		fd := all[h]
		for _, st := range fd.Body.List {
			switch s := st.(type) {
			case *ast.ExprStmt:
				call, ok := s.X.(*ast.CallExpr); if !ok { fmt.Println("  Unsupported", src(s)); continue }
				fn := src(call.Fun)
				if fn == "Println" { continue }
				if fn == "verifYield" { fmt.Println("  IYield", src(call.Args[0])); continue }
				if g, ok := all[fn]; ok {
					a := ""; if len(call.Args) == 1 { a = "param:" + src(call.Args[0]) }
					for _, i := range setter(g, strings.Split(fn, ".")[0], a, all, 0) { fmt.Println("  " + i) }
				} else { fmt.Println("  Unsupported", src(s)) }
			case *ast.AssignStmt:
				if call, ok := s.Rhs[0].(*ast.CallExpr); ok && strings.HasPrefix(src(call.Fun), "endpoints.") {
					var as []string; for _, a := range call.Args { as = append(as, src(a)) }
					// the endpoint's own writes
					for _, i := range func() []string { var o []string; for _, es := range all[src(call.Fun)].Body.List { if e, ok := es.(*ast.ExprStmt); ok { if c, ok := e.X.(*ast.CallExpr); ok { if g, ok := all[src(c.Fun)]; ok && strings.Contains(src(c.Fun), ".Set") { a := ""; if len(c.Args) == 1 { a = src(c.Args[0]) }; o = append(o, setter(g, strings.Split(src(c.Fun), ".")[0], a, all, 0)...) } } } }; return o }() { fmt.Println("  (endpoint) " + i) }
					fmt.Println("  IConvert", src(call.Fun), "args:", strings.Join(as, ", "))
					goto done
				}
				fmt.Println("  Unsupported", src(s))
			default:
				fmt.Println("  (stop at)", fmt.Sprintf("%T", st))
				goto done
			}
		}
	done:
	}
	// ---- G3: generateLeafArrays table ----
	fmt.Println("== G3 generateLeafArrays")
	ast.Inspect(all["tree.*Statement.generateLeafArrays"], func(n ast.Node) bool {
		if c, ok := n.(*ast.CallExpr); ok && src(c.Fun) == "getComponentLeafArray" {
			fmt.Printf("  (%s, %s, %s)\n", src(c.Args[2]), src(c.Args[3]), src(c.Args[4]))
		}
		return true
	})
	// ---- G3: CalculateComplexity wiring ----
	fmt.Println("== G3 CalculateComplexity")
	vars := map[string]string{}
	ast.Inspect(all["tree.*Statement.CalculateComplexity"], func(n ast.Node) bool {
		switch s := n.(type) {
		case *ast.AssignStmt:
			if len(s.Rhs) == 1 { if c, ok := s.Rhs[0].(*ast.CallExpr); ok && strings.HasSuffix(src(c.Fun), ".CalculateStateComplexity") && len(s.Lhs) == 2 {
				vars[src(s.Lhs[0])] = strings.TrimSuffix(src(c.Fun), ".CalculateStateComplexity")
			}}
			if len(s.Lhs) == 1 && (src(s.Lhs[0]) == "leadingStmtStates" || src(s.Lhs[0]) == "conditionsComplexity") {
				var ids []string
				ast.Inspect(s.Rhs[0], func(m ast.Node) bool { if id, ok := m.(*ast.Ident); ok { if f, ok := vars[id.Name]; ok { ids = append(ids, f) } }; return true })
				fmt.Println("  ", src(s.Lhs[0]), "=", ids)
			}
		}
		return true
	})
	// ---- G3: PrintTree order ----
	fmt.Println("== G3 PrintTree component order")
	for _, st := range all["tree.*Statement.PrintTree"].Body.List {
		walkAppend := func(n ast.Node, guard string) {
			ast.Inspect(n, func(m ast.Node) bool {
				if c, ok := m.(*ast.CallExpr); ok && src(c.Fun) == "append" && src(c.Args[0]) == "components" {
					var fs []string; for _, a := range c.Args[1:] { fs = append(fs, strings.TrimPrefix(src(a), "s.")) }
					fmt.Println("  ", guard, fs)
				}
				return true
			})
		}
		if is, ok := st.(*ast.IfStmt); ok { if strings.Contains(src(is.Cond), "moveActivationConditionsToFront") { walkAppend(is.Body, "[if "+src(is.Cond)+"]") } } else { walkAppend(st, "") }
	}
	// ---- G6: positional hand-over ----
	fmt.Println("== G6 hand-over")
	ast.Inspect(all["converter.converterHandler"], func(n ast.Node) bool {
		if c, ok := n.(*ast.CallExpr); ok && (src(c.Fun) == "handleTabularOutput" || src(c.Fun) == "handleVisualOutput") {
			callee := all["converter."+src(c.Fun)]
			var ps []string; for _, f := range callee.Type.Params.List { for _, nm := range f.Names { ps = append(ps, nm.Name) } }
			for i, a := range c.Args { fmt.Printf("   %s <- %s\n", ps[i], src(a)) }
		}
		return true
	})
}
