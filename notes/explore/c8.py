import json, sys, itertools, re
from run import *
NEST=['A,p','Bdir','Bdir,p','Bind','Bind,p','Cac','Cex','E,p','P','P,p','O']
ctr=[0]
def w():
    ctr[0]+=1; return 'w%d'%ctr[0]
def inner(kind, S, depth=0):
    # returns text of a nested statement body
    if kind=='simple': return 'A(%s) I(%s)'%(w(),w())
    if kind=='combcomp': return 'A(%s) I(%s [OR] %s)'%(w(),w(),w())
    if kind=='nestedin': return 'A(%s) I(%s) Bdir{A(%s) I(%s)}'%(w(),w(),w(),w())
    if kind=='comboin': return 'A(%s) I(%s) Cex{Cex{A(%s) I(%s)} [OR] Cex{A(%s) I(%s)}}'%(w(),w(),w(),w(),w(),w())
    if kind=='comboin_first': return 'Cex{Cex{A(%s) I(%s)} [OR] Cex{A(%s) I(%s)}} A(%s) I(%s)'%(w(),w(),w(),w(),w(),w())
    if kind=='pairin': return 'A(%s) {I(%s) Bdir(%s) [XOR] I(%s) Bdir(%s)}'%(w(),w(),w(),w(),w())
def n(S,kind): return '%s{%s}'%(S,inner(kind,S))
def shape(sh,S,kind):
    if sh=='single': return n(S,kind)
    if sh=='two_implicit': return n(S,kind)+' '+n(S,kind)
    if sh=='two_op': return n(S,kind)+' [OR] '+n(S,kind)
    if sh=='combo2': return '%s{%s [AND] %s}'%(S,n(S,kind),n(S,kind))
    if sh=='combo3': return '%s{%s [AND] %s [AND] %s}'%(S,n(S,kind),n(S,kind),n(S,kind))
    if sh=='combo4': return '%s{%s [OR] %s [OR] %s [OR] %s}'%(S,n(S,kind),n(S,kind),n(S,kind),n(S,kind))
    if sh=='right': return '%s{%s [AND] {%s [OR] %s}}'%(S,n(S,kind),n(S,kind),n(S,kind))
    if sh=='left': return '%s{{%s [AND] %s} [OR] %s}'%(S,n(S,kind),n(S,kind),n(S,kind))
    if sh=='both': return '%s{{%s [AND] %s} [OR] {%s [XOR] %s}}'%(S,n(S,kind),n(S,kind),n(S,kind),n(S,kind))
    if sh=='deep3': return '%s{{%s [AND] {%s [XOR] %s}} [OR] %s}'%(S,n(S,kind),n(S,kind),n(S,kind),n(S,kind))
SH=['single','two_implicit','two_op','combo2','combo3','combo4','right','left','both','deep3']
KD=['simple','combcomp','nestedin','comboin','comboin_first','pairin']
POS=['start','mid','end']
cases=[]
for S in NEST:
    for sh in SH:
        for kd in KD:
            for pos in POS:
                ctr[0]=0
                core=shape(sh,S,kd)
                base=['D(%s)'%w(),'M(%s)'%w()]
                parts = [core]+base if pos=='start' else ([base[0],core,base[1]] if pos=='mid' else base+[core])
                t=' '.join(parts)
                cases.append((S,sh,kd,pos,t,ctr[0]))
print(len(cases),'cases')
ins=[{'stmt':c[4],'id':'7','Modes':['vis'],'Bin':True} for c in cases]
outs=run_batch(ins)
res=collections.Counter(); fails=collections.defaultdict(list)
for c,o in zip(cases,outs):
    S,sh,kd,pos,t,nw=c
    err=o.get('viserr') or ('PANIC '+o.get('panic',''))
    status=err
    if err=='NO_ERROR_DURING_PARSING':
        words=re.findall(r'"name": "(w\d+)"', o['visout'])
        exp=['w%d'%i for i in range(1,nw+1)]
        status='OK' if sorted(words)==sorted(exp) else 'LOST/DUP %d/%d'%(len(words),nw)
    res[(sh,kd,status)]+=1
    if status!='OK': fails[(sh,kd,status)].append((S,pos,t))
json.dump({str(k):v for k,v in fails.items()}, open('c8fails.json','w'))
# print matrix
for kd in KD:
    print('--',kd)
    for sh in SH:
        row={st:n for (s,k,st),n in res.items() if s==sh and k==kd}
        print('   %-13s'%sh, row)
