import random, sys
seed=int(sys.argv[1]); n=int(sys.argv[2]); random.seed(seed)
ops=['[AND]','[OR]','[XOR]']
words=['a','bb','c d','e','left','right x','(p)','q (r) s','']
def expr(d):
    r=random.random()
    if d==0 or r<0.3:
        return random.choice(words)
    if r<0.55:
        # chain same op
        o=random.choice(ops); k=random.randint(2,4)
        return '('+(' '+o+' ').join(expr(d-1) for _ in range(k))+')'
    if r<0.8:
        return '('+expr(d-1)+' '+random.choice(ops)+' '+expr(d-1)+')'
    if r<0.9:
        return random.choice(['sh','pre fix',''])+' '+expr(d-1)+' '+random.choice(['post','',' tail x'])
    # malformed-ish
    return random.choice(['(',')','[AND]','[OR] x','((a [AND] b) (c [OR] d))', 'x [XOR]', '(a [AND] b [OR] c)', '(a[AND]b)', '([AND] b)', '(a [AND])'])
for i in range(n):
    e=expr(random.randint(1,4))
    if random.random()<0.3 and e.startswith('(') : e=e[1:-1]
    print(e.replace('\n',' '))
