import json, sys, random
from run import *
from gen import *
seed=int(sys.argv[1]); n=int(sys.argv[2]); depth=int(sys.argv[3])
g=G(seed)
def all_leaf_texts_nested(parts, inside=False):
    out=[]
    for p in parts:
        if p[0]=='comp' and inside:
            c=p[4]; out += [c[1]] if c[0]=='leaf' else leaves(c[2])
        elif p[0]=='nested': out+=all_leaf_texts_nested(p[2], True)
        elif p[0]=='ncombo':
            def w(t):
                return all_leaf_texts_nested([t[1]], True) if t[0]=='leaf' else w(t[2])+w(t[3])
            out+=w(p[2])
    return out
cases=[]
while len(cases)<n:
    parts=g.stmt(g.r.randint(1,depth), allow_pairs=False)
    if has(parts,'nested') or has(parts,'ncombo'): cases.append((parts,r_stmt(parts)))
ins=[]
for _,t in cases:
    for ext in (False,True):
        ins.append({'stmt':t,'id':'7','Hdr':True,'Ext':ext,'Modes':['tab']})
outs=run_batch(ins)
stats=collections.Counter(); shown=collections.Counter()
def report(kind,text,extra=''):
    stats[kind]+=1; shown[kind]+=1
    if shown[kind]<=3: print('==',kind,'\n  ',text,'\n  ',extra)
for i,(parts,t) in enumerate(cases):
    c,e=outs[2*i],outs[2*i+1]
    if c.get('taberr')!=e.get('taberr'): report('err-differs',t,'%s %s'%(c.get('taberr'),e.get('taberr'))); continue
    if c.get('taberr')!='NO_ERROR_DURING_PARSING': stats['rejected']+=1; continue
    stats['ok']+=1
    tc,te=table(c['tabout']),table(e['tabout'])
    hdr=tc[0]
    if hdr!=te[0]: report('header-differs',t)
    refcols=[j for j,h in enumerate(hdr) if h.endswith('Reference')]
    topc=[r for r in tc[1:]]
    tope=[r for r in te[1:] if not r[0].startswith("'{")]
    if any(r[0].startswith("'{") for r in tc[1:]): report('core-has-nested-rows',t)
    if len(topc)!=len(tope): report('toprows-count',t,'%d %d'%(len(topc),len(tope))); continue
    for rc,re_ in zip(topc,tope):
        for j,(a,b) in enumerate(zip(rc,re_)):
            if j in refcols: continue
            if a!=b: report('nonref-cell-differs',t,'col %s: core=%r ext=%r'%(hdr[j],a,b)); break
    texts=all_leaf_texts_nested(parts)
    allref=' '.join(rc[j] for rc in topc for j in refcols)
    miss=[x for x in texts if x not in allref]
    if miss: report('core-ref-missing-leaf',t,str(miss[:4]))
print('STATS',dict(stats))
