import json, sys, random
from run import *
from gen import *
seed=int(sys.argv[1]); n=int(sys.argv[2]); depth=int(sys.argv[3])
g=G(seed); rr=random.Random(seed+1)
FILL=['the','and then','of 12 items,','; or','. it','when, in doubt:','x','7','p','a']
def perm_keep(parts):
    # random permutation keeping relative order of same symbol (and same kind)
    idx=list(range(len(parts))); rr.shuffle(idx)
    key=lambda p: (p[0], p[1] if p[0]!='pairs' else '')
    out=[parts[i] for i in idx]
    # restore same-key order
    groups={}
    for p in parts: groups.setdefault(key(p),[]).append(p)
    res=[]
    cnt={}
    for p in out:
        k=key(p); j=cnt.get(k,0); cnt[k]=j+1
        res.append(groups[k][j])
    return res
cases=[]
for i in range(n):
    parts=g.stmt(rr.randint(0,depth), allow_pairs=True)
    base=r_stmt(parts)
    vs=[('perm', r_stmt(perm_keep(parts))) for _ in range(2)]
    vs.append(('fill', r_stmt(parts, fill=lambda: rr.choice(FILL) if rr.random()<0.7 else '')))
    cases.append((base,vs))
ins=[]; 
for base,vs in cases:
    for t in [base]+[v for _,v in vs]:
        ins.append({'stmt':t,'id':'7','Hdr':True,'Ext':True,'Modes':['tab','vis'],'Bin':False})
outs=run_batch(ins)
outs2=run_batch(ins[: len(ins)//3])
stats=collections.Counter(); shown=collections.Counter()
k=0
for base,vs in cases:
    o0=outs[k]; k+=1
    stats['total']+=1
    for kind,t in vs:
        o=outs[k]; k+=1
        same = (o.get('taberr'),o.get('tabout'),o.get('viserr'),o.get('visout'))==(o0.get('taberr'),o0.get('tabout'),o0.get('viserr'),o0.get('visout'))
        if not same:
            stats['C18-'+kind]+=1; shown[kind]+=1
            if shown[kind]<=5:
                print('== C18',kind,'\n  BASE:',base,'\n  VAR: ',t,'\n  ',o0.get('taberr'),o.get('taberr'), 'tabsame',o.get('tabout')==o0.get('tabout'),'vissame',o.get('visout')==o0.get('visout'))
for a,b in zip(outs,outs2):
    if (a.get('tabout'),a.get('visout'),a.get('taberr'))!=(b.get('tabout'),b.get('visout'),b.get('taberr')): stats['C12-nondet']+=1
print('STATS',dict(stats))
