import json, subprocess, sys, os, re, concurrent.futures as cf, collections
W='/tmp/scratch/w/w'
def run_batch(inputs, nproc=16):
    chunks=[inputs[i::nproc] for i in range(nproc)]
    def work(ch):
        if not ch: return []
        p=subprocess.run([W], input='\n'.join(json.dumps(x) for x in ch)+'\n', capture_output=True, text=True)
        outs=[json.loads(l) for l in p.stdout.splitlines()]
        if len(outs)!=len(ch): outs += [{'panic':'PROCESS DIED rc=%s %s'%(p.returncode,p.stderr[-300:])}]*(len(ch)-len(outs))
        return outs
    with cf.ThreadPoolExecutor(nproc) as ex:
        res=list(ex.map(work, chunks))
    out=[None]*len(inputs)
    for k,ch in enumerate(res):
        for j,o in enumerate(ch): out[k+j*nproc]=o
    return out
def table(out):
    lines=out.split('\n')
    if lines and lines[-1]=='': lines=lines[:-1]
    return [l.split('|') for l in lines]
