import json, sys, random, itertools
from run import *
from gen import *
seed=int(sys.argv[1]); n=int(sys.argv[2]); depth=int(sys.argv[3])
g=G(seed)
cases=[]
while len(cases)<n:
    parts=g.stmt(g.r.randint(0,depth), allow_pairs=(g.r.random()<0.3))
    syms=set(p[1] for p in parts if p[0] in('comp','nested','ncombo'))
    # every property has its component
    if all((s.replace(',p','') in syms) for s in syms if ',p' in s): cases.append((parts,r_stmt(parts)))
vecs=list(itertools.product([False,True],repeat=5))
ins=[]
for _,t in cases:
    for (flat,binr,anno,dov,act) in vecs:
        ins.append({'stmt':t,'id':'7','Modes':['vis'],'Flat':flat,'Bin':binr,'Anno':anno,'Dov':dov,'AcTop':act})
outs=run_batch(ins)
stats=collections.Counter(); shown=collections.Counter()
def report(kind,text,extra=''):
    stats[kind]+=1; shown[kind]+=1
    if shown[kind]<=3: print('==',kind,'\n  ',text,'\n  ',extra)
OPS=('AND','OR','XOR','bAND','wAND')
def entries(js, props):
    out=[]
    def w(n):
        ch=n.get('children')
        isop = n.get('name') in OPS and ch is not None and 'comp' in n and n.get('pos') is None
        if 'comp' in n and not (n.get('name') in OPS and ch is not None):
            if props or not n['comp'].endswith(',p'): out.append((n['comp'],n['name'],n.get('level')))
        if 'prop' in n and props: out.append(('prop',n['prop'],n.get('level')))
        for c in ch or []: w(c)
    w(js); return sorted(map(str,out))
def opnodes_ok_binary(js):
    bad=[]
    def w(n):
        ch=n.get('children')
        if n.get('name') in OPS and ch is not None and 'comp' in n and n.get('pos') is None and len(ch)!=2: bad.append((n['name'],len(ch)))
        for c in ch or []: w(c)
    w(js); return bad
k=0
for parts,t in cases:
    base=None; stats['total']+=1
    res={}
    for v in vecs:
        o=outs[k]; k+=1
        if o.get('viserr')!='NO_ERROR_DURING_PARSING': res[v]=None; continue
        try: res[v]=json.loads(o['visout'])
        except Exception as e: res[v]='INVALID'; 
    if any(x=='INVALID' for x in res.values()): report('C08-invalid',t,str([v for v,x in res.items() if x=='INVALID'][:3])); continue
    if any(x is None for x in res.values()): stats['rejected']+=1; continue
    b=res[(False,True,False,False,False)]
    be=entries(b,False)
    for v,js in res.items():
        if entries(js,False)!=be: report('C17-entries-differ',t,'vec(flat,bin,anno,dov,act)=%s  only-in-base=%s only-in-var=%s'%(v, [x for x in be if x not in entries(js,False)][:3],[x for x in entries(js,False) if x not in be][:3])); break
    for v,js in res.items():
        if v[1]:
            bad=opnodes_ok_binary(js)
            if bad: report('C17-binary-not-2',t,str(bad)); break
print('STATS',dict(stats))
