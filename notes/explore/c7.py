import json, sys, re
from run import *
from gen import *
seed=int(sys.argv[1]); n=int(sys.argv[2]); depth=int(sys.argv[3]); pairs=len(sys.argv)>4
g=G(seed); cases=[]
for i in range(n):
    parts=g.stmt(g.r.randint(0,depth), allow_pairs=pairs)
    cases.append((parts,r_stmt(parts)))
ins=[{'stmt':t,'id':'7','Hdr':True,'Ext':True,'Modes':['tab']} for _,t in cases]
outs=run_batch(ins)
stats=collections.Counter(); shown=collections.Counter()
def report(kind,text,extra=''):
    stats[kind]+=1; shown[kind]+=1
    if shown[kind]<=4: print('==',kind,'\n  ',text,'\n  ',extra)
def expand(ids):
    out=[]
    for x in ids.split(','):
        m=re.match(r'^(.*)\.(\d+)-(\d+)$',x)
        if m: out += ['%s.%d'%(m.group(1),k) for k in range(int(m.group(2)),int(m.group(3))+1)]
        else: out.append(x)
    return out
for (parts,t),o in zip(cases,outs):
    if o.get('taberr')!='NO_ERROR_DURING_PARSING': stats['rejected']+=1; continue
    stats['ok']+=1
    tb=table(o['tabout']); hdr=tb[0]
    ci=hdr.index('Logical Linkage (Components)'); si=hdr.index('Logical Linkage (Statements)')
    links={}  # (row, comp) -> set(target rows)
    ids=[r[0].lstrip("'") for r in tb[1:]]
    for r in tb[1:]:
        rid=r[0].lstrip("'")
        cell=r[ci].strip()
        if not cell: continue
        for ent in cell.split(';'):
            m=re.match(r'^\[([^\]]*)\]\.([^.]+(?:,p)?)\.\[(.*)\]$',ent)
            if not m: report('C05-unparsable',t,ent); continue
            for tgt in expand(m.group(3)):
                links.setdefault((rid,m.group(2)),set()).add(tgt)
                if tgt not in ids: report('C06-dangling-link',t,tgt)
    for (rid,comp),tg in links.items():
        for x in tg:
            if rid not in links.get((x,comp),set()):
                report('C05-not-mutual',t,'%s -%s-> %s but not back'%(rid,comp,x)); break
        else: continue
        break
print('STATS',dict(stats))
