import random, json, itertools
PAREN=['A','A,p','D','I','Bdir','Bdir,p','Bind','Bind,p','Cac','Cex','E','E,p','M','F','P','P,p']
NEST=['A,p','Bdir','Bdir,p','Bind','Bind,p','Cac','Cex','E,p','P','P,p','O']
OPS=['AND','OR','XOR']
class G:
    def __init__(self, seed):
        self.r=random.Random(seed); self.ctr=0
    def word(self):
        self.ctr+=1
        base=self.r.choice(['alpha','beta','gamma','delta','eps','zeta','eta','theta','iota','kappa'])
        w=base+str(self.ctr)
        if self.r.random()<0.3: w+=' '+self.r.choice(['of things','items','and more stuff','x'])
        return w
    def tree(self, nleaves):
        if nleaves==1: return ('leaf', self.word())
        k=self.r.randint(1,nleaves-1)
        return ('op', self.r.choice(OPS), self.tree(k), self.tree(nleaves-k))
    def content(self, maxleaves=4):
        n=self.r.choice([1,1,1,2,2,3,4][:3+maxleaves])
        n=min(n,maxleaves)
        if n==1: return ('leaf', self.word())
        sl = self.word() if self.r.random()<0.25 else ''
        sr = self.word() if self.r.random()<0.25 else ''
        return ('comb', sl, self.tree(n), sr)
    def comp(self, sym=None, maxleaves=4, suffix_ok=True):
        sym = sym or self.r.choice(PAREN)
        suffix = str(self.r.randint(1,3)) if (suffix_ok and self.r.random()<0.2) else ''
        annot = self.r.choice(['[type=x]','[role=actor,animate]','[ctx=time]']) if self.r.random()<0.2 else ''
        return ('comp', sym, suffix, annot, self.content(maxleaves))
    def stmt(self, depth, ncomp=None, allow_pairs=True, maxleaves=3):
        ncomp = ncomp or self.r.randint(1,5)
        parts=[self.comp(maxleaves=maxleaves) for _ in range(ncomp)]
        if depth>0 and self.r.random()<0.7:
            for _ in range(self.r.randint(1,2)):
                sym=self.r.choice(NEST)
                if self.r.random()<0.35 and ',p' not in sym:
                    k=self.r.randint(2,3)
                    t=self.ntree(sym,k,depth-1)
                    parts.append(('ncombo', sym, t))
                else:
                    parts.append(('nested', sym, self.stmt(depth-1, self.r.randint(1,3), allow_pairs=False, maxleaves=2)))
        if allow_pairs and self.r.random()<0.25:
            k=self.r.randint(2,3)
            parts.append(('pairs', self.ptree(k, depth)))
        self.r.shuffle(parts)
        return parts
    def ntree(self, sym, k, depth):
        if k==1: return ('leaf', ('nested', sym, self.stmt(depth, self.r.randint(1,2), allow_pairs=False, maxleaves=2)))
        j=self.r.randint(1,k-1)
        return ('op', self.r.choice(OPS), self.ntree(sym,j,depth), self.ntree(sym,k-j,depth))
    def ptree(self, k, depth):
        if k==1: return ('leaf', [self.comp(maxleaves=2, suffix_ok=False) for _ in range(self.r.randint(1,3))])
        j=self.r.randint(1,k-1)
        return ('op', self.r.choice(OPS), self.ptree(j,depth), self.ptree(k-j,depth))

def r_tree(t, top=True, chain_ok=True):
    if t[0]=='leaf': return t[1]
    _,o,l,r=t
    # chain rendering when left child has same op (left-assoc) 
    ls = r_tree(l, False)
    if l[0]=='op' and l[1]==o and chain_ok:
        ls = ls[1:-1]  # strip parens -> chain
    rs = r_tree(r, False)
    return '('+ls+' ['+o+'] '+rs+')'
def r_content(c):
    if c[0]=='leaf': return c[1]
    _,sl,t,sr=c
    s=r_tree(t)
    if sl or sr:
        return (sl+' ' if sl else '')+s+(' '+sr if sr else '')
    # no shared: outer parens optional
    return s[1:-1]
def r_part(p, fill):
    k=p[0]
    if k=='comp':
        _,sym,suf,ann,c=p
        if ',p' in sym: head=sym.replace(',p', suf+',p') if suf else sym
        else: head=sym+suf
        return head+ann+'('+r_content(c)+')'
    if k=='nested':
        return p[1]+'{'+r_stmt(p[2],fill)+'}'
    if k=='ncombo':
        return p[1]+'{'+r_ntree(p[2],fill)[1:-1]+'}'
    if k=='pairs':
        return r_ptree(p[1],fill)
def r_ntree(t,fill):
    if t[0]=='leaf': return '{'+r_part(t[1],fill)+'}' if False else r_part(t[1],fill)
    _,o,l,r=t
    def sub(x):
        s=r_ntree(x,fill)
        return s
    return '{'+sub(l)+' ['+o+'] '+sub(r)+'}'
def r_ptree(t,fill):
    if t[0]=='leaf': return ' '.join(r_part(c,fill) for c in t[1])
    _,o,l,r=t
    return '{'+r_ptree(l,fill)+' ['+o+'] '+r_ptree(r,fill)+'}'
def r_stmt(parts, fill=None):
    out=[]
    for p in parts:
        if fill: out.append(fill())
        out.append(r_part(p,fill))
    if fill: out.append(fill())
    return ' '.join(x for x in out if x)

def leaves(t):
    return [t[1]] if t[0]=='leaf' else leaves(t[2])+leaves(t[3])
def nleaves_content(c):
    return 1 if c[0]=='leaf' else len(leaves(c[2]))
def product_top(parts):
    # expected number of atomic rows of the top-level statement (no pairs)
    per={}
    for p in parts:
        if p[0]=='comp': per[p[1]]=per.get(p[1],0)+nleaves_content(p[4])
    n=1
    for v in per.values(): n*=v
    return n
def has(parts, kind):
    return any(p[0]==kind for p in parts)
if __name__=='__main__':
    import sys
    seed=int(sys.argv[1]); n=int(sys.argv[2]); depth=int(sys.argv[3])
    g=G(seed)
    for i in range(n):
        parts=g.stmt(g.r.randint(0,depth))
        print(json.dumps({'i':i,'ast':parts,'text':r_stmt(parts)}))
