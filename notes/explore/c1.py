import json, sys
from run import *
from gen import *
seed=int(sys.argv[1]); n=int(sys.argv[2]); depth=int(sys.argv[3])
g=G(seed); cases=[]
for i in range(n):
    parts=g.stmt(g.r.randint(0,depth), allow_pairs=(len(sys.argv)>4))
    cases.append((parts, r_stmt(parts)))
ins=[{'stmt':t,'id':'7','Hdr':True,'Ext':True,'Modes':['tab','vis'],'Bin':True,'Dov':True} for _,t in cases]
outs=run_batch(ins)
stats=collections.Counter(); shown=collections.Counter()
def report(kind, text, extra=''):
    stats[kind]+=1; shown[kind]+=1
    if shown[kind]<=4 and not kind.startswith('C08'): print('==',kind,'\n  ',text,'\n  ',extra)
def dov_check(node, path=''):
    # returns computed dov by recurrence from children; compares to label
    ch=node.get('children')
    name=node.get('name')
    if ch is None:
        exp=1
    elif name in ('AND','bAND','wAND','OR','XOR') and 'comp' in node and len(ch)==2 and not any(c.get('pos') for c in [node]):
        a=dov_check(ch[0]); b=dov_check(ch[1])
        if a is None or b is None: return None
        exp = a+b-1 if name in('AND','bAND','wAND') else (a+b if name=='XOR' else a+b+1)
    else:
        return int(node['dov']) if 'dov' in node else None
    if 'dov' in node and int(node['dov'])!=exp: raise Exception('dov mismatch at %s: %s vs %s'%(name,node['dov'],exp))
    return exp
for (parts,text),o in zip(cases,outs):
    if o.get('panic'): report('PANIC',text,o['panic']); continue
    te,ve=o.get('taberr'),o.get('viserr')
    stats['total']+=1
    if (te=='NO_ERROR_DURING_PARSING')!=(ve=='NO_ERROR_DURING_PARSING'): report('C11-disagree',text,'%s / %s'%(te,ve))
    if te!='NO_ERROR_DURING_PARSING': report('C11-rejected-wellformed',text,te); continue
    tb=table(o['tabout']); hdr=tb[0]; rows=tb[1:]
    if any(len(r)!=len(hdr) for r in rows): report('C07-nonrect',text)
    ids=[r[0] for r in rows]
    if len(set(ids))!=len(ids): report('C06-dup-id',text,str(ids))
    if not has(parts,'pairs') and not any(p[0]=='comp' and p[2] for p in parts):
        top=[r for r in rows if not r[0].startswith("'{")]
        exp=product_top(parts)
        if len(top)!=exp: report('C04-rowcount',text,'rows %d expected %d'%(len(top),exp))
        sig=[tuple(r[1:-2]) for r in top]
        if len(set(sig))!=len(sig): report('C04-duprow',text)
    # refs resolve
    idset=set(i.lstrip("'") for i in ids)
    for r in rows:
        for c in r[1:]:
            for m in re.findall(r'\{[^|,;\[\]]*\}\.\d+', c):
                if not any(i==m or i.startswith(m+'.') for i in idset): report('C06-unresolved',text,m)
    try:
        js=json.loads(o['visout'])
    except Exception as e:
        report('C08-invalid-json',text,str(e)); continue
    try:
        def walk(n):
            dov_check(n)
            for c in n.get('children',[]): walk(c)
        walk(js)
    except Exception as e:
        report('C20-dov',text,str(e))
print('STATS', {k:v for k,v in stats.items()})
