(* Base/Str.v - byte strings (Go strings are byte sequences) and the Go string helpers the model needs.
   Only definitions and their elementary characterising lemmas. *)
From Coq Require Import List Arith Bool Lia NArith ZArith Strings.Byte.
From Coq Require Strings.String.
Export String.StringSyntax.
Import ListNotations.
Open Scope list_scope.

Definition str := list byte.
Definition bs (s : String.string) : str := String.list_byte_of_string s.
Delimit Scope string_scope with string.
Notation "'$' s" := (bs s%string) (at level 0, s at level 0, only parsing).

Fixpoint beq_str (a b : str) : bool :=
  match a, b with
  | [], [] => true
  | x :: a', y :: b' => Byte.eqb x y && beq_str a' b'
  | _, _ => false
  end.

Lemma byte_eqb_eq (x y : byte) : Byte.eqb x y = true <-> x = y.
Proof. split; [apply Byte.byte_dec_lb || idtac | intros ->].
  - intro H. destruct (Byte.byte_eq_dec x y) as [e|n]; [exact e|].
    exfalso. apply n. apply Byte.byte_dec_bl. exact H.
  - apply Byte.byte_dec_lb. reflexivity.
Qed.

Lemma beq_str_eq (a b : str) : beq_str a b = true <-> a = b.
Proof.
  revert b; induction a as [|x a IH]; intros [|y b]; simpl; split; intro H; try reflexivity; try discriminate.
  - apply andb_true_iff in H as [H1 H2]. apply byte_eqb_eq in H1. apply IH in H2. congruence.
  - inversion H; subst. apply andb_true_iff; split; [apply byte_eqb_eq; reflexivity | apply IH; reflexivity].
Qed.

Lemma beq_str_refl a : beq_str a a = true.
Proof. apply beq_str_eq; reflexivity. Qed.

Definition is_empty (s : str) : bool := match s with [] => true | _ => false end.

Fixpoint is_prefix (p s : str) : bool :=
  match p, s with
  | [], _ => true
  | x :: p', y :: s' => Byte.eqb x y && is_prefix p' s'
  | _, [] => false
  end.

Definition has_suffix (s suf : str) : bool := is_prefix (rev suf) (rev s).

(* strings.Contains *)
Fixpoint contains (s sub : str) : bool :=
  if is_prefix sub s then true else
  match s with
  | [] => false
  | _ :: s' => contains s' sub
  end.

(* strings.Index; None = -1 *)
Fixpoint index_from (s sub : str) (i : nat) : option nat :=
  if is_prefix sub s then Some i else
  match s with
  | [] => None
  | _ :: s' => index_from s' sub (S i)
  end.
Definition index_of (s sub : str) : option nat := index_from s sub 0.

Definition slice (s : str) (a b : nat) : str := firstn (b - a) (skipn a s).

(* strings.ReplaceAll for a non-empty pattern: non-overlapping, leftmost first.
   (Go inserts the replacement between all runes for an empty pattern; the model never calls it so.) *)
Fixpoint replace_all_fuel (fuel : nat) (s old new : str) : str :=
  match fuel with
  | 0 => s
  | S f =>
    match s with
    | [] => []
    | c :: s' =>
      if is_prefix old s then new ++ replace_all_fuel f (skipn (length old) s) old new
      else c :: replace_all_fuel f s' old new
    end
  end.
Definition replace_all (s old new : str) : str :=
  match old with
  | [] => s
  | _ => replace_all_fuel (S (length s)) s old new
  end.

(* replacement of one byte by a string: the only form the exporters use *)
Definition replace_byte (b : byte) (new : str) (s : str) : str :=
  flat_map (fun c => if Byte.eqb c b then new else [c]) s.

Definition sp : byte := x20.
Fixpoint trim_left (c : byte -> bool) (s : str) : str :=
  match s with
  | x :: s' => if c x then trim_left c s' else s
  | [] => []
  end.
Definition trim (c : byte -> bool) (s : str) : str :=
  rev (trim_left c (rev (trim_left c s))).
Definition is_sp (b : byte) := Byte.eqb b sp.
(* strings.TrimSpace on the ASCII white space Go recognises: \t \n \v \f \r space *)
Definition is_ws (b : byte) :=
  Byte.eqb b x20 || Byte.eqb b x09 || Byte.eqb b x0a || Byte.eqb b x0b || Byte.eqb b x0c || Byte.eqb b x0d.
Definition trim_space := trim is_ws.

Fixpoint join (sep : str) (l : list str) : str :=
  match l with
  | [] => []
  | [x] => x
  | x :: t => x ++ sep ++ join sep t
  end.

Definition count_b (b : byte) (s : str) : nat := length (filter (Byte.eqb b) s).

(* ------------------------------------------------------------ strconv.Itoa / Atoi on naturals and integers *)
Definition digit_byte (d : N) : byte :=
  match Byte.of_N (48 + d) with Some b => b | None => x30 end.

Fixpoint itoa_fuel (fuel : nat) (n : N) (acc : str) : str :=
  match fuel with
  | 0 => acc
  | S f =>
    let acc' := digit_byte (N.modulo n 10) :: acc in
    if N.ltb n 10 then acc' else itoa_fuel f (N.div n 10) acc'
  end.
Definition itoa_N (n : N) : str := itoa_fuel (S (N.to_nat (N.log2 n))) n [].
Definition itoa_nat (n : nat) : str := itoa_N (N.of_nat n).
Definition minus_b : byte := x2d.
Definition itoa_Z (z : Z) : str :=
  match z with
  | Z0 => itoa_N 0
  | Zpos p => itoa_N (Npos p)
  | Zneg p => minus_b :: itoa_N (Npos p)
  end.

Definition digit_val (b : byte) : option N :=
  let n := Byte.to_N b in
  if N.leb 48 n && N.leb n 57 then Some (n - 48)%N else None.
Fixpoint atoi_acc (s : str) (acc : N) : option N :=
  match s with
  | [] => Some acc
  | c :: s' => match digit_val c with Some d => atoi_acc s' (acc * 10 + d)%N | None => None end
  end.
(* strconv.Atoi restricted to what the model feeds it: an optional sign followed by digits *)
Definition atoi (s : str) : option Z :=
  match s with
  | [] => None
  | c :: s' =>
    if Byte.eqb c minus_b then match s' with [] => None | _ => option_map (fun n => Z.opp (Z.of_N n)) (atoi_acc s' 0) end
    else if Byte.eqb c x2b then match s' with [] => None | _ => option_map Z.of_N (atoi_acc s' 0) end
    else option_map Z.of_N (atoi_acc s 0)
  end.

(* association lists keyed by strings (Go map[string]T) *)
Fixpoint assoc_get {A} (k : str) (l : list (str * A)) : option A :=
  match l with
  | [] => None
  | (k', v) :: t => if beq_str k k' then Some v else assoc_get k t
  end.
Fixpoint assoc_set {A} (k : str) (v : A) (l : list (str * A)) : list (str * A) :=
  match l with
  | [] => [(k, v)]
  | (k', v') :: t => if beq_str k k' then (k, v) :: t else (k', v') :: assoc_set k v t
  end.

Fixpoint in_strs (k : str) (l : list str) : bool :=
  match l with [] => false | x :: t => beq_str k x || in_strs k t end.
