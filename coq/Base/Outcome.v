(* Base/Outcome.v - explicit outcomes: Go panics, log.Fatal and non-termination are values,
   so that their absence is a statement to prove. *)
From Coq Require Import List Strings.Byte.
From IGP Require Import Base.Str.
Import ListNotations.

Inductive res (A : Type) := Ok (a : A) | Err (code : str) | Panic (site : nat) | Fatal (site : nat) | OutOfFuel.
Arguments Ok {A}. Arguments Err {A}. Arguments Panic {A}. Arguments Fatal {A}. Arguments OutOfFuel {A}.

Definition bind {A B} (r : res A) (f : A -> res B) : res B :=
  match r with
  | Ok a => f a
  | Err c => Err c
  | Panic s => Panic s
  | Fatal s => Fatal s
  | OutOfFuel => OutOfFuel
  end.
Notation "'let*' x ':=' r 'in' k" := (bind r (fun x => k)) (at level 200, x pattern, r at level 100, k at level 200).

Definition returns {A} (r : res A) : Prop := match r with Ok _ | Err _ => True | _ => False end.
Definition is_ok {A} (r : res A) : bool := match r with Ok _ => true | _ => false end.
