(* Extraction of the combination-parser model (Parser/Combo.v) for the correspondence with parser.ParseIntoNodeTree.
   Separate unit: its node/op types are the parser's own. ExtrOcamlBasic only. *)
From Coq Require Extraction ExtrOcamlBasic.
From IGP Require Import Parser.PStr Parser.Combo Parser.S1a.
Extraction Language OCaml.
Extraction "combo.ml" parse lpar rpar lbrace rbrace render denote.
