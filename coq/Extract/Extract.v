(* Extraction of the executable model for the correspondence check.
   Only ExtrOcamlBasic (bool, option, unit, list, prod, sumbool ... mapped to OCaml's); nat, N, Z, byte
   stay the extracted inductives. No Extract Constant / Extract Inductive of our own. *)
From Coq Require Extraction ExtrOcamlBasic.
From IGP Require Import Base.Str Base.Outcome Model.Tree Model.DoV Model.Odo Model.Leaves Model.Flat Model.Visual Model.VisJson Model.Link Model.Tabular Model.Priv Spec.Json Spec.VisView Spec.TabSpec Spec.Shared Proofs.JsonLemmas Proofs.VisualJson Gen.Wiring.
Extraction Language OCaml.
Extraction "model.ml" endpoint_id spec_table spec_rows spec_links spec_cell_text stmt_of_node tab_root tab_T find_linkage path_ops collapse_ops add_ref expand_refs clean_input adjust lv leafseqs to_json to_json_node vwf_stmt vis_print vis_print_node vis_fuel vis_T spec_vis eff_shared node_size odometer leaf_arrays alternatives stmt_leaf_arrays node_cx stmt_cx dov_node dov_total dov_wf_stmt dov_W all_fields field_idx itoa_Z itoa_nat op_name deep_node deep_stmt process_links priv_link_table.
