(* Parser/Reject.v - malformed combinations are rejected with their specific error by the ported combination parser
   (C11): unequal numbers of opening and closing parentheses, and two different logical operators on one level without
   precedence - for all words, not for sample texts. *)
From Coq Require Import List Arith Bool Lia ZArith Strings.Byte.
From IGP Require Import Parser.PStr Parser.Combo Parser.S1a Parser.S1b.
Import ListNotations.
Open Scope list_scope.

(* ---------------------------------------------------------------- imbalance *)
Theorem detect_imbalanced f s lp rp : count_b lp s <> count_b rp s -> detect (S f) s lp rp = Err IMBALANCED.
Proof.
  intro H. cbn [detect]. replace (Nat.eqb (count_b lp s) (count_b rp s)) with false; [reflexivity|].
  symmetry. apply Nat.eqb_neq. exact H.
Qed.

Theorem parse_imbalanced f s nested : has_ops s = true -> count_b lpar s <> count_b rpar s ->
  parse lpar rpar (S f) s nested = Err IMBALANCED.
Proof.
  intros Ho Hc. cbn [parse]. rewrite Ho. replace (Byte.eqb lpar lpar) with true by reflexivity. cbn [andb negb].
  rewrite (detect_imbalanced (length s) s lpar rpar Hc). reflexivity.
Qed.

(* ---------------------------------------------------------------- different operators on one level *)
Lemma count_plain b w : forallb plain w = true -> (b = lpar \/ b = rpar) -> count_b b w = 0.
Proof.
  intros Hw Hb. unfold count_b. induction w as [|c w IH]; [reflexivity|].
  cbn [forallb] in Hw. apply andb_true_iff in Hw as [Hc Hw]. cbn [filter].
  unfold plain in Hc. apply andb_true_iff in Hc as [Hc H3]. apply andb_true_iff in Hc as [H1 H2].
  apply negb_true_iff in H1, H2.
  assert (E : Byte.eqb b c = false).
  { destruct Hb; subst b.
    - destruct (Byte.eqb lpar c) eqn:E; [|reflexivity]. apply Byte.byte_dec_bl in E. subst c. discriminate.
    - destruct (Byte.eqb rpar c) eqn:E; [|reflexivity]. apply Byte.byte_dec_bl in E. subst c. discriminate. }
  rewrite E. apply IH. exact Hw.
Qed.

Lemma count_app b s t : count_b b (s ++ t) = count_b b s + count_b b t.
Proof. unfold count_b. rewrite filter_app, app_length. reflexivity. Qed.

Lemma op_eqb_neq a b : a <> b -> op_eqb a b = false.
Proof. destruct a, b; intro H; try reflexivity; exfalso; apply H; reflexivity. Qed.
Lemma op_eqb_true a b : op_eqb a b = true -> a = b.
Proof. destruct a, b; intro H; try reflexivity; discriminate. Qed.

Lemma found_get_inc_other_op f o l o2 : o2 <> o -> found_get (found_inc f o l) o2 l = found_get f o2 l.
Proof.
  intros H. induction f as [|[[o' l'] c] t IH]; cbn.
  - rewrite (op_eqb_neq o2 o H). reflexivity.
  - destruct (op_eqb o o' && Nat.eqb l l') eqn:E; cbn.
    + apply andb_true_iff in E. destruct E as [E _]. apply op_eqb_true in E. subst o'.
      rewrite (op_eqb_neq o2 o H). reflexivity.
    + destruct (op_eqb o2 o' && Nat.eqb l l'); auto.
Qed.

(* second operator on the level differs from the first: rejected *)
Lemma step_op_mixed expr s i o rest es b :
  nth (lvl s) (modes s) None = Some MRight ->
  nth (lvl s) (lmap s) [] = es ++ [b] -> bL b <> i ->
  found_get (found s) (op_of o) (lvl s) = 0 ->
  step expr lpar rpar s i "["%byte (opstr o ++ rest) = Fail INVALID_OP_COMB.
Proof.
  intros Hm He Hb Hf. unfold step.
  replace (Byte.eqb "["%byte lpar) with false by reflexivity.
  replace (Byte.eqb "["%byte rpar) with false by reflexivity.
  replace (Byte.eqb "["%byte "["%byte) with true by reflexivity.
  cbn match. rewrite detect_op_opstr.
  replace (Byte.eqb lpar lbrace) with false by reflexivity. cbn [andb].
  unfold get_mode, lvl_entries. cbn [lvl modes lmap found gpar].
  rewrite Hm, He. rewrite rev_app_distr. cbn [rev app].
  replace (Nat.eqb (bL b) i) with false by (symmetry; apply Nat.eqb_neq; exact Hb).
  rewrite found_get_inc_same, Hf. reflexivity.
Qed.

Lemma opstr_cons o R : opstr o ++ R = "["%byte :: (op_txt o ++ ["]"%byte]) ++ R.
Proof. unfold opstr. rewrite <- !app_assoc. reflexivity. Qed.

Lemma scan_op expr s i o R es b :
  nth (lvl s) (modes s) None = Some MLeft -> nth (lvl s) (lmap s) [] = es ++ [b] -> bL b <> i ->
  scan expr lpar rpar s i (opstr o ++ R) = scan expr lpar rpar (op_st s i (op_of o)) (S i) ((op_txt o ++ ["]"%byte]) ++ R).
Proof.
  intros Hm He Hb. rewrite opstr_cons. cbn [scan]. rewrite <- opstr_cons.
  rewrite (step_op expr s i o R es b Hm He Hb). reflexivity.
Qed.
Lemma scan_op_mixed expr s i o R es b :
  nth (lvl s) (modes s) None = Some MRight -> nth (lvl s) (lmap s) [] = es ++ [b] -> bL b <> i ->
  found_get (found s) (op_of o) (lvl s) = 0 ->
  scan expr lpar rpar s i (opstr o ++ R) = Fail INVALID_OP_COMB.
Proof.
  intros Hm He Hb Hf. rewrite opstr_cons. cbn [scan]. rewrite <- opstr_cons.
  rewrite (step_op_mixed expr s i o R es b Hm He Hb Hf). reflexivity.
Qed.
Lemma scan_sp expr s i R : scan expr lpar rpar s i (sp :: R) = scan expr lpar rpar s (S i) R.
Proof. cbn [scan]. rewrite (step_plain expr s i sp (sp :: R) plain_sp). reflexivity. Qed.
Lemma scan_open expr s i R : scan expr lpar rpar s i (lpar :: R) = scan expr lpar rpar (open_st s i) (S i) R.
Proof. cbn [scan]. rewrite step_open. reflexivity. Qed.

Definition mixed (w1 w2 w3 : str) (o1 o2 : wop) : str :=
  lpar :: w1 ++ sp :: opstr o1 ++ sp :: w2 ++ sp :: opstr o2 ++ sp :: w3 ++ [rpar].

Lemma scan_mixed expr w1 w2 w3 o1 o2 : forallb plain w1 = true -> forallb plain w2 = true -> op_of o1 <> op_of o2 ->
  scan expr lpar rpar init_st 0 (mixed w1 w2 w3 o1 o2) = Fail INVALID_OP_COMB.
Proof.
  intros H1 H2 Ho. unfold mixed.
  rewrite scan_open, (scan_plain expr _ w1 H1), scan_sp.
  rewrite (scan_op expr _ _ o1 _ [] (mkB 1 0 None 0 false)); [ | reflexivity | reflexivity | cbn; lia].
  assert (Hp : forallb plain (op_txt o1 ++ ["]"%byte]) = true) by (destruct o1; reflexivity).
  rewrite (scan_plain expr _ _ Hp), scan_sp, (scan_plain expr _ w2 H2), scan_sp.
  apply (scan_op_mixed expr _ _ o2 _ [] (mkB 1 (S (1 + length w1)) (Some (op_of o1)) 0 false)).
  - reflexivity.
  - reflexivity.
  - cbn [bL]. lia.
  - unfold op_st, open_st, init_st. cbn [found lvl]. rewrite found_get_inc_other_op; [reflexivity | intro E; apply Ho; symmetry; exact E].
Qed.

Lemma is_prefix_app sub post : is_prefix sub (sub ++ post) = true.
Proof.
  induction sub as [|c sub IH]; [destruct post; reflexivity|]. cbn [app is_prefix].
  replace (Byte.eqb c c) with true; [exact IH|]. symmetry. destruct (Byte.eqb c c) eqn:E; [reflexivity|].
  exfalso. assert (H : Byte.eqb c c = true) by (apply Byte.byte_dec_lb; reflexivity). congruence.
Qed.
Lemma contains_here sub post : contains (sub ++ post) sub = true.
Proof. destruct (sub ++ post) eqn:E; cbn [contains]; rewrite <- E, is_prefix_app; reflexivity. Qed.
Lemma contains_skip pre s sub : contains s sub = true -> contains (pre ++ s) sub = true.
Proof.
  intro H. induction pre as [|c pre IH]; [exact H|]. cbn [app contains].
  destruct (is_prefix sub (c :: pre ++ s)); [reflexivity | exact IH].
Qed.

(* the statement one reads: for all words, two different operators in one pair of parentheses are rejected with the
   specific error, by the scan, by detectCombinations and by the parser as a whole *)
Theorem mixed_operators_rejected w1 w2 w3 o1 o2 f nested :
  forallb plain w1 = true -> forallb plain w2 = true -> forallb plain w3 = true -> op_of o1 <> op_of o2 ->
  parse lpar rpar (S f) (mixed w1 w2 w3 o1 o2) nested = Err INVALID_OP_COMB.
Proof.
  intros H1 H2 H3 Ho. cbn [parse].
  assert (Hops : has_ops (mixed w1 w2 w3 o1 o2) = true).
  { unfold has_ops, mixed.
    assert (Hc : forall sub, sub = opstr o1 -> contains (lpar :: w1 ++ sp :: opstr o1 ++ sp :: w2 ++ sp :: opstr o2 ++ sp :: w3 ++ [rpar]) sub = true).
    { intros sub ->. apply (contains_skip [lpar]). apply contains_skip. apply (contains_skip [sp]). apply contains_here. }
    destruct o1.
    - rewrite (Hc AND_B eq_refl). reflexivity.
    - rewrite (Hc OR_B eq_refl). rewrite !orb_true_r. reflexivity.
    - rewrite (Hc XOR_B eq_refl). rewrite !orb_true_r. reflexivity. }
  rewrite Hops. replace (Byte.eqb lpar lpar) with true by reflexivity. cbn [andb negb].
  cbn [detect].
  assert (Hbal : Nat.eqb (count_b lpar (mixed w1 w2 w3 o1 o2)) (count_b rpar (mixed w1 w2 w3 o1 o2)) = true).
  { apply Nat.eqb_eq. unfold mixed.
    change (lpar :: w1 ++ sp :: opstr o1 ++ sp :: w2 ++ sp :: opstr o2 ++ sp :: w3 ++ [rpar])
      with ([lpar] ++ w1 ++ [sp] ++ opstr o1 ++ [sp] ++ w2 ++ [sp] ++ opstr o2 ++ [sp] ++ w3 ++ [rpar]).
    rewrite !count_app.
    rewrite !(count_plain lpar _ H1), !(count_plain lpar _ H2), !(count_plain lpar _ H3) by (left; reflexivity).
    rewrite !(count_plain rpar _ H1), !(count_plain rpar _ H2), !(count_plain rpar _ H3) by (right; reflexivity).
    destruct o1, o2; reflexivity. }
  rewrite Hbal. cbn [negb]. rewrite (scan_mixed _ w1 w2 w3 o1 o2 H1 H2 Ho). reflexivity.
Qed.
