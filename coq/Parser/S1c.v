From Coq Require Import List Arith Bool Lia ZArith Strings.Byte.
From IGP Require Import Parser.PStr Parser.Combo Parser.S1a Parser.S1b.
Import ListNotations.
Open Scope list_scope.

Definition half_bnd (pre_len : nat) (o : wop) (l : ct) : bnd :=
  mkB (S pre_len) (pre_len + 1 + length (render l) + 1) (Some (op_of o)) 0 false.

Lemma render_N_length o l r :
  length (render (N o l r)) = 1 + length (render l) + 1 + (length (op_txt o) + 2) + 1 + length (render r) + 1.
Proof. cbn [render]. unfold opstr. repeat (rewrite app_length; cbn [length]). lia. Qed.

Lemma scan_render t : wft t -> forall (expr pre post : str) s,
  found_clean (lvl s) s ->
  exists s',
    scan expr lpar rpar s (length pre) (render t ++ post) = scan expr lpar rpar s' (length pre + length (render t)) post
    /\ same_upto (lvl s) s s' /\ found_clean (lvl s) s'
    /\ nth (S (lvl s)) (lmap s') [] =
       nth (S (lvl s)) (lmap s) [] ++ match t with L _ => [] | N o l r => [new_bnd (length pre) o l r] end.
Proof.
  induction t as [w|o l IHl r IHr]; intros Hwf expr pre post s Hclean.
  - exists s. destruct Hwf as [_ Hp]. cbn [render]. rewrite scan_plain by exact Hp.
    repeat split; auto using same_upto_refl. rewrite app_nil_r. reflexivity.
  - destruct Hwf as [Hl Hr].
    pose proof (render_nonempty l Hl) as Ll. pose proof (render_nonempty r Hr) as Lr.
    remember (lvl s) as k eqn:Ek.
    remember (nth (S k) (lmap s) []) as old eqn:Eold.
    (* '(' *)
    set (s1 := open_st s (length pre)).
    assert (L1 : lvl s1 = S k) by (subst s1 k; reflexivity).
    assert (C1 : found_clean (lvl s1) s1).
    { rewrite L1. intros o' j Hj. subst s1. cbn [open_st found]. apply Hclean. lia. }
    assert (M1 : nth (S k) (modes s1) None = Some MLeft).
    { subst s1 k. cbn [open_st modes]. rewrite nth_upd_same. reflexivity. }
    assert (E1 : nth (S k) (lmap s1) [] = old ++ [mkB (S (length pre)) 0 None 0 false]).
    { subst s1 k old. cbn [open_st lmap]. rewrite nth_upd_same. reflexivity. }
    (* render l *)
    destruct (IHl Hl expr (pre ++ [lpar]) (sp :: opstr o ++ sp :: render r ++ rpar :: post) s1 C1)
      as [s2 [E2 [U2 [C2 _]]]].
    rewrite L1 in U2, C2. rewrite app_length in E2. cbn [length] in E2.
    pose proof (su_lvl _ _ _ U2) as L2. rewrite L1 in L2.
    assert (M2 : nth (lvl s2) (modes s2) None = Some MLeft).
    { rewrite L2. rewrite (su_modes _ _ _ U2) by lia. exact M1. }
    assert (E2' : nth (lvl s2) (lmap s2) [] = old ++ [mkB (S (length pre)) 0 None 0 false]).
    { rewrite L2. rewrite (su_lmap _ _ _ U2) by lia. exact E1. }
    (* operator *)
    set (io := length pre + 1 + length (render l) + 1).
    set (s3 := op_st s2 io (op_of o)).
    assert (L3 : lvl s3 = S k) by (subst s3; cbn [op_st lvl]; exact L2).
    assert (C3 : found_clean (lvl s3) s3).
    { rewrite L3. intros o' j Hj. subst s3. cbn [op_st found]. rewrite L2.
      rewrite found_get_inc_other by lia. apply C2. exact Hj. }
    assert (E3 : nth (S k) (lmap s3) [] = old ++ [half_bnd (length pre) o l]).
    { subst s3. cbn [op_st lmap]. rewrite L2. rewrite nth_upd_same. rewrite <- L2, E2'.
      rewrite upd_last_snoc. reflexivity. }
    (* render r *)
    destruct (IHr Hr expr (pre ++ lpar :: render l ++ sp :: opstr o ++ [sp]) (rpar :: post) s3 C3)
      as [s4 [E4 [U4 [C4 _]]]].
    rewrite L3 in U4, C4.
    pose proof (su_lvl _ _ _ U4) as L4. rewrite L3 in L4.
    assert (E4' : nth (S k) (lmap s4) [] = old ++ [half_bnd (length pre) o l]).
    { rewrite (su_lmap _ _ _ U4) by lia. exact E3. }
    (* ')' *)
    set (j := length pre + length (render (N o l r)) - 1).
    set (s5 := close_st s4 j (half_bnd (length pre) o l)).
    exists s5. split; [|split; [|split]].
    + (* the scan equation *)
      subst s5 j. rewrite !render_N_length.
      cbn [render]. rewrite <- !app_assoc. cbn [app].
      cbn [scan]. rewrite step_open. fold s1.
      replace (S (length pre)) with (length pre + 1) by lia.
      rewrite E2.
      cbn [scan]. rewrite step_plain by exact plain_sp.
      unfold opstr at 1. cbn [app]. cbn [scan].
      change ("["%byte :: (op_txt o ++ ["]"%byte]) ++ sp :: render r ++ rpar :: post)
        with (opstr o ++ sp :: render r ++ rpar :: post).
      rewrite (step_op expr s2 _ o _ old (mkB (S (length pre)) 0 None 0 false) M2 E2')
        by (cbn [bL]; lia).
      replace (S (length pre + 1 + length (render l))) with io by (subst io; lia). fold s3.
      replace ((op_txt o ++ ["]"%byte]) ++ sp :: render r ++ rpar :: post)
        with ((op_txt o ++ ["]"%byte; sp]) ++ render r ++ rpar :: post)
        by (rewrite <- !app_assoc; reflexivity).
      rewrite scan_plain by apply plain_optxt.
      assert (Lp : length (pre ++ lpar :: render l ++ sp :: opstr o ++ [sp])
                   = S io + length (op_txt o ++ ["]"%byte; sp])).
      { unfold opstr. repeat (rewrite app_length; cbn [length]). subst io. lia. }
      rewrite Lp in E4. rewrite E4.
      cbn [scan].
      rewrite (step_close expr s4 _ _ k old (half_bnd (length pre) o l) (op_of o) L4 E4' eq_refl)
        by (cbn [half_bnd bL bOp]; rewrite ?op_len_txt; repeat (rewrite app_length; cbn [length]); lia).
      f_equal; [f_equal|]; subst io; rewrite app_length; cbn [length]; lia.
    + (* frame *)
      constructor.
      * subst s5. cbn [close_st lvl]. rewrite L4. cbn [pred]. exact Ek.
      * subst s5. cbn [close_st gpar]. rewrite (su_g _ _ _ U4). subst s3. cbn [op_st gpar].
        rewrite (su_g _ _ _ U2). subst s1. cbn [open_st gpar]. lia.
      * intros i Hi. subst s5. cbn [close_st modes]. rewrite L4. rewrite nth_upd_other by lia.
        rewrite (su_modes _ _ _ U4) by lia. subst s3. cbn [op_st modes]. rewrite L2. rewrite nth_upd_other by lia.
        rewrite (su_modes _ _ _ U2) by lia. subst s1. cbn [open_st modes]. rewrite <- Ek. rewrite nth_upd_other by lia. reflexivity.
      * intros i Hi. subst s5. cbn [close_st lmap]. rewrite L4. rewrite nth_upd_other by lia.
        rewrite (su_lmap _ _ _ U4) by lia. subst s3. cbn [op_st lmap]. rewrite L2. rewrite nth_upd_other by lia.
        rewrite (su_lmap _ _ _ U2) by lia. subst s1. cbn [open_st lmap]. rewrite <- Ek. rewrite nth_upd_other by lia. reflexivity.
      * intros o' i Hi. subst s5. cbn [close_st found]. rewrite L4. rewrite found_get_del_other by lia.
        rewrite (su_found _ _ _ U4) by lia. subst s3. cbn [op_st found]. rewrite L2. rewrite found_get_inc_other by lia.
        rewrite (su_found _ _ _ U2) by lia. subst s1. cbn [open_st found]. reflexivity.
    + (* found stays clean above k *)
      intros o' i Hi. subst s5. cbn [close_st found]. rewrite L4.
      destruct (Nat.eq_dec i (S k)) as [->|Hne].
      * apply found_get_del_same.
      * rewrite found_get_del_other by exact Hne. apply C4. lia.
    + (* the new boundary *)
      subst s5. cbn [close_st lmap]. rewrite L4. rewrite nth_upd_same. rewrite E4'. rewrite upd_last_snoc.
      reflexivity.
Qed.

Print Assumptions scan_render.
