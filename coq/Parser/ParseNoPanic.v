(* Parser/ParseNoPanic.v - ParseIntoNodeTree (ported in Parser/Combo.v, panics explicit) never panics on a string whose
   parentheses nest properly: the operands it cuts out of the expression by the recorded boundary indices nest properly
   again, so every recursive call is within the theorem's premise (C10).
   Invariant of one scan: for every group recorded, the text between its opening parenthesis and its operator and - once
   closed - between its operator and its closing parenthesis returns to the depth it started from. *)
From Coq Require Import List Arith Bool Lia ZArith Strings.Byte.
From IGP Require Import Parser.PStr Parser.Combo Parser.S1a Parser.NoPanic.
Import ListNotations.
Open Scope list_scope.

Definition op_bytes (o : op) : str :=
  match o with AND => AND_B | OR => OR_B | XOR => XOR_B | WAND => WAND_B | BAND => BAND_B end.
Lemma op_bytes_len o : length (op_bytes o) = op_len o + 2.
Proof. destruct o; reflexivity. Qed.
Lemma detect_op_bytes sfx o : detect_op sfx = Some o -> is_prefix (op_bytes o) sfx = true.
Proof.
  unfold detect_op. destruct (is_prefix AND_B sfx) eqn:E1; [intro H; inversion H; exact E1|].
  destruct (is_prefix XOR_B sfx) eqn:E2; [intro H; inversion H; exact E2|].
  destruct (is_prefix OR_B sfx) eqn:E3; [intro H; inversion H; exact E3|].
  destruct (is_prefix WAND_B sfx) eqn:E4; [intro H; inversion H; exact E4|].
  destruct (is_prefix BAND_B sfx) eqn:E5; [intro H; inversion H; exact E5|discriminate].
Qed.

(* ---------------------------------------------------------------- list / slice helpers *)
Lemma byte_eqb_refl (c : byte) : Byte.eqb c c = true.
Proof. apply Byte.byte_dec_lb. reflexivity. Qed.
Lemma byte_eqb_true (a b : byte) : Byte.eqb a b = true -> a = b.
Proof. apply Byte.byte_dec_bl. Qed.

Lemma is_prefix_nth p : forall s j, is_prefix p s = true -> j < length p -> nth_error s j = nth_error p j.
Proof.
  induction p as [|x p IH]; intros s j H Hj; [cbn in Hj; lia|].
  destruct s as [|y s]; [discriminate|]. cbn [is_prefix] in H. apply andb_true_iff in H. destruct H as [H1 H2].
  apply byte_eqb_true in H1. subst y. destruct j as [|j]; [reflexivity|]. cbn [nth_error]. apply IH; [exact H2|cbn in Hj; lia].
Qed.
Lemma is_prefix_firstn p : forall s, is_prefix p s = true -> firstn (length p) s = p.
Proof.
  induction p as [|x p IH]; intros s H; [reflexivity|]. destruct s as [|y s]; [discriminate|].
  cbn [is_prefix] in H. apply andb_true_iff in H. destruct H as [H1 H2]. apply byte_eqb_true in H1. subst y.
  cbn [length firstn]. rewrite (IH s H2). reflexivity.
Qed.
Lemma nth_error_skipn' {A} a : forall (l : list A) j, nth_error (skipn a l) j = nth_error l (a + j).
Proof. induction a as [|a IH]; intros l j; [reflexivity|]. destruct l as [|x l]; [destruct j; reflexivity|]. cbn. apply IH. Qed.
Lemma skipn_add {A} a : forall n (l : list A), skipn (n + a) l = skipn n (skipn a l).
Proof.
  induction a as [|a IH]; intros n l; [rewrite Nat.add_0_r; reflexivity|].
  rewrite Nat.add_succ_r. destruct l as [|x l]; [cbn; destruct n; reflexivity|]. cbn [skipn]. apply IH.
Qed.
Lemma slice_skipn (s : str) a m : a <= m -> slice s a m ++ skipn m s = skipn a s.
Proof.
  intro H. unfold slice. replace m with ((m - a) + a) at 2 by lia. rewrite skipn_add. apply firstn_skipn.
Qed.
Lemma slice_stable (pre x : str) a b : b <= length pre -> slice (pre ++ x) a b = slice pre a b.
Proof.
  intro H. unfold slice. destruct (Nat.le_gt_cases a (length pre)) as [Ha|Ha].
  - rewrite skipn_app. replace (a - length pre) with 0 by lia. cbn [skipn]. rewrite firstn_app, skipn_length.
    replace (b - a - (length pre - a)) with 0 by lia. cbn [firstn]. apply app_nil_r.
  - replace (b - a) with 0 by lia. reflexivity.
Qed.
Lemma skipn_snoc (pre : str) c a : a <= length pre -> skipn a (pre ++ [c]) = skipn a pre ++ [c].
Proof. intro H. rewrite skipn_app. replace (a - length pre) with 0 by lia. reflexivity. Qed.
Lemma slice_to_end (pre x : str) a : a <= length pre -> slice (pre ++ x) a (length pre) = skipn a pre.
Proof.
  intro H. rewrite slice_stable by lia. unfold slice. rewrite <- (skipn_length a pre). apply firstn_all.
Qed.

Section PN.
Variables lp rp : byte.
Hypothesis sp_lp : Byte.eqb sp lp = false.
Hypothesis sp_rp : Byte.eqb sp rp = false.
Hypothesis rp_lp : Byte.eqb rp lp = false.
Hypothesis op_free : forall o c, In c (op_bytes o) -> Byte.eqb c lp = false /\ Byte.eqb c rp = false.
Notation dep := (depth lp rp).

Lemma depth_free s : (forall c, In c s -> Byte.eqb c lp = false /\ Byte.eqb c rp = false) -> forall d, dep d s = Some d.
Proof.
  induction s as [|c s IH]; intros H d; [reflexivity|]. cbn [depth].
  destruct (H c (or_introl eq_refl)) as [H1 H2]. rewrite H1, H2. apply IH. intros x Hx. apply H. right. exact Hx.
Qed.
Lemma depth_op o d : dep d (op_bytes o) = Some d.
Proof. apply depth_free. apply op_free. Qed.

(* a closing parenthesis met after the operator has begun lies behind the operator's text *)
Lemma closing_behind_operator (expr pre rest : str) a o :
  is_prefix (op_bytes o) (skipn a expr) = true -> expr = pre ++ rp :: rest -> a < length pre ->
  a + length (op_bytes o) <= length pre.
Proof.
  intros Hp He Ha. destruct (Nat.le_gt_cases (a + length (op_bytes o)) (length pre)) as [H|H]; [exact H|exfalso].
  pose proof (is_prefix_nth _ _ (length pre - a) Hp ltac:(lia)) as Hn.
  rewrite nth_error_skipn' in Hn. replace (a + (length pre - a)) with (length pre) in Hn by lia.
  rewrite He in Hn. rewrite nth_error_app2 in Hn by lia. rewrite Nat.sub_diag in Hn. cbn [nth_error] in Hn.
  symmetry in Hn. apply nth_error_In in Hn. destruct (op_free o rp Hn) as [_ H2]. rewrite byte_eqb_refl in H2. discriminate.
Qed.

(* ---------------------------------------------------------------- the invariant *)
Record W (expr : str) (s : st) (pre : str) : Prop := {
  w_open : forall l, 1 <= l -> l <= lvl s -> exists es b, nth l (lmap s) [] = es ++ [b] /\ bL b <= length pre /\
             dep 0 (skipn (bL b) pre) = Some (lvl s - l) /\ bComplete b = false;
  w_op : forall l b o, In b (nth l (lmap s) []) -> bOpVal b = Some o ->
             bL b <= bOp b /\ bOp b < length pre /\ dep 0 (slice pre (bL b) (bOp b)) = Some 0 /\
             is_prefix (op_bytes o) (skipn (bOp b) expr) = true;
  w_done : forall l b, In b (nth l (lmap s) []) -> bComplete b = true ->
             exists o, bOpVal b = Some o /\ bOp b + op_len o + 2 <= bR b /\ bR b <= length pre /\
                       dep 0 (slice pre (bOp b + op_len o + 2) (bR b)) = Some 0 }.

Lemma dep_snoc d s c k : dep d s = Some k -> dep d (s ++ [c]) = dep k [c].
Proof. intro H. rewrite depth_app, H. reflexivity. Qed.

(* entries that are not touched keep their facts when the prefix grows by one character *)
Lemma w_op_grow expr pre c b o :
  (bL b <= bOp b /\ bOp b < length pre /\ dep 0 (slice pre (bL b) (bOp b)) = Some 0 /\ is_prefix (op_bytes o) (skipn (bOp b) expr) = true) ->
  bL b <= bOp b /\ bOp b < length (pre ++ [c]) /\ dep 0 (slice (pre ++ [c]) (bL b) (bOp b)) = Some 0 /\ is_prefix (op_bytes o) (skipn (bOp b) expr) = true.
Proof.
  intros [H1 [H2 [H3 H4]]]. rewrite app_length. cbn [length]. rewrite slice_stable by lia. repeat split; [exact H1|lia|exact H3|exact H4].
Qed.
Lemma w_done_grow pre c b :
  (exists o, bOpVal b = Some o /\ bOp b + op_len o + 2 <= bR b /\ bR b <= length pre /\ dep 0 (slice pre (bOp b + op_len o + 2) (bR b)) = Some 0) ->
  exists o, bOpVal b = Some o /\ bOp b + op_len o + 2 <= bR b /\ bR b <= length (pre ++ [c]) /\ dep 0 (slice (pre ++ [c]) (bOp b + op_len o + 2) (bR b)) = Some 0.
Proof.
  intros [o [H1 [H2 [H3 H4]]]]. exists o. rewrite app_length. cbn [length]. rewrite slice_stable by lia. repeat split; [exact H1|exact H2|lia|exact H4].
Qed.

Lemma rev_last' {A} (es : list A) b t : rev es = b :: t -> es = rev t ++ [b].
Proof. intro H. rewrite <- (rev_involutive es), H. reflexivity. Qed.

(* state with another parenthesis counter: nothing the invariant reads *)
Lemma W_gpar expr s pre g : W expr s pre -> W expr (mkS (lvl s) (modes s) (lmap s) (found s) g) pre.
Proof. intros [H1 H2 H3]. constructor; cbn [lvl lmap]; assumption. Qed.

(* a character that is no parenthesis (for this scan) and changes no boundary *)
Lemma W_plain expr s pre c : Byte.eqb c lp = false -> Byte.eqb c rp = false -> W expr s pre -> W expr s (pre ++ [c]).
Proof.
  intros Hl Hr [H1 H2 H3]. constructor.
  - intros l Hl1 Hl2. destruct (H1 l Hl1 Hl2) as [es [b [He [Hb [Hd Hc]]]]]. exists es, b. split; [exact He|]. rewrite app_length. cbn [length].
    split; [lia|]. split; [|exact Hc]. rewrite skipn_snoc by lia. rewrite (dep_snoc _ _ c _ Hd). cbn [depth]. rewrite Hl, Hr. reflexivity.
  - intros l b o Hb Ho. apply w_op_grow. exact (H2 l b o Hb Ho).
  - intros l b Hb Hc. apply w_done_grow. exact (H3 l b Hb Hc).
Qed.

Lemma step_w expr pre c rest s : expr = pre ++ c :: rest -> Inv s (length pre) -> W expr s pre ->
  match step expr lp rp s (length pre) c (c :: rest) with
  | Cont s' => W expr s' (pre ++ [c])
  | _ => True
  end.
Proof.
  intros He [Hm0 Hne Hle] HW. pose proof HW as [Hopen Hop Hdone]. unfold step.
  set (g := if Byte.eqb c lpar then (gpar s + 1)%Z else if Byte.eqb c rpar then (gpar s - 1)%Z else gpar s).
  set (i := length pre).
  destruct (Byte.eqb c lp) eqn:Elp.
  { (* opening *)
    constructor; cbn [lvl modes lmap found gpar].
    - intros l Hl1 Hl2. destruct (Nat.eq_dec l (S (lvl s))) as [->|Hn].
      + rewrite nth_upd_same. exists (nth (S (lvl s)) (lmap s) []), (mkB (S i) 0 None 0 false). split; [reflexivity|]. cbn [bL].
        rewrite app_length. cbn [length]. fold i. split; [lia|]. split; [|reflexivity].
        replace (S i) with (length (pre ++ [c])) by (rewrite app_length; cbn [length]; fold i; lia).
        rewrite skipn_all. rewrite Nat.sub_diag. reflexivity.
      + rewrite nth_upd_other by lia. destruct (Hopen l Hl1 ltac:(lia)) as [es [b [Hes [Hb [Hd Hcf]]]]]. exists es, b. split; [exact Hes|].
        rewrite app_length. cbn [length]. split; [lia|]. split; [|exact Hcf]. rewrite skipn_snoc by lia. rewrite (dep_snoc _ _ c _ Hd). cbn [depth]. rewrite Elp.
        f_equal. lia.
    - intros l b o Hb Ho. destruct (Nat.eq_dec l (S (lvl s))) as [->|Hn].
      + rewrite nth_upd_same in Hb. apply in_app_or in Hb. destruct Hb as [Hb|[<-|[]]]; [|discriminate].
        apply w_op_grow. exact (Hop _ b o Hb Ho).
      + rewrite nth_upd_other in Hb by lia. apply w_op_grow. exact (Hop _ b o Hb Ho).
    - intros l b Hb Hc. destruct (Nat.eq_dec l (S (lvl s))) as [->|Hn].
      + rewrite nth_upd_same in Hb. apply in_app_or in Hb. destruct Hb as [Hb|[<-|[]]]; [|discriminate].
        apply w_done_grow. exact (Hdone _ b Hb Hc).
      + rewrite nth_upd_other in Hb by lia. apply w_done_grow. exact (Hdone _ b Hb Hc). }
  destruct (Byte.eqb c rp) eqn:Erp.
  { (* closing *)
    cbn [lvl modes lmap found gpar]. destruct (lvl s) as [|l'] eqn:El; [exact I|].
    unfold lvl_entries. cbn [lvl lmap].
    destruct (rev (nth (S l') (lmap s) [])) as [|b t] eqn:Er; [exact I|].
    destruct (Nat.eqb (bOp b + match bOpVal b with Some o => op_len o | None => 0 end + 2) i) eqn:Eempty; [exact I|].
    apply rev_last' in Er.
    assert (Hbin : In b (nth (S l') (lmap s) [])) by (rewrite Er; apply in_or_app; right; left; reflexivity).
    (* the group that closes is the open one of this level *)
    destruct (Hopen (S l') ltac:(lia) ltac:(lia)) as [es0 [b0 [Hes0 [Hb0 [Hd0 Hcf0]]]]].
    rewrite Er in Hes0. apply app_inj_tail in Hes0. destruct Hes0 as [_ <-]. rewrite Nat.sub_diag in Hd0.
    assert (Hc : c = rp) by (apply byte_eqb_true; exact Erp). subst c.
    set (b1 := mkB (bL b) (bOp b) (bOpVal b) i (bComplete b)).
    set (b2 := if negb (Nat.eqb (bL b1) 0) && match bOpVal b1 with Some _ => true | None => false end
               then mkB (bL b1) (bOp b1) (bOpVal b1) (bR b1) true else b1).
    assert (Hb2 : bL b2 = bL b /\ bOp b2 = bOp b /\ bOpVal b2 = bOpVal b /\ bR b2 = i /\
                  (bComplete b2 = true -> bComplete b = true \/ exists o, bOpVal b = Some o)).
    { subst b2 b1. cbn [bL bOp bOpVal bR bComplete]. destruct (negb (Nat.eqb (bL b) 0)); cbn [andb].
      - destruct (bOpVal b) as [o|] eqn:Eo; cbn [bL bOp bOpVal bR bComplete]; repeat split; try reflexivity; try exact Eo.
        + intros _. right. exists o. reflexivity.
        + intro H. left. exact H.
      - repeat split; try reflexivity. intro H. left. exact H. }
    destruct Hb2 as [HbL [HbOp [HbOv [HbR HbC]]]].
    (* facts about the closing group once its operator is known *)
    assert (Hright : forall o, bOpVal b = Some o ->
              bOp b + op_len o + 2 <= i /\ dep 0 (slice (pre ++ [rp]) (bOp b + op_len o + 2) i) = Some 0).
    { intros o Ho. destruct (Hop _ b o Hbin Ho) as [H1 [H2 [H3 H4]]].
      pose proof (closing_behind_operator expr pre rest (bOp b) o H4 He H2) as Hpos. rewrite op_bytes_len in Hpos. fold i in Hpos.
      split; [lia|]. unfold i. rewrite slice_to_end by (fold i; lia).
      (* skipn bL pre = left ++ operator ++ right *)
      rewrite <- (slice_skipn pre (bL b) (bOp b) H1) in Hd0.
      rewrite <- (slice_skipn pre (bOp b) (bOp b + op_len o + 2) ltac:(lia)) in Hd0.
      rewrite depth_app, H3 in Hd0. rewrite depth_app in Hd0.
      assert (Hopt : slice pre (bOp b) (bOp b + op_len o + 2) = op_bytes o).
      { rewrite <- (slice_stable pre (rp :: rest)) by (fold i; lia). rewrite <- He. unfold slice.
        replace (bOp b + op_len o + 2 - bOp b) with (length (op_bytes o)) by (rewrite op_bytes_len; lia).
        apply is_prefix_firstn. exact H4. }
      rewrite Hopt, depth_op in Hd0. exact Hd0. }
    constructor; cbn [lvl modes lmap found gpar].
    - intros l Hl1 Hl2. rewrite nth_upd_other by lia. destruct (Hopen l Hl1 ltac:(lia)) as [es [x [Hes [Hx [Hd Hcf]]]]]. exists es, x.
      split; [exact Hes|]. rewrite app_length. cbn [length]. split; [lia|]. split; [|exact Hcf]. rewrite skipn_snoc by lia. rewrite (dep_snoc _ _ rp _ Hd).
      cbn [depth]. rewrite rp_lp, byte_eqb_refl. destruct (S l' - l) as [|d] eqn:Ed; [lia|]. f_equal. lia.
    - intros l x o Hx Ho. destruct (Nat.eq_dec l (S l')) as [->|Hn].
      + rewrite nth_upd_same, Er, upd_last_snoc in Hx. apply in_app_or in Hx. destruct Hx as [Hx|[<-|[]]].
        * apply w_op_grow. apply (Hop (S l')); [rewrite Er; apply in_or_app; left; exact Hx|exact Ho].
        * rewrite HbL, HbOp. rewrite HbOv in Ho. apply w_op_grow. exact (Hop _ b o Hbin Ho).
      + rewrite nth_upd_other in Hx by lia. apply w_op_grow. exact (Hop _ x o Hx Ho).
    - intros l x Hx Hc. destruct (Nat.eq_dec l (S l')) as [->|Hn].
      + rewrite nth_upd_same, Er, upd_last_snoc in Hx. apply in_app_or in Hx. destruct Hx as [Hx|[<-|[]]].
        * apply w_done_grow. apply (Hdone (S l')); [rewrite Er; apply in_or_app; left; exact Hx|exact Hc].
        * destruct (HbC Hc) as [Hold|[o Ho]].
          -- (* an open group is not complete *)
             rewrite Hcf0 in Hold. discriminate.
          -- exists o. rewrite HbOv, HbOp, HbR. destruct (Hright o Ho) as [Hr1 Hr2].
             rewrite app_length. cbn [length]. fold i. repeat split; [exact Ho|lia|lia|exact Hr2].
      + rewrite nth_upd_other in Hx by lia. apply w_done_grow. exact (Hdone _ x Hx Hc). }
  (* no parenthesis of this scan *)
  assert (Hsame : W expr (mkS (lvl s) (modes s) (lmap s) (found s) g) (pre ++ [c])).
  { apply W_gpar. apply W_plain; assumption. }
  destruct (Byte.eqb c "["%byte) eqn:Ebr; [|exact Hsame].
  destruct (detect_op (c :: rest)) as [o|] eqn:Edo; [|exact Hsame].
  cbn [lvl modes lmap found gpar].
  destruct (Byte.eqb lp lbrace && negb (Z.eqb g 0)); [exact Hsame|].
  unfold get_mode, lvl_entries. cbn [lvl modes lmap found gpar].
  assert (Hcont : nth (lvl s) (modes s) None <> Some MOut -> forall b t, rev (nth (lvl s) (lmap s) []) = b :: t ->
            W expr (cont_st s g i o) (pre ++ [c])).
  { intros Hmode b t Er. apply rev_last' in Er.
    assert (Hlv : 1 <= lvl s). { destruct (Nat.eq_dec (lvl s) 0) as [E|E]; [|lia]. exfalso. apply Hmode. rewrite E. exact Hm0. }
    destruct (Hopen (lvl s) Hlv (le_n _)) as [es0 [b0 [Hes0 [Hb0 [Hd0 Hcf0]]]]].
    rewrite Er in Hes0. apply app_inj_tail in Hes0. destruct Hes0 as [_ <-]. rewrite Nat.sub_diag in Hd0.
    pose proof (W_plain expr s pre c Elp Erp HW) as [G1 G2 G3].
    constructor; unfold cont_st; cbn [lvl modes lmap found gpar].
    - intros l Hl1 Hl2. destruct (Nat.eq_dec l (lvl s)) as [->|Hn].
      + rewrite nth_upd_same, Er, upd_last_snoc. destruct (G1 (lvl s) Hl1 Hl2) as [es1 [b1 [Hes1 [Hb1 [Hd1 Hcf1]]]]].
        rewrite Er in Hes1. apply app_inj_tail in Hes1. destruct Hes1 as [<- <-].
        eexists; eexists. split; [reflexivity|]. cbn [bL bComplete]. split; [exact Hb1|]. split; [exact Hd1|exact Hcf1].
      + rewrite nth_upd_other by lia. exact (G1 l Hl1 Hl2).
    - intros l x o' Hx Ho'. destruct (Nat.eq_dec l (lvl s)) as [->|Hn].
      + rewrite nth_upd_same, Er, upd_last_snoc in Hx. apply in_app_or in Hx. destruct Hx as [Hx|[<-|[]]].
        * apply (G2 (lvl s)); [rewrite Er; apply in_or_app; left; exact Hx|exact Ho'].
        * cbn [bL bOp bOpVal] in *. inversion Ho'; subst o'. rewrite app_length. cbn [length]. fold i.
          split; [exact Hb0|]. split; [lia|]. split.
          -- unfold i. rewrite slice_to_end by exact Hb0. exact Hd0.
          -- rewrite He. unfold i. rewrite skipn_app, skipn_all. rewrite Nat.sub_diag. cbn [skipn app]. apply detect_op_bytes. exact Edo.
      + rewrite nth_upd_other in Hx by lia. exact (G2 l x o' Hx Ho').
    - intros l x Hx Hc. destruct (Nat.eq_dec l (lvl s)) as [->|Hn].
      + rewrite nth_upd_same, Er, upd_last_snoc in Hx. apply in_app_or in Hx. destruct Hx as [Hx|[<-|[]]].
        * apply (G3 (lvl s)); [rewrite Er; apply in_or_app; left; exact Hx|exact Hc].
        * cbn [bComplete] in Hc. rewrite Hcf0 in Hc. discriminate.
      + rewrite nth_upd_other in Hx by lia. exact (G3 l x Hx Hc). }
  destruct (nth (lvl s) (modes s) None) as [[| |]|] eqn:Em.
  - destruct (rev (nth (lvl s) (lmap s) [])) as [|b t] eqn:Er; [destruct (Nat.eqb 0 i); exact I|].
    destruct (Nat.eqb (bL b) i); [exact I|]. apply (Hcont ltac:(discriminate) b t eq_refl).
  - destruct (rev (nth (lvl s) (lmap s) [])) as [|b t] eqn:Er; [destruct (Nat.eqb 0 i); exact I|].
    destruct (Nat.eqb (bL b) i); [exact I|]. destruct (Nat.ltb 1 _); exact I.
  - exact I.
  - destruct (rev (nth (lvl s) (lmap s) [])) as [|b t] eqn:Er; [destruct (Nat.eqb 0 i); exact I|].
    destruct (Nat.eqb (bL b) i); [exact I|]. apply (Hcont ltac:(discriminate) b t eq_refl).
Qed.

Lemma W_init expr : W expr init_st [].
Proof.
  constructor; cbn [lvl lmap init_st].
  - intros l H1 H2. lia.
  - intros l b o Hb. destruct l; destruct Hb.
  - intros l b Hb. destruct l; destruct Hb.
Qed.

Lemma scan_w expr : forall rest pre s, expr = pre ++ rest -> Inv s (length pre) -> W expr s pre ->
  match scan expr lp rp s (length pre) rest with
  | Cont s' => W expr s' expr
  | _ => True
  end.
Proof.
  induction rest as [|c rest IH]; intros pre s He Hi Hw; cbn [scan].
  - rewrite app_nil_r in He. subst pre. exact Hw.
  - assert (Hno : false = true -> last_at s (length pre)) by (intro H; discriminate).
    pose proof (step_inv lp rp expr s (length pre) c (c :: rest) false Hi Hno) as Hs.
    pose proof (step_w expr pre c rest s He Hi Hw) as Hw'.
    destruct (step expr lp rp s (length pre) c (c :: rest)) as [s'|e|e|n]; try exact I.
    destruct Hs as [Hi' _].
    assert (El : S (length pre) = length (pre ++ [c])) by (rewrite app_length; cbn [length]; lia).
    rewrite El. apply IH; [rewrite <- app_assoc; exact He|rewrite <- El; exact Hi'|exact Hw'].
Qed.

(* ---------------------------------------------------------------- what detectCombinations returns *)
Definition slices_ok (e : str) (b : bnd) : Prop :=
  exists o, bOpVal b = Some o /\ dep 0 (slice e (bL b) (bOp b)) = Some 0 /\ dep 0 (slice e (bOp b + op_len o + 2) (bR b)) = Some 0.

Theorem detect_slices fuel : forall expr lm e', detect fuel expr lp rp = Ok (lm, e') ->
  forall l b, In b (nth l lm []) -> bComplete b = true -> slices_ok e' b.
Proof.
  induction fuel as [|f IH]; intros expr lm e' H; cbn [detect] in H; [discriminate|].
  destruct (negb (Nat.eqb (count_b lp expr) (count_b rp expr))); [discriminate|].
  pose proof (scan_w expr expr [] init_st eq_refl (inv_init) (W_init expr)) as Hs. cbn [length] in Hs.
  destruct (scan expr lp rp init_st 0 expr) as [s'|e|e|n]; try discriminate.
  - inversion H; subst. intros l b Hb Hc. destruct Hs as [_ Hop Hdone].
    destruct (Hdone l b Hb Hc) as [o [Ho [_ [_ Hr]]]]. destruct (Hop l b o Hb Ho) as [_ [_ [Hl _]]].
    exists o. split; [exact Ho|]. split; [exact Hl|exact Hr].
  - exact (IH e lm e' H).
Qed.

Theorem detect_ok_depth fuel : forall expr k, dep 0 expr = Some k -> forall lm e', detect fuel expr lp rp = Ok (lm, e') ->
  exists k', dep 0 e' = Some k'.
Proof.
  induction fuel as [|f IH]; intros expr k Hd lm e' H; cbn [detect] in H; [discriminate|].
  destruct (negb (Nat.eqb (count_b lp expr) (count_b rp expr))); [discriminate|].
  pose proof (scan_inv lp rp sp_lp sp_rp rp_lp expr expr [] init_st k eq_refl inv_init eq_refl) as Hs. cbn [length] in Hs.
  assert (Hl : last_lp lp [] = true -> last_at init_st 0) by (intro E; discriminate).
  specialize (Hs Hl Hd).
  destruct (scan expr lp rp init_st 0 expr) as [s'|e|e|n]; try discriminate.
  - inversion H; subst. exists k. exact Hd.
  - destruct Hs as [k' Hk']. exact (IH e k' Hk' lm e' H).
Qed.

(* ---------------------------------------------------------------- the tree builder *)
Definition rec_ok (rec : str -> pres) : Prop := forall s k, dep 0 s = Some k -> forall n, rec s <> Panic n.

Lemma side_np rec s k : rec_ok rec -> dep 0 s = Some k -> forall n, side lp rp rec s <> Panic n.
Proof.
  intros Hr Hd n. unfold side.
  destruct (detect (S (length s)) s lp rp) as [[lm' s']|e|m|] eqn:E.
  - destruct (Nat.eqb (nlevels lm') 0).
    + destruct (leaf_or s'); discriminate.
    + destruct (detect_ok_depth _ _ _ Hd _ _ E) as [k' Hk']. pose proof (Hr s' k' Hk') as Hn.
      destruct (rec s') as [[[nd s''] fl]|e|m|]; try discriminate.
      * destruct nd; discriminate.
      * exfalso. exact (Hn m eq_refl).
  - discriminate.
  - exfalso. exact (detect_never_panics lp rp sp_lp sp_rp rp_lp _ s k Hd m E).
  - discriminate.
Qed.

Lemma build_np rec input lm level idx b : rec_ok rec -> slices_ok input b -> forall n, build lp rp rec input lm level idx b <> Panic n.
Proof.
  intros Hr [o [Ho [Hl Hrt]]] n. unfold build. destruct (shared input lm level idx) as [shl shr]. rewrite Ho.
  pose proof (side_np rec _ 0 Hr Hl) as H1. pose proof (side_np rec _ 0 Hr Hrt) as H2.
  destruct (side lp rp rec (slice input (bL b) (bOp b))) as [ln|e|m|]; try discriminate.
  - destruct (side lp rp rec (slice input (bOp b + op_len o + 2) (bR b))) as [rn|e|m|]; try discriminate.
    exfalso. exact (H2 m eq_refl).
  - exfalso. exact (H1 m eq_refl).
Qed.

Lemma over_idx_np rec input lm nested level : rec_ok rec -> forall es idx nall acc,
  (forall b, In b es -> bComplete b = true -> slices_ok input b) ->
  forall n, over_idx lp rp rec input lm nested level es idx nall acc <> Panic n.
Proof.
  intros Hr. induction es as [|b es IH]; intros idx nall acc Hes n; cbn [over_idx]; [discriminate|].
  destruct (bComplete b) eqn:Ec.
  - pose proof (build_np rec input lm level idx b Hr (Hes b (or_introl eq_refl) Ec)) as Hb.
    destruct (build lp rp rec input lm level idx b) as [nd|e|m|]; try discriminate.
    + destruct (negb nested || Nat.ltb 1 nall); [|discriminate].
      pose proof (IH (S idx) nall (acc ++ [(bL b, nd)]) (fun x Hx => Hes x (or_intror Hx)) n) as Hn.
      destruct (over_idx lp rp rec input lm nested level es (S idx) nall (acc ++ [(bL b, nd)])) as [[[a e0] f0]|e|m|]; try discriminate.
      exact Hn.
    + exfalso. exact (Hb m eq_refl).
  - apply IH. intros x Hx. apply Hes. right. exact Hx.
Qed.

Lemma over_lvl_np rec input lm nested : rec_ok rec -> forall levels level acc,
  (forall es, In es levels -> forall b, In b es -> bComplete b = true -> slices_ok input b) ->
  forall n, over_lvl lp rp rec input lm nested levels level acc <> Panic n.
Proof.
  intros Hr. induction levels as [|es rest IH]; intros level acc Hl n; cbn [over_lvl]; [discriminate|].
  pose proof (over_idx_np rec input lm nested level Hr es 0 (length es) acc (Hl es (or_introl eq_refl))) as Hi.
  destruct (over_idx lp rp rec input lm nested level es 0 (length es) acc) as [[[acc' early] fl]|e|m|]; try discriminate.
  - destruct early as [nd|]; [discriminate|]. destruct fl; [discriminate|].
    apply IH. intros es' He'. apply Hl. right. exact He'.
  - exfalso. exact (Hi m eq_refl).
Qed.

Lemma finish_np input r : (forall n, r <> Panic n) -> forall n, finish input r <> Panic n.
Proof.
  intros Hr n. unfold finish. destruct r as [[acc [nd|]]|e|m|]; try discriminate.
  - destruct acc as [|[k0 nd0] [|x t]]; discriminate.
  - exfalso. exact (Hr m eq_refl).
Qed.

(* ParseIntoNodeTree *)
Theorem parse_never_panics fuel : forall input nested k, dep 0 input = Some k -> forall n, parse lp rp fuel input nested <> Panic n.
Proof.
  induction fuel as [|f IH]; intros input nested k Hd n; cbn [parse]; [discriminate|].
  destruct (Byte.eqb lp lpar && negb (has_ops input)); [discriminate|].
  destruct (detect (S (length input)) input lp rp) as [[lm input']|e|m|] eqn:E; try discriminate.
  - destruct (Nat.eqb (nlevels lm) 0); [discriminate|].
    apply finish_np. apply over_lvl_np.
    + intros s k' Hk' n'. exact (IH s true k' Hk' n').
    + intros es Hes b Hb Hc. destruct (In_nth _ _ [] Hes) as [l [_ Hl]]. subst es.
      exact (detect_slices _ _ _ _ E l b Hb Hc).
  - exfalso. exact (detect_never_panics lp rp sp_lp sp_rp rp_lp _ input k Hd m E).
Qed.
End PN.

(* the two instantiations *)
Lemma op_free_par : forall o c, In c (op_bytes o) -> Byte.eqb c lpar = false /\ Byte.eqb c rpar = false.
Proof. intros o c H. destruct o; cbn in H; repeat (destruct H as [<-|H]; [split; reflexivity|]); destruct H. Qed.
Lemma op_free_brace : forall o c, In c (op_bytes o) -> Byte.eqb c lbrace = false /\ Byte.eqb c rbrace = false.
Proof. intros o c H. destruct o; cbn in H; repeat (destruct H as [<-|H]; [split; reflexivity|]); destruct H. Qed.

Theorem parse_par_never_panics fuel input nested n : nests_par input = true -> parse lpar rpar fuel input nested <> Panic n.
Proof.
  unfold nests_par. destruct (depth lpar rpar 0 input) as [k|] eqn:E; [|discriminate]. intros _.
  exact (parse_never_panics lpar rpar eq_refl eq_refl eq_refl op_free_par fuel input nested k E n).
Qed.
Theorem parse_brace_never_panics fuel input nested n : nests_brace input = true -> parse lbrace rbrace fuel input nested <> Panic n.
Proof.
  unfold nests_brace. destruct (depth lbrace rbrace 0 input) as [k|] eqn:E; [|discriminate]. intros _.
  exact (parse_never_panics lbrace rbrace eq_refl eq_refl eq_refl op_free_brace fuel input nested k E n).
Qed.
