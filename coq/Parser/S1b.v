From Coq Require Import List Arith Bool Lia ZArith Strings.Byte.
From IGP Require Import Parser.PStr Parser.Combo Parser.S1a.
Import ListNotations.
Open Scope list_scope.

(* states agree up to (and including) level k *)
Record same_upto (k : nat) (s s' : st) : Prop := {
  su_lvl : lvl s' = lvl s;
  su_g : gpar s' = gpar s;
  su_modes : forall j, j <= k -> nth j (modes s') None = nth j (modes s) None;
  su_lmap : forall j, j <= k -> nth j (lmap s') [] = nth j (lmap s) [];
  su_found : forall o j, j <= k -> found_get (found s') o j = found_get (found s) o j }.
Definition found_clean (k : nat) (s : st) : Prop := forall o j, k < j -> found_get (found s) o j = 0.

Lemma same_upto_refl k s : same_upto k s s. Proof. constructor; auto. Qed.
Lemma same_upto_trans k s1 s2 s3 : same_upto k s1 s2 -> same_upto k s2 s3 -> same_upto k s1 s3.
Proof. intros [a b c d e] [a' b' c' d' e']. constructor; try congruence; intros; [rewrite c'|rewrite d'|rewrite e']; auto. Qed.
Lemma same_upto_weaken k k' s s' : k' <= k -> same_upto k s s' -> same_upto k' s s'.
Proof. intros H [a b c d e]. constructor; auto; intros; [apply c|apply d|apply e]; lia. Qed.

Lemma eta s : mkS (lvl s) (modes s) (lmap s) (found s) (gpar s) = s. Proof. destruct s; reflexivity. Qed.

(* a plain character does nothing *)
Lemma step_plain expr s i c suffix : plain c = true -> step expr lpar rpar s i c suffix = Cont s.
Proof.
  unfold plain. intros H. apply andb_true_iff in H. destruct H as [H H3]. apply andb_true_iff in H. destruct H as [H1 H2].
  apply negb_true_iff in H1, H2, H3.
  unfold step. rewrite H1, H2, H3. rewrite eta. reflexivity.
Qed.

Lemma scan_plain expr s w : forallb plain w = true -> forall i post,
  scan expr lpar rpar s i (w ++ post) = scan expr lpar rpar s (i + length w) post.
Proof.
  induction w as [|c w IH]; intros H i post; cbn [app length].
  - rewrite Nat.add_0_r. reflexivity.
  - cbn [forallb] in H. apply andb_true_iff in H. destruct H as [Hc Hw].
    cbn [scan]. rewrite step_plain by exact Hc. rewrite IH by exact Hw. f_equal. lia.
Qed.

Lemma plain_sp : plain sp = true. Proof. reflexivity. Qed.
Lemma plain_optxt o : forallb plain (op_txt o ++ ["]"%byte; sp]) = true. Proof. destruct o; reflexivity. Qed.

Lemma detect_op_opstr o rest : detect_op (opstr o ++ rest) = Some (op_of o).
Proof. destruct o; reflexivity. Qed.
Lemma op_len_txt o : op_len (op_of o) = length (op_txt o). Proof. destruct o; reflexivity. Qed.

Definition new_bnd (pre_len : nat) (o : wop) (l r : ct) : bnd :=
  mkB (S pre_len) (pre_len + 1 + length (render l) + 1) (Some (op_of o))
      (pre_len + length (render (N o l r)) - 1) true.


(* named post-states *)
Definition open_st (s : st) (i : nat) : st :=
  mkS (S (lvl s)) (upd None (modes s) (S (lvl s)) (fun _ => Some MLeft))
      (upd [] (lmap s) (S (lvl s)) (fun es => es ++ [mkB (S i) 0 None 0 false])) (found s) (gpar s + 1)%Z.
Lemma step_open expr s i suffix : step expr lpar rpar s i lpar suffix = Cont (open_st s i).
Proof. reflexivity. Qed.

Definition op_st (s : st) (i : nat) (o : op) : st :=
  mkS (lvl s) (upd None (modes s) (lvl s) (fun _ => Some MRight))
      (upd [] (lmap s) (lvl s) (fun es => upd_last es (fun b => mkB (bL b) i (Some o) (bR b) (bComplete b))))
      (found_inc (found s) o (lvl s)) (gpar s).
Lemma step_op expr s i o rest es b :
  nth (lvl s) (modes s) None = Some MLeft ->
  nth (lvl s) (lmap s) [] = es ++ [b] -> bL b <> i ->
  step expr lpar rpar s i "["%byte (opstr o ++ rest) = Cont (op_st s i (op_of o)).
Proof.
  intros Hm He Hb. unfold step.
  replace (Byte.eqb "["%byte lpar) with false by reflexivity.
  replace (Byte.eqb "["%byte rpar) with false by reflexivity.
  replace (Byte.eqb "["%byte "["%byte) with true by reflexivity.
  cbn match. rewrite detect_op_opstr.
  replace (Byte.eqb lpar lbrace) with false by reflexivity. cbn [andb].
  unfold get_mode, lvl_entries. cbn [lvl modes lmap found gpar].
  rewrite Hm, He. rewrite rev_app_distr. cbn [rev app].
  replace (Nat.eqb (bL b) i) with false by (symmetry; apply Nat.eqb_neq; exact Hb).
  unfold op_st, set_mode. cbn [lvl modes lmap found gpar]. reflexivity.
Qed.

Definition close_st (s : st) (i : nat) (b : bnd) : st :=
  mkS (pred (lvl s)) (upd None (modes s) (lvl s) (fun _ => Some MOut))
      (upd [] (lmap s) (lvl s) (fun es => upd_last es (fun _ => mkB (bL b) (bOp b) (bOpVal b) i true)))
      (found_del (found s) (lvl s)) (gpar s - 1)%Z.
Lemma step_close expr s i suffix k es b o :
  lvl s = S k -> nth (S k) (lmap s) [] = es ++ [b] -> bOpVal b = Some o -> bL b <> 0 ->
  bOp b + op_len o + 2 <> i ->
  step expr lpar rpar s i rpar suffix = Cont (close_st s i b).
Proof.
  intros Hl He Ho HL Hne. destruct s as [lv md lm fd g]. cbn [lvl lmap] in *. subst lv.
  unfold step, close_st, lvl_entries, set_mode.
  replace (Byte.eqb rpar lpar) with false by reflexivity.
  replace (Byte.eqb rpar rpar) with true by reflexivity.
  cbn [lvl modes lmap found gpar pred]. rewrite He. rewrite rev_app_distr. cbn [rev app].
  destruct b as [bl bo bv br bc]. cbn [bL bOp bOpVal bR bComplete] in *. subst bv.
  replace (Nat.eqb (bo + op_len o + 2) i) with false by (symmetry; apply Nat.eqb_neq; exact Hne).
  replace (Nat.eqb bl 0) with false by (symmetry; apply Nat.eqb_neq; exact HL). cbn [negb andb].
  reflexivity.
Qed.
