From Coq Require Import List Arith Bool Lia ZArith Strings.Byte.
From IGP Require Import Parser.PStr Parser.Combo Parser.S1a Parser.S1b Parser.S1c Parser.S1d Parser.S1e.
Import ListNotations.
Open Scope list_scope.

Fixpoint wft2 (t : ct) : Prop := match t with L w => okw2 w | N _ l r => wft2 l /\ wft2 r end.
Lemma wft2_wft t : wft2 t -> wft t.
Proof.
  induction t as [w|o l IHl r IHr]; cbn; [|tauto].
  intros [Hp [[x [w' [-> _]]] _]]. split; [congruence|exact Hp].
Qed.
Fixpoint depth (t : ct) : nat := match t with L _ => 0 | N _ l r => S (Nat.max (depth l) (depth r)) end.

Notation pres := (res (node * str * bool)).

(* what the recursive call must deliver for an operand; a leaf needs nothing *)
Definition IHspec (rec : str -> pres) (x : ct) : Prop :=
  match x with
  | L _ => True
  | N _ _ _ => forall nl nr, rec (spaces nl ++ render x ++ spaces nr)
                             = Ok (denote x, spaces nl ++ render x ++ spaces nr, false)
  end.

Lemma side_spec rec x nl nr : wft2 x -> IHspec rec x ->
  side lpar rpar rec (spaces nl ++ render x ++ spaces nr) = Ok (Some (denote x)).
Proof.
  intros Hwf IH. unfold side. destruct x as [w|o l r].
  - (* a word: no parentheses at all *)
    cbn [render]. destruct Hwf as [Hp Hrest].
    assert (Hpl : forallb plain (spaces nl ++ w ++ spaces nr) = true).
    { rewrite !forallb_app. rewrite Hp, !spaces_plain. reflexivity. }
    rewrite detect_plain by exact Hpl. cbn [nlevels filter length Nat.eqb].
    unfold leaf_or. rewrite trim_word by (split; [exact Hp|exact Hrest]).
    destruct Hrest as [[x [w' [-> _]]] _]. reflexivity.
  - pose proof (wft2_wft _ Hwf) as Hwf1.
    destruct (detect_render o l r Hwf1 nl nr (length (spaces nl ++ render (N o l r) ++ spaces nr)))
      as [lm [Hd [_ H1]]].
    rewrite Hd. rewrite (nlevels_pos lm _ H1). cbn [IHspec] in IH. rewrite IH. reflexivity.
Qed.

Lemma render_split o l r nl nr :
  spaces nl ++ render (N o l r) ++ spaces nr
  = (spaces nl ++ [lpar]) ++ (render l ++ [sp]) ++ (opstr o ++ ([sp] ++ render r) ++ rpar :: spaces nr).
Proof. cbn [render]. rewrite <- !app_assoc. reflexivity. Qed.

Lemma render_split_r o l r nl nr :
  spaces nl ++ render (N o l r) ++ spaces nr
  = (spaces nl ++ [lpar] ++ render l ++ [sp] ++ opstr o) ++ (spaces 1 ++ render r ++ spaces 0) ++ (rpar :: spaces nr).
Proof.
  cbn [render]. change (spaces 1) with [sp]. change (spaces 0) with (@nil byte).
  rewrite app_nil_r. rewrite <- !app_assoc. reflexivity.
Qed.

Lemma skip_to_close o l r nl nr :
  skipn (nl + length (render (N o l r)) - 1) (spaces nl ++ render (N o l r) ++ spaces nr) = rpar :: spaces nr.
Proof.
  set (body := [lpar] ++ render l ++ [sp] ++ opstr o ++ [sp] ++ render r).
  assert (E : render (N o l r) = body ++ [rpar]) by (subst body; cbn [render]; rewrite <- !app_assoc; reflexivity).
  rewrite E. rewrite app_length. cbn [length].
  replace (nl + (length body + 1) - 1) with (length (spaces nl ++ body)) by (rewrite app_length, spaces_length; lia).
  replace (spaces nl ++ (body ++ [rpar]) ++ spaces nr) with ((spaces nl ++ body) ++ rpar :: spaces nr)
    by (rewrite <- !app_assoc; reflexivity).
  apply skipn_app_exact.
Qed.

Lemma build_spec rec o l r nl nr rest : wft2 (N o l r) -> IHspec rec l -> IHspec rec r ->
  let input := spaces nl ++ render (N o l r) ++ spaces nr in
  let b := new_bnd nl o l r in
  build lpar rpar rec input ([] :: [b] :: rest) 1 0 b = Ok (denote (N o l r)).
Proof.
  intros [Hl Hr] IHl IHr input b.
  pose proof (render_nonempty l (wft2_wft _ Hl)) as Ll.
  unfold build.
  (* shared text: nothing but the parentheses and the padding *)
  assert (Hsh : shared input ([] :: [b] :: rest) 1 0 = ([], [])).
  { unfold shared. cbn [nth bOpVal b new_bnd find_outer find nth_error bL bR].
    subst input. rewrite render_split.
    replace (S nl) with (length (spaces nl ++ [lpar])) by (rewrite app_length, spaces_length; cbn; lia).
    rewrite firstn_app_exact. rewrite clean_open.
    f_equal. rewrite <- render_split. rewrite skip_to_close. apply clean_close. }
  rewrite Hsh. cbn [bOpVal b new_bnd bL bOp bR].
  (* the two operands *)
  assert (Hleft : slice input (S nl) (nl + 1 + length (render l) + 1) = spaces 0 ++ render l ++ spaces 1).
  { subst input. rewrite render_split. apply slice_mid; rewrite ?app_length, ?spaces_length; cbn [length]; lia. }
  assert (Hright : slice input (nl + 1 + length (render l) + 1 + op_len (op_of o) + 2)
                     (nl + length (render (N o l r)) - 1) = spaces 1 ++ render r ++ spaces 0).
  { subst input. rewrite render_N_length. rewrite render_split_r.
    apply slice_mid; unfold opstr; rewrite ?op_len_txt; repeat (rewrite ?app_length, ?spaces_length; cbn [length]); lia. }
  rewrite Hleft, Hright.
  rewrite (side_spec rec l 0 1 Hl IHl). rewrite (side_spec rec r 1 0 Hr IHr). reflexivity.
Qed.

Theorem parse_render_step o l r f : wft2 (N o l r) ->
  IHspec (fun s => parse lpar rpar f s true) l -> IHspec (fun s => parse lpar rpar f s true) r ->
  forall nl nr nested,
  parse lpar rpar (S f) (spaces nl ++ render (N o l r) ++ spaces nr) nested
  = Ok (denote (N o l r), spaces nl ++ render (N o l r) ++ spaces nr, false).
Proof.
  intros Hwf IHl IHr nl nr nested.
  pose proof (wft2_wft _ Hwf) as Hwf1.
  destruct (detect_render o l r Hwf1 nl nr (length (spaces nl ++ render (N o l r) ++ spaces nr)))
    as [lm [Hd [H0 H1]]].
  cbn [parse].
  replace (Byte.eqb lpar lpar) with true by reflexivity.
  rewrite has_ops_render. cbn [negb andb].
  rewrite Hd. rewrite (nlevels_pos lm _ H1).
  destruct lm as [|x0 [|x1 rest]]; cbn in H0, H1; try discriminate. subst x0 x1.
  cbn [over_lvl over_idx length].
  change (bComplete (new_bnd nl o l r)) with true. cbv iota.
  rewrite (build_spec _ o l r nl nr rest Hwf IHl IHr).
  destruct nested; cbn [negb orb Nat.ltb Nat.leb over_idx app finish bL new_bnd]; reflexivity.
Qed.

Theorem parse_render t : wft2 t -> forall f, depth t <= f ->
  IHspec (fun s => parse lpar rpar f s true) t /\
  match t with
  | L _ => True
  | N _ _ _ => forall nl nr, parse lpar rpar f (spaces nl ++ render t ++ spaces nr) false
                             = Ok (denote t, spaces nl ++ render t ++ spaces nr, false)
  end.
Proof.
  induction t as [w|o l IHl r IHr]; intros Hwf f Hf; [split; exact I|].
  destruct f as [|f]; [cbn in Hf; lia|]. cbn [depth] in Hf.
  destruct Hwf as [Hl Hr].
  destruct (IHl Hl f ltac:(lia)) as [IL _]. destruct (IHr Hr f ltac:(lia)) as [IR _].
  split; cbn [IHspec]; intros nl nr; apply parse_render_step; try (split; assumption); assumption.
Qed.

(* the statement one reads: for every fully parenthesised operator tree, parsing its text gives its denotation *)
Corollary pint_roundtrip_parenthesised o l r : wft2 (N o l r) ->
  parse lpar rpar (depth (N o l r)) (render (N o l r)) false = Ok (denote (N o l r), render (N o l r), false).
Proof.
  intros H. destruct (parse_render _ H (depth (N o l r)) (le_n _)) as [_ P].
  specialize (P 0 0). cbn [spaces repeat app] in P. rewrite app_nil_r in P. exact P.
Qed.

Example roundtrip_example :
  let t := N WXor (N WOr (L ["x"%byte]) (L ["y"; " "; "z"]%byte)) (L ["w"%byte]) in
  wft2 t /\ parse lpar rpar 2 (render t) false = Ok (denote t, render t, false).
Proof.
  cbv zeta. split; [|vm_compute; reflexivity].
  repeat split; try reflexivity; cbn; eauto.
Qed.

Print Assumptions pint_roundtrip_parenthesised.
