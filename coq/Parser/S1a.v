From Coq Require Import List Arith Bool Lia ZArith Strings.Byte.
From IGP Require Import Parser.PStr Parser.Combo.
Import ListNotations.
Open Scope list_scope.

(* ---------- spec: fully parenthesised trees ---------- *)
Inductive wop := WAnd | WOr | WXor.
Definition op_of (o : wop) : op := match o with WAnd => AND | WOr => OR | WXor => XOR end.
Definition op_txt (o : wop) : str :=
  match o with
  | WAnd => ["A";"N";"D"]%byte | WOr => ["O";"R"]%byte | WXor => ["X";"O";"R"]%byte
  end.
Inductive ct := L (w : str) | N (o : wop) (l r : ct).
Definition opstr (o : wop) : str := ["["%byte] ++ op_txt o ++ ["]"%byte].
Fixpoint render (t : ct) : str :=
  match t with
  | L w => w
  | N o l r => [lpar] ++ render l ++ [sp] ++ opstr o ++ [sp] ++ render r ++ [rpar]
  end.
Fixpoint denote (t : ct) : node :=
  match t with
  | L w => NLeaf w
  | N o l r => NComb (op_of o) (Some (denote l)) (Some (denote r)) [] []
  end.

Definition plain (c : byte) : bool :=
  negb (Byte.eqb c lpar) && negb (Byte.eqb c rpar) && negb (Byte.eqb c "["%byte).
Definition okw (w : str) : Prop := w <> [] /\ forallb plain w = true.
Fixpoint wft (t : ct) : Prop := match t with L w => okw w | N _ l r => wft l /\ wft r end.

Lemma render_nonempty t : wft t -> 1 <= length (render t).
Proof. destruct t as [w|o l r]; cbn; intros H; [destruct H as [H _]; destruct w; [congruence|cbn; lia]|lia]. Qed.

(* ---------- list-map lemmas ---------- *)
Lemma nth_upd_same {A} (d : A) l n f : nth n (upd d l n f) d = f (nth n l d).
Proof. revert l; induction n as [|n IH]; intros [|x t]; cbn; auto. - rewrite IH. destruct n; reflexivity. Qed.
Lemma nth_upd_other {A} (d : A) l n m f : n <> m -> nth m (upd d l n f) d = nth m l d.
Proof.
  revert l m; induction n as [|n IH]; intros [|x t] [|m] H; cbn; try congruence; auto.
  - destruct m; reflexivity.
  - rewrite IH by lia. destruct m; reflexivity.
Qed.

Lemma upd_last_snoc {A} (l : list A) x f : upd_last (l ++ [x]) f = l ++ [f x].
Proof. induction l as [|y t IH]; cbn; [reflexivity|]. rewrite IH. destruct t; reflexivity. Qed.

(* ---------- found-map lemmas ---------- *)
Lemma found_get_inc_same f o l : found_get (found_inc f o l) o l = S (found_get f o l).
Proof.
  induction f as [|[[o' l'] c] t IH]; cbn.
  - destruct o; cbn; rewrite Nat.eqb_refl; reflexivity.
  - destruct (op_eqb o o' && Nat.eqb l l') eqn:E; cbn; rewrite E; auto.
Qed.
Lemma found_get_inc_other f o l o2 l2 : l2 <> l -> found_get (found_inc f o l) o2 l2 = found_get f o2 l2.
Proof.
  intros H. induction f as [|[[o' l'] c] t IH]; cbn.
  - replace (Nat.eqb l2 l) with false by (symmetry; apply Nat.eqb_neq; exact H). rewrite andb_false_r. reflexivity.
  - destruct (op_eqb o o' && Nat.eqb l l') eqn:E; cbn.
    + apply andb_true_iff in E. destruct E as [_ E]. apply Nat.eqb_eq in E. subst l'.
      replace (Nat.eqb l2 l) with false by (symmetry; apply Nat.eqb_neq; exact H). rewrite andb_false_r. reflexivity.
    + destruct (op_eqb o2 o' && Nat.eqb l2 l'); auto.
Qed.
Lemma found_get_del_same f o l : found_get (found_del f l) o l = 0.
Proof.
  unfold found_del. induction f as [|[[o' l'] c] t IH]; cbn; [reflexivity|].
  destruct (Nat.eqb l' l) eqn:E; cbn; [exact IH|].
  rewrite Nat.eqb_sym in E. rewrite E, andb_false_r. exact IH.
Qed.
Lemma found_get_del_other f o l l2 : l2 <> l -> found_get (found_del f l) o l2 = found_get f o l2.
Proof.
  intros H. unfold found_del. induction f as [|[[o' l'] c] t IH]; cbn; [reflexivity|].
  destruct (Nat.eqb l' l) eqn:E; cbn.
  - apply Nat.eqb_eq in E. subst l'. replace (Nat.eqb l2 l) with false by (symmetry; apply Nat.eqb_neq; exact H).
    rewrite andb_false_r. exact IH.
  - destruct (op_eqb o o' && Nat.eqb l2 l'); auto.
Qed.
