From Coq Require Import List Arith Bool Lia Strings.Byte Strings.String.
Open Scope list_scope.
Import ListNotations.

Definition str := list byte.

Fixpoint beq_str (a b : str) : bool :=
  match a, b with
  | [], [] => true
  | x :: a', y :: b' => Byte.eqb x y && beq_str a' b'
  | _, _ => false
  end.

Fixpoint is_prefix (p s : str) : bool :=
  match p, s with
  | [], _ => true
  | x :: p', y :: s' => Byte.eqb x y && is_prefix p' s'
  | _, [] => false
  end.

(* strings.Contains *)
Fixpoint contains (s sub : str) : bool :=
  if is_prefix sub s then true else
  match s with
  | [] => false
  | _ :: s' => contains s' sub
  end.

Definition slice (s : str) (a b : nat) : str := firstn (b - a) (skipn a s).

Definition sp : byte := x20.

Fixpoint trim_left (c : byte -> bool) (s : str) : str :=
  match s with
  | x :: s' => if c x then trim_left c s' else s
  | [] => []
  end.
Definition trim (c : byte -> bool) (s : str) : str :=
  rev (trim_left c (rev (trim_left c s))).
Definition is_sp (b : byte) := Byte.eqb b sp.
(* strings.TrimSpace on ASCII whitespace: space, \t \n \v \f \r ; (unicode spaces ignored here) *)
Definition is_ws (b : byte) :=
  Byte.eqb b x20 || Byte.eqb b x09 || Byte.eqb b x0a || Byte.eqb b x0b || Byte.eqb b x0c || Byte.eqb b x0d.
Definition bs (s : string) : str := list_byte_of_string s.
Definition AND_B := Eval compute in bs "[AND]".
Definition OR_B := Eval compute in bs "[OR]".
Definition XOR_B := Eval compute in bs "[XOR]".
Definition WAND_B := Eval compute in bs "[wAND]".
Definition BAND_B := Eval compute in bs "[bAND]".
