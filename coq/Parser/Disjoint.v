(* Parser/Disjoint.v - the parenthesised groups that detectCombinations records on one level are pairwise apart: each
   closes before the next one opens.  Hence at most one of them encloses a given combination, and the search
   "for i, v := range boundaries[level-1] { if encloses { ...; break } }" of extractSharedComponents returns the same
   group whatever order Go's map iteration visits them in - for every input string (C12). *)
From Coq Require Import List Arith Bool Lia ZArith Sorted Permutation Strings.Byte.
From IGP Require Import Parser.PStr Parser.Combo Parser.S1a Proofs.OracleProof.
Import ListNotations.
Open Scope list_scope.

Definition before (v w : bnd) : Prop := bR v < bL w.

Record Dis (s : st) (i : nat) : Prop := {
  dis_sorted : forall l, StronglySorted before (nth l (lmap s) []);
  dis_right : forall l b, In b (nth l (lmap s) []) -> bR b <= i }.

Lemma sorted_snoc es b : StronglySorted before es -> Forall (fun v => bR v < bL b) es -> StronglySorted before (es ++ [b]).
Proof.
  induction es as [|a t IH]; intros Hs Hf; cbn [app].
  - constructor; constructor.
  - inversion Hs as [|? ? Hs' Ha]; subst. inversion Hf as [|? ? Hab Hf']; subst. constructor.
    + apply IH; assumption.
    + apply Forall_app. split; [exact Ha|]. constructor; [exact Hab|constructor].
Qed.

Lemma sorted_snoc_inv es b : StronglySorted before (es ++ [b]) -> StronglySorted before es /\ Forall (fun v => bR v < bL b) es.
Proof.
  induction es as [|a t IH]; cbn [app]; intro Hs.
  - split; constructor.
  - inversion Hs as [|? ? Hs' Ha]; subst. destruct (IH Hs') as [H1 H2]. apply Forall_app in Ha. destruct Ha as [Ha Hb].
    split; [constructor; assumption|]. constructor; [|exact H2]. inversion Hb; subst. assumption.
Qed.

(* the last entry may change anything but its left edge *)
Lemma sorted_replace_last es b b' : bL b' = bL b -> StronglySorted before (es ++ [b]) -> StronglySorted before (es ++ [b']).
Proof.
  intros E Hs. apply sorted_snoc_inv in Hs. destruct Hs as [H1 H2]. apply sorted_snoc; [exact H1|].
  rewrite E. exact H2.
Qed.

Lemma rev_last {A} (es : list A) b t : rev es = b :: t -> es = rev t ++ [b].
Proof. intro H. rewrite <- (rev_involutive es), H. reflexivity. Qed.

Lemma step_dis expr lp rp s i c suffix : Dis s i ->
  match step expr lp rp s i c suffix with
  | Cont s' => Dis s' (S i)
  | _ => True
  end.
Proof.
  intros [Hs Hr]. unfold step.
  set (g := if Byte.eqb c lpar then (gpar s + 1)%Z else if Byte.eqb c rpar then (gpar s - 1)%Z else gpar s).
  assert (Hsame : Dis (mkS (lvl s) (modes s) (lmap s) (found s) g) (S i)).
  { constructor; cbn; [exact Hs|]. intros l b Hb. pose proof (Hr l b Hb). lia. }
  destruct (Byte.eqb c lp).
  { (* opening: a new group starts after everything recorded on its level has closed *)
    constructor; cbn [lvl modes lmap found gpar].
    - intro l. destruct (Nat.eq_dec l (S (lvl s))) as [->|Hn].
      + rewrite nth_upd_same. apply sorted_snoc; [apply Hs|]. apply Forall_forall. intros v Hv. cbn [bL].
        pose proof (Hr _ _ Hv). lia.
      + rewrite nth_upd_other by lia. apply Hs.
    - intros l b Hb. destruct (Nat.eq_dec l (S (lvl s))) as [->|Hn].
      + rewrite nth_upd_same in Hb. apply in_app_or in Hb. destruct Hb as [Hb|[<-|[]]]; [pose proof (Hr _ _ Hb); lia|cbn; lia].
      + rewrite nth_upd_other in Hb by lia. pose proof (Hr _ _ Hb). lia. }
  destruct (Byte.eqb c rp).
  { cbn [lvl modes lmap found gpar]. destruct (lvl s) as [|l'] eqn:El; [exact I|].
    unfold lvl_entries. cbn [lvl lmap].
    destruct (rev (nth (S l') (lmap s) [])) as [|b t] eqn:Er; [exact I|].
    destruct (Nat.eqb (bOp b + match bOpVal b with Some o => op_len o | None => 0 end + 2) i); [exact I|].
    apply rev_last in Er.
    set (b2 := if negb (Nat.eqb (bL (mkB (bL b) (bOp b) (bOpVal b) i (bComplete b))) 0) &&
                  match bOpVal (mkB (bL b) (bOp b) (bOpVal b) i (bComplete b)) with Some _ => true | None => false end
               then mkB (bL (mkB (bL b) (bOp b) (bOpVal b) i (bComplete b))) (bOp (mkB (bL b) (bOp b) (bOpVal b) i (bComplete b)))
                        (bOpVal (mkB (bL b) (bOp b) (bOpVal b) i (bComplete b))) (bR (mkB (bL b) (bOp b) (bOpVal b) i (bComplete b))) true
               else mkB (bL b) (bOp b) (bOpVal b) i (bComplete b)).
    assert (HbL : bL b2 = bL b) by (subst b2; destruct (_ && _); reflexivity).
    assert (HbR : bR b2 = i) by (subst b2; destruct (_ && _); reflexivity).
    constructor; cbn [lvl modes lmap found gpar].
    - intro l. destruct (Nat.eq_dec l (S l')) as [->|Hn].
      + rewrite nth_upd_same, Er, upd_last_snoc. apply (sorted_replace_last _ b b2 HbL). rewrite <- Er. apply Hs.
      + rewrite nth_upd_other by lia. apply Hs.
    - intros l x Hx. destruct (Nat.eq_dec l (S l')) as [->|Hn].
      + rewrite nth_upd_same, Er, upd_last_snoc in Hx. apply in_app_or in Hx. destruct Hx as [Hx|[<-|[]]].
        * assert (Hin : In x (nth (S l') (lmap s) [])) by (rewrite Er; apply in_or_app; left; exact Hx).
          pose proof (Hr _ _ Hin). lia.
        * lia.
      + rewrite nth_upd_other in Hx by lia. pose proof (Hr _ _ Hx). lia. }
  destruct (Byte.eqb c "["%byte); [|exact Hsame].
  destruct (detect_op suffix) as [o|]; [|exact Hsame].
  cbn [lvl modes lmap found gpar].
  destruct (Byte.eqb lp lbrace && negb (Z.eqb g 0)); [exact Hsame|].
  unfold get_mode, lvl_entries. cbn [lvl modes lmap found gpar].
  assert (Hcont : forall b t, rev (nth (lvl s) (lmap s) []) = b :: t ->
            Dis (mkS (lvl s) (set_mode (mkS (lvl s) (modes s) (lmap s) (found s) g) (lvl s) MRight)
                     (upd [] (lmap s) (lvl s) (fun es => upd_last es (fun b => mkB (bL b) i (Some o) (bR b) (bComplete b))))
                     (found_inc (found s) o (lvl s)) g) (S i)).
  { intros b t Er. apply rev_last in Er. constructor; cbn [lvl modes lmap found gpar].
    - intro l. destruct (Nat.eq_dec l (lvl s)) as [->|Hn].
      + rewrite nth_upd_same, Er, upd_last_snoc. apply (sorted_replace_last _ b); [reflexivity|]. rewrite <- Er. apply Hs.
      + rewrite nth_upd_other by lia. apply Hs.
    - intros l x Hx. destruct (Nat.eq_dec l (lvl s)) as [->|Hn].
      + rewrite nth_upd_same, Er, upd_last_snoc in Hx. apply in_app_or in Hx.
        assert (Hb : In b (nth (lvl s) (lmap s) [])) by (rewrite Er; apply in_or_app; right; left; reflexivity).
        destruct Hx as [Hx|[<-|[]]].
        * assert (Hin : In x (nth (lvl s) (lmap s) [])) by (rewrite Er; apply in_or_app; left; exact Hx).
          pose proof (Hr _ _ Hin). lia.
        * cbn [bR]. pose proof (Hr _ _ Hb). lia.
      + rewrite nth_upd_other in Hx by lia. pose proof (Hr _ _ Hx). lia. }
  destruct (nth (lvl s) (modes s) None) as [[| |]|].
  - destruct (rev (nth (lvl s) (lmap s) [])) as [|b t] eqn:Er; [destruct (Nat.eqb 0 i); exact I|].
    destruct (Nat.eqb (bL b) i); [exact I|]. exact (Hcont b t eq_refl).
  - destruct (rev (nth (lvl s) (lmap s) [])) as [|b t] eqn:Er; [destruct (Nat.eqb 0 i); exact I|].
    destruct (Nat.eqb (bL b) i); [exact I|]. destruct (Nat.ltb 1 _); exact I.
  - exact I.
  - destruct (rev (nth (lvl s) (lmap s) [])) as [|b t] eqn:Er; [destruct (Nat.eqb 0 i); exact I|].
    destruct (Nat.eqb (bL b) i); [exact I|]. exact (Hcont b t eq_refl).
Qed.

Lemma scan_dis expr lp rp : forall rest s i, Dis s i ->
  match scan expr lp rp s i rest with
  | Cont s' => exists j, Dis s' j
  | _ => True
  end.
Proof.
  induction rest as [|c rest IH]; intros s i H; cbn [scan].
  - exists i. exact H.
  - pose proof (step_dis expr lp rp s i c (c :: rest) H) as Hstep.
    destruct (step expr lp rp s i c (c :: rest)) as [s'|e|e|n]; try exact I.
    exact (IH s' (S i) Hstep).
Qed.

Lemma dis_init : Dis init_st 0.
Proof. constructor; cbn; intro l; [destruct l; constructor|]. intros b Hb. destruct l; destruct Hb. Qed.

(* what detectCombinations returns, for every string and any number of restarts *)
Theorem detect_levels_sorted lp rp fuel : forall expr lm e', detect fuel expr lp rp = Ok (lm, e') ->
  forall l, StronglySorted before (nth l lm []).
Proof.
  induction fuel as [|f IH]; intros expr lm e' H; cbn [detect] in H; [discriminate|].
  destruct (negb (Nat.eqb (count_b lp expr) (count_b rp expr))); [discriminate|].
  pose proof (scan_dis expr lp rp expr init_st 0 dis_init) as Hs.
  destruct (scan expr lp rp init_st 0 expr) as [s'|e|e|n]; try discriminate.
  - inversion H; subst. destruct Hs as [j [Hsorted _]]. exact Hsorted.
  - exact (IH e lm e' H).
Qed.

Lemma sorted_apart es : StronglySorted before es -> forall v w, In v es -> In w es -> apart v w.
Proof.
  induction 1 as [|a t Hs IH Ha]; intros v w Hv Hw; [destruct Hv|].
  rewrite Forall_forall in Ha. destruct Hv as [<-|Hv], Hw as [<-|Hw].
  - right. right. reflexivity.
  - left. exact (Ha w Hw).
  - right. left. exact (Ha v Hv).
  - exact (IH v w Hv Hw).
Qed.

Theorem detect_groups_apart lp rp fuel expr lm e' : detect fuel expr lp rp = Ok (lm, e') ->
  forall l v w, In v (nth l lm []) -> In w (nth l lm []) -> apart v w.
Proof. intros H l. apply sorted_apart. exact (detect_levels_sorted lp rp fuel expr lm e' H l). Qed.

(* extractSharedComponents on the boundaries detectCombinations returned: the enclosing group found by iterating the
   level's map in ANY order is the model's find_outer - no premise on the input *)
Theorem enclosing_group_any_order lp rp fuel expr lm e' l' b es' :
  detect fuel expr lp rp = Ok (lm, e') -> bL b <= bR b -> Permutation (nth l' lm []) es' ->
  find (encloses b) es' = find_outer lm (S l') b.
Proof.
  intros H Hb HP. apply find_outer_any_order; [exact HP|exact Hb|].
  exact (detect_groups_apart lp rp fuel expr lm e' H l').
Qed.
