From Coq Require Import List Arith Bool Lia ZArith Strings.Byte.
From IGP Require Import Parser.PStr.
Import ListNotations.
Open Scope list_scope.

Inductive op := AND | OR | XOR | WAND | BAND.
Definition op_eqb (a b : op) : bool :=
  match a, b with AND,AND | OR,OR | XOR,XOR | WAND,WAND | BAND,BAND => true | _,_ => false end.
Definition op_len (o : op) : nat := match o with AND => 3 | OR => 2 | XOR => 3 | WAND => 4 | BAND => 4 end.


Inductive err := IMBALANCED | OP_OUTSIDE | INVALID_COMBINATION | INVALID_OP_COMB | EMPTY_LEAF | NO_COMBINATIONS.
Inductive res (A : Type) := Ok (a : A) | Err (e : err) | Panic (why : nat) | OutOfFuel.
Arguments Ok {A}. Arguments Err {A}. Arguments Panic {A}. Arguments OutOfFuel {A}.

Record bnd := mkB { bL : nat; bOp : nat; bOpVal : option op; bR : nat; bComplete : bool }.
Definition bzero := mkB 0 0 None 0 false.

Inductive mode := MLeft | MRight | MOut.
Definition mode_eqb a b := match a, b with MLeft,MLeft | MRight,MRight | MOut,MOut => true | _,_ => false end.

(* level-indexed list; index 0 = level 0 *)
Fixpoint upd {A} (d : A) (l : list A) (n : nat) (f : A -> A) : list A :=
  match n, l with
  | 0, [] => [f d]
  | 0, x :: t => f x :: t
  | S n', [] => d :: upd d [] n' f
  | S n', x :: t => x :: upd d t n' f
  end.

Record st := mkS {
  lvl : nat;
  modes : list (option mode);         (* by level *)
  lmap : list (list bnd);             (* by level *)
  found : list (op * nat * nat);      (* (op, level) -> count *)
  gpar : Z }.

Definition get_mode (s : st) (l : nat) : option mode := nth l (modes s) None.
Definition set_mode (s : st) (l : nat) (m : mode) : list (option mode) := upd None (modes s) l (fun _ => Some m).
Definition lvl_entries (s : st) (l : nat) : list bnd := nth l (lmap s) [].

Fixpoint upd_last {A} (l : list A) (f : A -> A) : list A :=
  match l with
  | [] => []
  | [x] => [f x]
  | x :: t => x :: upd_last t f
  end.

Fixpoint found_get (f : list (op * nat * nat)) (o : op) (l : nat) : nat :=
  match f with
  | [] => 0
  | (o', l', c) :: t => if op_eqb o o' && Nat.eqb l l' then c else found_get t o l
  end.
Fixpoint found_inc (f : list (op * nat * nat)) (o : op) (l : nat) : list (op * nat * nat) :=
  match f with
  | [] => [(o, l, 1)]
  | (o', l', c) :: t => if op_eqb o o' && Nat.eqb l l' then (o', l', S c) :: t else (o', l', c) :: found_inc t o l
  end.
Definition found_del (f : list (op * nat * nat)) (l : nat) := filter (fun x => negb (Nat.eqb (snd (fst x)) l)) f.

Definition count_b (b : byte) (s : str) : nat := length (filter (Byte.eqb b) s).

Definition detect_op (suffix : str) : option op :=
  if is_prefix AND_B suffix then Some AND
  else if is_prefix XOR_B suffix then Some XOR
  else if is_prefix OR_B suffix then Some OR
  else if is_prefix WAND_B suffix then Some WAND
  else if is_prefix BAND_B suffix then Some BAND
  else None.

Definition lpar := "("%byte. Definition rpar := ")"%byte.
Definition lbrace := "{"%byte. Definition rbrace := "}"%byte.

Inductive step_out :=
| Cont (s : st)
| Restart (e : str)
| Fail (e : err)
| Pan (n : nat).

Definition step (expr : str) (lp rp : byte) (s : st) (i : nat) (c : byte) (suffix : str) : step_out :=
  let g := if Byte.eqb c lpar then (gpar s + 1)%Z else if Byte.eqb c rpar then (gpar s - 1)%Z else gpar s in
  let s := mkS (lvl s) (modes s) (lmap s) (found s) g in
  if Byte.eqb c lp then
    let l := S (lvl s) in
    Cont (mkS l (set_mode s l MLeft) (upd [] (lmap s) l (fun es => es ++ [mkB (S i) 0 None 0 false])) (found s) g)
  else if Byte.eqb c rp then
    match lvl s with
    | 0 => Pan 1 (* write into nil map / level underflow *)
    | S l' =>
      match rev (lvl_entries s (lvl s)) with
      | [] => Pan 2
      | b :: _ =>
        let b1 := mkB (bL b) (bOp b) (bOpVal b) i (bComplete b) in
        let oplen := match bOpVal b with Some o => op_len o | None => 0 end in
        if Nat.eqb (bOp b + oplen + 2) i then Fail INVALID_COMBINATION else
        let b2 := if negb (Nat.eqb (bL b1) 0) && (match bOpVal b1 with Some _ => true | None => false end)
                  then mkB (bL b1) (bOp b1) (bOpVal b1) (bR b1) true else b1 in
        Cont (mkS l' (set_mode s (lvl s) MOut) (upd [] (lmap s) (lvl s) (fun es => upd_last es (fun _ => b2)))
                  (found_del (found s) (lvl s)) g)
      end
    end
  else if Byte.eqb c "["%byte then
    match detect_op suffix with
    | None => Cont s
    | Some o =>
      if Byte.eqb lp lbrace && negb (Z.eqb g 0) then Cont s else
      match get_mode s (lvl s) with
      | Some MOut => Fail OP_OUTSIDE
      | m =>
        match rev (lvl_entries s (lvl s)) with
        | [] => (* levelIdx = -1: zero boundary, Left = 0 *)
            if Nat.eqb 0 i then Fail INVALID_COMBINATION else Pan 3
        | b :: _ =>
          if Nat.eqb (bL b) i then Fail INVALID_COMBINATION else
          let f' := found_inc (found s) o (lvl s) in
          match m with
          | Some MRight =>
            if Nat.ltb 1 (found_get f' o (lvl s)) then
              Restart (firstn (bL b) expr ++ [lp] ++ slice expr (bL b) (i - 1) ++ [rp] ++ [sp] ++ skipn i expr)
            else Fail INVALID_OP_COMB
          | _ =>
            Cont (mkS (lvl s) (set_mode s (lvl s) MRight)
                   (upd [] (lmap s) (lvl s) (fun es => upd_last es (fun b => mkB (bL b) i (Some o) (bR b) (bComplete b))))
                   f' g)
          end
        end
      end
    end
  else Cont s.

Fixpoint scan (expr : str) (lp rp : byte) (s : st) (i : nat) (rest : str) : step_out :=
  match rest with
  | [] => Cont s
  | c :: rest' =>
    match step expr lp rp s i c rest with
    | Cont s' => scan expr lp rp s' (S i) rest'
    | o => o
    end
  end.

Definition init_st := mkS 0 [Some MOut] [] [] 0%Z.

Fixpoint detect (fuel : nat) (expr : str) (lp rp : byte) : res (list (list bnd) * str) :=
  match fuel with
  | 0 => OutOfFuel
  | S f =>
    if negb (Nat.eqb (count_b lp expr) (count_b rp expr)) then Err IMBALANCED else
    match scan expr lp rp init_st 0 expr with
    | Cont s => Ok (lmap s, expr)
    | Restart e => detect f e lp rp
    | Fail e => Err e
    | Pan n => Panic n
    end
  end.

(* ---------- tree ---------- *)
Inductive node :=
| NEmpty
| NLeaf (e : str)
| NComb (o : op) (l r : option node) (shL shR : list str).

Definition combine (a b : node) (o : op) : node :=
  match a, b with
  | NEmpty, _ => b
  | _, NEmpty => a
  | _, _ => NComb o (Some a) (Some b) [] []
  end.

Definition in_ignored (b : byte) := Byte.eqb b lpar || Byte.eqb b rpar || Byte.eqb b lbrace || Byte.eqb b rbrace.
Definition clean_shared (v : str) : list str :=
  let v := trim is_ws (trim in_ignored v) in
  match v with [] => [] | _ => [v] end.

(* number of levels present in the Go map = number of keys; keys are levels >= 1 that had an entry *)
Definition nlevels (lm : list (list bnd)) : nat := length (filter (fun es => negb (Nat.eqb (length es) 0)) lm).

Definition find_outer (lm : list (list bnd)) (level : nat) (b : bnd) : option bnd :=
  match level with
  | 0 => None
  | S l' => find (fun v => Nat.ltb (bL v) (bL b) && Nat.ltb (bR b) (bR v) && (match bOpVal v with None => true | _ => false end)) (nth l' lm [])
  end.

Definition shared (input : str) (lm : list (list bnd)) (level idx : nat) : list str * list str :=
  let es := nth level lm [] in
  let b := nth idx es bzero in
  match bOpVal b with
  | None => ([], [])
  | Some _ =>
    let outer := find_outer lm level b in
    let l :=
      match idx with
      | 0 => match outer with
             | Some ob => clean_shared (slice input (bL ob) (bL b))
             | None => clean_shared (firstn (bL b) input)
             end
      | S p => clean_shared (slice input (bR (nth p es bzero)) (bL b))
      end in
    let r :=
      match nth_error es (S idx) with
      | Some nb => clean_shared (slice input (bR b) (bL nb))
      | None => match outer with
                | Some ob => clean_shared (slice input (bR b) (bR ob))
                | None => clean_shared (skipn (bR b) input)
                end
      end in
    (l, r)
  end.

Definition has_ops (s : str) := contains s AND_B || contains s XOR_B || contains s OR_B || contains s BAND_B.

Section Parse.
Variables lp rp : byte.

Definition leaf_or (s : str) : option node :=
  match trim is_sp s with [] => None | t => Some (NLeaf t) end.

Definition pres := res (node * str * bool).      (* node, (possibly rewritten) input, NO_COMBINATIONS flag *)

(* one side (left or right operand) of a complete combination *)
Definition side (rec : str -> pres) (s : str) : res (option node) :=
  match detect (S (length s)) s lp rp with
  | Err e => Err e | Panic n => Panic n | OutOfFuel => OutOfFuel
  | Ok (lm', s') =>
    if Nat.eqb (nlevels lm') 0 then
      match leaf_or s' with None => Err EMPTY_LEAF | Some n => Ok (Some n) end
    else
      match rec s' with
      | Err e => Err e | Panic n => Panic n | OutOfFuel => OutOfFuel
      | Ok (NEmpty, s'', _) => Ok (leaf_or s'')
      | Ok (n, _, _) => Ok (Some n)
      end
  end.

(* the node for one complete boundary *)
Definition build (rec : str -> pres) (input : str) (lm : list (list bnd)) (level idx : nat) (b : bnd) : res node :=
  let '(shl, shr) := shared input lm level idx in
  let o := match bOpVal b with Some o => o | None => AND end in
  let left := slice input (bL b) (bOp b) in
  let right := slice input (bOp b + op_len o + 2) (bR b) in
  match side rec left with
  | Err e => Err e | Panic n => Panic n | OutOfFuel => OutOfFuel
  | Ok ln =>
    match side rec right with
    | Err e => Err e | Panic n => Panic n | OutOfFuel => OutOfFuel
    | Ok rn => Ok (NComb o ln rn shl shr)
    end
  end.

Fixpoint over_idx (rec : str -> pres) (input : str) (lm : list (list bnd)) (nested : bool)
    (level : nat) (es : list bnd) (idx nall : nat) (acc : list (nat * node))
    : res (list (nat * node) * option node * bool) :=
  match es with
  | [] => Ok (acc, None, false)
  | b :: es' =>
    if bComplete b then
      match build rec input lm level idx b with
      | Err e => Err e | Panic n => Panic n | OutOfFuel => OutOfFuel
      | Ok nd =>
        if negb nested || Nat.ltb 1 nall then
          match over_idx rec input lm nested level es' (S idx) nall (acc ++ [(bL b, nd)]) with
          | Ok (acc', early, _) => Ok (acc', early, true)
          | x => x
          end
        else Ok (acc, Some nd, true)
      end
    else over_idx rec input lm nested level es' (S idx) nall acc
  end.

Fixpoint over_lvl (rec : str -> pres) (input : str) (lm : list (list bnd)) (nested : bool)
    (levels : list (list bnd)) (level : nat) (acc : list (nat * node)) : res (list (nat * node) * option node) :=
  match levels with
  | [] => Ok (acc, None)
  | es :: rest =>
    match over_idx rec input lm nested level es 0 (length es) acc with
    | Err e => Err e | Panic n => Panic n | OutOfFuel => OutOfFuel
    | Ok (acc', Some nd, _) => Ok (acc', Some nd)
    | Ok (acc', None, true) => Ok (acc', None)
    | Ok (acc', None, false) => over_lvl rec input lm nested rest (S level) acc'
    end
  end.

Definition finish (input : str) (r : res (list (nat * node) * option node)) : pres :=
  match r with
  | Err e => Err e | Panic n => Panic n | OutOfFuel => OutOfFuel
  | Ok (_, Some nd) => Ok (nd, input, false)
  | Ok (acc, None) =>
    match acc with
    | [] => Ok (NEmpty, input, false)
    | [(_, nd)] => Ok (nd, input, false)
    | _ => Ok (fold_left (fun t kn => combine t (snd kn) WAND) acc NEmpty, input, false)
    end
  end.

Fixpoint parse (fuel : nat) (input : str) (nested : bool) {struct fuel} : pres :=
  match fuel with
  | 0 => OutOfFuel
  | S f =>
    if Byte.eqb lp lpar && negb (has_ops input) then Ok (NLeaf (trim is_sp input), input, true) else
    match detect (S (length input)) input lp rp with
    | Err e => Err e | Panic n => Panic n | OutOfFuel => OutOfFuel
    | Ok (lm, input) =>
      if Nat.eqb (nlevels lm) 0 then Ok (NLeaf (trim is_sp input), trim is_sp input, true) else
      finish input (over_lvl (fun s => parse f s true) input lm nested lm 0 [])
    end
  end.
End Parse.
