From Coq Require Import List Arith Bool Lia ZArith Strings.Byte.
From IGP Require Import Parser.PStr Parser.Combo Parser.S1a Parser.S1b Parser.S1c Parser.S1d.
Import ListNotations.
Open Scope list_scope.

(* ---- contains ---- *)
Lemma is_prefix_app p s : is_prefix p (p ++ s) = true.
Proof. induction p as [|x p IH]; cbn; [reflexivity|]. rewrite (Byte.byte_dec_lb eq_refl). exact IH. Qed.
Lemma contains_prefix sub s : contains (sub ++ s) sub = true.
Proof. destruct (sub ++ s) eqn:E; cbn; rewrite <- E, is_prefix_app; reflexivity. Qed.
Lemma contains_app_r a s sub : contains s sub = true -> contains (a ++ s) sub = true.
Proof. intros H. induction a as [|x a IH]; cbn [app]; [exact H|]. cbn [contains]. rewrite IH. destruct (is_prefix sub (x :: a ++ s)); reflexivity. Qed.

Lemma has_ops_render o l r nl nr : has_ops (spaces nl ++ render (N o l r) ++ spaces nr) = true.
Proof.
  unfold has_ops.
  assert (H : forall X, X = opstr o -> contains (spaces nl ++ render (N o l r) ++ spaces nr) X = true).
  { intros X ->. apply contains_app_r. cbn [render]. rewrite <- !app_assoc.
    apply (contains_app_r [lpar]). apply contains_app_r. apply (contains_app_r [sp]). apply contains_prefix. }
  destruct o.
  - rewrite (H AND_B eq_refl). reflexivity.
  - rewrite (H OR_B eq_refl). rewrite !orb_true_r. reflexivity.
  - rewrite (H XOR_B eq_refl). rewrite !orb_true_r. reflexivity.
Qed.

(* ---- slices ---- *)
Lemma skipn_app_exact {A} (a x : list A) : skipn (length a) (a ++ x) = x.
Proof. induction a; cbn; auto. Qed.
Lemma firstn_app_exact {A} (a x : list A) : firstn (length a) (a ++ x) = a.
Proof. induction a; cbn; [reflexivity|]. f_equal. auto. Qed.
Lemma slice_mid (a b c : str) n m : n = length a -> m = length a + length b -> slice (a ++ b ++ c) n m = b.
Proof. intros -> ->. unfold slice. rewrite skipn_app_exact. replace (length a + length b - length a) with (length b) by lia. apply firstn_app_exact. Qed.

(* ---- trimming ---- *)
Lemma rev_spaces n : rev (spaces n) = spaces n.
Proof.
  unfold spaces. induction n as [|n IH]; cbn [repeat rev]; [reflexivity|]. rewrite IH.
  clear IH. induction n as [|n IH]; cbn; [reflexivity|]. f_equal. exact IH.
Qed.
Lemma trim_left_spaces c n : c sp = true -> trim_left c (spaces n) = [].
Proof. intros H. induction n; cbn; [reflexivity|]. rewrite H. assumption. Qed.
Lemma trim_left_spaces_then c n (s : str) : c sp = true -> trim_left c (spaces n ++ s) = trim_left c s.
Proof. intros H. induction n; cbn; [reflexivity|]. rewrite H. assumption. Qed.

Definition okw2 (w : str) : Prop :=
  forallb plain w = true /\
  (exists x w', w = x :: w' /\ is_sp x = false) /\ (exists y w', rev w = y :: w' /\ is_sp y = false).

Lemma trim_word w nl nr : okw2 w -> trim is_sp (spaces nl ++ w ++ spaces nr) = w.
Proof.
  intros [_ [[x [w' [-> Hx]]] [y [w'' [Hr Hy]]]]]. unfold trim.
  rewrite trim_left_spaces_then by reflexivity. cbn [app trim_left]. rewrite Hx.
  change (x :: w' ++ spaces nr) with ((x :: w') ++ spaces nr).
  rewrite rev_app_distr, rev_spaces. rewrite trim_left_spaces_then by reflexivity.
  rewrite Hr. cbn [trim_left]. rewrite Hy. rewrite <- Hr. apply rev_involutive.
Qed.

Lemma clean_open n : clean_shared (spaces n ++ [lpar]) = [].
Proof.
  unfold clean_shared.
  assert (E : trim in_ignored (spaces n ++ [lpar]) = spaces n).
  { unfold trim. destruct n as [|n].
    - reflexivity.
    - change (spaces (S n)) with (sp :: spaces n). cbn [app trim_left].
      replace (in_ignored sp) with false by reflexivity.
      change (sp :: spaces n ++ [lpar]) with (spaces (S n) ++ [lpar]).
      rewrite rev_app_distr, rev_spaces. cbn [rev app trim_left].
      replace (in_ignored lpar) with true by reflexivity.
      change (spaces (S n)) with (sp :: spaces n). cbn [trim_left]. replace (in_ignored sp) with false by reflexivity.
      change (sp :: spaces n) with (spaces (S n)). apply rev_spaces. }
  rewrite E. unfold trim. rewrite trim_left_spaces by reflexivity. reflexivity.
Qed.
Lemma clean_close n : clean_shared (rpar :: spaces n) = [].
Proof.
  unfold clean_shared.
  assert (E : trim in_ignored (rpar :: spaces n) = spaces n).
  { unfold trim. cbn [trim_left]. replace (in_ignored rpar) with true by reflexivity.
    destruct n as [|n]; [reflexivity|].
    change (spaces (S n)) with (sp :: spaces n). cbn [trim_left]. replace (in_ignored sp) with false by reflexivity.
    change (sp :: spaces n) with (spaces (S n)). rewrite rev_spaces.
    change (spaces (S n)) with (sp :: spaces n). cbn [trim_left]. replace (in_ignored sp) with false by reflexivity.
    change (sp :: spaces n) with (spaces (S n)). apply rev_spaces. }
  rewrite E. unfold trim. rewrite trim_left_spaces by reflexivity. reflexivity.
Qed.

Lemma nlevels_pos (lm : list (list bnd)) b : nth 1 lm [] = [b] -> Nat.eqb (nlevels lm) 0 = false.
Proof.
  intros H. destruct lm as [|x0 [|x1 rest]]; cbn in H; try discriminate. subst x1.
  unfold nlevels. cbn [filter]. destruct (negb (length x0 =? 0)); cbn; reflexivity.
Qed.
