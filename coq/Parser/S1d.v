From Coq Require Import List Arith Bool Lia ZArith Strings.Byte.
From IGP Require Import Parser.PStr Parser.Combo Parser.S1a Parser.S1b Parser.S1c.
Import ListNotations.
Open Scope list_scope.

Definition spaces (n : nat) : str := repeat sp n.
Lemma spaces_plain n : forallb plain (spaces n) = true.
Proof. induction n; cbn; auto. Qed.
Lemma spaces_length n : length (spaces n) = n. Proof. apply repeat_length. Qed.

Lemma byte_eqb_sym (a b : byte) : Byte.eqb a b = Byte.eqb b a.
Proof.
  destruct (Byte.eqb a b) eqn:E; destruct (Byte.eqb b a) eqn:E'; auto.
  - apply Byte.byte_dec_bl in E. subst. rewrite (Byte.byte_dec_lb eq_refl) in E'. discriminate.
  - apply Byte.byte_dec_bl in E'. subst. rewrite (Byte.byte_dec_lb eq_refl) in E. discriminate.
Qed.

(* ---- counting parentheses ---- *)
Lemma count_b_app b x y : count_b b (x ++ y) = count_b b x + count_b b y.
Proof. unfold count_b. rewrite filter_app, app_length. reflexivity. Qed.
Lemma count_plain_l w : forallb plain w = true -> count_b lpar w = 0.
Proof.
  unfold count_b. induction w as [|c w IH]; cbn [forallb filter length]; intros H; [reflexivity|].
  apply andb_true_iff in H. destruct H as [Hc Hw]. unfold plain in Hc.
  apply andb_true_iff in Hc. destruct Hc as [Hc _]. apply andb_true_iff in Hc. destruct Hc as [Hc _].
  apply negb_true_iff in Hc. rewrite byte_eqb_sym in Hc. rewrite Hc. auto.
Qed.

Lemma count_plain_r w : forallb plain w = true -> count_b rpar w = 0.
Proof.
  unfold count_b. induction w as [|c w IH]; cbn [forallb filter length]; intros H; [reflexivity|].
  apply andb_true_iff in H. destruct H as [Hc Hw]. unfold plain in Hc.
  apply andb_true_iff in Hc. destruct Hc as [Hc _]. apply andb_true_iff in Hc. destruct Hc as [_ Hc].
  apply negb_true_iff in Hc. rewrite byte_eqb_sym in Hc. rewrite Hc. auto.
Qed.
Lemma opstr_plainish o : count_b lpar (opstr o) = 0 /\ count_b rpar (opstr o) = 0.
Proof. destruct o; split; reflexivity. Qed.
Lemma count_render t : wft t -> count_b lpar (render t) = count_b rpar (render t).
Proof.
  induction t as [w|o l IHl r IHr]; cbn [wft render]; intros H.
  - destruct H as [_ H]. rewrite count_plain_l, count_plain_r by exact H. reflexivity.
  - destruct H as [Hl Hr]. repeat rewrite count_b_app. destruct (opstr_plainish o) as [A B].
    rewrite A, B, (IHl Hl), (IHr Hr).
    change (count_b rpar [lpar]) with 0. change (count_b lpar [lpar]) with 1.
    change (count_b rpar [rpar]) with 1. change (count_b lpar [rpar]) with 0.
    change (count_b rpar [sp]) with 0. change (count_b lpar [sp]) with 0. lia.
Qed.

(* ---- detect on a padded rendered combination ---- *)
Lemma scan_nil expr s i : scan expr lpar rpar s i [] = Cont s. Proof. reflexivity. Qed.

Lemma detect_render o l r : wft (N o l r) -> forall nl nr f,
  let input := spaces nl ++ render (N o l r) ++ spaces nr in
  exists lm, detect (S f) input lpar rpar = Ok (lm, input)
             /\ nth 0 lm [] = [] /\ nth 1 lm [] = [new_bnd nl o l r].
Proof.
  intros Hwf nl nr f input.
  assert (Hc : count_b lpar input = count_b rpar input).
  { subst input. rewrite !count_b_app. rewrite (count_render _ Hwf).
    rewrite (count_plain_l (spaces nl)), (count_plain_l (spaces nr)), (count_plain_r (spaces nl)), (count_plain_r (spaces nr)) by apply spaces_plain. reflexivity. }
  cbn [detect]. rewrite Hc, Nat.eqb_refl. cbn [negb].
  subst input.
  rewrite (scan_plain _ init_st (spaces nl)) by apply spaces_plain. cbn [Nat.add]. rewrite spaces_length.
  assert (Hcl : found_clean (lvl init_st) init_st) by (intros o' j _; reflexivity).
  destruct (scan_render (N o l r) Hwf (spaces nl ++ render (N o l r) ++ spaces nr) (spaces nl) (spaces nr) init_st Hcl)
    as [s' [E [U [_ Hn]]]].
  rewrite spaces_length in E, Hn. rewrite E.
  rewrite <- (app_nil_r (spaces nr)). rewrite scan_plain by apply spaces_plain. rewrite scan_nil.
  exists (lmap s'). split; [reflexivity|]. split.
  - rewrite (su_lmap _ _ _ U) by (cbn; lia). reflexivity.
  - cbn [lvl init_st] in Hn. rewrite Hn. reflexivity.
Qed.

Lemma detect_plain w f : forallb plain w = true -> detect (S f) w lpar rpar = Ok ([], w).
Proof.
  intros H. cbn [detect]. rewrite count_plain_l, count_plain_r by exact H. cbn [Nat.eqb negb].
  rewrite <- (app_nil_r w) at 2. rewrite scan_plain by exact H. rewrite scan_nil. reflexivity.
Qed.
