(* Parser/NoPanic.v - detectCombinations (ported in Parser/Combo.v with its index and nil-map panics as explicit
   outcomes) never panics on a string whose closing parentheses never outnumber the opening ones in any prefix - through
   all the restarts in which it rewrites the expression (C10).  The only reachable panic site is the write into the
   level map below level 0, i.e. a prefix with more closing than opening parentheses. *)
From Coq Require Import List Arith Bool Lia ZArith Strings.Byte.
From IGP Require Import Parser.PStr Parser.Combo Parser.S1a.
Import ListNotations.
Open Scope list_scope.

Section NP.
Variables lp rp : byte.
Hypothesis sp_lp : Byte.eqb sp lp = false.
Hypothesis sp_rp : Byte.eqb sp rp = false.
Hypothesis rp_lp : Byte.eqb rp lp = false.

(* running nesting depth; None = some prefix closes more than it opens *)
Fixpoint depth (d : nat) (s : str) : option nat :=
  match s with
  | [] => Some d
  | c :: t => if Byte.eqb c lp then depth (S d) t
              else if Byte.eqb c rp then match d with 0 => None | S d' => depth d' t end
              else depth d t
  end.

Lemma depth_app d a b : depth d (a ++ b) = match depth d a with Some d' => depth d' b | None => None end.
Proof.
  revert d; induction a as [|c a IH]; intro d; cbn [app depth]; [reflexivity|].
  destruct (Byte.eqb c lp); [apply IH|]. destruct (Byte.eqb c rp); [|apply IH]. destruct d; [reflexivity|apply IH].
Qed.

Lemma depth_shift n s : forall d k, depth d s = Some k -> depth (d + n) s = Some (k + n).
Proof.
  induction s as [|c s IH]; intros d k H; cbn [depth] in *.
  - inversion H; reflexivity.
  - destruct (Byte.eqb c lp); [exact (IH (S d) k H)|]. destruct (Byte.eqb c rp); [|exact (IH d k H)].
    destruct d as [|d']; [discriminate|]. cbn [Nat.add]. exact (IH d' k H).
Qed.

Lemma depth_mono s d d' k : d <= d' -> depth d s = Some k -> exists k', depth d' s = Some k'.
Proof. intros Hd H. exists (k + (d' - d)). replace d' with (d + (d' - d)) at 1 by lia. apply depth_shift. exact H. Qed.

(* ---------------------------------------------------------------- invariant of the scan *)
Record Inv (s : st) (i : nat) : Prop := {
  inv_m0 : nth 0 (modes s) None = Some MOut;
  inv_ne : forall l, 1 <= l -> l <= lvl s -> nth l (lmap s) [] <> [];
  inv_le : forall l b, In b (nth l (lmap s) []) -> bL b <= i }.

Definition last_at (s : st) (i : nat) : Prop := exists es b, nth (lvl s) (lmap s) [] = es ++ [b] /\ bL b = i.

Lemma in_upd_last {A} (es : list A) f x : In x (upd_last es f) -> In x es \/ exists y, In y es /\ x = f y.
Proof.
  induction es as [|y t IH]; cbn [upd_last]; [intros []|]. destruct t as [|z t'].
  - intros [E|[]]. right. exists y. split; [left; reflexivity|symmetry; exact E].
  - intros [E|H]; [left; left; exact E|]. destruct (IH H) as [H1|[w [Hw E]]]; [left; right; exact H1|].
    right. exists w. split; [right; exact Hw|exact E].
Qed.
Lemma upd_last_nil {A} (es : list A) f : upd_last es f = [] -> es = [].
Proof. destruct es as [|y [|z t]]; cbn; intro H; [reflexivity|discriminate|discriminate]. Qed.

Lemma rev_cons_last {A} (es : list A) b t : rev es = b :: t -> es = rev t ++ [b].
Proof. intro H. rewrite <- (rev_involutive es), H. reflexivity. Qed.

Definition cont_st (s : st) (g : Z) (i : nat) (o : op) : st :=
  mkS (lvl s) (set_mode (mkS (lvl s) (modes s) (lmap s) (found s) g) (lvl s) MRight)
      (upd [] (lmap s) (lvl s) (fun es => upd_last es (fun b => mkB (bL b) i (Some o) (bR b) (bComplete b))))
      (found_inc (found s) o (lvl s)) g.

Definition restart_of (expr : str) (L i : nat) : str :=
  firstn L expr ++ [lp] ++ slice expr L (i - 1) ++ [rp] ++ [sp] ++ skipn i expr.

Lemma step_inv expr s i c suffix (prev_lp : bool) : Inv s i -> (prev_lp = true -> last_at s i) ->
  match step expr lp rp s i c suffix with
  | Cont s' => Inv s' (S i) /\ depth (lvl s) [c] = Some (lvl s') /\ (Byte.eqb c lp = true -> last_at s' (S i))
  | Pan _ => depth (lvl s) [c] = None
  | Restart e => exists L, L < i /\ e = restart_of expr L i /\ prev_lp = false /\ depth (lvl s) [c] = Some (lvl s)
  | Fail _ => True
  end.
Proof.
  intros [Hm0 Hne Hle] Hprev. unfold step.
  set (g := if Byte.eqb c lpar then (gpar s + 1)%Z else if Byte.eqb c rpar then (gpar s - 1)%Z else gpar s).
  assert (Hsame : Inv (mkS (lvl s) (modes s) (lmap s) (found s) g) (S i)).
  { constructor; cbn; [exact Hm0|exact Hne|]. intros l b Hb. pose proof (Hle l b Hb). lia. }
  destruct (Byte.eqb c lp) eqn:Elp.
  { (* opening *)
    cbn [lvl modes lmap found gpar]. split; [|split].
    - constructor; cbn [lvl modes lmap].
      + unfold set_mode. cbn [modes lvl]. rewrite nth_upd_other by lia. exact Hm0.
      + intros l H1 H2. destruct (Nat.eq_dec l (S (lvl s))) as [->|Hn].
        * rewrite nth_upd_same. intro E. apply app_eq_nil in E. destruct E as [_ E]. discriminate.
        * rewrite nth_upd_other by lia. apply Hne; lia.
      + intros l b Hb. destruct (Nat.eq_dec l (S (lvl s))) as [->|Hn].
        * rewrite nth_upd_same in Hb. apply in_app_or in Hb. destruct Hb as [Hb|[<-|[]]]; [pose proof (Hle _ _ Hb); lia|cbn; lia].
        * rewrite nth_upd_other in Hb by lia. pose proof (Hle _ _ Hb). lia.
    - cbn [depth]. rewrite Elp. reflexivity.
    - intros _. exists (nth (S (lvl s)) (lmap s) []), (mkB (S i) 0 None 0 false). cbn [lvl lmap]. rewrite nth_upd_same. split; reflexivity. }
  destruct (Byte.eqb c rp) eqn:Erp.
  { (* closing *)
    cbn [lvl modes lmap found gpar]. destruct (lvl s) as [|l'] eqn:El.
    - cbn [depth]. rewrite Elp, Erp. reflexivity.
    - unfold lvl_entries. cbn [lvl lmap].
      destruct (rev (nth (S l') (lmap s) [])) as [|b t] eqn:Er.
      + exfalso. apply (Hne (S l')); [lia|lia|]. apply rev_cons_last in Er || idtac.
        rewrite <- (rev_involutive (nth (S l') (lmap s) [])), Er. reflexivity.
      + destruct (Nat.eqb (bOp b + match bOpVal b with Some o => op_len o | None => 0 end + 2) i); [exact I|].
        assert (Hb : In b (nth (S l') (lmap s) [])). { apply in_rev. rewrite Er. left. reflexivity. }
        split; [|split].
        * constructor; cbn [lvl modes lmap].
          -- unfold set_mode. cbn [modes lvl]. rewrite nth_upd_other by lia. exact Hm0.
          -- intros l H1 H2. rewrite nth_upd_other by lia. apply Hne; lia.
          -- intros l x Hx. destruct (Nat.eq_dec l (S l')) as [->|Hn].
             ++ rewrite nth_upd_same in Hx. apply in_upd_last in Hx. destruct Hx as [Hx|[y [Hy ->]]].
                ** pose proof (Hle _ _ Hx). lia.
                ** pose proof (Hle _ _ Hb).
                   destruct (negb (Nat.eqb (bL (mkB (bL b) (bOp b) (bOpVal b) i (bComplete b))) 0) &&
                             match bOpVal (mkB (bL b) (bOp b) (bOpVal b) i (bComplete b)) with Some _ => true | None => false end); cbn [bL]; lia.
             ++ rewrite nth_upd_other in Hx by lia. pose proof (Hle _ _ Hx). lia.
        * cbn [depth]. rewrite Elp, Erp. reflexivity.
        * intro Hc. congruence. }
  destruct (Byte.eqb c "["%byte) eqn:Ebr.
  2:{ split; [exact Hsame|]. split; [cbn [depth lvl]; rewrite Elp, Erp; reflexivity|intro Hc; congruence]. }
  assert (Hd : depth (lvl s) [c] = Some (lvl s)) by (cbn [depth]; rewrite Elp, Erp; reflexivity).
  destruct (detect_op suffix) as [o|].
  2:{ split; [exact Hsame|]. split; [exact Hd|intro Hc; congruence]. }
  cbn [lvl modes lmap found gpar].
  destruct (Byte.eqb lp lbrace && negb (Z.eqb g 0)).
  { split; [exact Hsame|]. split; [exact Hd|intro Hc; congruence]. }
  unfold get_mode, lvl_entries. cbn [lvl modes lmap found gpar].
  assert (Hlvl : forall m, nth (lvl s) (modes s) None = m -> m <> Some MOut -> 1 <= lvl s).
  { intros m Hm Hno. destruct (Nat.eq_dec (lvl s) 0) as [E|E]; [|lia]. exfalso. apply Hno. rewrite <- Hm, E. exact Hm0. }
  assert (Hcont : forall m, nth (lvl s) (modes s) None = m -> m <> Some MOut -> forall b t, rev (nth (lvl s) (lmap s) []) = b :: t ->
            Inv (cont_st s g i o) (S i) /\ depth (lvl s) [c] = Some (lvl (cont_st s g i o))).
  { intros m Hm Hno b t Er. pose proof (Hlvl m Hm Hno) as H1. split; [|exact Hd].
    constructor; unfold cont_st; cbn [lvl modes lmap].
    - unfold set_mode. cbn [modes lvl]. rewrite nth_upd_other by lia. exact Hm0.
    - intros l Hl1 Hl2. destruct (Nat.eq_dec l (lvl s)) as [->|Hn].
      + rewrite nth_upd_same. intro E. apply upd_last_nil in E. revert E. apply Hne; lia.
      + rewrite nth_upd_other by lia. apply Hne; lia.
    - intros l x Hx. destruct (Nat.eq_dec l (lvl s)) as [->|Hn].
      + rewrite nth_upd_same in Hx. apply in_upd_last in Hx. destruct Hx as [Hx|[y [Hy ->]]]; [pose proof (Hle _ _ Hx); lia|].
        pose proof (Hle _ _ Hy). cbn [bL]. lia.
      + rewrite nth_upd_other in Hx by lia. pose proof (Hle _ _ Hx). lia. }
  assert (Hnil : forall m, nth (lvl s) (modes s) None = m -> m <> Some MOut -> rev (nth (lvl s) (lmap s) []) = [] -> False).
  { intros m Hm Hno Er. pose proof (Hlvl m Hm Hno) as H1. apply (Hne (lvl s)); [lia|lia|].
    rewrite <- (rev_involutive (nth (lvl s) (lmap s) [])), Er. reflexivity. }
  destruct (nth (lvl s) (modes s) None) as [[| |]|] eqn:Em.
  - (* MLeft *)
    destruct (rev (nth (lvl s) (lmap s) [])) as [|b t] eqn:Er; [exfalso; apply (Hnil _ eq_refl); [discriminate|reflexivity]|].
    destruct (Nat.eqb (bL b) i); [exact I|]. destruct (Hcont _ eq_refl ltac:(discriminate) _ _ eq_refl) as [Hc1 Hc2]. split; [exact Hc1|split; [exact Hc2|intro Hc; discriminate]].
  - (* MRight *)
    destruct (rev (nth (lvl s) (lmap s) [])) as [|b t] eqn:Er; [exfalso; apply (Hnil _ eq_refl); [discriminate|reflexivity]|].
    destruct (Nat.eqb (bL b) i) eqn:Ebi; [exact I|].
    destruct (Nat.ltb 1 (found_get (found_inc (found s) o (lvl s)) o (lvl s))); [|exact I].
    apply Nat.eqb_neq in Ebi. assert (Hb : In b (nth (lvl s) (lmap s) [])) by (apply in_rev; rewrite Er; left; reflexivity).
    pose proof (Hle _ _ Hb) as Hbi. exists (bL b). split; [lia|]. split; [reflexivity|]. split; [|exact Hd].
    destruct prev_lp; [|reflexivity]. exfalso. destruct (Hprev eq_refl) as [es [b' [He Hb']]].
    apply rev_cons_last in Er. rewrite Er in He. apply app_inj_tail in He. destruct He as [_ ->]. apply Ebi. exact Hb'.
  - exact I.
  - (* no mode yet *)
    destruct (rev (nth (lvl s) (lmap s) [])) as [|b t] eqn:Er; [exfalso; apply (Hnil _ eq_refl); [discriminate|reflexivity]|].
    destruct (Nat.eqb (bL b) i); [exact I|]. destruct (Hcont _ eq_refl ltac:(discriminate) _ _ eq_refl) as [Hc1 Hc2]. split; [exact Hc1|split; [exact Hc2|intro Hc; discriminate]].
Qed.

(* ---------------------------------------------------------------- the restarted expression nests properly again *)
Definition last_lp (pre : str) : bool := match rev pre with x :: _ => Byte.eqb x lp | [] => false end.

Lemma restart_depth pre rest L k : L < length pre -> last_lp pre = false -> depth 0 (pre ++ rest) = Some k ->
  exists k', depth 0 (restart_of (pre ++ rest) L (length pre)) = Some k'.
Proof.
  intros HL Hlast Hd. destruct (rev pre) as [|x rp0] eqn:Er.
  { exfalso. assert (E : pre = []) by (rewrite <- (rev_involutive pre), Er; reflexivity). subst pre. cbn in HL. lia. }
  assert (Epre : pre = rev rp0 ++ [x]) by (rewrite <- (rev_involutive pre), Er; reflexivity).
  unfold last_lp in Hlast. rewrite Er in Hlast.
  set (p0 := rev rp0) in *. assert (Hlen : length pre = S (length p0)) by (rewrite Epre, app_length; cbn; lia).
  unfold restart_of, slice. rewrite Hlen. replace (S (length p0) - 1) with (length p0) by lia.
  assert (E1 : firstn L (pre ++ rest) = firstn L p0).
  { rewrite Epre, <- app_assoc. rewrite firstn_app. replace (L - length p0) with 0 by lia. cbn [firstn]. rewrite app_nil_r. reflexivity. }
  assert (E2 : firstn (length p0 - L) (skipn L (pre ++ rest)) = skipn L p0).
  { rewrite Epre, <- app_assoc. rewrite skipn_app. replace (L - length p0) with 0 by lia. cbn [skipn].
    rewrite firstn_app, skipn_length. replace (length p0 - L - (length p0 - L)) with 0 by lia. cbn [firstn]. rewrite app_nil_r.
    apply firstn_all2. rewrite skipn_length. lia. }
  assert (E3 : skipn (S (length p0)) (pre ++ rest) = rest).
  { rewrite Epre, <- app_assoc. rewrite skipn_app. replace (S (length p0) - length p0) with 1 by lia.
    rewrite skipn_all2 by lia. cbn. reflexivity. }
  rewrite E1, E2, E3.
  (* depths *)
  assert (Horig : depth 0 (firstn L p0 ++ skipn L p0 ++ [x] ++ rest) = Some k).
  { rewrite app_assoc, firstn_skipn. rewrite <- Hd, Epre, <- app_assoc. reflexivity. }
  rewrite depth_app in Horig. destruct (depth 0 (firstn L p0)) as [a|] eqn:Da; [|discriminate].
  rewrite depth_app in Horig. destruct (depth a (skipn L p0)) as [b|] eqn:Db; [|discriminate].
  rewrite depth_app in Horig. destruct (depth b [x]) as [b2|] eqn:Dx; [|discriminate].
  assert (Hb2 : b2 <= b).
  { cbn [depth] in Dx. rewrite Hlast in Dx. destruct (Byte.eqb x rp); [destruct b; [discriminate|inversion Dx; lia]|inversion Dx; lia]. }
  destruct (depth_mono rest b2 b k Hb2 Horig) as [k' Hk'].
  exists k'. rewrite depth_app, Da. cbn [app depth].
  replace (Byte.eqb lp lp) with true by (symmetry; destruct (Byte.eqb lp lp) eqn:E; [reflexivity|]; exfalso;
    assert (H : Byte.eqb lp lp = true) by (apply Byte.byte_dec_lb; reflexivity); congruence).
  rewrite depth_app. pose proof (depth_shift 1 _ _ _ Db) as Db1. rewrite !Nat.add_1_r in Db1. rewrite Db1.
  cbn [depth]. rewrite rp_lp.
  replace (Byte.eqb rp rp) with true by (symmetry; destruct (Byte.eqb rp rp) eqn:E; [reflexivity|]; exfalso;
    assert (H : Byte.eqb rp rp = true) by (apply Byte.byte_dec_lb; reflexivity); congruence).
  rewrite sp_lp, sp_rp. exact Hk'.
Qed.

(* ---------------------------------------------------------------- one pass *)
Lemma scan_inv expr : forall rest pre s k, expr = pre ++ rest -> Inv s (length pre) -> depth 0 pre = Some (lvl s) ->
  (last_lp pre = true -> last_at s (length pre)) -> depth (lvl s) rest = Some k ->
  match scan expr lp rp s (length pre) rest with
  | Pan _ => False
  | Restart e => exists k', depth 0 e = Some k'
  | _ => True
  end.
Proof.
  induction rest as [|c rest IH]; intros pre s k He Hinv Hpre Hlast Hrest; cbn [scan]; [exact I|].
  pose proof (step_inv expr s (length pre) c (c :: rest) (last_lp pre) Hinv Hlast) as Hs.
  assert (Hc : exists d1, depth (lvl s) [c] = Some d1 /\ depth d1 rest = Some k).
  { change (c :: rest) with ([c] ++ rest) in Hrest. rewrite depth_app in Hrest.
    destruct (depth (lvl s) [c]) as [d1|]; [exists d1; split; [reflexivity|exact Hrest]|discriminate]. }
  destruct Hc as [d1 [Hc1 Hc2]].
  destruct (step expr lp rp s (length pre) c (c :: rest)) as [s'|e|e|n].
  - destruct Hs as [Hinv' [Hd' Hl']].
    assert (El : S (length pre) = length (pre ++ [c])) by (rewrite app_length; cbn; lia).
    rewrite El. rewrite Hc1 in Hd'. inversion Hd'; subst d1.
    apply (IH (pre ++ [c]) s' k).
    + rewrite <- app_assoc. exact He.
    + rewrite <- El. exact Hinv'.
    + rewrite depth_app, Hpre. exact Hc1.
    + unfold last_lp. rewrite rev_app_distr. cbn [rev app]. rewrite <- El. exact Hl'.
    + exact Hc2.
  - destruct Hs as [L [HL [-> [Hp _]]]]. rewrite He.
    assert (Hall : depth 0 (pre ++ c :: rest) = Some k) by (rewrite depth_app, Hpre; exact Hrest).
    exact (restart_depth pre (c :: rest) L k HL Hp Hall).
  - exact I.
  - rewrite Hc1 in Hs. discriminate.
Qed.

Lemma inv_init : Inv init_st 0.
Proof.
  constructor; cbn.
  - reflexivity.
  - intros l H1 H2. lia.
  - intros l b Hb. destruct l; destruct Hb.
Qed.

(* ---------------------------------------------------------------- all passes *)
Theorem detect_never_panics fuel : forall expr k, depth 0 expr = Some k -> forall n, detect fuel expr lp rp <> Panic n.
Proof.
  induction fuel as [|f IH]; intros expr k Hd n; cbn [detect]; [discriminate|].
  destruct (negb (Nat.eqb (count_b lp expr) (count_b rp expr))); [discriminate|].
  pose proof (scan_inv expr expr [] init_st k eq_refl inv_init eq_refl) as Hs. cbn [length] in Hs.
  assert (Hl : last_lp [] = true -> last_at init_st 0) by (intro H; discriminate).
  specialize (Hs Hl Hd).
  destruct (scan expr lp rp init_st 0 expr) as [s'|e|e|m].
  - discriminate.
  - destruct Hs as [k' Hk']. exact (IH e k' Hk' n).
  - discriminate.
  - destruct Hs.
Qed.
End NP.

(* the two instantiations the parser uses: parentheses (component combinations) and braces (statement combinations) *)
Definition nests_par (s : str) : bool := match depth lpar rpar 0 s with Some _ => true | None => false end.
Definition nests_brace (s : str) : bool := match depth lbrace rbrace 0 s with Some _ => true | None => false end.

Theorem detect_par_never_panics fuel expr n : nests_par expr = true -> detect fuel expr lpar rpar <> Panic n.
Proof.
  unfold nests_par. destruct (depth lpar rpar 0 expr) as [k|] eqn:E; [|discriminate]. intros _.
  exact (detect_never_panics lpar rpar eq_refl eq_refl eq_refl fuel expr k E n).
Qed.
Theorem detect_brace_never_panics fuel expr n : nests_brace expr = true -> detect fuel expr lbrace rbrace <> Panic n.
Proof.
  unfold nests_brace. destruct (depth lbrace rbrace 0 expr) as [k|] eqn:E; [|discriminate]. intros _.
  exact (detect_never_panics lbrace rbrace eq_refl eq_refl eq_refl fuel expr k E n).
Qed.

(* and the panic is real below level 0: the premise cannot be dropped *)
Example detect_panics_below_level_0 : detect 3 [rpar; "a"%byte; lpar] lpar rpar = Panic 1.
Proof. vm_compute. reflexivity. Qed.
