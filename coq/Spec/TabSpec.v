(* Spec/TabSpec.v - what the tabular export of ONE statement has to contain (properties C04, C05), stated
   on the tree without reference to the exporter's algorithm:
   - the alternatives of a component are the non-empty leaves of its tree in source order; the tree is split
     only at wAND (Model/Leaves.v: alternatives);
   - the atomic statements are the Cartesian product of the alternatives (Model/Odo.v: cart), first component
     varying slowest;
   - a cell holds the chosen leaf text with the shared text inherited from the combinations around it;
   - for a component with one combination, the linkage of a row names for every other alternative the
     operators on the tree path between the two alternatives and the rows that carry that alternative. *)
From Coq Require Import List Arith Bool Lia Strings.Byte.
From IGP Require Import Base.Str Base.Outcome Model.Tree Model.Odo Model.Leaves Model.Link Model.Tabular.
Import ListNotations.

Definition spec_arrays (T : leaf_table) (s : stmt) : list (list lref) :=
  flat_map (fun e : field * str * bool => let '(f, _, complex) := e in
     match sget s f with
     | None => []
     | Some n => if complex then [[mkL f [] n []]] else map (mk_refs f n) (alternatives true n)
     end) T.

(* the component fields in the documented column order, nested-statement fields as one value: the table the
   specification is evaluated with when it is compared with the implementation's output (the theorems are generic
   in the table and are instantiated with the one regenerated from the source) *)
Definition spec_complex (f : field) : bool :=
  match f with FApC | FBdirC | FBdirpC | FBindC | FBindpC | FEpC | FPC | FPpC | FCacC | FCexC | FO => true | _ => false end.
Definition spec_table : leaf_table :=
  map (fun f => (f, [], spec_complex f))
    [FA; FAp; FApC; FD; FI; FBdir; FBdirC; FBdirp; FBdirpC; FBind; FBindC; FBindp; FBindpC; FCac; FCacC; FCex; FCexC;
     FE; FEp; FEpC; FM; FF; FP; FPC; FPp; FPpC; FO].

Definition spec_rows (T : leaf_table) (s : stmt) : list (list lref) := cart (filter nonempty (spec_arrays T s)).

(* text of a primitive value with its inherited shared text *)
Definition spec_cell_text (x : lref) : option (str * str) :=
  match l_n x with
  | Leaf m (EStr e) _ =>
    let ls := stringify_slices (get_shared shl m (l_a x)) in
    let rs := stringify_slices (get_shared shr m (l_a x)) in
    Some (comp_name m (l_a x), (if is_empty ls then [] else ls ++ [sp]) ++ e ++ (if is_empty rs then [] else sp :: rs))
  | _ => None
  end.

(* rows (1-based) of [rows] whose column c holds the leaf q *)
Fixpoint rows_with (rows : list (list lref)) (c : nat) (q : lref) (i : nat) : list nat :=
  match rows with
  | [] => []
  | r :: t => (match nth_error r c with Some k => if lref_eqb k q then [i] else [] | None => [] end) ++ rows_with t c q (S i)
  end.

(* linkage of the value x in column c: one entry per other alternative of the same array *)
Definition spec_links_of (s : stmt) (rows : list (list lref)) (c : nat) (arr : list lref) (x : lref)
  : list (str * list op * list nat) :=
  match sget s (l_f x) with
  | None => []
  | Some root =>
    flat_map (fun q => if lref_eqb q x then [] else
                [(comp_name (node_meta (l_n x)) (l_a x), collapse_ops (path_ops root (l_p x) (l_p q)), rows_with rows c q 1)]) arr
  end.

Definition count_field (f : field) (arrs : list (list lref)) : nat :=
  length (filter (fun a => match a with x :: _ => field_eqb (l_f x) f | [] => false end) arrs).

(* per row: the linkage entries of all components whose alternatives form one array *)
Definition spec_links (T : leaf_table) (s : stmt) : list (list (str * list op * list nat)) :=
  let arrs := filter nonempty (spec_arrays T s) in
  let rows := cart arrs in
  map (fun r =>
    concat (map (fun cxa : nat * lref * list lref => let '(c, x, arr) := cxa in
       if Nat.eqb (count_field (l_f x) arrs) 1 && (1 <? length arr) then spec_links_of s rows c arr x else [])
       (combine (combine (seq 0 (length r)) r) arrs))) rows.
