(* Spec/Denote.v - statement level of the denotation (C01, C18): which tree a list of annotated parts stands for.
   The parts of one component type, in source order, are joined by the implicit conjunction (left-associated); the
   statement lists its components in the fixed field order.  Unannotated text is not a part, so it cannot matter. *)
From Coq Require Import List Arith Bool Strings.Byte.
From IGP Require Import Base.Str Model.Tree.
Import ListNotations.

Definition part := (field * str * node)%type.       (* field it fills, component symbol, its tree *)

Definition sub (f : field) (l : list part) : list part := filter (fun p => field_eqb f (fst (fst p))) l.

Fixpoint join (ct : str) (acc : node) (ns : list part) : node :=
  match ns with
  | [] => acc
  | (_, c, n) :: t => join ct (Comb (mkMeta c None None [] []) BAND acc n) t
  end.

Definition denote_field (f : field) (l : list part) : list (field * node) :=
  match sub f l with
  | [] => []
  | (_, c, n) :: t => [(f, join c n t)]
  end.
Definition denote_fields (l : list part) : list (field * node) := flat_map (fun f => denote_field f l) all_fields.

(* two statements whose parts agree type by type (same parts of each type in the same relative order) *)
Definition same_per_type (l l' : list part) : Prop := forall f, sub f l = sub f l'.
