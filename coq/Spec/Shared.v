(* Spec/Shared.v - the shared text of every value of a tree, as a reader of the statement sees it (C01): text written
   outside a combination is shared by every value inside it, the outermost text first, the value's own text last.
   eff_shared is what is compared with the implementation's GetSharedLeft / GetSharedRight on every value of every
   parsed tree; all_shared is the specification; get_shared_all_levels says the model's port computes it. *)
From Coq Require Import List Bool.
From IGP Require Import Base.Str Model.Tree.
Import ListNotations.

(* every value of the tree in written order (nested statements and pair statements included), with its left and right
   shared text *)
Fixpoint eff_shared (fuel : nat) (n : node) (a : anc) : list (list str * list str) :=
  match fuel with
  | 0 => []
  | S f =>
    match n with
    | Comb m o l r => eff_shared f l ((m, o) :: a) ++ eff_shared f r ((m, o) :: a)
    | Leaf m e _ =>
      (get_shared shl m a, get_shared shr m a) ::
      match e with
      | EStmt st => flat_map (fun fn => eff_shared f (snd fn) []) (stmt_fields st)
      | ENodes ns => flat_map (fun x => eff_shared f x []) ns
      | _ => []
      end
    end
  end.

(* specification: the shared texts of all enclosing combinations that have one, outermost first, then the own *)
Definition set_or_nil (l : list str) : list str := if shared_set l then l else [].
Definition all_shared (sel : meta -> list str) (m : meta) (a : anc) : list str :=
  concat (rev (map (fun x => set_or_nil (sel (fst x))) a)) ++ set_or_nil (sel m).

Lemma parents_shared_all sel a : parents_shared sel a = concat (rev (map (fun x => set_or_nil (sel (fst x))) a)).
Proof.
  induction a as [|[m o] t IH]; [reflexivity|]. cbn [parents_shared map rev fst].
  rewrite concat_app, <- IH. cbn [concat]. rewrite app_nil_r. unfold set_or_nil.
  destruct (shared_set (sel m)); [reflexivity|]. rewrite app_nil_r. reflexivity.
Qed.

(* for a value inside a combination (a <> []), and for a value on its own whose text is a proper one *)
Theorem get_shared_all_levels sel m a : (a <> [] \/ shared_set (sel m) = true) -> get_shared sel m a = all_shared sel m a.
Proof.
  intros H. unfold get_shared, all_shared. rewrite parents_shared_all.
  set (ps := concat (rev (map (fun x => set_or_nil (sel (fst x))) a))).
  unfold set_or_nil. destruct (shared_set (sel m)) eqn:Hs; cbn [andb].
  - destruct ps; reflexivity.
  - rewrite app_nil_r. destruct a; [destruct H as [H|H]; [contradiction|discriminate]|reflexivity].
Qed.

(* nothing is lost on the way down: the text of an enclosing combination is part of what each value below it reports *)
Theorem enclosing_text_reaches_every_value sel m a mo : In mo a -> shared_set (sel (fst mo)) = true ->
  exists pre post, get_shared sel m a = pre ++ sel (fst mo) ++ post.
Proof.
  intros Hin Hs. rewrite get_shared_all_levels by (left; intros ->; contradiction). unfold all_shared.
  apply in_split in Hin. destruct Hin as [l1 [l2 ->]]. rewrite map_app, rev_app_distr. cbn [map rev].
  rewrite !concat_app. cbn [concat]. unfold set_or_nil at 2. rewrite Hs, app_nil_r.
  exists (concat (rev (map (fun x => set_or_nil (sel (fst x))) l2))),
         (concat (rev (map (fun x => set_or_nil (sel (fst x))) l1)) ++ set_or_nil (sel m)).
  rewrite <- !app_assoc. reflexivity.
Qed.
