(* Spec/Json.v - RFC 8259 as an inductive grammar over bytes (bytes >= 0x80 are taken as UTF-8
   payload), plus a boolean recogniser used by the search (validated against encoding/json.Valid). *)
From Coq Require Import List Arith Bool Lia NArith Strings.Byte.
From IGP Require Import Base.Str.
Import ListNotations.
Open Scope list_scope.

(* ---------------- spec: RFC 8259 over bytes (bytes >= 0x80 are taken as UTF-8 payload) ---------------- *)
Definition is_jws (c : byte) : bool := Byte.eqb c " " || Byte.eqb c x0a || Byte.eqb c x0d || Byte.eqb c x09.
Definition W (s : str) : Prop := forallb is_jws s = true.
Definition is_digit (c : byte) : bool := (48 <=? Byte.to_N c)%N && (Byte.to_N c <=? 57)%N.
Definition is_hex (c : byte) : bool :=
  is_digit c || ((97 <=? Byte.to_N c)%N && (Byte.to_N c <=? 102)%N) || ((65 <=? Byte.to_N c)%N && (Byte.to_N c <=? 70)%N).
Definition unescaped (c : byte) : bool :=            (* %x20-21 / %x23-5B / %x5D-10FFFF *)
  (32 <=? Byte.to_N c)%N && negb (Byte.eqb c """") && negb (Byte.eqb c "\").
Definition simple_escape (c : byte) : bool :=
  existsb (Byte.eqb c) [""""; "\"; "/"; "b"; "f"; "n"; "r"; "t"]%byte.

Inductive SBody : str -> Prop :=
| sb_nil : SBody []
| sb_char c s : unescaped c = true -> SBody s -> SBody (c :: s)
| sb_esc c s : simple_escape c = true -> SBody s -> SBody ("\"%byte :: c :: s)
| sb_u h1 h2 h3 h4 s : is_hex h1 = true -> is_hex h2 = true -> is_hex h3 = true -> is_hex h4 = true ->
    SBody s -> SBody ("\"%byte :: "u"%byte :: h1 :: h2 :: h3 :: h4 :: s).

Definition dq : byte := """".
Inductive JV : str -> Prop :=
| jv_int ds : ds <> [] -> forallb is_digit ds = true -> (length ds = 1 \/ hd "0"%byte ds <> "0"%byte) -> JV ds
| jv_str b : SBody b -> JV (dq :: b ++ [dq])
| jv_arr0 w : W w -> JV ("["%byte :: w ++ ["]"%byte])
| jv_arr es : JElems es -> JV ("["%byte :: es ++ ["]"%byte])
| jv_obj0 w : W w -> JV ("{"%byte :: w ++ ["}"%byte])
| jv_obj ms : JMembers ms -> JV ("{"%byte :: ms ++ ["}"%byte])
with JElems : str -> Prop :=
| je_one w1 v w2 : W w1 -> JV v -> W w2 -> JElems (w1 ++ v ++ w2)
| je_cons w1 v w2 rest : W w1 -> JV v -> W w2 -> JElems rest -> JElems (w1 ++ v ++ w2 ++ ","%byte :: rest)
with JMembers : str -> Prop :=
| jm_one w1 k w2 w3 v w4 : W w1 -> SBody k -> W w2 -> W w3 -> JV v -> W w4 ->
    JMembers (w1 ++ (dq :: k ++ [dq]) ++ w2 ++ ":"%byte :: w3 ++ v ++ w4)
| jm_cons w1 k w2 w3 v w4 rest : W w1 -> SBody k -> W w2 -> W w3 -> JV v -> W w4 -> JMembers rest ->
    JMembers (w1 ++ (dq :: k ++ [dq]) ++ w2 ++ ":"%byte :: w3 ++ v ++ w4 ++ ","%byte :: rest).
Definition JsonText (s : str) : Prop := exists w1 v w2, W w1 /\ JV v /\ W w2 /\ s = w1 ++ v ++ w2.

