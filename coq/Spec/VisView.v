(* Spec/VisView.v - what the visual tree must show (C09 / C17), independent of the display options
   "binary", "Degree of Variability" and "annotations": the sequence of values, each with the component
   it is shown under, its text (with inherited shared text) and its nesting level; nested statements one
   level deeper; properties beneath (tree mode) or as a label on (flat mode) each value. *)
From Coq Require Import List Arith Bool Lia ZArith Strings.Byte.
From IGP Require Import Base.Str Base.Outcome Model.Tree Model.DoV Model.Leaves Model.Flat Model.Visual Model.VisJson.
Import ListNotations.

(* one shown value: (component label, text, nesting level, flat property label) *)
Definition shown_value := (str * str * nat * option str)%type.

(* read-back from the output value: every leaf object, in document order *)
Fixpoint leafseq (j : jnode) : list shown_value :=
  match j with
  | JN k name comp lvl _ children _ prop _ _ =>
    let below := (fix go (l : list jnode) := match l with [] => [] | x :: t => leafseq x ++ go t end) children in
    match k with
    | KLeaf => (match comp with Some c => c | None => [] end, name, lvl, prop) :: below
    | _ => below
    end
  end.
Definition leafseqs (js : list jnode) : list shown_value := flat_map leafseq js.

(* operator labels carried by operator objects in flat mode (labels on operator nodes repeat the values' label) *)

Section View.
Variable T : vis_tables.
Variable flat actop : bool.          (* the two options the shown values may depend on *)
Let o : vopts := mkVopts flat true false false actop.

Definition lv_t := option stmt -> node -> anc -> nat -> res (list shown_value).

Fixpoint lv_props (lv : lv_t) (s : option stmt) (lvl : nat) (ps : list node) : res (list shown_value) :=
  match ps with
  | [] => Ok []
  | p :: t => let* c := lv s p [] lvl in let* rest := lv_props lv s lvl t in Ok (c ++ rest)
  end.

(* the values shown for the properties of a value: beneath it (tree mode) or as its label (flat mode) *)
Definition lv_props_of (lv : lv_t) (s : option stmt) (n : node) (a : anc) (lvl : nat) : res (list shown_value * option str) :=
  let props := get_props T s (comp_name (node_meta n) a) in
  let priv := match n with Leaf _ _ pr => pr | Comb _ _ _ _ => [] end in
  let is_leaf := match n with Leaf _ _ _ => true | _ => false end in
  if ((is_leaf || flat) && negb (nil_b props)) || negb (nil_b priv) then
    let* all :=
      match priv with
      | [] => Ok props
      | p0 :: rest => let* merged := merge_private p0 rest in Ok (props ++ [merged])
      end in
    match all with
    | [] => Ok ([], None)
    | _ => if flat then let* l := flat_label T all false in Ok ([], Some l)
           else let* cs := lv_props lv s lvl all in Ok (cs, None)
    end
  else Ok ([], None).

Fixpoint lv_children (lv : lv_t) (st : stmt) (lvl : nat) (cs : list node) : res (list shown_value) :=
  match cs with
  | [] => Ok []
  | v :: t =>
    if printable v then let* c := lv (Some st) v [] lvl in let* rest := lv_children lv st lvl t in Ok (c ++ rest)
    else lv_children lv st lvl t
  end.

Definition lv_step (lv : lv_t) : lv_t := fun s n a lvl =>
  if is_empty_node n a then Ok [] else
  match n with
  | Leaf m (EStr txt) _ =>
    let* pr := lv_props_of lv s n a lvl in
    Ok ((comp_name m a, shown (leaf_text m a txt), lvl, snd pr) :: fst pr)
  | Comb m op l r =>
    let* ls := lv s l ((m, op) :: a) lvl in
    let* rs := lv s r ((m, op) :: a) lvl in
    Ok (ls ++ rs)
  | Leaf _ (EStmt st) _ => lv_children lv st (S lvl) (components_of T o st)
  | Leaf _ (ENodes (Leaf _ (EStmt st) _ :: _)) _ => lv_children lv st (S lvl) (components_of T o st)
  | Leaf _ (ENodes _) _ => Panic 45
  | Leaf _ ENil _ => Panic 46
  end.

Fixpoint lv (fuel : nat) : lv_t :=
  match fuel with
  | 0 => fun _ _ _ _ => OutOfFuel
  | S f => lv_step (lv f)
  end.
End View.

(* ---------------------------------------------------------------- the documented component list
   The tables the specification is evaluated with when it is compared with the implementation's output: the component
   fields in the order of the visual output (activation conditions in front or in their place), and the property
   fields of each component.  The DoV wiring is taken from the given tables (it is the business of C07 / C20).  Tie/C09_tie.v: the regenerated tables are these. *)
Definition doc_vis_order : list (guard * list field) :=
  [(GIfFront, [FCac; FCacC]); (GAlways, [FA; FD; FI; FBdir; FBdirC; FBind; FBindC; FE; FM; FF; FP; FPC]);
   (GIfNotFront, [FCac; FCacC]); (GAlways, [FCex; FCexC; FO])].
Definition doc_vis_props : list (str * field * field) :=
  [($"A", FAp, FApC); ($"Bdir", FBdirp, FBdirpC); ($"Bind", FBindp, FBindpC); ($"E", FEp, FEpC); ($"P", FPp, FPpC)].
(* the flat text of a statement (labels of collapsed nested statements, property labels): every field, in the documented
   order, under its symbol, nested-statement fields in braces *)
Definition doc_flat : flat_table :=
  [(FA, $"A", false); (FAp, $"A,p", false); (FApC, $"A,p", true); (FD, $"D", false); (FI, $"I", false);
   (FBdir, $"Bdir", false); (FBdirC, $"Bdir", true); (FBdirp, $"Bdir,p", false); (FBdirpC, $"Bdir,p", true);
   (FBind, $"Bind", false); (FBindC, $"Bind", true); (FBindp, $"Bind,p", false); (FBindpC, $"Bind,p", true);
   (FCac, $"Cac", false); (FCacC, $"Cac", true); (FCex, $"Cex", false); (FCexC, $"Cex", true); (FE, $"E", false);
   (FEp, $"E,p", false); (FEpC, $"E,p", true); (FM, $"M", false); (FF, $"F", false); (FP, $"P", false);
   (FPC, $"P", true); (FPp, $"P,p", false); (FPpC, $"P,p", true); (FO, $"O", true)].
Definition spec_vis (T : vis_tables) : vis_tables := mkVisT doc_vis_order doc_vis_props doc_flat doc_flat (vt_dov T).
