(* Props/C06.v - property theorems only.
   C06: Statement IDs are unique and every reference in the table resolves.
   Model: Model/Tabular.v (generateStatementIDint = sub_id, generateNewNestedStatementID = new_nested_id with the
   registry of nested statements), Base/Str.v (strconv.Itoa).
   PARTIAL: the theorems below cover the identifier scheme and the registry for every statement ID, every registry
   and every nested statement; that the complete table produced by Model/Tabular.tab_stmt has pairwise different
   identifiers and only resolving references is not proved yet - it is tied by the cell-exact correspondence and
   evaluated on the implementation's tables on every run. *)
From Coq Require Import List Arith.
From IGP Require Import Base.Str Base.Outcome Model.Tree Model.Link Model.Tabular Proofs.ItoaProof Proofs.IdProof Proofs.RowIds Proofs.RegWf Gen.Wiring.
Import ListNotations.

(* atomic statements id.1, id.2, ...: different numbers give different identifiers, whatever the user-supplied id *)
Theorem C06_atomic_ids_distinct : forall sid a b, sub_id sid a = sub_id sid b -> a = b.
Proof. exact sub_id_injective. Qed.
Print Assumptions C06_atomic_ids_distinct.

(* nested statements {parent}.1, {parent}.2, ...: pairwise different, and different from every identifier of the
   parent's own rows *)
Theorem C06_nested_ids_distinct : forall sid a b, nested_id sid a = nested_id sid b -> a = b.
Proof. exact nested_id_injective. Qed.
Print Assumptions C06_nested_ids_distinct.
Theorem C06_nested_id_is_no_own_id : forall sid k j, nested_id sid k <> sub_id sid j /\ nested_id sid k <> sid.
Proof. exact nested_id_not_own. Qed.
Print Assumptions C06_nested_id_is_no_own_id.

(* the registry: every request leaves it well-formed ({parent}.1 ... {parent}.n in order), so its identifiers are
   pairwise different; the identifier handed out is registered (its row group will be produced, the reference
   resolves); the same nested statement gets the same identifier and no second row group; earlier entries stay *)
Theorem C06_registry_stays_wellformed : forall sid reg k n, reg_wf sid reg -> reg_wf sid (fst (new_nested_id reg k n sid)).
Proof. exact new_nested_id_wf. Qed.
Print Assumptions C06_registry_stays_wellformed.
Theorem C06_registry_ids_unique : forall sid reg, reg_wf sid reg -> NoDup (map n_id reg).
Proof. exact reg_ids_nodup. Qed.
Print Assumptions C06_registry_ids_unique.
Theorem C06_reference_is_registered : forall sid reg k n, In (snd (new_nested_id reg k n sid)) (map n_id (fst (new_nested_id reg k n sid))).
Proof. exact new_nested_id_registered. Qed.
Print Assumptions C06_reference_is_registered.
Theorem C06_same_statement_same_id : forall sid reg k n n',
  new_nested_id (fst (new_nested_id reg k n sid)) k n' sid = (fst (new_nested_id reg k n sid), snd (new_nested_id reg k n sid)).
Proof. exact new_nested_id_idempotent. Qed.
Print Assumptions C06_same_statement_same_id.
Theorem C06_registry_only_grows : forall sid reg k n, exists ext, fst (new_nested_id reg k n sid) = reg ++ ext.
Proof. exact new_nested_id_extends. Qed.
Print Assumptions C06_registry_only_grows.

(* Itoa is injective (Atoi (Itoa n) = n), for every natural number *)
Theorem C06_itoa_injective : forall a b : nat, itoa_nat a = itoa_nat b -> a = b.
Proof. exact itoa_nat_injective. Qed.
Print Assumptions C06_itoa_injective.

(* the identifier cells of the own rows of a statement, as the row loop of the exporter writes them: id.1 ... id.N, no
   identifier twice (components named like the identifier column excluded) *)
Theorem C06_own_row_ids_distinct : forall C s anno sl rows lms reg sid out reg', Forall (Forall lref_safe) rows ->
  rows_loop tab_T C s anno sl rows lms true 0 reg sid [] = Ok (out, reg') ->
  NoDup (map (fun r => rget r K_ID) out).
Proof. intros C s anno sl rows lms reg sid out reg' Hs H. exact (proj2 (own_row_ids_distinct tab_T C s anno sl rows lms reg sid out reg' Hs H)). Qed.
Print Assumptions C06_own_row_ids_distinct.

(* all identifiers that belong to one statement - its own rows id.1 ... id.N and its nested statements {id}.1 ... {id}.K as
   the row loop registers them - are pairwise different *)
Theorem C06_statement_ids_distinct : forall C s anno sl rows lms sid out reg', Forall (Forall lref_safe) rows ->
  rows_loop tab_T C s anno sl rows lms true 0 [] sid [] = Ok (out, reg') ->
  NoDup (map (fun r => rget r K_ID) out ++ map n_id reg').
Proof. exact (statement_ids_distinct tab_T). Qed.
Print Assumptions C06_statement_ids_distinct.

Example C06_example :
  let r0 := new_nested_id [] (KComp FCacC [false]) (Leaf meta0 ENil []) $"7.1" in
  let r1 := new_nested_id (fst r0) (KComp FCacC [true]) (Leaf meta0 ENil []) $"7.1" in
  let r2 := new_nested_id (fst r1) (KComp FCacC [false]) (Leaf meta0 ENil []) $"7.1" in
  snd r0 = $"{7.1}.1" /\ snd r1 = $"{7.1}.2" /\ snd r2 = $"{7.1}.1" /\ length (fst r2) = 2 /\ reg_wf $"7.1" (fst r2).
Proof. vm_compute. repeat split; reflexivity. Qed.
