(* Props/C10.v - property theorems only.
   C10: No input crashes, kills or hangs the converter.
   In the model a Go panic, a log.Fatal and an exhausted loop bound are values (Panic, Fatal, OutOfFuel); the
   theorems say that the modelled core never returns one of them.  PARTIAL: proved for the odometer that builds the
   rows (all arrays), for the linkage search (all trees, all pairs of leaves), for the Degree-of-Variability count on
   well-formed trees.  Wall time, memory, stack depth and the parts of the
   code that are not modelled are measured on the implementation, which the check drives with junk, mutated and
   extreme inputs through both conversions. *)
From Coq Require Import List Arith.
From IGP Require Import Parser.PStr Parser.Combo Parser.NoPanic.
From IGP Require Import Base.Str Base.Outcome Model.Tree Model.Odo Model.Link Proofs.OdoProof Proofs.LinkProof.
Import ListNotations.

(* GenerateNodeArrayPermutations: for any arrays (empty ones included) no index runs out of range and the loop ends *)
Theorem C10_odometer_never_panics : forall (A : Type) (ls : list (list A)), ls <> [] ->
  (forall n, odometer ls <> Panic n) /\ odometer ls <> OutOfFuel.
Proof. exact (@odometer_never_panics). Qed.
Print Assumptions C10_odometer_never_panics.

(* FindLogicalLinkage: for any tree and any two different leaves the search returns (no nil dereference, no Fatal) *)
Theorem C10_linkage_search_returns : forall t p q, is_leaf_at t p -> is_leaf_at t q -> p <> q ->
  find_linkage t p q = Ok (true, path_ops t p q).
Proof. exact find_linkage_spec. Qed.
Print Assumptions C10_linkage_search_returns.

(* detectCombinations (component combinations in parentheses, statement combinations in braces): on every string in
   which no prefix closes more than it opens, the scan and all its restarts on the rewritten expression return without
   a panic; the premise is what the statement-level extraction hands over (and cannot be dropped, see
   detect_panics_below_level_0) *)
Theorem C10_detect_parentheses_never_panics_partial : forall fuel expr n, nests_par expr = true -> detect fuel expr lpar rpar <> Combo.Panic n.
Proof. exact detect_par_never_panics. Qed.
Print Assumptions C10_detect_parentheses_never_panics_partial.

Theorem C10_detect_braces_never_panics_partial : forall fuel expr n, nests_brace expr = true -> detect fuel expr lbrace rbrace <> Combo.Panic n.
Proof. exact detect_brace_never_panics. Qed.
Print Assumptions C10_detect_braces_never_panics_partial.
