(* Props/C10.v - property theorems only.
   C10: No input crashes, kills or hangs the converter.
   In the model a Go panic, a log.Fatal and an exhausted loop bound are values (Panic, Fatal, OutOfFuel); the
   theorems say that the modelled core never returns one of them.  PARTIAL: proved for ParseIntoNodeTree as a whole
   (component combinations and statement combinations) on every properly nesting string - the premise is what the
   statement-level extraction hands over and cannot be dropped, see detect_panics_below_level_0 -, for the odometer
   that builds the rows (all arrays) and for the linkage search (all trees, all pairs of leaves).  Not proved:
   termination of the restart loop (the fuel the port gives detectCombinations suffices on every input the
   correspondence has run), the statement-level extraction by regular expressions, wall time, memory and stack depth;
   these are measured on the implementation, which the check drives with junk, mutated and extreme inputs through both
   conversions. *)
From Coq Require Import List Arith Strings.String.
From IGP Require Import Parser.PStr Parser.Combo Parser.NoPanic Parser.ParseNoPanic.
From IGP Require Import Base.Str Base.Outcome Model.Tree Model.Odo Model.Link Proofs.OdoProof Proofs.LinkProof.
Import ListNotations.

(* GenerateNodeArrayPermutations: for any arrays (empty ones included) no index runs out of range and the loop ends *)
Theorem C10_odometer_never_panics : forall (A : Type) (ls : list (list A)), ls <> [] ->
  (forall n, odometer ls <> Panic n) /\ odometer ls <> OutOfFuel.
Proof. exact (@odometer_never_panics). Qed.
Print Assumptions C10_odometer_never_panics.

(* FindLogicalLinkage: for any tree and any two different leaves the search returns (no nil dereference, no Fatal) *)
Theorem C10_linkage_search_returns : forall t p q, is_leaf_at t p -> is_leaf_at t q -> p <> q ->
  find_linkage t p q = Ok (true, path_ops t p q).
Proof. exact find_linkage_spec. Qed.
Print Assumptions C10_linkage_search_returns.

(* detectCombinations (component combinations in parentheses, statement combinations in braces): on every string in
   which no prefix closes more than it opens, the scan and all its restarts on the rewritten expression return without
   a panic; the premise is what the statement-level extraction hands over (and cannot be dropped, see
   detect_panics_below_level_0) *)
Theorem C10_detect_parentheses_never_panics_partial : forall fuel expr n, nests_par expr = true -> detect fuel expr lpar rpar <> Combo.Panic n.
Proof. exact detect_par_never_panics. Qed.
Print Assumptions C10_detect_parentheses_never_panics_partial.

Theorem C10_detect_braces_never_panics_partial : forall fuel expr n, nests_brace expr = true -> detect fuel expr lbrace rbrace <> Combo.Panic n.
Proof. exact detect_brace_never_panics. Qed.
Print Assumptions C10_detect_braces_never_panics_partial.

(* ParseIntoNodeTree as a whole (detectCombinations, extractSharedComponents, the recursion into both operands of
   every complete combination, the combination of the level's nodes): on every properly nesting string it returns a
   tree or an error code, never a panic - the operands cut out by the recorded boundary indices nest properly again
   (Parser/ParseNoPanic.v), so the recursion stays within the premise.  Both uses: component combinations "( )" and
   statement combinations "{ }". *)
Theorem C10_parse_into_node_tree_never_panics : forall fuel input nested n, nests_par input = true ->
  parse lpar rpar fuel input nested <> Combo.Panic n.
Proof. exact parse_par_never_panics. Qed.
Print Assumptions C10_parse_into_node_tree_never_panics.

Theorem C10_parse_statement_combinations_never_panics : forall fuel input nested n, nests_brace input = true ->
  parse lbrace rbrace fuel input nested <> Combo.Panic n.
Proof. exact parse_brace_never_panics. Qed.
Print Assumptions C10_parse_statement_combinations_never_panics.

(* the operands of every complete combination that detectCombinations reports nest properly - for every input *)
Theorem C10_operand_slices_nest : forall fuel expr lm e', detect fuel expr lpar rpar = Combo.Ok (lm, e') ->
  forall l b, In b (nth l lm []) -> bComplete b = true -> slices_ok lpar rpar e' b.
Proof. exact (detect_slices lpar rpar eq_refl op_free_par). Qed.
Print Assumptions C10_operand_slices_nest.

(* non-vacuity: a nesting string with a repeated operator (one restart) is parsed into a tree *)
Example C10_example : nests_par (bs "(a [AND] b [AND] (c [OR] d))"%string) = true /\
  match parse lpar rpar 5 (bs "(a [AND] b [AND] (c [OR] d))"%string) false with Combo.Ok _ => True | _ => False end.
Proof. vm_compute. split; [reflexivity|exact I]. Qed.
