(* Props/C20.v - property theorems only.
   C20: Degree of Variability follows the documented recurrence.
   Model: Model/DoV.v (port of CalculateStateComplexity / CalculateComplexity), instantiated with the
   wiring regenerated from the source (Gen/Wiring.v). Spec: dov_node / dov_total (Model/DoV.v, bottom). *)
From Coq Require Import List ZArith.
From IGP Require Import Base.Str Base.Outcome Model.Tree Model.DoV Proofs.DoVProof Gen.Wiring Tie.C20_tie.
Import ListNotations.
Local Open Scope Z_scope.

(* every node: the value computed by the code's algorithm is the value of the recurrence *)
Theorem C20_node : forall n, dov_wf n = true -> node_cx dov_W n = Ok (dov_node n).
Proof. exact (node_cx_spec dov_W dov_wiring_holds). Qed.
Print Assumptions C20_node.

(* the statement total: sum of the component values > 1 (at least 1) times the condition value (at least 1) *)
Theorem C20_total : forall s, dov_wf_stmt s = true -> stmt_cx dov_W s = Ok (dov_total s).
Proof. exact (fun s => stmt_cx_spec dov_W s dov_wiring_holds). Qed.
Print Assumptions C20_total.

(* the clauses of the recurrence, as the property states them *)
Theorem C20_single : forall m s priv, dov_node (Leaf m (EStr s) priv) = 1.
Proof. exact dov_single. Qed.
Theorem C20_conjunction : forall m o l r, o = AND \/ o = BAND \/ o = WAND -> dov_node (Comb m o l r) = dov_node l + dov_node r - 1.
Proof. exact dov_conj. Qed.
Theorem C20_xor : forall m l r, dov_node (Comb m XOR l r) = dov_node l + dov_node r.
Proof. exact dov_xor. Qed.
Theorem C20_or : forall m l r, dov_node (Comb m OR l r) = dov_node l + dov_node r + 1.
Proof. exact dov_or. Qed.
Theorem C20_nested : forall m st priv, dov_node (Leaf m (EStmt st) priv) = dov_total st.
Proof. exact dov_nested. Qed.

(* non-vacuity: a concrete statement with a combination, a nested statement and a condition *)
Example C20_example :
  let leaf s := Leaf meta0 (EStr s) [] in
  let inner := Stmt [(FA, leaf $"b"); (FI, Comb meta0 XOR (leaf $"c") (leaf $"d"))] in
  let s := Stmt [(FA, Comb meta0 OR (leaf $"x") (leaf $"y")); (FI, leaf $"z");
                 (FCacC, Leaf meta0 (EStmt inner) [])] in
  dov_wf_stmt s = true /\ stmt_cx dov_W s = Ok 6.
Proof. vm_compute. split; reflexivity. Qed.
