(* Props/C01.v - property theorems only.
   C01: Components and combinations are parsed exactly as written.
   Model: Parser/Combo.v - port of detectCombinations / ParseIntoNodeTree / extractSharedComponents
   (core/parser/IGComponentCombinationParser.go): boundary maps, operator positions, the re-bracketing restart.
   PARTIAL.  Full statement (kept here):
     forall st, wf st -> parse_statement (render st) = Ok (denote st)      for the whole documented grammar
   (all 16 symbols, chains, shared text, repeated annotations, suffixes, annotations, filler).
   Proved: the round trip of the combination parser for every FULLY PARENTHESISED operator tree over [AND]/[OR]/[XOR]
   with plain trimmed words, of any size and depth.  Same-operator chains, shared text and the statement level
   (per-symbol extraction, implicit conjunction) are tied by the correspondence (model = ParseIntoNodeTree on every run)
   and by comparing ParseStatement with the denotation of generated statements; they are not theorems yet. *)
From Coq Require Import List Arith Strings.Byte.
From IGP Require Import Parser.PStr Parser.Combo Parser.S1a Parser.S1d Parser.S1f.
Import ListNotations.

Theorem C01_roundtrip_parenthesised_partial : forall o l r, wft2 (N o l r) ->
  parse lpar rpar (depth (N o l r)) (render (N o l r)) false = Ok (denote (N o l r), render (N o l r), false).
Proof. exact pint_roundtrip_parenthesised. Qed.
Print Assumptions C01_roundtrip_parenthesised_partial.

(* with any amount of surrounding blanks, and for every fuel that is at least the depth *)
Theorem C01_roundtrip_padded_partial : forall t, wft2 t -> forall f, depth t <= f ->
  match t with
  | L _ => True
  | N _ _ _ => forall nl nr, parse lpar rpar f (spaces nl ++ render t ++ spaces nr) false
                             = Ok (denote t, spaces nl ++ render t ++ spaces nr, false)
  end.
Proof. exact (fun t H f Hf => proj2 (parse_render t H f Hf)). Qed.
Print Assumptions C01_roundtrip_padded_partial.

Example C01_example :
  let t := N WXor (N WOr (L ["x"%byte]) (L ["y"; " "; "z"]%byte)) (L ["w"%byte]) in
  wft2 t /\ parse lpar rpar 2 (render t) false = Ok (denote t, render t, false).
Proof. exact roundtrip_example. Qed.

(* shared text: what every value of a combination reports (GetSharedLeft / GetSharedRight, ported as get_shared and
   compared with the implementation on every value of every parsed tree, Spec/Shared.v eff_shared) is the text of all
   enclosing combinations, outermost first, followed by its own; in particular no enclosing text is lost at any depth *)
From IGP Require Import Base.Str Model.Tree Spec.Shared.
Theorem C01_shared_text_of_all_enclosing_combinations : forall sel m a,
  (a <> nil \/ shared_set (sel m) = true) -> get_shared sel m a = all_shared sel m a.
Proof. exact get_shared_all_levels. Qed.
Print Assumptions C01_shared_text_of_all_enclosing_combinations.
Theorem C01_enclosing_text_reaches_every_value : forall sel m a mo, In mo a -> shared_set (sel (fst mo)) = true ->
  exists pre post, get_shared sel m a = pre ++ sel (fst mo) ++ post.
Proof. exact enclosing_text_reaches_every_value. Qed.
Print Assumptions C01_enclosing_text_reaches_every_value.
