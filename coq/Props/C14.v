(* Props/C14.v - property theorems only.
   C14: Concurrent requests do not influence each other's responses.
   Model: Proofs/Sched.v - any number of requests, each running  Lock; handler program of its page; Unlock  on the
   shared switches; a schedule is any list of thread numbers (a blocked or finished thread's turn is a no-op).
   The handler programs and the presence of the lock are regenerated from the source. *)
From Coq Require Import List.
From IGP Require Import Base.Str Model.Handlers Proofs.Hist Proofs.Sched Proofs.HandlersProof Gen.Handlers Tie.C13_tie Tie.C14_tie.
Import ListNotations.

(* under EVERY schedule a request that has been answered got the answer it gets when it is processed alone *)
Theorem C14_schedule_independent : forall (payload response : Type)
  (conv_tab conv_vis : request payload -> gst -> response),
  (forall r s s', (forall g, In g reads_tab -> s g = s' g) -> conv_tab r s = conv_tab r s') ->
  (forall r s s', (forall g, In g reads_vis -> s g = s' g) -> conv_vis r s = conv_vis r s') ->
  handler_locked = true ->
  forall (reqs : list (page * request payload)) (s0 : gst) (sch : list nat) i t,
  nth_error (threads str (request payload) response bool
     (run_sched str beq_str (request payload) response bool
        (init_sys str (request payload) response bool s0 (mk_threads payload response gen_facts conv_tab conv_vis reqs)) sch)) i = Some t ->
  t_phase str (request payload) response bool t = Finished str (request payload) response bool ->
  t_out str (request payload) response bool t
  = snd (handle str beq_str (request payload) response bool (t_body str (request payload) response bool t) s0 (t_req str (request payload) response bool t)).
Proof.
  exact (fun payload response ct cv ft fv _ => schedule_independent_pages payload response gen_facts ct cv ft fv handlers_hold).
Qed.
Print Assumptions C14_schedule_independent.

(* the hypothesis is satisfied by the current source *)
Theorem C14_handler_is_locked : handler_locked = true.
Proof. exact handler_is_locked. Qed.

(* and the threads of the model are all there is: no statement of a request runs outside the lock *)
Theorem C14_nothing_outside_the_lock : handler_unlocked_statements = nil.
Proof. exact nothing_outside_the_lock. Qed.
Print Assumptions C14_nothing_outside_the_lock.
