(* Props/C15.v - property theorems only.
   C15: The web pages return exactly what the core conversion produces.
   Model: Model/WebDecode.v - the decoding rules of converterHandler and the positional hand-over, regenerated from
   the source (Gen/Handlers.v).  PARTIAL: proved is the decoding clause ("each checkbox, selector and URL parameter
   controls the option it names") for every request; that the page embeds the core output, echoes the form, escapes
   user text and reports errors is what html/template and net/http do with the handed-over values - observed through
   httptest on every run, not proved. *)
From Coq Require Import List.
From IGP Require Import Base.Str Model.Handlers Model.WebDecode Proofs.WebDecodeProof Gen.Handlers Tie.C15_tie.
Import ListNotations.

(* for EVERY set of request parameters, POST or GET: the option the tabular page hands over for a switch is the
   specified function of the one parameter that names the switch (checkbox "on" / URL value t|true|1, polarity,
   documented default when absent on GET); all other parameters are irrelevant to it *)
Theorem C15_tabular_options_follow_their_parameters : forall w, In w spec_wiring ->
  forall p g pol absent cp v, w = (p, g, pol, absent) -> global_param handle_tab g = Some cp -> arg_of handover_tab cp = Some v ->
  forall (post : bool) (ps : params), vget v (decode form_vars post_rules get_rules post ps) = spec_value post ps w.
Proof.
  intros w Hin. apply (decode_correct form_vars post_rules get_rules handover_tab handle_tab web_rules_wellformed w Hin).
  pose proof web_wiring_tab as H. unfold wiring_ok in H. rewrite forallb_forall in H. apply H. exact Hin.
Qed.
Print Assumptions C15_tabular_options_follow_their_parameters.

Theorem C15_visual_options_follow_their_parameters : forall w, In w spec_wiring ->
  forall p g pol absent cp v, w = (p, g, pol, absent) -> global_param handle_vis g = Some cp -> arg_of handover_vis cp = Some v ->
  forall (post : bool) (ps : params), vget v (decode form_vars post_rules get_rules post ps) = spec_value post ps w.
Proof.
  intros w Hin. apply (decode_correct form_vars post_rules get_rules handover_vis handle_vis web_rules_wellformed w Hin).
  pose proof web_wiring_vis as H. unfold wiring_ok in H. rewrite forallb_forall in H. apply H. exact Hin.
Qed.
Print Assumptions C15_visual_options_follow_their_parameters.

(* non-interference, as a corollary: two requests that agree on the parameter naming a switch get the same option *)
Theorem C15_other_parameters_do_not_matter : forall w, In w spec_wiring ->
  forall p g pol absent cp v, w = (p, g, pol, absent) -> global_param handle_vis g = Some cp -> arg_of handover_vis cp = Some v ->
  forall post ps ps', pget p ps = pget p ps' ->
    vget v (decode form_vars post_rules get_rules post ps) = vget v (decode form_vars post_rules get_rules post ps').
Proof.
  intros w Hin p g pol absent cp v E Hg Ha post ps ps' Hp.
  rewrite (C15_visual_options_follow_their_parameters w Hin p g pol absent cp v E Hg Ha post ps),
          (C15_visual_options_follow_their_parameters w Hin p g pol absent cp v E Hg Ha post ps').
  subst w. unfold spec_value. rewrite Hp. reflexivity.
Qed.
Print Assumptions C15_other_parameters_do_not_matter.

(* non-vacuity: the visual page, POST with propertyTree and binaryTree on *)
Example C15_example :
  let ps := [($"propertyTree", $"on"); ($"binaryTree", $"on"); ($"codedStmt", $"A(x)")] in
  vget $"printFlatProperties" (decode form_vars post_rules get_rules true ps) = false
  /\ vget $"printBinaryTree" (decode form_vars post_rules get_rules true ps) = true
  /\ vget $"printActivationConditionsOnTop" (decode form_vars post_rules get_rules true ps) = false
  /\ vget $"printFlatProperties" (decode form_vars post_rules get_rules false [($"binaryTree", $"1")]) = false
  /\ vget $"printHeaders" (decode form_vars post_rules get_rules false []) = true.
Proof. vm_compute. repeat split; reflexivity. Qed.
