(* Props/C07.v - property theorems only.
   C07: Tabular output is machine-parseable for every input and option.
   Model: Model/Tabular.v (CleanInput, performOutputSpecificAdjustments, the endpoint's treatment of the statement
   ID, printTabularOutput).  PARTIAL: proved for every input string, row, header list and inclusion option are the
   cleaning/substitution facts and the rectangular shape of the printed lines (given separator-free cells); that
   every cell the exporter assembles from a parsed tree is itself free of the forbidden characters is evaluated on
   the implementation's output over hostile alphabets on every run and tied by the byte-exact correspondence. *)
From Coq Require Import List Arith Strings.Byte.
From IGP Require Import Base.Str Base.Outcome Model.Tree Model.Link Model.Tabular Proofs.PrintProof.
Import ListNotations.

(* statement text and original statement after CleanInput: no separator, no line feed, no carriage return *)
Theorem C07_clean_input : forall s,
  has_b SEPB (clean_input s) = false /\ has_b x0a (clean_input s) = false /\ has_b x0d (clean_input s) = false.
Proof. exact clean_input_clean. Qed.
Print Assumptions C07_clean_input.

(* every value that passes the output-specific adjustment is free of double quotes, in both formats *)
Theorem C07_adjusted_value_has_no_quote : forall gs s, has_b x22 (adjust gs s) = false.
Proof. exact adjust_no_quote. Qed.
Print Assumptions C07_adjusted_value_has_no_quote.

(* the statement ID written into the first cell of every row: none of the four forbidden characters, for every ID *)
Theorem C07_statement_id_clean : forall s,
  has_b SEPB (endpoint_id s) = false /\ has_b x0a (endpoint_id s) = false /\ has_b x0d (endpoint_id s) = false /\ has_b x22 (endpoint_id s) = false.
Proof. exact endpoint_id_clean. Qed.
Print Assumptions C07_statement_id_clean.

(* header line and data lines have the same number of separators - for every header list, every row, every row
   index, and every pair of inclusion options including unknown ones (IOther): the optional columns appear in the
   header exactly when they appear in the data rows *)
Theorem C07_header_and_rows_rectangular : forall (po pi : incl) (orig igs : str) (i : nat) (r : row) (hs : list (str * str)),
  (forall h, In h hs -> sep_free (snd h)) -> (forall h, In h hs -> sep_free (rget r (fst h))) -> sep_free orig -> sep_free igs ->
  (forall h, In h hs -> beq_str (snd h) K_ID = beq_str (fst h) K_ID) ->
  count_b SEPB (flat_map (fun h : str * str => snd h ++ [SEPB] ++ (if beq_str (snd h) K_ID then extra_hdr po pi else [])) hs)
  = count_b SEPB (flat_map (fun h : str * str => (let v := rget r (fst h) in if is_empty v then [sp] else v) ++ [SEPB]
                     ++ (if beq_str (fst h) K_ID then extra_cell po i orig ++ extra_cell pi i igs else [])) hs).
Proof.
  intros po pi orig igs i r hs H1 H2 Ho Hi Hk. rewrite (header_seps po pi hs H1), (row_seps po pi orig igs i r hs H2 Ho Hi).
  induction hs as [|h hs IH]; [reflexivity|]. cbn [fold_right]. rewrite (Hk h (or_introl eq_refl)), IH; [reflexivity| | |].
  - intros x Hx. apply H1. right. exact Hx.
  - intros x Hx. apply H2. right. exact Hx.
  - intros x Hx. apply Hk. right. exact Hx.
Qed.
Print Assumptions C07_header_and_rows_rectangular.

Example C07_example :
  clean_input $"a|b" = $"ab" /\ adjust true (x27 :: $"x""y") = x27 :: x27 :: $"x'y" /\ endpoint_id ($"1|2" ++ [x0d] ++ $"3""") = $"12 3'".
Proof. vm_compute. repeat split; reflexivity. Qed.
