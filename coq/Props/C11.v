(* Props/C11.v - property theorems only.
   C11: Malformed input is rejected with its specific error, never half-converted.
   Model: Parser/Combo.v (port of detectCombinations / ParseIntoNodeTree).  PARTIAL: proved for the combination parser,
   for all strings resp. all words: unequal numbers of parentheses -> IMBALANCED_PARENTHESES; two different operators in
   one pair of parentheses -> INVALID_LOGICAL_OPERATOR_COMBINATIONS (whatever the three operands are).  The statement
   level (duplicate components, nesting on non-nesting symbols, mixed types, several pair expressions, empty statement),
   error propagation out of nested statements and the agreement of the two conversions are evaluated on the
   implementation with every violation planted at every component and nesting level. *)
From Coq Require Import List Arith Strings.Byte.
From IGP Require Import Parser.PStr Parser.Combo Parser.S1a Parser.Reject.
Import ListNotations.

(* every string with a logical operator and unequal numbers of "(" and ")" is rejected as imbalanced *)
Theorem C11_imbalanced_parentheses_partial : forall f s nested, has_ops s = true -> count_b lpar s <> count_b rpar s ->
  parse lpar rpar (S f) s nested = Err IMBALANCED.
Proof. exact parse_imbalanced. Qed.
Print Assumptions C11_imbalanced_parentheses_partial.

(* detectCombinations itself, for any pair of parenthesis symbols (braces included) *)
Theorem C11_detect_imbalanced : forall f s lp rp, count_b lp s <> count_b rp s -> detect (S f) s lp rp = Err IMBALANCED.
Proof. exact detect_imbalanced. Qed.
Print Assumptions C11_detect_imbalanced.

(* (w1 [o1] w2 [o2] w3) with o1 <> o2: rejected, for all words *)
Theorem C11_mixed_operators_partial : forall w1 w2 w3 o1 o2 f nested,
  forallb plain w1 = true -> forallb plain w2 = true -> forallb plain w3 = true -> op_of o1 <> op_of o2 ->
  parse lpar rpar (S f) (mixed w1 w2 w3 o1 o2) nested = Err INVALID_OP_COMB.
Proof. exact mixed_operators_rejected. Qed.
Print Assumptions C11_mixed_operators_partial.

Example C11_example :
  parse lpar rpar 3 (mixed ["a"%byte] ["b"%byte] ["c"%byte] WAnd WOr) false = Err INVALID_OP_COMB.
Proof. vm_compute. reflexivity. Qed.
