(* Props/C09.v - property theorems only.
   C09: the visual tree shows exactly the parsed statement.
   Model: Model/VisJson.v (structured output value, tied to the implementation by value comparison with the
   parsed Go output).  Spec: Spec/VisView.v (sequence of shown values), and for plain component trees
   the written operator tree itself. *)
From Coq Require Import List Strings.Byte.
From IGP Require Import Base.Str Base.Outcome Model.Tree Model.Visual Model.VisJson Spec.VisView Proofs.VisJsonProof Proofs.VisViewProof Gen.Wiring Tie.C08_tie Tie.C09_tie.
Import ListNotations.

(* every statement, every option vector: the values read back from the output - in document order, with
   the component each is shown under, its text and its nesting level, and its flat property label - are
   exactly the values of the specification lv: nested statements one level deeper (lv_step, EStmt case),
   properties beneath / as labels on each value of the component they qualify (lv_props_of), in the
   component order of the statement.  Equality of sequences: nothing missing, nothing twice, nothing extra. *)
Theorem C09_values : forall T o fuel s n a lvl js,
  jn T o fuel s n a lvl = Ok js -> lv T (o_flat o) (o_actop o) fuel s n a lvl = Ok (leafseqs js).
Proof. exact (fun T o fuel => jn_lv T o fuel). Qed.
Print Assumptions C09_values.

(* the component list of the printer as it stands in the source is the documented one, so the specification evaluated
   with the documented list (the one compared with the implementation's output) is the specification of C09_values at
   the regenerated tables; and the documented list leaves no field of a statement out and names none twice *)
Theorem C09_printer_component_list_is_documented : spec_vis vis_T = vis_T.
Proof. exact printer_component_list_is_documented. Qed.
Print Assumptions C09_printer_component_list_is_documented.
Theorem C09_no_component_left_out : forall front : bool,
  length (shown_fields front) = 17 /\ DoV.nodup_f (shown_fields front) = true /\ forall f, reached front f = true.
Proof. exact documented_list_complete. Qed.
Print Assumptions C09_no_component_left_out.
(* the flat text (labels of collapsed nested statements and of properties) names every field of a statement, once *)
Theorem C09_flat_text_names_every_field : forall f : field, length (filter (fun r => field_eqb f (fst (fst r))) doc_flat) = 1.
Proof. exact documented_flat_complete. Qed.
Print Assumptions C09_flat_text_names_every_field.
(* what the specification says for a component tree of plain values (statement without properties):
   the leaves in source order, each once, with inherited shared text, under the component's name *)
Theorem C09_plain_component_values : forall T s, (forall name, get_props T s name = []) ->
  forall flat actop n, plain n = true -> forall fuel a lvl, height n < fuel ->
  lv T flat actop fuel s n a lvl
  = Ok (map (fun x => let '(m, t, a') := x in (comp_name m a', shown (leaf_text m a' t), lvl, None)) (leaves_with_ctx n a)).
Proof. exact lv_plain. Qed.
Print Assumptions C09_plain_component_values.

(* binary mode: the output object of such a component is exactly the written operator tree -
   operators as inner nodes in written order, values as leaves *)
Theorem C09_binary_operator_tree : forall T s, (forall name, get_props T s name = []) ->
  forall o n, o_bin o = true -> plain n = true -> forall fuel a lvl, height n < fuel ->
  exists j, jn T o fuel s n a lvl = Ok [j] /\ shape_of_json j = shape_of_node n a lvl.
Proof. exact jn_plain_binary. Qed.
Print Assumptions C09_binary_operator_tree.

(* annotations exactly when requested: never when off (C17_no_anno_member_when_off); when on, the member is
   the node's GetAnnotations value (anno_of in the model; compared with the implementation per node). *)
Theorem C09_no_annotation_when_not_requested : forall T o, o_anno o = false -> forall fuel s n a lvl js,
  jn T o fuel s n a lvl = Ok js -> Forall (no_member jn_anno) js.
Proof. intros T o H. exact (jn_no_member T o jn_anno (or_intror (conj eq_refl H))). Qed.

(* PARTIAL: the operator-tree read-back is proved for plain component trees; for trees with properties,
   nested statements and pair statements the value sequence (C09_values) is proved and the operator
   structure is compared with the implementation, not yet characterised by a theorem. *)

Example C09_example :
  let leaf s := Leaf meta0 (EStr s) [] in
  let n := Comb (mkMeta $"A" None None [$"the"] []) OR (leaf $"x") (Comb meta0 AND (leaf $"y") (leaf $"z")) in
  plain n = true /\
  lv vis_T false false 5 None n [] 1 = Ok [($"A", $"the x", 1, None); ($"A", $"the y", 1, None); ($"A", $"the z", 1, None)].
Proof. vm_compute. split; reflexivity. Qed.
