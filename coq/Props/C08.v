(* Props/C08.v - property theorems only (under construction: the statement is in place once proved). *)
From Coq Require Import List.
From IGP Require Import Base.Str Model.Tree Model.Visual Gen.Wiring Tie.C08_tie.
Import ListNotations.
