(* Props/C08.v - property theorems only.
   C08: whenever the visual conversion reports success, its output is one syntactically valid JSON document.
   Model: Model/Visual.v (byte-level port of PrintTree / PrintNodeTree / appendPropertyNodes /
   appendAnnotations / appendDegreeOfVariability with the hand-placed separators), instantiated with the
   tables regenerated from the source (Gen/Wiring.v: component order, property map, flat-string order,
   complexity wiring).  Spec: Spec/Json.v (RFC 8259 over bytes). *)
From Coq Require Import List Strings.Byte.
From IGP Require Import Base.Str Base.Outcome Model.Tree Model.Visual Spec.Json Proofs.JsonLemmas Proofs.VisualJson Gen.Wiring Tie.C08_tie.
Import ListNotations.

(* for every statement value, every option vector (all 32), every fuel, and - the theorem is generic in
   them - every order/property/flat table: a successful print is a JSON value.  The guard vwf_stmt says
   exactly what the printer writes unescaped: component names must be plain string bodies, and no
   node is the all-zero node (which prints nothing).  Texts, annotations, shared texts: any bytes. *)
Theorem C08_valid : forall T o fuel st out,
  vwf_stmt st = true -> vis_print T o fuel st = Ok out -> JV out.
Proof. exact vis_print_json. Qed.
Print Assumptions C08_valid.

(* the instance the implementation runs: tables of the current source *)
Theorem C08_valid_current_source : forall o fuel st out,
  vwf_stmt st = true -> vis_print vis_T o fuel st = Ok out -> JsonText out.
Proof. intros o fuel st out H1 H2. exists [], out, []. repeat split; try reflexivity. exact (vis_print_json vis_T o fuel st out H1 H2). rewrite app_nil_r. reflexivity. Qed.
Print Assumptions C08_valid_current_source.

(* every byte string becomes a legal JSON string body under the printer's escaping *)
Theorem C08_escaping : forall s, SBody (esc s).
Proof. exact esc_body. Qed.
Print Assumptions C08_escaping.

(* non-vacuity: hostile text, a combination, a nested statement, a property, annotations and DoV *)
Example C08_example :
  let leaf ct s := Leaf (mkMeta ct None (Some $"k=""v\") [] []) (EStr s) [] in
  let inner := Stmt [(FA, leaf $"A" [x5c; x0a; x22])] in
  let st := Stmt [(FA, Comb (mkMeta $"A" None None [$"sh"] []) OR (leaf [] [x09]) (leaf [] $"b"));
                  (FAp, leaf $"A,p" $"p");
                  (FCacC, Leaf (mkMeta $"Cac" None None [] []) (EStmt inner) [])] in
  vwf_stmt st = true /\
  forallb (fun o => is_ok (vis_print vis_T o (vis_fuel st) st))
    [mkVopts false false true true false; mkVopts true true true true true; mkVopts true false false false true] = true.
Proof. vm_compute. split; reflexivity. Qed.
