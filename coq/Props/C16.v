(* Props/C16.v - property theorems only.
   C16: Private properties and annotations attach exactly to the values coded for.
   Model: Model/Priv.v (port of ProcessPrivateComponentLinkages, FindNodesLinkedViaSuffix, RemoveNodeFromTree) with the
   component -> property table regenerated from the source; get_annotations / get_suffix of Model/Tree.v.
   PARTIAL: the value model withdraws all linked leaves at once; that removing them one by one (nodes identified by
   identity, any order) gives the same tree is proved (Proofs/RemoveSeq.v) for trees as values; the heap's stale
   parent pointers after the in-place root overwrite are outside the value model (the open finding F21 is exactly
   a sequence for which the heap disagrees).  That both exports show the attachment is the exporters' own
   theorems (C04-C09: private nodes in cells / beneath values) plus the evaluation of the implementation's exports
   against the attachment computed here. *)
From Coq Require Import List Arith Bool Strings.Byte.
From IGP Require Import Base.Str Model.Tree Model.Priv Proofs.PrivProof Proofs.RemoveSeq Gen.Wiring Tie.C16_tie.
Import ListNotations.

(* the pairing of components and properties in the code is the documented one, in both passes *)
Theorem C16_pairing_is_documented : priv_table_ok priv_link_table priv_reset_table = true.
Proof. exact priv_table_is_documented. Qed.
Print Assumptions C16_pairing_is_documented.

(* linked = leaf of the component's property tree whose suffix is set and has the same first element; nothing else *)
Theorem C16_linked_iff_same_suffix : forall sfx tgt p,
  In p (linked_targets sfx tgt) <->
  In p (leaf_paths tgt) /\ exists x, node_at tgt p [] = Some x /\ links_to sfx x = true.
Proof. exact linked_targets_spec. Qed.
Print Assumptions C16_linked_iff_same_suffix.

Theorem C16_unmatched_stay_shared : forall sfx tgt p x, node_at tgt p [] = Some x ->
  (is_empty (eff_suffix x) = true \/ beq_str (primary sfx) (primary (eff_suffix x)) = false) -> ~ In p (linked_targets sfx tgt).
Proof. exact unmatched_never_linked. Qed.
Print Assumptions C16_unmatched_stay_shared.

(* every value: without suffix nothing is attached; with a suffix exactly the linked leaves, detached, in tree order *)
Theorem C16_attached_values : forall T c s n p a m e pr a', node_at n p a = Some (Leaf m e pr, a') ->
  node_at (attach T c s n a) p a =
  Some ((if is_empty (get_suffix m a') then Leaf m e pr else
         match prop_tree T c s (comp_name m a') with
         | Some (_, tgt) => Leaf m e (pr ++ flat_map (detach tgt) (linked_targets (get_suffix m a') tgt))
         | None => Leaf m e pr
         end), a').
Proof. intros. rewrite (attach_at T c s n p a m e pr a' H). rewrite attached_values. reflexivity. Qed.
Print Assumptions C16_attached_values.

(* withdrawn from the shared properties: what remains are exactly the leaves that were not linked, in order ... *)
Theorem C16_shared_withdrawn : forall ps n rcur, oleaves (prune_at ps n rcur) = kept ps n rcur.
Proof. exact prune_leaves. Qed.
Print Assumptions C16_shared_withdrawn.

(* ... the field is cleared exactly when nothing remains, and a tree without linked leaves is untouched *)
Theorem C16_field_cleared_iff_all_linked : forall ps n rcur, prune_at ps n rcur = None <-> kept ps n rcur = [].
Proof. exact prune_none. Qed.
Print Assumptions C16_field_cleared_iff_all_linked.

Theorem C16_nothing_linked_nothing_changes : forall ps n rcur,
  (forall p, In p (leaf_paths n) -> ~ In (rev rcur ++ p) ps) -> prune_at ps n rcur = Some n.
Proof. exact prune_nothing. Qed.
Print Assumptions C16_nothing_linked_nothing_changes.

(* RemoveNodeFromTree, every position of the leaf (left/right, parent with or without parent): one removal = withdrawal *)
Theorem C16_removal_cases : forall n p rcur, In p (leaf_paths n) -> remove_at n p = prune_at [rev rcur ++ p] n rcur.
Proof. exact remove_is_prune. Qed.
Print Assumptions C16_removal_cases.

(* a SEQUENCE of removals (nodes identified by identity, as the code does by pointer): removing the linked leaves one
   by one, in any order, leaves exactly what the one-pass withdrawal of the model leaves ... *)
Theorem C16_removals_in_any_order : forall ps n, option_map unlabel (bremove_all ps (label n [])) = prune_at ps n [].
Proof. exact removals_in_any_order. Qed.
Print Assumptions C16_removals_in_any_order.

(* ... so the order in which the links were found is irrelevant *)
Theorem C16_removal_order_irrelevant : forall xs ys t, NoDup (ids t) -> (forall i, In i xs <-> In i ys) -> bremove_all xs t = bremove_all ys t.
Proof. exact bremove_order_irrelevant. Qed.
Print Assumptions C16_removal_order_irrelevant.

(* annotations: own one wins; inherited inside one annotation; never across the conjunction of separate annotations *)
Theorem C16_annotation_scope : forall m pm po a,
  (annot_set (annot m) = true -> get_annotations m ((pm, po) :: a) = annot m) /\
  (annot_set (annot m) = false -> po <> BAND -> get_annotations m ((pm, po) :: a) = get_annotations pm a) /\
  (annot_set (annot m) = false -> get_annotations m ((pm, BAND) :: a) = None).
Proof.
  intros m pm po a. split; [|split].
  - exact (own_annotation_wins m ((pm, po) :: a)).
  - exact (annotation_inherited m pm po a).
  - exact (annotation_stops_at_band m pm a).
Qed.
Print Assumptions C16_annotation_scope.

(* non-vacuity: A1(farmer) A(other) with A1,p(certified) A,p(local): farmer gets certified, local stays shared *)
Example C16_example :
  let lf ct sf v := Leaf (mkMeta ct sf None [] []) (EStr v) [] in
  let s := Stmt [(FA, Comb (mkMeta $"A" None None [] []) BAND (lf $"A" (Some $"1") $"farmer") (lf $"A" None $"other"));
                 (FAp, Comb (mkMeta $"A,p" None None [] []) BAND (lf $"A,p" (Some $"1") $"certified") (lf $"A,p" None $"local"))] in
  process_links priv_link_table false s =
  Stmt [(FA, Comb (mkMeta $"A" None None [] []) BAND
               (Leaf (mkMeta $"A" (Some $"1") None [] []) (EStr $"farmer") [lf $"A,p" (Some $"1") $"certified"]) (lf $"A" None $"other"));
        (FAp, lf $"A,p" None $"local")].
Proof. vm_compute. reflexivity. Qed.
