(* Props/C12.v - property theorems only.
   C12: Conversion is deterministic.
   The model is a Gallina function of the statement and the options, so it has one result; it models the code only
   where the code's result does not depend on the order in which Go visits the keys of a map (the one source of
   run-to-run variation reachable from the conversion endpoints: no goroutine, select, clock, random number or
   process identity is used there - Tie/C12_tie.v, regenerated from the SSA form on every run).  The theorems say,
   for each class of map iteration found there, that the loop computes the same for every visiting order.
   PARTIAL: the composition over the whole pipeline is by the inventory (every site belongs to a proved class), not one
   theorem over an oracle-parameterised model; the premise of the UniqueMatch class (groups of one level are disjoint) is proved for all inputs
   (Parser/Disjoint.v); that of the Singleton class (one key) is an invariant of the code that is evaluated, not proved; address-dependent
   behaviour of the heap is outside the value model.  The check repeats every conversion 5 times in one process and
   in 3 fresh processes. *)
From Coq Require Import List Arith Permutation Strings.Byte.
From IGP Require Import Base.Str Parser.PStr Parser.Combo Model.MapSites Gen.Sites Proofs.OracleProof Parser.Disjoint Proofs.RemoveSeq Tie.C12_tie.
Import ListNotations.

(* the inventory: every map iteration reachable from the endpoints is one of the analysed sites, and vice versa *)
Theorem C12_every_map_iteration_analysed : sites_ok map_range_sites = true /\ nondet_sources = [] /\ sites_unsupported = [].
Proof. exact (conj sites_analysed (conj no_other_source inventory_complete)). Qed.
Print Assumptions C12_every_map_iteration_analysed.

(* Singleton: a one-entry map is visited in one order *)
Theorem C12_singleton_any_order : forall (A : Type) (x : A) l', Permutation [x] l' -> l' = [x].
Proof. exact (@singleton_any_order). Qed.
Print Assumptions C12_singleton_any_order.

(* LogOnly: a loop that does not touch the state *)
Theorem C12_log_only_any_order : forall (A S : Type) (l l' : list A) (s : S),
  fold_left (fun s _ => s) l s = fold_left (fun s _ => s) l' s.
Proof. exact (@log_only_any_order). Qed.
Print Assumptions C12_log_only_any_order.

(* Commutative: bodies that commute give the same state for every visiting order ... *)
Theorem C12_commutative_any_order : forall (A S : Type) (f : S -> A -> S), (forall s a b, f (f s a) b = f (f s b) a) ->
  forall l l', Permutation l l' -> forall s, fold_left f l s = fold_left f l' s.
Proof. exact (@commutative_any_order). Qed.
Print Assumptions C12_commutative_any_order.

(* ... and the one such loop (reset of the operator counts of a level) computes the model's found_del whatever the order *)
Theorem C12_delete_level_any_order : forall l f ops, (forall x, In x f -> In (fst (fst x)) ops) ->
  fold_left (del1 l) ops f = found_del f l.
Proof. exact delete_level_any_order. Qed.
Print Assumptions C12_delete_level_any_order.

(* UniqueMatch: the search for the enclosing group in extractSharedComponents returns the model's find_outer for every
   visiting order, provided the groups of the level are pairwise apart (disjoint or identical) *)
Theorem C12_find_outer_any_order : forall lm l' b es',
  Permutation (nth l' lm []) es' -> bL b <= bR b ->
  (forall v w, In v (nth l' lm []) -> In w (nth l' lm []) -> apart v w) ->
  find (encloses b) es' = find_outer lm (S l') b.
Proof. exact find_outer_any_order. Qed.
Print Assumptions C12_find_outer_any_order.

(* ... and that premise holds for whatever detectCombinations returns, for EVERY input string and any number of restarts:
   the groups recorded on one level each close before the next one opens (Parser/Disjoint.v), so the enclosing-group
   search of extractSharedComponents is independent of the map's iteration order without any assumption *)
Theorem C12_enclosing_group_any_order : forall lp rp fuel expr lm e' l' b es',
  detect fuel expr lp rp = Ok (lm, e') -> bL b <= bR b -> Permutation (nth l' lm []) es' ->
  find (encloses b) es' = find_outer lm (S l') b.
Proof. exact enclosing_group_any_order. Qed.
Print Assumptions C12_enclosing_group_any_order.

Theorem C12_groups_of_a_level_are_apart : forall lp rp fuel expr lm e', detect fuel expr lp rp = Ok (lm, e') ->
  forall l v w, In v (nth l lm []) -> In w (nth l lm []) -> apart v w.
Proof. exact detect_groups_apart. Qed.
Print Assumptions C12_groups_of_a_level_are_apart.

(* the private-property links of a statement are collected by iterating a map as well; the removals they trigger give the
   same property tree in whatever order the links were found (Proofs/RemoveSeq.v), so even a map with several keys there
   would not show in the result *)
Theorem C12_private_removals_any_order : forall xs ys t, NoDup (ids t) -> (forall i, In i xs <-> In i ys) -> bremove_all xs t = bremove_all ys t.
Proof. exact bremove_order_irrelevant. Qed.
Print Assumptions C12_private_removals_any_order.

(* the premise cannot be dropped: with two candidates the order shows (what a relaxed condition would cause) *)
Example C12_order_shows_without_uniqueness :
  let v := mkB 0 0 None 9 false in let w := mkB 1 0 None 8 false in let b := mkB 3 4 (Some AND) 6 true in
  find (encloses b) [v; w] <> find (encloses b) [w; v].
Proof. exact find_order_matters. Qed.
