(* Props/C17.v - property theorems only.
   C17: visual display options change presentation only.
   Model: Model/VisJson.v (the structured value the printer serialises, same recursion as the byte-level
   port; tied to the implementation by value comparison with the parsed Go output under all 32 vectors).
   Spec: Spec/VisView.v (the shown values; takes only the two options flat / activation-conditions-first). *)
From Coq Require Import List Strings.Byte.
From IGP Require Import Base.Str Base.Outcome Model.Tree Model.Visual Model.VisJson Spec.VisView Proofs.VisJsonProof Gen.Wiring Tie.C08_tie.
Import ListNotations.

(* the values (component, text with shared text, level, flat label) in the output are those of the
   specification, which cannot see the options binary, DoV and annotations *)
Theorem C17_values_are_spec : forall T o fuel s n a lvl js,
  jn T o fuel s n a lvl = Ok js -> lv T (o_flat o) (o_actop o) fuel s n a lvl = Ok (leafseqs js).
Proof. exact (fun T o fuel => jn_lv T o fuel). Qed.
Print Assumptions C17_values_are_spec.

(* hence: binary vs collapsed, DoV on/off, annotations on/off leave every value, its component, its text
   and its nesting level unchanged - as sequences, so nothing is duplicated, lost or reordered either *)
Theorem C17_bin_dov_anno_change_no_value : forall T o1 o2 fuel s n a lvl js1 js2,
  o_flat o1 = o_flat o2 -> o_actop o1 = o_actop o2 ->
  jn T o1 fuel s n a lvl = Ok js1 -> jn T o2 fuel s n a lvl = Ok js2 -> leafseqs js1 = leafseqs js2.
Proof. exact values_independent_of_bin_dov_anno. Qed.
Print Assumptions C17_bin_dov_anno_change_no_value.

(* binary mode: every operator object has exactly two children *)
Theorem C17_binary_two_children : forall T o, o_bin o = true -> forall fuel s n a lvl js,
  jn T o fuel s n a lvl = Ok js -> Forall bin_ok js.
Proof. intros T o Hb fuel s n a lvl js E. exact (proj1 (jn_binary T o Hb fuel s n a lvl js E)). Qed.
Print Assumptions C17_binary_two_children.

(* DoV and annotation members only when selected *)
Theorem C17_no_dov_member_when_off : forall T o, o_dov o = false -> forall fuel s n a lvl js,
  jn T o fuel s n a lvl = Ok js -> Forall (no_member jn_dov) js.
Proof. intros T o H. exact (jn_no_member T o jn_dov (or_introl (conj eq_refl H))). Qed.
Theorem C17_no_anno_member_when_off : forall T o, o_anno o = false -> forall fuel s n a lvl js,
  jn T o fuel s n a lvl = Ok js -> Forall (no_member jn_anno) js.
Proof. intros T o H. exact (jn_no_member T o jn_anno (or_intror (conj eq_refl H))). Qed.
Print Assumptions C17_no_dov_member_when_off.

(* PARTIAL - what is not proved here (the full statement of the property):
   (1) flat vs tree property mode: the entries are NOT invariant when a property is a nested statement
       (known finding F14, see C17_flat_nested_property_refuted below); for the other statements the
       invariance flat/tree is checked on the implementation, not yet proved;
   (2) "activation conditions first only reorders the top-level children": checked, not yet proved;
   (3) DoV/annotation members present whenever selected: checked on the implementation. *)

(* the full statement is false of the faithful model: witness for F14 *)
Example C17_flat_nested_property_refuted :
  let leaf ct s := Leaf (mkMeta ct None None [] []) (EStr s) [] in
  let inner := Stmt [(FA, leaf $"A" $"b"); (FI, leaf $"I" $"c")] in
  let st := Stmt [(FA, leaf $"A" $"x"); (FApC, Leaf (mkMeta $"A,p" None None [] []) (EStmt inner) [])] in
  match to_json vis_T (mkVopts false true false false false) 20 st, to_json vis_T (mkVopts true true false false false) 20 st with
  | Ok tree_mode, Ok flat_mode =>
      In ($"A", $"b", 2, None) (leafseqs tree_mode) /\ ~ In ($"A", $"b", 2, None) (leafseqs flat_mode) /\
      leafseqs flat_mode = [($"A", $"x", 1, Some $"A(b) I(c)")]
  | _, _ => False
  end.
Proof. vm_compute. repeat split; auto. intros [H|[]]. discriminate. Qed.
