(* Props/C03.v - property theorems only.
   C03: Component pair combinations expand into complete, correctly linked statements.
   PARTIAL.  Proved for every group statement and every outside statement, generic in the regenerated copy table under
   the decidable side condition copy_table_ok: an expanded statement holds, per component type, the group's value, the
   outside value, or - when both are present - their implicit conjunction; no component written outside is dropped.
   The linkage of the expanded statements by the written operator tree is C05's theorem (find_linkage = path_ops on
   the pair tree).  Identification of the pair expression in the text (COMPONENT_PAIR_COMBINATIONS pattern) and the
   parsing of the groups are evaluated on the implementation (ParseStatement's tree vs the denotation), not proved. *)
From Coq Require Import List.
From IGP Require Import Base.Str Base.Outcome Model.Tree Model.Visual Model.Pairs Proofs.PairsProof Gen.Wiring Tie.C03_tie.
Import ListNotations.

Theorem C03_expanded_statement_fields : forall group outside out, copy_components copy_table group outside = Ok out ->
  forall f n, In (f, n) out ->
    match sget group f, sget outside f with
    | Some g, None => n = g
    | None, Some o => n = o
    | Some g, Some o => combine g o BAND = Ok n
    | None, None => False
    end.
Proof. exact (fun g o out => copy_field_spec copy_table g o out copy_table_holds). Qed.
Print Assumptions C03_expanded_statement_fields.

Theorem C03_no_outside_component_dropped : forall group outside out, copy_components copy_table group outside = Ok out ->
  forall f, (sget group f <> None \/ sget outside f <> None) -> exists n, In (f, n) out.
Proof. exact (fun g o out => copy_nothing_dropped copy_table g o out copy_table_holds). Qed.
Print Assumptions C03_no_outside_component_dropped.

Example C03_example :
  let leaf c s := Leaf (mkMeta c None None [] []) (EStr s) [] in
  let group := Stmt [(FI, leaf $"I" $"x"); (FCac, leaf $"Cac" $"c1")] in
  let outside := Stmt [(FA, leaf $"A" $"a"); (FCac, leaf $"Cac" $"c0")] in
  match copy_components copy_table group outside with
  | Ok out => map fst out = [FA; FI; FCac]
  | _ => False
  end.
Proof. vm_compute. reflexivity. Qed.
