(* Props/C13.v - property theorems only.
   C13: A response depends only on its own request, not on earlier ones.
   Model: the two handlers as straight-line programs over the global switches (Model/Handlers.v), regenerated from
   the source (Gen/Handlers.v); the conversions are arbitrary functions of the request and of the globals in the read
   sets computed from the source. *)
From Coq Require Import List.
From IGP Require Import Base.Str Model.Handlers Proofs.Hist Proofs.HandlersProof Gen.Handlers Tie.C13_tie.
Import ListNotations.

(* for every pair of conversions that read the global state only through the computed read sets: after ANY history
   of requests to both pages - any options, succeeding or failing (the response type is arbitrary) - the response to
   a request equals the response given from the initial state *)
Theorem C13_history_independent : forall (payload response : Type)
  (conv_tab conv_vis : request payload -> gst -> response),
  (forall r s s', (forall g, In g reads_tab -> s g = s' g) -> conv_tab r s = conv_tab r s') ->
  (forall r s s', (forall g, In g reads_vis -> s g = s' g) -> conv_vis r s = conv_vis r s') ->
  forall (pg : page) (h : list (page * request payload)) (r : request payload) (s0 : gst),
    snd (serve payload response gen_facts conv_tab conv_vis pg (run_all payload response gen_facts conv_tab conv_vis h s0) r)
    = snd (serve payload response gen_facts conv_tab conv_vis pg s0 r).
Proof.
  exact (fun payload response ct cv ft fv => history_independent_pages payload response gen_facts ct cv ft fv handlers_hold).
Qed.
Print Assumptions C13_history_independent.

(* non-vacuity and sensitivity: a conversion that reports the switches it sees; dropping one setter from the visual
   handler makes the side condition false *)
Example C13_example_bad_handler :
  handlers_ok (mkFacts handle_tab (filter (fun i => match i with GSet g _ => negb (beq_str g $"tree.print_BINARY") | _ => true end) handle_vis)
                 reads_tab reads_vis runtime_writes conversion_writes_tab conversion_writes_vis web_state) = false.
Proof. vm_compute. reflexivity. Qed.
