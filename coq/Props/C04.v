(* Props/C04.v - property theorems only.
   C04: Tabular export lists every atomic statement exactly once.
   Model: Model/Leaves.v (leaf aggregation), Model/Odo.v (GenerateNodeArrayPermutations), Model/Tabular.v
   (stmt_leaf_refs = Statement.GenerateLeafArrays with the table regenerated from the source).
   Spec: Spec/TabSpec.v (spec_arrays, spec_rows = Cartesian product of the alternatives). *)
From Coq Require Import List Arith.
From IGP Require Import Base.Str Base.Outcome Model.Tree Model.Odo Model.Leaves Model.Link Model.Tabular Spec.TabSpec
  Proofs.OdoProof Proofs.TabProof Proofs.RowsProof Proofs.RowIds Gen.Wiring Tie.C04_tie.
Import ListNotations.

(* the atomic statements the exporter builds rows from are exactly the Cartesian product over the component
   alternatives, in product order: as lists, so no combination twice, none missing, nothing else *)
Theorem C04_choices_are_product : forall s,
  spec_arrays (tt_leaf tab_T) s <> [] ->
  odometer (stmt_leaf_refs (tt_leaf tab_T) s) = Ok (spec_rows (tt_leaf tab_T) s).
Proof. exact (own_choices_are_product (tt_leaf tab_T)). Qed.
Print Assumptions C04_choices_are_product.

(* the odometer itself, for arbitrary arrays of anything (position vector, special-cased termination test) *)
Theorem C04_odometer_is_product : forall (A : Type) (ls : list (list A)), ls <> [] -> odometer ls = Ok (cart (filter nonempty ls)).
Proof. exact (@odometer_is_product). Qed.
Print Assumptions C04_odometer_is_product.

(* leaf aggregation across AND/OR/XOR/bAND with separation at wAND is the specification's alternatives *)
Theorem C04_leaf_aggregation : forall aggr n, leaf_arrays aggr n = alternatives aggr n.
Proof. exact leaf_arrays_spec. Qed.
Print Assumptions C04_leaf_aggregation.

(* every present component takes part in the product, with exactly its alternatives; nothing else does *)
Theorem C04_every_component_contributes : forall s f n, sget s f = Some n ->
  forall a, In a (if is_complex_field f then [[mkL f [] n []]] else map (mk_refs f n) (alternatives true n)) ->
  In a (spec_arrays (tt_leaf tab_T) s).
Proof. exact (fun s f n => every_component_contributes (tt_leaf tab_T) s f n leaf_table_holds). Qed.
Print Assumptions C04_every_component_contributes.
Theorem C04_only_components_contribute : forall s a, In a (spec_arrays (tt_leaf tab_T) s) ->
  exists f sym complex n, In (f, sym, complex) (tt_leaf tab_T) /\ sget s f = Some n /\
    In a (if complex then [[mkL f [] n []]] else map (mk_refs f n) (alternatives true n)).
Proof. exact (only_components_contribute (tt_leaf tab_T)). Qed.
Print Assumptions C04_only_components_contribute.

(* a statement without any component is rejected, never exported as an empty table *)
Theorem C04_no_component_no_table : forall s, spec_arrays (tt_leaf tab_T) s = [] ->
  odometer (stmt_leaf_refs (tt_leaf tab_T) s) = Err ERR_EMPTY_LEAF.
Proof. exact (no_choice_without_component (tt_leaf tab_T)). Qed.
Print Assumptions C04_no_component_no_table.

(* the row loop writes one row per element of that product, none skipped, none added *)
Theorem C04_one_row_per_choice : forall C s anno sl perms lms multi reg sid out reg',
  rows_loop tab_T C s anno sl perms lms multi 0 reg sid [] = Ok (out, reg') -> length out = length perms.
Proof. exact (one_row_per_choice tab_T). Qed.
Print Assumptions C04_one_row_per_choice.

(* and numbers them id.1 ... id.N in product order - pairwise different - unless a component of the statement is itself
   named like the identifier column (lref_safe; nothing the parser produces is) *)
Theorem C04_rows_numbered_in_product_order : forall C s anno sl rows lms reg sid out reg', Forall (Forall lref_safe) rows ->
  rows_loop tab_T C s anno sl rows lms true 0 reg sid [] = Ok (out, reg') ->
  map (fun r => rget r K_ID) out = map (fun i => sid ++ $"." ++ itoa_nat (S i)) (seq 0 (length rows)) /\
  NoDup (map (fun r => rget r K_ID) out).
Proof. exact (own_row_ids_distinct tab_T). Qed.
Print Assumptions C04_rows_numbered_in_product_order.

(* non-vacuity: A(x [OR] y) I(z) Cex(c1) Cex(c2 [XOR] c3) has 2 * 1 * 3 atomic statements *)
Example C04_example :
  let leaf s := Leaf meta0 (EStr s) [] in
  let s := Stmt [(FA, Comb (mkMeta $"A" None None [] []) OR (leaf $"x") (leaf $"y")); (FI, leaf $"z");
                 (FCex, Comb (mkMeta $"Cex" None None [] []) BAND (leaf $"c1") (Comb meta0 XOR (leaf $"c2") (leaf $"c3")))] in
  spec_arrays (tt_leaf tab_T) s <> [] /\ length (spec_rows (tt_leaf tab_T) s) = 6.
Proof. vm_compute. split; [discriminate | reflexivity]. Qed.
