(* Props/C18.v - property theorems only.
   C18: Order of different components and unannotated text do not matter.
   PARTIAL.  Proved is the specification-level fact: the denotation of a statement is a function of the per-type
   subsequences of its annotated parts only - so any reordering that keeps parts of the same component type in order, and
   any change of unannotated text (which is no part at all), leaves the denotation unchanged; moving a part across
   another part of a different type never changes its per-type subsequence.  That the parser computes the denotation is
   C01-C03 (partial); the invariance of the parser's tree and of both exports under the two transformations is evaluated
   on the implementation on every run (metamorphic comparison). *)
From Coq Require Import List Arith Bool.
From IGP Require Import Base.Str Model.Tree Spec.Denote.
Import ListNotations.

Theorem C18_denotation_depends_on_per_type_order_only : forall l l', same_per_type l l' -> denote_fields l = denote_fields l'.
Proof.
  intros l l' H. unfold denote_fields. apply flat_map_ext. intro f. unfold denote_field. rewrite (H f). reflexivity.
Qed.
Print Assumptions C18_denotation_depends_on_per_type_order_only.

(* swapping two adjacent parts of different types keeps every per-type subsequence *)
Theorem C18_adjacent_swap_of_different_types : forall pre (a b : part) post,
  field_eqb (fst (fst a)) (fst (fst b)) = false -> same_per_type (pre ++ a :: b :: post) (pre ++ b :: a :: post).
Proof.
  intros pre a b post Hab f. unfold sub. rewrite !filter_app. f_equal. cbn [filter].
  destruct (field_eqb f (fst (fst a))) eqn:Ea, (field_eqb f (fst (fst b))) eqn:Eb; try reflexivity.
  apply field_eqb_eq in Ea, Eb. rewrite <- Ea, <- Eb in Hab. rewrite (proj2 (field_eqb_eq f f) eq_refl) in Hab. discriminate.
Qed.
Print Assumptions C18_adjacent_swap_of_different_types.
