(* Props/C02.v - property theorems only.
   C02: Nested statements and their combinations attach where and how they are written.
   PARTIAL.  Full statement (kept): forall st, wf2 st -> parse_statement (render st) = Ok (denote st) for the grammar with
   component-level nesting, to any depth.  Proved: (1) attaching any number of nested statements of one component type,
   with the implicit operator or a written one, yields the left-associated tree whose leaves are exactly those statements
   in the order written (model of attachComplexComponent + Combine); (2) the regenerated wiring tables send every one of
   the eleven nesting-capable symbols to its own field in both nested-statement parsers.  The classification of braced
   fragments by the three unrolled regular expressions and the recursive ParseStatement are not modelled: the complete
   claim is evaluated on the implementation (ParseStatement's tree vs the denotation of generated statements, all levels). *)
From Coq Require Import List.
From IGP Require Import Base.Str Base.Outcome Model.Tree Model.Visual Model.Nested Proofs.NestedProof Gen.Wiring Tie.C02_tie.
Import ListNotations.

Theorem C02_several_nested_statements_are_joined_in_order : forall sym o oper ns first,
  sym <> [] -> attach_op o = Ok oper -> stmt_leaf sym first -> Forall (stmt_leaf sym) ns ->
  exists t, attach_all None (first :: ns) o = Ok (Some t) /\ leaves t = first :: ns /\ t = left_assoc oper sym first ns.
Proof.
  intros sym o oper ns first Hs Ho Hf Hns. exists (left_assoc oper sym first ns).
  split; [apply attach_all_spec; assumption|]. split; [|reflexivity].
  destruct (attach_all_leaves sym o oper ns first Hs Ho Hf Hns) as [t [H1 H2]].
  rewrite (attach_all_spec sym o oper Hs Ho ns first Hf Hns) in H1. inversion H1; subst. exact H2.
Qed.
Print Assumptions C02_several_nested_statements_are_joined_in_order.

Theorem C02_implicit_operator_is_conjunction : attach_op None = Ok AND.
Proof. reflexivity. Qed.

Theorem C02_every_symbol_fills_its_own_field : nested_wiring_ok nested_wiring = true /\ nested_wiring_ok nested_combo_wiring = true.
Proof. exact (conj nested_wiring_holds nested_combo_wiring_holds). Qed.
Print Assumptions C02_every_symbol_fills_its_own_field.
