(* Props/C19.v - property theorems only.
   C19: IG Core and IG Extended differ only in how nested statements are shown.
   Model: Model/Tabular.v.  PARTIAL: proved is the clause "IG Core adds no rows" for every statement, table and
   option setting (no nested statement is ever registered when the switch is off, so the exported table is exactly
   the statement's own rows, one per element of the product); that the own rows coincide outside the reference
   cells, that IG Extended adds one row group per nested statement, and that the IG Core reference cell contains
   every value of the nested statements are evaluated on the implementation's pairs of tables on every run and
   tied to the model by the cell-exact correspondence. *)
From Coq Require Import List Arith.
From IGP Require Import Base.Str Base.Outcome Model.Tree Model.Odo Model.Leaves Model.Link Model.Tabular Proofs.CoreExtProof Gen.Wiring.
Import ListNotations.

Theorem C19_core_adds_no_rows : forall C f n anno links sid rows, t_ext C = false ->
  tab_stmt tab_T C (S f) n anno links sid = Ok rows ->
  exists s perms, stmt_of_node n = Ok s /\ odometer (stmt_leaf_refs (tt_leaf tab_T) s) = Ok perms /\ length rows = length perms.
Proof. exact (fun C f n anno links sid rows H => core_adds_no_rows tab_T C H f n anno links sid rows). Qed.
Print Assumptions C19_core_adds_no_rows.

(* non-vacuity: a statement with a nested activation condition: 1 row in IG Core, 2 rows in IG Extended *)
Example C19_example :
  let leaf c s := Leaf (mkMeta c None None [] []) (EStr s) [] in
  let inner := Stmt [(FA, leaf $"A" $"b"); (FI, leaf $"I" $"c")] in
  let s := Stmt [(FA, leaf $"A" $"x"); (FI, leaf $"I" $"y"); (FCacC, Leaf (mkMeta $"Cac" None None [] []) (EStmt inner) [])] in
  let n := Leaf meta0 (EStmt s) [] in
  option_map (@length _) (match tab_stmt tab_T (mkTcfg false false false) 5 n None [] $"7" with Ok r => Some r | _ => None end) = Some 1
  /\ option_map (@length _) (match tab_stmt tab_T (mkTcfg true false false) 5 n None [] $"7" with Ok r => Some r | _ => None end) = Some 2.
Proof. vm_compute. split; reflexivity. Qed.
