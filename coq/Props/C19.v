(* Props/C19.v - property theorems only.
   C19: IG Core and IG Extended differ only in how nested statements are shown.
   Model: Model/Tabular.v.  PARTIAL: proved is the clause "IG Core adds no rows" for every statement, table and
   option setting (no nested statement is ever registered when the switch is off, so the exported table is exactly
   the statement's own rows, one per element of the product) and the clause "same top-level atomic statements" as far
   as their number and identifiers go; that the own rows coincide outside the reference
   cells, that IG Extended adds one row group per nested statement, and that the IG Core reference cell contains
   every value of the nested statements are evaluated on the implementation's pairs of tables on every run and
   tied to the model by the cell-exact correspondence. *)
From Coq Require Import List Arith.
From IGP Require Import Base.Str Base.Outcome Model.Tree Model.Odo Model.Leaves Model.Link Model.Tabular Proofs.CoreExtProof Proofs.RowIds Proofs.SameRows Gen.Wiring.
Import ListNotations.

Theorem C19_core_adds_no_rows : forall C f n anno links sid rows, t_ext C = false ->
  tab_stmt tab_T C (S f) n anno links sid = Ok rows ->
  exists s perms, stmt_of_node n = Ok s /\ odometer (stmt_leaf_refs (tt_leaf tab_T) s) = Ok perms /\ length rows = length perms.
Proof. exact (fun C f n anno links sid rows H => core_adds_no_rows tab_T C H f n anno links sid rows). Qed.
Print Assumptions C19_core_adds_no_rows.

(* the top-level atomic statements are the same in both modes (and under every other option): the row loop writes the same
   number of own rows with the same identifiers whatever the configuration *)
Theorem C19_same_top_level_rows : forall C1 C2 s anno1 anno2 sl1 sl2 rows lms1 lms2 multi reg1 reg2 sid out1 out2 r1 r2,
  Forall (Forall lref_safe) rows ->
  rows_loop tab_T C1 s anno1 sl1 rows lms1 multi 0 reg1 sid [] = Ok (out1, r1) ->
  rows_loop tab_T C2 s anno2 sl2 rows lms2 multi 0 reg2 sid [] = Ok (out2, r2) ->
  length out1 = length out2 /\ map (fun r => rget r K_ID) out1 = map (fun r => rget r K_ID) out2.
Proof. exact (own_rows_same_in_every_mode tab_T). Qed.
Print Assumptions C19_same_top_level_rows.

(* non-vacuity: a statement with a nested activation condition: 1 row in IG Core, 2 rows in IG Extended *)
Example C19_example :
  let leaf c s := Leaf (mkMeta c None None [] []) (EStr s) [] in
  let inner := Stmt [(FA, leaf $"A" $"b"); (FI, leaf $"I" $"c")] in
  let s := Stmt [(FA, leaf $"A" $"x"); (FI, leaf $"I" $"y"); (FCacC, Leaf (mkMeta $"Cac" None None [] []) (EStmt inner) [])] in
  let n := Leaf meta0 (EStmt s) [] in
  option_map (@length _) (match tab_stmt tab_T (mkTcfg false false false) 5 n None [] $"7" with Ok r => Some r | _ => None end) = Some 1
  /\ option_map (@length _) (match tab_stmt tab_T (mkTcfg true false false) 5 n None [] $"7" with Ok r => Some r | _ => None end) = Some 2.
Proof. vm_compute. split; reflexivity. Qed.
