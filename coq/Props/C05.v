(* Props/C05.v - property theorems only.
   C05: Logical linkage cells name the right rows and the right operators.
   Model: Model/Link.v (FindLogicalLinkage with its redundant grandchild exploration, CollapseAdjacentOperators,
   GenerateReferenceSlice), Model/Tabular.v (the cells).  Spec: path_ops (operators from p's parent up to the lowest
   common ancestor and down to q's parent), Spec/TabSpec.spec_links. *)
From Coq Require Import List Arith ZArith Sorted.
From IGP Require Import Base.Str Base.Outcome Model.Tree Model.Link Model.Tabular Spec.TabSpec Proofs.LinkProof Proofs.RefsProof.
Import ListNotations.

(* the operators named between two alternatives are exactly those on the tree path between them - for every
   tree and every pair of distinct leaves *)
Theorem C05_linkage_is_tree_path : forall t p q, is_leaf_at t p -> is_leaf_at t q -> p <> q ->
  find_linkage t p q = Ok (true, path_ops t p q).
Proof. exact find_linkage_spec. Qed.
Print Assumptions C05_linkage_is_tree_path.

(* linkage is symmetric as a relation: the path back carries the same operators in reverse order *)
Theorem C05_path_symmetric : forall t p q, is_leaf_at t p -> is_leaf_at t q -> p <> q -> path_ops t q p = rev (path_ops t p q).
Proof. exact path_ops_sym. Qed.
Print Assumptions C05_path_symmetric.

(* range compression of row references ("3-5,8") loses and invents nothing: the compressed list of ANY sequence of row
   numbers in which no number directly follows itself - in particular every increasing one, which is what the
   exporter feeds it - expands to exactly that sequence; no bound on the numbers or the length *)
Theorem C05_refs_roundtrip : forall ids, match ids with [] => True | i :: t => no_equal_neighbours i t end ->
  expand_refs (fold_left add_ref ids []) = map (fun i => (Z.of_nat i + 1)%Z) ids.
Proof. exact refs_roundtrip. Qed.
Print Assumptions C05_refs_roundtrip.

Theorem C05_refs_roundtrip_increasing : forall ids, Sorted.StronglySorted lt ids ->
  expand_refs (fold_left add_ref ids []) = map (fun i => (Z.of_nat i + 1)%Z) ids.
Proof. exact refs_roundtrip_increasing. Qed.
Print Assumptions C05_refs_roundtrip_increasing.

(* adjacent conjunction-type operators are merged, nothing else is touched *)
Theorem C05_collapse_keeps_other_operators : forall l, filter (fun o => negb (collapsible o)) (collapse_ops l) = filter (fun o => negb (collapsible o)) l.
Proof. exact collapse_keeps_noncollapsible. Qed.
Print Assumptions C05_collapse_keeps_other_operators.
Theorem C05_collapse_merges_adjacent_conjunctions : forall l, no_adjacent_conj (collapse_ops l) = true.
Proof. exact collapse_no_adjacent. Qed.
Print Assumptions C05_collapse_merges_adjacent_conjunctions.

Example C05_example :
  let leaf s := Leaf meta0 (EStr s) [] in
  let t := Comb meta0 XOR (Comb meta0 AND (leaf $"y") (leaf $"z")) (leaf $"k") in
  find_linkage t [false; true] [true] = Ok (true, [AND; XOR]) /\ path_ops t [true] [false; false] = [XOR; AND].
Proof. vm_compute. split; reflexivity. Qed.
