(* Proofs/TreeInd.v - induction principle for the nested mutual inductive node/entry/stmt. *)
From Coq Require Import List.
From IGP Require Import Base.Str Model.Tree.
Import ListNotations.

Section Ind.
  Variable P : node -> Prop.
  Variable PE : entry -> Prop.
  Variable PS : stmt -> Prop.
  Hypothesis HLeaf : forall m e priv, PE e -> Forall P priv -> P (Leaf m e priv).
  Hypothesis HComb : forall m o l r, P l -> P r -> P (Comb m o l r).
  Hypothesis HNil : PE ENil.
  Hypothesis HStr : forall s, PE (EStr s).
  Hypothesis HStmt : forall st, PS st -> PE (EStmt st).
  Hypothesis HNodes : forall ns, Forall P ns -> PE (ENodes ns).
  Hypothesis HS : forall fs, Forall (fun fx => P (snd fx)) fs -> PS (Stmt fs).

  Fixpoint node_ind' (n : node) : P n :=
    match n with
    | Leaf m e priv =>
      HLeaf m e priv (entry_ind' e)
        ((fix go (l : list node) : Forall P l :=
            match l with [] => Forall_nil _ | x :: t => Forall_cons _ (node_ind' x) (go t) end) priv)
    | Comb m o l r => HComb m o l r (node_ind' l) (node_ind' r)
    end
  with entry_ind' (e : entry) : PE e :=
    match e with
    | ENil => HNil
    | EStr s => HStr s
    | EStmt st => HStmt st (stmt_ind' st)
    | ENodes ns =>
      HNodes ns ((fix go (l : list node) : Forall P l :=
                    match l with [] => Forall_nil _ | x :: t => Forall_cons _ (node_ind' x) (go t) end) ns)
    end
  with stmt_ind' (s : stmt) : PS s :=
    match s with
    | Stmt fs =>
      HS fs ((fix go (l : list (field * node)) : Forall (fun fx => P (snd fx)) l :=
                match l with
                | [] => Forall_nil _
                | fx :: t => Forall_cons _ (match fx as p return P (snd p) with (_, x) => node_ind' x end) (go t)
                end) fs)
    end.
End Ind.

(* the common special case: a property of nodes, with the statement case spelled out *)
Lemma node_induction (P : node -> Prop) :
  (forall m priv, Forall P priv -> P (Leaf m ENil priv)) ->
  (forall m s priv, Forall P priv -> P (Leaf m (EStr s) priv)) ->
  (forall m fs priv, Forall (fun fx => P (snd fx)) fs -> Forall P priv -> P (Leaf m (EStmt (Stmt fs)) priv)) ->
  (forall m ns priv, Forall P ns -> Forall P priv -> P (Leaf m (ENodes ns) priv)) ->
  (forall m o l r, P l -> P r -> P (Comb m o l r)) ->
  forall n, P n.
Proof.
  intros H1 H2 H3 H4 H5.
  apply (node_ind' P
           (fun e => forall m priv, Forall P priv -> P (Leaf m e priv))
           (fun st => forall m priv, Forall P priv -> P (Leaf m (EStmt st) priv))).
  - intros m e priv He Hp. apply He, Hp.
  - exact H5.
  - exact H1.
  - intros s m priv. apply H2.
  - intros st Hst. exact Hst.
  - intros ns Hns m priv. apply H4, Hns.
  - intros fs Hfs m priv. apply H3, Hfs.
Qed.
