(* Proofs/ItoaProof.v - strconv.Itoa / Atoi as ported in Base/Str.v: Atoi (Itoa n) = n, hence Itoa is
   injective, prints digits only and never the empty string.  Used for identifiers (C06) and row references (C05). *)
From Coq Require Import List Arith Bool Lia NArith ZArith Strings.Byte.
From Coq Require Import ZifyN ZifyNat ZifyBool.
From IGP Require Import Base.Str.
Import ListNotations.
Local Open Scope N_scope.

Lemma itoa_fuel_app f : forall n acc, itoa_fuel f n acc = itoa_fuel f n [] ++ acc.
Proof.
  induction f as [|f IH]; intros n acc; cbn [itoa_fuel]; [reflexivity|].
  destruct (N.ltb n 10).
  - reflexivity.
  - rewrite (IH (N.div n 10) (digit_byte (N.modulo n 10) :: acc)), (IH (N.div n 10) [digit_byte (N.modulo n 10)]).
    rewrite <- app_assoc. reflexivity.
Qed.

Lemma atoi_acc_app s1 : forall s2 a, atoi_acc (s1 ++ s2) a = match atoi_acc s1 a with Some v => atoi_acc s2 v | None => None end.
Proof.
  induction s1 as [|c s1 IH]; intros s2 a; cbn [app atoi_acc]; [reflexivity|].
  destruct (digit_val c); [apply IH | reflexivity].
Qed.

Lemma digit_val_digit_byte d : d < 10 -> digit_val (digit_byte d) = Some d.
Proof.
  intro H.
  assert (E : d = 0 \/ d = 1 \/ d = 2 \/ d = 3 \/ d = 4 \/ d = 5 \/ d = 6 \/ d = 7 \/ d = 8 \/ d = 9) by lia.
  repeat (destruct E as [E | E]; [subst d; vm_compute; reflexivity|]). subst d. vm_compute. reflexivity.
Qed.

Lemma log2_div10 n : 10 <= n -> (N.to_nat (N.log2 (n / 10)) < N.to_nat (N.log2 n))%nat.
Proof.
  intro H.
  assert (H8 : n / 10 <= n / 8) by (apply N.div_le_compat_l; lia).
  assert (Hl : N.log2 (n / 10) <= N.log2 (n / 8)) by (apply N.log2_le_mono; exact H8).
  assert (E : n / 8 = N.shiftr n 3) by (rewrite N.shiftr_div_pow2; reflexivity).
  rewrite E, N.log2_shiftr in Hl.
  assert (3 <= N.log2 n) by (change 3 with (N.log2 8); apply N.log2_le_mono; lia).
  lia.
Qed.

Lemma atoi_itoa_fuel f : forall n, (N.to_nat (N.log2 n) < f)%nat ->
  exists k, forall a, atoi_acc (itoa_fuel f n []) a = Some (a * 10 ^ k + n).
Proof.
  induction f as [|f IH]; intros n Hf; [lia|].
  cbn [itoa_fuel]. destruct (N.ltb n 10) eqn:E.
  - apply N.ltb_lt in E. exists 1. intro a. cbn [atoi_acc].
    rewrite N.mod_small by exact E. rewrite (digit_val_digit_byte n E). reflexivity.
  - apply N.ltb_ge in E.
    destruct (IH (n / 10)) as [k Hk]; [pose proof (log2_div10 n E); lia|].
    exists (k + 1). intro a. rewrite itoa_fuel_app, atoi_acc_app, Hk. cbn [atoi_acc].
    rewrite digit_val_digit_byte by (apply N.mod_lt; lia).
    f_equal. rewrite N.pow_add_r. change (10 ^ 1) with 10.
    pose proof (N.div_mod n 10 ltac:(lia)). lia.
Qed.

Lemma atoi_acc_itoa_N n : atoi_acc (itoa_N n) 0 = Some n.
Proof.
  unfold itoa_N. destruct (atoi_itoa_fuel (S (N.to_nat (N.log2 n))) n ltac:(lia)) as [k Hk].
  rewrite Hk. f_equal.
Qed.

Theorem itoa_N_injective a b : itoa_N a = itoa_N b -> a = b.
Proof. intro H. pose proof (atoi_acc_itoa_N a) as Ha. rewrite H, atoi_acc_itoa_N in Ha. congruence. Qed.

Theorem itoa_nat_injective (a b : nat) : itoa_nat a = itoa_nat b -> a = b.
Proof. unfold itoa_nat. intro H. apply itoa_N_injective in H. lia. Qed.
