(* Proofs/IdProof.v - the identifier scheme of the tabular export (C06): atomic statements id.N, nested
   statements {parent}.N; the registry of nested statements hands out pairwise different identifiers and the
   same identifier for the same nested statement. *)
From Coq Require Import List Arith Bool Lia NArith ZArith Strings.Byte FinFun.
From IGP Require Import Base.Str Base.Outcome Model.Tree Model.Link Model.Tabular Proofs.ItoaProof.
Import ListNotations.

Definition sub_id (sid : str) (k : nat) : str := sid ++ $"." ++ itoa_nat k.
Definition nested_id (sid : str) (k : nat) : str := $"{" ++ sid ++ $"}" ++ $"." ++ itoa_nat k.

Theorem sub_id_injective sid a b : sub_id sid a = sub_id sid b -> a = b.
Proof. unfold sub_id. intro H. apply app_inv_head in H. apply app_inv_head in H. apply itoa_nat_injective. exact H. Qed.

Theorem nested_id_injective sid a b : nested_id sid a = nested_id sid b -> a = b.
Proof.
  unfold nested_id. intro H. repeat (apply app_inv_head in H). apply itoa_nat_injective. exact H.
Qed.

(* number of leading '{': separates the identifiers of a statement's own rows from those of its nested statements *)
Fixpoint lead (s : str) : nat := match s with c :: t => if Byte.eqb c x7b then S (lead t) else 0 | [] => 0 end.
Lemma lead_app_stop s c t : Byte.eqb c x7b = false -> lead (s ++ c :: t) = lead s.
Proof.
  intro H. induction s as [|x s IH]; cbn [app lead].
  - rewrite H. reflexivity.
  - destruct (Byte.eqb x x7b); [rewrite IH; reflexivity | reflexivity].
Qed.
Theorem nested_id_not_own sid k j : nested_id sid k <> sub_id sid j /\ nested_id sid k <> sid.
Proof.
  split; intro H; apply (f_equal lead) in H; unfold nested_id, sub_id in H.
  - change ($"{" ++ sid ++ $"}" ++ $"." ++ itoa_nat k) with (x7b :: (sid ++ x7d :: ($"." ++ itoa_nat k))) in H.
    change (sid ++ $"." ++ itoa_nat j) with (sid ++ x2e :: itoa_nat j) in H.
    cbn [lead] in H. change (Byte.eqb x7b x7b) with true in H. cbv iota in H. rewrite !lead_app_stop in H by reflexivity. lia.
  - change ($"{" ++ sid ++ $"}" ++ $"." ++ itoa_nat k) with (x7b :: (sid ++ x7d :: ($"." ++ itoa_nat k))) in H.
    cbn [lead] in H. change (Byte.eqb x7b x7b) with true in H. cbv iota in H. rewrite lead_app_stop in H by reflexivity. lia.
Qed.

(* ---------------------------------------------------------------- the registry *)
Definition reg_wf (sid : str) (reg : list nested) : Prop :=
  map n_id reg = map (nested_id sid) (seq 1 (length reg)).

Lemma reg_wf_nil sid : reg_wf sid []. Proof. reflexivity. Qed.

Lemma new_nested_id_wf sid reg k n : reg_wf sid reg -> reg_wf sid (fst (new_nested_id reg k n sid)).
Proof.
  intro H. unfold new_nested_id. destruct (reg_find reg k); [exact H|].
  cbn [fst]. unfold reg_wf in *. rewrite map_app, app_length, H. cbn [length map n_id].
  rewrite Nat.add_1_r, seq_S, map_app. cbn [map]. reflexivity.
Qed.

Lemma reg_find_in reg k id : reg_find reg k = Some id -> In id (map n_id reg).
Proof.
  induction reg as [|x reg IH]; cbn [reg_find]; [discriminate|].
  destruct (nkey_eqb (n_key x) k); intro H; [inversion H; left; reflexivity | right; apply IH; exact H].
Qed.

(* the identifier handed out is one of the registry's, i.e. it names a row group that will be produced *)
Lemma new_nested_id_registered sid reg k n :
  In (snd (new_nested_id reg k n sid)) (map n_id (fst (new_nested_id reg k n sid))).
Proof.
  unfold new_nested_id. destruct (reg_find reg k) eqn:E; cbn [fst snd].
  - apply (reg_find_in reg k). exact E.
  - rewrite map_app. apply in_or_app. right. left. reflexivity.
Qed.

(* entries are only ever appended: identifiers handed out earlier stay valid *)
Lemma new_nested_id_extends sid reg k n : exists ext, fst (new_nested_id reg k n sid) = reg ++ ext.
Proof.
  unfold new_nested_id. destruct (reg_find reg k); cbn [fst]; [exists []; rewrite app_nil_r; reflexivity | eexists; reflexivity].
Qed.

Theorem reg_ids_nodup sid reg : reg_wf sid reg -> NoDup (map n_id reg).
Proof.
  intro H. rewrite H. apply Injective_map_NoDup; [|apply seq_NoDup].
  intros a b E. apply nested_id_injective in E. exact E.
Qed.

(* asking twice for the same nested statement gives the same identifier and no second entry *)
Lemma reg_find_app_l reg ext k id : reg_find reg k = Some id -> reg_find (reg ++ ext) k = Some id.
Proof.
  induction reg as [|x reg IH]; cbn [reg_find app]; [discriminate|].
  destruct (nkey_eqb (n_key x) k); [auto | apply IH].
Qed.
Lemma nkey_eqb_refl k : nkey_eqb k k = true.
Proof.
  assert (P : forall p, path_eqb p p = true) by (induction p as [|b p IH]; cbn; [reflexivity | rewrite Bool.eqb_reflx, IH; reflexivity]).
  destruct k; cbn [nkey_eqb]; unfold field_eqb; rewrite ?Nat.eqb_refl, ?P, ?beq_str_refl; reflexivity.
Qed.
Lemma reg_find_app_new reg k id n : reg_find reg k = None -> reg_find (reg ++ [mkN k id n]) k = Some id.
Proof.
  induction reg as [|x reg IH]; cbn [app reg_find n_key n_id]; intro H.
  - rewrite nkey_eqb_refl. reflexivity.
  - destruct (nkey_eqb (n_key x) k); [discriminate | apply IH; exact H].
Qed.
Theorem new_nested_id_idempotent sid reg k n n' :
  let r1 := new_nested_id reg k n sid in
  new_nested_id (fst r1) k n' sid = (fst r1, snd r1).
Proof.
  cbv zeta. unfold new_nested_id. destruct (reg_find reg k) eqn:E; cbn [fst snd].
  - rewrite E. reflexivity.
  - rewrite (reg_find_app_new reg k _ n E). reflexivity.
Qed.
