(* Proofs/NestedProof.v - several nested statements of one component type are conjoined, or joined by the single
   operator written between them, in the order written (C02): attach_all builds the left-associated tree whose leaves are
   exactly the nested statements. *)
From Coq Require Import List Arith Bool Strings.Byte.
From IGP Require Import Base.Str Base.Outcome Model.Tree Model.Visual Model.Nested.
Import ListNotations.

(* a nested-statement node as the parser creates it: a leaf holding a statement, labelled with the component symbol *)
Definition stmt_leaf (sym : str) (n : node) : Prop :=
  exists suf ann st, n = Leaf (mkMeta sym suf ann [] []) (EStmt st) [].

Fixpoint left_assoc (o : op) (sym : str) (acc : node) (ns : list node) : node :=
  match ns with
  | [] => acc
  | n :: t => left_assoc o sym (Comb (mkMeta sym None None [] []) o acc n) t
  end.

Lemma leaves_left_assoc o sym ns : forall acc, leaves (left_assoc o sym acc ns) = leaves acc ++ flat_map leaves ns.
Proof.
  induction ns as [|n t IH]; intro acc; cbn [left_assoc flat_map]; [rewrite app_nil_r; reflexivity|].
  rewrite IH. cbn [leaves]. rewrite <- app_assoc. reflexivity.
Qed.

Lemma combine_named sym (a n : node) o : sym <> [] -> comp_name (node_meta a) [] = sym -> stmt_leaf sym n ->
  combine a n o = Ok (Comb (mkMeta sym None None [] []) o a n).
Proof.
  intros Hs Ha [suf [ann [st ->]]]. unfold combine.
  assert (Ea : is_empty_node a [] = false).
  { destruct a as [m e pr | m o' l r]; [|reflexivity]. destruct m as [ct sf an sl sr]. cbn [node_meta comp_name ctype] in Ha.
    destruct ct; [cbn in Ha; subst sym; contradiction | reflexivity]. }
  rewrite Ea.
  assert (En : is_empty_node (Leaf (mkMeta sym suf ann [] []) (EStmt st) []) [] = false) by (destruct sym; [contradiction | reflexivity]).
  rewrite En. rewrite Ha. cbn [node_meta comp_name ctype].
  destruct sym as [|c s]; [contradiction|]. cbn [is_empty negb andb]. rewrite beq_str_refl. reflexivity.
Qed.

Theorem attach_all_spec sym (o : option op) (oper : op) : sym <> [] -> attach_op o = Ok oper ->
  forall ns first, stmt_leaf sym first -> Forall (stmt_leaf sym) ns ->
  attach_all None (first :: ns) o = Ok (Some (left_assoc oper sym first ns)).
Proof.
  intros Hs Ho ns first Hf Hns. cbn [attach_all]. unfold attach at 1. rewrite Ho. cbn [bind].
  assert (G : forall acc, comp_name (node_meta acc) [] = sym -> attach_all (Some acc) ns o = Ok (Some (left_assoc oper sym acc ns))).
  { induction Hns as [|n t Hn Ht IH]; intros acc Hacc; [reflexivity|].
    cbn [attach_all left_assoc]. unfold attach at 1. rewrite Ho. cbn [bind].
    rewrite (combine_named sym acc n oper Hs Hacc Hn). cbn [bind]. apply IH. cbn. destruct sym; [contradiction | reflexivity]. }
  apply G. destruct Hf as [suf [ann [st ->]]]. cbn. destruct sym; [contradiction | reflexivity].
Qed.

(* the statements appear exactly once each, in the order written *)
Corollary attach_all_leaves sym o oper ns first : sym <> [] -> attach_op o = Ok oper -> stmt_leaf sym first -> Forall (stmt_leaf sym) ns ->
  exists t, attach_all None (first :: ns) o = Ok (Some t) /\ leaves t = first :: ns.
Proof.
  intros Hs Ho Hf Hns. exists (left_assoc oper sym first ns). split; [apply attach_all_spec; assumption|].
  rewrite leaves_left_assoc.
  assert (E : forall l, Forall (stmt_leaf sym) l -> flat_map leaves l = l).
  { induction 1 as [|n t [suf [ann [st ->]]] _ IH]; [reflexivity|]. cbn [flat_map leaves app]. rewrite IH. reflexivity. }
  rewrite (E ns Hns). destruct Hf as [suf [ann [st ->]]]. reflexivity.
Qed.
