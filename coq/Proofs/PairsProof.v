(* Proofs/PairsProof.v - each expanded component-pair statement contains its group's components plus every component
   written outside the braces and nothing else (C03), for any copy table satisfying the decidable side condition. *)
From Coq Require Import List Arith Bool Strings.Byte.
From IGP Require Import Base.Str Base.Outcome Model.Tree Model.Visual Model.Pairs.
Import ListNotations.

Lemma copy_in T group outside out : copy_components T group outside = Ok out ->
  forall f n, In (f, n) out -> exists x y z, In (x, y, z) T /\ x = f /\ copy_value (sget group y) (sget outside z) = Ok (Some n).
Proof.
  revert out. induction T as [|[[x y] z] T IH]; intros out H f n Hin; cbn [copy_components] in H.
  - inversion H; subst. contradiction.
  - destruct (copy_value (sget group y) (sget outside z)) as [v| | | |] eqn:Ev; cbn [bind] in H; try discriminate.
    destruct (copy_components T group outside) as [tl| | | |] eqn:Et; cbn [bind] in H; try discriminate.
    inversion H; subst. destruct v as [nv|].
    + destruct Hin as [Hin | Hin].
      * inversion Hin; subst. exists f, y, z. split; [left; reflexivity|]. auto.
      * destruct (IH tl eq_refl f n Hin) as [x' [y' [z' [H1 H2]]]]. exists x', y', z'. split; [right; exact H1 | exact H2].
    + destruct (IH tl eq_refl f n Hin) as [x' [y' [z' [H1 H2]]]]. exists x', y', z'. split; [right; exact H1 | exact H2].
Qed.

(* what a field of the expanded statement holds: the group's value, the outside value, or their implicit conjunction *)
Theorem copy_field_spec T group outside out : copy_table_ok T = true -> copy_components T group outside = Ok out ->
  forall f n, In (f, n) out ->
    match sget group f, sget outside f with
    | Some g, None => n = g
    | None, Some o => n = o
    | Some g, Some o => combine g o BAND = Ok n
    | None, None => False
    end.
Proof.
  intros Hok H f n Hin. destruct (copy_in T group outside out H f n Hin) as [x [y [z [Ht [Ex Ev]]]]]. subst x.
  unfold copy_table_ok in Hok. apply andb_true_iff in Hok as [Hd _]. rewrite forallb_forall in Hd. specialize (Hd _ Ht). cbn in Hd.
  apply andb_true_iff in Hd as [H1 H2]. apply field_eqb_eq in H1, H2. subst y z.
  unfold copy_value in Ev. destruct (sget outside f) as [o|]; destruct (sget group f) as [g|].
  - destruct (combine g o BAND) as [c| | | |]; cbn [bind] in Ev; try discriminate. inversion Ev; reflexivity.
  - inversion Ev; reflexivity.
  - inversion Ev; reflexivity.
  - discriminate.
Qed.

(* every component written outside reaches the expanded statement (none is dropped) *)
Theorem copy_nothing_dropped T group outside out : copy_table_ok T = true -> copy_components T group outside = Ok out ->
  forall f, (sget group f <> None \/ sget outside f <> None) -> exists n, In (f, n) out.
Proof.
  intros Hok H f Hpres. unfold copy_table_ok in Hok. apply andb_true_iff in Hok as [Hd Hc].
  rewrite forallb_forall in Hc. specialize (Hc f (all_fields_complete f)). apply Nat.eqb_eq in Hc.
  destruct (filter (fun e => field_eqb f (fst (fst e))) T) as [|e l] eqn:E; [discriminate|].
  assert (Hin : In e (filter (fun e => field_eqb f (fst (fst e))) T)) by (rewrite E; left; reflexivity).
  apply filter_In in Hin as [Hin Hf]. destruct e as [[x y] z]. cbn in Hf. apply field_eqb_eq in Hf. subst x.
  rewrite forallb_forall in Hd. pose proof (Hd _ Hin) as Hxy. cbn in Hxy. apply andb_true_iff in Hxy as [H1 H2]. apply field_eqb_eq in H1, H2. subst y z.
  clear E Hc Hd. revert out H. induction T as [|[[x y] z] T IH]; intros out H; [contradiction|].
  cbn [copy_components] in H.
  destruct (copy_value (sget group y) (sget outside z)) as [v| | | |] eqn:Ev; cbn [bind] in H; try discriminate.
  destruct (copy_components T group outside) as [tl| | | |] eqn:Et; cbn [bind] in H; try discriminate.
  inversion H; subst. destruct Hin as [Hin | Hin].
  - inversion Hin; subst. unfold copy_value in Ev.
    destruct (sget outside f) as [o|]; destruct (sget group f) as [g|].
    + destruct (combine g o BAND); cbn [bind] in Ev; try discriminate. inversion Ev; subst. eexists. left. reflexivity.
    + inversion Ev; subst. eexists. left. reflexivity.
    + inversion Ev; subst. eexists. left. reflexivity.
    + exfalso. destruct Hpres as [Hp | Hp]; apply Hp; reflexivity.
  - destruct (IH Hin tl eq_refl) as [n Hn]. exists n. destruct v; [right; exact Hn | exact Hn].
Qed.
