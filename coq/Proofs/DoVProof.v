(* Proofs/DoVProof.v - C20: the ported complexity calculation equals the documented recurrence,
   for every tree on which the recurrence is defined and every wiring that passes dov_wiring_ok. *)
From Coq Require Import List Arith Bool Lia ZArith Permutation Strings.Byte.
From IGP Require Import Base.Str Base.Outcome Model.Tree Model.DoV Proofs.TreeInd.
Import ListNotations.
Local Open Scope Z_scope.

(* ---------- the two helpers *)
Lemma find_max_single x d : 0 <= d -> find_max_value [x] d = Z.max d x.
Proof.
  intro Hd. unfold find_max_value; cbn [fold_left].
  destruct (Z.ltb_spec 0 x) as [H|H].
  - destruct (Z.ltb_spec d (0 + x)); lia.
  - destruct (Z.ltb_spec d 0); lia.
Qed.

Definition gt_or_0 (th x : Z) : Z := if Z.ltb th x then x else 0.

Lemma fold_add_acc (l : list Z) a : fold_left Z.add l a = a + fold_left Z.add l 0.
Proof. revert a; induction l as [|y l IH]; intro a; simpl; [lia|]. rewrite IH. rewrite (IH y). lia. Qed.

Lemma agg_fold (arr : list Z) th acc :
  fold_left (fun s x => if Z.ltb th x then s + x else s) arr acc = acc + fold_left Z.add (map (gt_or_0 th) arr) 0.
Proof.
  revert acc; induction arr as [|x arr IH]; intro acc; cbn [fold_left map]; [lia|].
  rewrite IH. rewrite (fold_add_acc _ (0 + gt_or_0 th x)). unfold gt_or_0. destruct (Z.ltb th x); lia.
Qed.

Lemma aggregate_spec arr : aggregate_if_gt arr 1 1 = Z.max 1 (fold_left Z.add (map (gt_or_0 1) arr) 0).
Proof. unfold aggregate_if_gt. rewrite agg_fold. destruct (Z.ltb_spec 1 (0 + fold_left Z.add (map (gt_or_0 1) arr) 0)); lia. Qed.

Lemma fold_add_perm (l l' : list Z) : Permutation l l' -> fold_left Z.add l 0 = fold_left Z.add l' 0.
Proof.
  induction 1; simpl; try reflexivity.
  - rewrite (fold_add_acc l), (fold_add_acc l'). lia.
  - rewrite (fold_add_acc l), (fold_add_acc l (_ + _)). lia.
  - congruence.
Qed.

(* ---------- boolean list predicates on fields *)
Lemma existsb_field f l : existsb (field_eqb f) l = true <-> In f l.
Proof. rewrite existsb_exists; split; [intros [x [Hi He]]; apply field_eqb_eq in He; subst; exact Hi | intro H; exists f; split; [exact H | apply field_eqb_eq; reflexivity]]. Qed.
Lemma subset_f_incl a b : subset_f a b = true -> incl a b.
Proof. unfold subset_f. rewrite forallb_forall. intros H x Hx. apply existsb_field, H, Hx. Qed.
Lemma nodup_f_NoDup l : nodup_f l = true -> NoDup l.
Proof.
  induction l as [|x l IH]; simpl; intro H; constructor; apply andb_true_iff in H as [H1 H2].
  - intro Hin. apply existsb_field in Hin. rewrite Hin in H1. discriminate.
  - apply IH, H2.
Qed.
Lemma nodup_filter {A} (p : A -> bool) l : NoDup l -> NoDup (filter p l).
Proof. apply NoDup_filter. Qed.

Lemma perm_of_wiring (a b : list field) : nodup_f a = true -> NoDup b -> subset_f a b = true -> subset_f b a = true -> Permutation a b.
Proof.
  intros Ha Hb Hab Hba. apply NoDup_Permutation; [apply nodup_f_NoDup, Ha | exact Hb |].
  intro x; split; [apply subset_f_incl, Hab | apply subset_f_incl, Hba].
Qed.

(* ---------- tables *)
Lemma nested_go_cx W fs :
  (fix go (l : list (field * node)) : list (field * res Z) :=
     match l with [] => [] | (f, x) :: t => (f, node_cx W x) :: go t end) fs = cx_table W fs.
Proof. induction fs as [|[f x] fs IH]; simpl; [reflexivity | rewrite IH; reflexivity]. Qed.

Lemma nested_go_dov fs :
  (fix go (l : list (field * node)) : list (field * Z) :=
     match l with [] => [] | (f, x) :: t => (f, dov_node x) :: go t end) fs = dov_vals fs.
Proof. induction fs as [|[f x] fs IH]; simpl; [reflexivity | rewrite IH; reflexivity]. Qed.

Lemma nested_look f vals :
  (fix look (l : list (field * Z)) := match l with [] => None | (g, z) :: t => if field_eqb f g then Some z else look t end) vals = look_z f vals.
Proof. induction vals as [|[g z] t IH]; simpl; [reflexivity | rewrite IH; reflexivity]. Qed.

Lemma dov_node_stmt m fs priv : dov_node (Leaf m (EStmt (Stmt fs)) priv) = dov_total (Stmt fs).
Proof.
  unfold dov_total; cbn [dov_node stmt_fields]. rewrite nested_go_dov.
  unfold dov_v. f_equal.
  - f_equal. f_equal. apply map_ext. intro f. rewrite nested_look. reflexivity.
  - rewrite !nested_look. reflexivity.
Qed.

Lemma nested_wf fs :
  (fix go (l : list (field * node)) := match l with [] => true | (_, x) :: t => dov_wf x && go t end) fs
  = forallb (fun fx => dov_wf (snd fx)) fs.
Proof. induction fs as [|[f x] fs IH]; simpl; [reflexivity | rewrite IH; reflexivity]. Qed.

Lemma lookup_table W fs f :
  Forall (fun fx => node_cx W (snd fx) = Ok (dov_node (snd fx))) fs ->
  cx_val (lookup_cx f (cx_table W fs)) = Ok (dov_v fs f).
Proof.
  unfold dov_v. induction 1 as [|[g x] fs Hx _ IH]; simpl; [reflexivity|].
  destruct (field_eqb f g); [simpl in Hx; rewrite Hx; reflexivity | exact IH].
Qed.

Lemma seq_vals_ok (l : list Z) : seq_vals (map Ok l) = Ok l.
Proof. induction l as [|x l IH]; simpl; [reflexivity | rewrite IH; reflexivity]. Qed.

Lemma total_of_spec W fs :
  dov_wiring_ok W = true ->
  Forall (fun fx => node_cx W (snd fx) = Ok (dov_node (snd fx))) fs ->
  total_of W (cx_table W fs) = Ok (dov_total (Stmt fs)).
Proof.
  intros HW Hfs. unfold total_of.
  assert (E : forall l, map (fun f => cx_val (lookup_cx f (cx_table W fs))) l = map Ok (map (dov_v fs) l)).
  { intro l. rewrite map_map. apply map_ext. intro f. apply lookup_table, Hfs. }
  rewrite !E, !seq_vals_ok. cbn [bind]. f_equal.
  unfold dov_wiring_ok in HW. repeat (apply andb_true_iff in HW as [HW ?]).
  repeat match goal with H : Z.eqb _ 1 = true |- _ => apply Z.eqb_eq in H; rewrite H; clear H end.
  unfold dov_total; cbn [stmt_fields]. f_equal.
  - rewrite aggregate_spec. f_equal. rewrite map_map.
    assert (P : Permutation (cx_leading W) (filter lead_field all_fields)).
    { apply perm_of_wiring; try assumption. apply NoDup_filter, all_fields_nodup. }
    apply fold_add_perm. apply Permutation_map with (f := fun f => gt_or_0 1 (dov_v fs f)) in P.
    exact P.
  - rewrite find_max_single by lia. f_equal.
    assert (P : Permutation (cx_cond W) [FCac; FCacC]).
    { apply perm_of_wiring; try assumption. repeat constructor; simpl; intuition discriminate. }
    apply Permutation_map with (f := dov_v fs) in P. apply fold_add_perm in P. rewrite P. simpl. lia.
Qed.

(* ---------- the node-level theorem *)
Theorem node_cx_spec W : dov_wiring_ok W = true -> forall n, dov_wf n = true -> node_cx W n = Ok (dov_node n).
Proof.
  intro HW. apply (node_induction (fun n => dov_wf n = true -> node_cx W n = Ok (dov_node n))).
  - intros m priv _ H; discriminate.
  - intros m s priv _ H. destruct s; [discriminate | reflexivity].
  - intros m fs priv IH _ Hwf.
    rewrite dov_node_stmt. cbn [node_cx]. rewrite nested_go_cx.
    cbn [dov_wf] in Hwf. rewrite nested_wf in Hwf. rewrite forallb_forall in Hwf.
    apply total_of_spec; [exact HW|].
    rewrite Forall_forall in *. intros fx Hin. apply IH; [exact Hin | apply Hwf, Hin].
  - intros m ns priv _ _ H; discriminate.
  - intros m o l r IHl IHr Hwf. cbn [dov_wf] in Hwf. apply andb_true_iff in Hwf as [Hl Hr].
    cbn [node_cx dov_node]. rewrite (IHl Hl), (IHr Hr). destruct o; reflexivity.
Qed.

Theorem stmt_cx_spec W s : dov_wiring_ok W = true -> dov_wf_stmt s = true -> stmt_cx W s = Ok (dov_total s).
Proof.
  intros HW Hwf. destruct s as [fs]. unfold stmt_cx; cbn [stmt_fields].
  apply total_of_spec; [exact HW|].
  unfold dov_wf_stmt in Hwf; cbn [stmt_fields] in Hwf. rewrite forallb_forall in Hwf.
  rewrite Forall_forall. intros fx Hin. apply node_cx_spec; [exact HW | apply Hwf, Hin].
Qed.

(* the documented recurrence, clause by clause (what dov_node / dov_total say) *)
Lemma dov_single m s priv : dov_node (Leaf m (EStr s) priv) = 1.
Proof. reflexivity. Qed.
Lemma dov_conj m o l r : o = AND \/ o = BAND \/ o = WAND -> dov_node (Comb m o l r) = dov_node l + dov_node r - 1.
Proof. intros [->|[->| ->]]; reflexivity. Qed.
Lemma dov_xor m l r : dov_node (Comb m XOR l r) = dov_node l + dov_node r.
Proof. reflexivity. Qed.
Lemma dov_or m l r : dov_node (Comb m OR l r) = dov_node l + dov_node r + 1.
Proof. reflexivity. Qed.
Lemma dov_nested m st priv : dov_node (Leaf m (EStmt st) priv) = dov_total st.
Proof. destruct st. apply dov_node_stmt. Qed.

(* every well-formed node has a value of at least 1, so "at least 1" in the statement is not vacuous *)
Lemma dov_total_pos s : 1 <= dov_total s.
Proof. unfold dov_total. nia. Qed.
