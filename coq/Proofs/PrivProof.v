(* Proofs/PrivProof.v - private properties (C16): what is linked, what is attached, what is withdrawn and what stays,
   for all trees. *)
From Coq Require Import List Arith Bool Lia Strings.Byte.
From IGP Require Import Base.Str Model.Tree Model.Priv.
Import ListNotations.
Open Scope list_scope.

(* ---------------------------------------------------------------- paths *)
Lemma path_eqb_eq p q : path_eqb p q = true <-> p = q.
Proof.
  revert q; induction p as [|a p IH]; intros [|b q]; cbn; split; intro H; try reflexivity; try discriminate.
  - apply andb_true_iff in H. destruct H as [H1 H2]. apply eqb_prop in H1. apply IH in H2. congruence.
  - inversion H; subst. apply andb_true_iff. split; [apply eqb_reflx|apply IH; reflexivity].
Qed.
Lemma path_mem_in p ps : path_mem p ps = true <-> In p ps.
Proof.
  unfold path_mem. rewrite existsb_exists. split.
  - intros [q [Hq He]]. apply path_eqb_eq in He. subst. exact Hq.
  - intro H. exists p. split; [exact H|apply path_eqb_eq; reflexivity].
Qed.

(* ---------------------------------------------------------------- what is linked *)
Theorem linked_targets_spec sfx tgt p :
  In p (linked_targets sfx tgt) <->
  In p (leaf_paths tgt) /\ exists x, node_at tgt p [] = Some x /\ links_to sfx x = true.
Proof.
  unfold linked_targets. rewrite filter_In. split.
  - intros [Hp H]. split; [exact Hp|]. destruct (node_at tgt p []) as [x|]; [|discriminate]. exists x. split; [reflexivity|exact H].
  - intros [Hp [x [Hx Hl]]]. split; [exact Hp|]. rewrite Hx. exact Hl.
Qed.

(* a property whose suffix is empty, or differs in its first element, is never linked *)
Corollary unmatched_never_linked sfx tgt p x : node_at tgt p [] = Some x ->
  (is_empty (eff_suffix x) = true \/ beq_str (primary sfx) (primary (eff_suffix x)) = false) -> ~ In p (linked_targets sfx tgt).
Proof.
  intros Hx Hno Hin. apply linked_targets_spec in Hin. destruct Hin as [_ [y [Hy Hl]]]. rewrite Hx in Hy. inversion Hy; subst y.
  unfold links_to in Hl. apply andb_true_iff in Hl. destruct Hl as [H1 H2]. destruct Hno as [H|H].
  - rewrite H in H1. discriminate.
  - rewrite H in H2. discriminate.
Qed.

(* ---------------------------------------------------------------- what is attached *)
Theorem attach_at T c s n : forall p a m e pr a', node_at n p a = Some (Leaf m e pr, a') ->
  node_at (attach T c s n a) p a = Some (attach T c s (Leaf m e pr) a', a').
Proof.
  induction n as [m0 e0 pr0|m0 o l IHl r IHr]; intros p a m e pr a' H.
  - destruct p as [|d p']; [|discriminate]. cbn [node_at] in H. inversion H; subst.
    cbn [attach]. destruct (is_empty (get_suffix m a')); [reflexivity|].
    destruct (prop_tree T c s (comp_name m a')) as [[f tgt]|]; reflexivity.
  - destruct p as [|d p']; [discriminate|]. cbn [node_at attach] in *. destruct d; [apply IHr|apply IHl]; exact H.
Qed.

(* a value without suffix keeps its private list; a value with a suffix gains exactly the matching leaves of its
   component's property tree, detached, in tree order *)
Theorem attached_values T c s m e pr a :
  attach T c s (Leaf m e pr) a =
  if is_empty (get_suffix m a) then Leaf m e pr else
  match prop_tree T c s (comp_name m a) with
  | Some (_, tgt) => Leaf m e (pr ++ flat_map (detach tgt) (linked_targets (get_suffix m a) tgt))
  | None => Leaf m e pr
  end.
Proof. reflexivity. Qed.

(* the shape of the component tree is untouched *)
Theorem attach_leaf_paths T c s n a : leaf_paths (attach T c s n a) = leaf_paths n.
Proof.
  revert a; induction n as [m e pr|m o l IHl r IHr]; intro a; cbn [attach].
  - destruct (is_empty (get_suffix m a)); [reflexivity|]. destruct (prop_tree T c s (comp_name m a)) as [[f tgt]|]; reflexivity.
  - cbn [leaf_paths]. rewrite IHl, IHr. reflexivity.
Qed.

(* ---------------------------------------------------------------- what is withdrawn and what stays *)
Fixpoint kept (ps : list path) (n : node) (rcur : path) : list node :=
  match n with
  | Leaf _ _ _ => if path_mem (rev rcur) ps then [] else [n]
  | Comb _ _ l r => kept ps l (false :: rcur) ++ kept ps r (true :: rcur)
  end.
Definition oleaves (o : option node) : list node := match o with Some n => leaves n | None => [] end.

Lemma leaves_nonempty n : leaves n <> [].
Proof. induction n as [m e pr|m o l IHl r IHr]; cbn; [discriminate|]. intro H. apply app_eq_nil in H. destruct H as [H _]. exact (IHl H). Qed.

(* the remaining property tree holds exactly the leaves that were not linked, in their order *)
Theorem prune_leaves ps n : forall rcur, oleaves (prune_at ps n rcur) = kept ps n rcur.
Proof.
  induction n as [m e pr|m o l IHl r IHr]; intro rcur; cbn [prune_at kept].
  - destruct (path_mem (rev rcur) ps); reflexivity.
  - rewrite <- IHl, <- IHr. destruct (prune_at ps l (false :: rcur)) as [l'|], (prune_at ps r (true :: rcur)) as [r'|]; cbn [oleaves leaves];
      rewrite ?app_nil_r; reflexivity.
Qed.

(* the field is cleared exactly when every leaf was linked *)
Corollary prune_none ps n rcur : prune_at ps n rcur = None <-> kept ps n rcur = [].
Proof.
  rewrite <- prune_leaves. destruct (prune_at ps n rcur) as [n'|]; cbn [oleaves]; split; intro H; try reflexivity; try discriminate.
  exfalso. exact (leaves_nonempty n' H).
Qed.

(* nothing linked: the tree is untouched *)
Theorem prune_nothing ps n : forall rcur, (forall p, In p (leaf_paths n) -> ~ In (rev rcur ++ p) ps) -> prune_at ps n rcur = Some n.
Proof.
  induction n as [m e pr|m o l IHl r IHr]; intros rcur H; cbn [prune_at].
  - destruct (path_mem (rev rcur) ps) eqn:E; [|reflexivity]. exfalso. apply path_mem_in in E.
    apply (H []); [left; reflexivity|]. rewrite app_nil_r. exact E.
  - rewrite IHl, IHr; [reflexivity| |].
    + intros p Hp. cbn [rev]. rewrite <- app_assoc. cbn [app]. apply H. cbn [leaf_paths]. apply in_or_app. right. apply in_map. exact Hp.
    + intros p Hp. cbn [rev]. rewrite <- app_assoc. cbn [app]. apply H. cbn [leaf_paths]. apply in_or_app. left. apply in_map. exact Hp.
Qed.

(* ---------------------------------------------------------------- the position cases of RemoveNodeFromTree *)
Lemma leaf_paths_node_at n : forall p a, In p (leaf_paths n) -> exists m e pr a', node_at n p a = Some (Leaf m e pr, a').
Proof.
  induction n as [m e pr|m o l IHl r IHr]; intros p a H; cbn [leaf_paths] in H.
  - destruct H as [<-|[]]. exists m, e, pr, a. reflexivity.
  - apply in_app_or in H. destruct H as [H|H]; apply in_map_iff in H; destruct H as [q [<- Hq]]; cbn [node_at].
    + exact (IHl q _ Hq).
    + exact (IHr q _ Hq).
Qed.

Lemma remove_at_some n : forall p d, In (d :: p) (leaf_paths n) -> exists n', remove_at n (d :: p) = Some n'.
Proof.
  induction n as [m e pr|m o l IHl r IHr]; intros p d H; cbn [leaf_paths] in H.
  - destruct H as [H|[]]. discriminate.
  - apply in_app_or in H. destruct H as [H|H]; apply in_map_iff in H; destruct H as [q [E Hq]]; inversion E; subst.
    + destruct p as [|d' p'].
      * cbn [remove_at]. destruct l as [ml el prl|ml ol ll rl]; [eexists; reflexivity|].
        exfalso. cbn [leaf_paths] in Hq. apply in_app_or in Hq. destruct Hq as [Hq|Hq]; apply in_map_iff in Hq; destruct Hq as [x [Hx _]]; discriminate.
      * destruct (IHl p' d' Hq) as [l' Hl']. cbn [remove_at]. cbn [remove_at] in Hl'. rewrite Hl'. eexists; reflexivity.
    + destruct p as [|d' p'].
      * cbn [remove_at]. destruct r as [mr er prr|mr or lr rr]; [eexists; reflexivity|].
        exfalso. cbn [leaf_paths] in Hq. apply in_app_or in Hq. destruct Hq as [Hq|Hq]; apply in_map_iff in Hq; destruct Hq as [x [Hx _]]; discriminate.
      * destruct (IHr p' d' Hq) as [r' Hr']. cbn [remove_at]. cbn [remove_at] in Hr'. rewrite Hr'. eexists; reflexivity.
Qed.

Lemma path_mem_single p q : path_mem p [q] = path_eqb p q.
Proof. unfold path_mem. cbn. apply orb_false_r. Qed.

Lemma prune_other q n : forall rcur, (forall p, In p (leaf_paths n) -> rev rcur ++ p <> q) -> prune_at [q] n rcur = Some n.
Proof.
  intros rcur H. apply prune_nothing. intros p Hp [E|[]]. exact (H p Hp (eq_sym E)).
Qed.

(* removing one leaf by the position cases (left/right child, parent with or without parent) = withdrawing that leaf *)
Theorem remove_is_prune n : forall p rcur, In p (leaf_paths n) -> remove_at n p = prune_at [rev rcur ++ p] n rcur.
Proof.
  induction n as [m e pr|m o l IHl r IHr]; intros p rcur H; cbn [leaf_paths] in H.
  - destruct H as [<-|[]]. cbn [remove_at prune_at]. rewrite app_nil_r, path_mem_single.
    replace (path_eqb (rev rcur) (rev rcur)) with true by (symmetry; apply path_eqb_eq; reflexivity). reflexivity.
  - apply in_app_or in H. destruct H as [H|H]; apply in_map_iff in H; destruct H as [q [<- Hq]].
    + (* the leaf is in the left subtree *)
      assert (Hr : prune_at [rev rcur ++ false :: q] r (true :: rcur) = Some r).
      { apply prune_other. intros p' _ E. cbn [rev] in E. rewrite <- app_assoc in E. apply app_inv_head in E. discriminate. }
      cbn [prune_at]. rewrite Hr.
      set (X := prune_at _ l _).
      assert (HX : X = remove_at l q).
      { subst X. rewrite (IHl q (false :: rcur) Hq). cbn [rev]. rewrite <- app_assoc. reflexivity. }
      rewrite HX. clear HX X.
      destruct q as [|d' q'].
      * destruct l as [ml el prl|ml ol ll rl].
        -- reflexivity.
        -- exfalso. cbn [leaf_paths] in Hq. apply in_app_or in Hq. destruct Hq as [Hq|Hq]; apply in_map_iff in Hq; destruct Hq as [x [Hx _]]; discriminate.
      * destruct (remove_at_some l q' d' Hq) as [l' Hl'].
        change (remove_at (Comb m o l r) (false :: d' :: q')) with (match remove_at l (d' :: q') with Some l' => Some (Comb m o l' r) | None => None end).
        replace (remove_at l (d' :: q')) with (Some l') by (symmetry; exact Hl'). reflexivity.
    + assert (Hl : prune_at [rev rcur ++ true :: q] l (false :: rcur) = Some l).
      { apply prune_other. intros p' _ E. cbn [rev] in E. rewrite <- app_assoc in E. apply app_inv_head in E. discriminate. }
      cbn [prune_at]. rewrite Hl.
      set (X := prune_at _ r _).
      assert (HX : X = remove_at r q).
      { subst X. rewrite (IHr q (true :: rcur) Hq). cbn [rev]. rewrite <- app_assoc. reflexivity. }
      rewrite HX. clear HX X.
      destruct q as [|d' q'].
      * destruct r as [mr er prr|mr or lr rr].
        -- reflexivity.
        -- exfalso. cbn [leaf_paths] in Hq. apply in_app_or in Hq. destruct Hq as [Hq|Hq]; apply in_map_iff in Hq; destruct Hq as [x [Hx _]]; discriminate.
      * destruct (remove_at_some r q' d' Hq) as [r' Hr'].
        change (remove_at (Comb m o l r) (true :: d' :: q')) with (match remove_at r (d' :: q') with Some r' => Some (Comb m o l r') | None => None end).
        replace (remove_at r (d' :: q')) with (Some r') by (symmetry; exact Hr'). reflexivity.
Qed.

(* ---------------------------------------------------------------- annotations (GetAnnotations) *)
(* the annotation of a value never comes from across the implicit conjunction of separate annotations of a component *)
Theorem annotation_stops_at_band m pm a : annot_set (annot m) = false -> get_annotations m ((pm, BAND) :: a) = None.
Proof. intro H. cbn [get_annotations]. rewrite H. reflexivity. Qed.

(* a value that carries an annotation of its own shows that one *)
Theorem own_annotation_wins m a : annot_set (annot m) = true -> get_annotations m a = annot m.
Proof. intro H. destruct a as [|[pm po] t]; cbn [get_annotations]; [reflexivity|]. rewrite H. reflexivity. Qed.

(* inside one annotation every value inherits the annotation written on the component *)
Theorem annotation_inherited m pm po a : annot_set (annot m) = false -> po <> BAND ->
  get_annotations m ((pm, po) :: a) = get_annotations pm a.
Proof. intros H Ho. cbn [get_annotations]. rewrite H. destruct po; try reflexivity. exfalso. apply Ho. reflexivity. Qed.
