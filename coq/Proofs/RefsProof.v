(* Proofs/RefsProof.v - GenerateReferenceSlice (Model/Link.add_ref): the compressed reference list ("3-5,8") of any
   sequence of row numbers without two equal neighbours expands to exactly that sequence (C05/C06) - no bound on
   the numbers or on the length. *)
From Coq Require Import List Arith Bool Lia NArith ZArith Sorted Strings.Byte.
From IGP Require Import Base.Str Model.Tree Model.Link Proofs.ItoaProof.
Import ListNotations.
Open Scope list_scope.

Definition nodash (s : str) : Prop := Forall (fun c => digit_val c <> None) s.

Lemma atoi_acc_digits s : forall a v, atoi_acc s a = Some v -> nodash s.
Proof.
  induction s as [|c s IH]; intros a v H; [constructor|]. cbn [atoi_acc] in H.
  destruct (digit_val c) as [d|] eqn:E; [|discriminate]. constructor; [congruence|]. exact (IH _ _ H).
Qed.
Lemma itoa_digits n : nodash (itoa_N n).
Proof. exact (atoi_acc_digits _ _ _ (atoi_acc_itoa_N n)). Qed.

Lemma itoa_nonempty n : itoa_N n <> [].
Proof.
  unfold itoa_N. cbn [itoa_fuel]. destruct (N.ltb n 10); [discriminate|].
  rewrite itoa_fuel_app. intro H. apply app_eq_nil in H. destruct H as [_ H]. discriminate.
Qed.

Lemma digit_not_dash c : digit_val c <> None -> Byte.eqb dash c = false /\ Byte.eqb c minus_b = false /\ Byte.eqb c x2b = false.
Proof.
  intro H. repeat split.
  - destruct (Byte.eqb dash c) eqn:E; [|reflexivity]. apply byte_eqb_eq in E. subst c. exfalso. apply H. reflexivity.
  - destruct (Byte.eqb c minus_b) eqn:E; [|reflexivity]. apply byte_eqb_eq in E. subst c. exfalso. apply H. reflexivity.
  - destruct (Byte.eqb c x2b) eqn:E; [|reflexivity]. apply byte_eqb_eq in E. subst c. exfalso. apply H. reflexivity.
Qed.

Lemma index_from_none s : nodash s -> forall i, index_from s [dash] i = None.
Proof.
  induction 1 as [|c s Hc Hs IH]; intro i; cbn [index_from is_prefix]; [reflexivity|].
  destruct (digit_not_dash c Hc) as [E _]. rewrite E. cbn [andb]. apply IH.
Qed.
Lemma index_from_dash s t : nodash s -> forall i, index_from (s ++ dash :: t) [dash] i = Some (i + length s).
Proof.
  induction 1 as [|c s Hc Hs IH]; intro i; cbn [app index_from is_prefix length].
  - replace (Byte.eqb dash dash) with true by (symmetry; apply byte_eqb_eq; reflexivity). cbn. f_equal. lia.
  - destruct (digit_not_dash c Hc) as [E _]. rewrite E. cbn [andb]. rewrite IH. f_equal. lia.
Qed.

Lemma atoi_itoa n : atoi (itoa_N n) = Some (Z.of_N n).
Proof.
  pose proof (itoa_digits n) as Hd. pose proof (atoi_acc_itoa_N n) as Ha. pose proof (itoa_nonempty n) as Hn.
  destruct (itoa_N n) as [|c s]; [congruence|]. inversion Hd as [|? ? Hc Hs]; subst.
  destruct (digit_not_dash c Hc) as [_ [E1 E2]]. unfold atoi. rewrite E1, E2. rewrite Ha. reflexivity.
Qed.

Lemma itoa_Z_pos z : (0 < z)%Z -> itoa_Z z = itoa_N (Z.to_N z).
Proof. destruct z; intro H; try lia. reflexivity. Qed.
Lemma atoi_itoa_Z z : (0 < z)%Z -> atoi (itoa_Z z) = Some z.
Proof. intro H. rewrite itoa_Z_pos by exact H. rewrite atoi_itoa. f_equal. lia. Qed.
Lemma itoa_Z_digits z : (0 < z)%Z -> nodash (itoa_Z z).
Proof. intro H. rewrite itoa_Z_pos by exact H. apply itoa_digits. Qed.

(* ---------------------------------------------------------------- one reference *)
Definition single (b : Z) : str := itoa_Z b.
Definition range (a b : Z) : str := itoa_Z a ++ [dash] ++ itoa_Z b.

Lemma expand_single b : (0 < b)%Z -> expand_ref (single b) = [b].
Proof.
  intro H. unfold expand_ref, single, index_of. rewrite (index_from_none _ (itoa_Z_digits b H)). rewrite (atoi_itoa_Z b H). reflexivity.
Qed.
Lemma range_parts a b : (0 < a)%Z -> index_of (range a b) [dash] = Some (length (itoa_Z a)) /\
  firstn (length (itoa_Z a)) (range a b) = itoa_Z a /\ skipn (S (length (itoa_Z a))) (range a b) = itoa_Z b.
Proof.
  intro Ha. unfold range, index_of. cbn [app]. rewrite (index_from_dash _ (itoa_Z b) (itoa_Z_digits a Ha)). repeat split.
  - rewrite firstn_app, Nat.sub_diag, firstn_all. cbn [firstn]. apply app_nil_r.
  - change (itoa_Z a ++ dash :: itoa_Z b) with (itoa_Z a ++ [dash] ++ itoa_Z b). rewrite app_assoc.
    replace (S (length (itoa_Z a))) with (length (itoa_Z a ++ [dash])) by (rewrite app_length; cbn; lia).
    rewrite skipn_app, Nat.sub_diag, skipn_all. reflexivity.
Qed.
Lemma expand_range a b : (0 < a)%Z -> (0 < b)%Z -> expand_ref (range a b) = zrange a (Z.to_nat (b - a + 1)).
Proof.
  intros Ha Hb. unfold expand_ref. destruct (range_parts a b Ha) as [E1 [E2 E3]]. rewrite E1, E2, E3.
  rewrite (atoi_itoa_Z a Ha), (atoi_itoa_Z b Hb). reflexivity.
Qed.
Lemma zrange_snoc a n : zrange a (S n) = zrange a n ++ [(a + Z.of_nat n)%Z].
Proof.
  revert a; induction n as [|n IH]; intro a; [cbn; f_equal; lia|].
  change (zrange a (S (S n))) with (a :: zrange (a + 1) (S n)). rewrite IH. cbn [zrange app]. f_equal. f_equal. f_equal. lia.
Qed.

(* ---------------------------------------------------------------- list helpers *)
Lemma last_opt_snoc {A} (l : list A) x : last_opt (l ++ [x]) = Some x.
Proof. induction l as [|y l IH]; [reflexivity|]. cbn [app]. destruct (l ++ [x]) eqn:E; [destruct l; discriminate|]. exact IH. Qed.
Lemma set_last_snoc {A} (l : list A) x y : set_last (l ++ [x]) y = l ++ [y].
Proof. unfold set_last. rewrite removelast_last. reflexivity. Qed.
Lemma expand_snoc l r : expand_refs (l ++ [r]) = expand_refs l ++ expand_ref r.
Proof. unfold expand_refs. rewrite flat_map_app. cbn [flat_map]. rewrite app_nil_r. reflexivity. Qed.

(* ---------------------------------------------------------------- the invariant: the last reference ends at b *)
Definition ends_at (refs : list str) (b : Z) : Prop :=
  (0 < b)%Z /\ exists rs, refs = rs ++ [single b] \/ exists a, (0 < a < b)%Z /\ refs = rs ++ [range a b].

Lemma add_ref_step refs b id : ends_at refs b -> (Z.of_nat id + 1 <> b)%Z ->
  ends_at (add_ref refs id) (Z.of_nat id + 1) /\ expand_refs (add_ref refs id) = expand_refs refs ++ [(Z.of_nat id + 1)%Z].
Proof.
  intros [Hb [rs [Hs|[a [Ha Hr]]]]] Hne; set (added := (Z.of_nat id + 1)%Z) in *; assert (Hadd : (0 < added)%Z) by (subst added; lia); subst refs;
    unfold add_ref; fold added; rewrite last_opt_snoc.
  - (* single *)
    unfold single, index_of. rewrite (index_from_none _ (itoa_Z_digits b Hb)). rewrite (atoi_itoa_Z b Hb).
    destruct (Z.eqb b (added - 1)) eqn:E.
    + apply Z.eqb_eq in E. rewrite set_last_snoc. split.
      * split; [exact Hadd|]. exists rs. right. exists b. split; [lia|reflexivity].
      * rewrite !expand_snoc. fold (range b added). fold (single b). rewrite (expand_range b added Hb Hadd), (expand_single b Hb).
        replace (Z.to_nat (added - b + 1)) with 2 by lia. cbn [zrange]. rewrite <- app_assoc. cbn [app]. do 3 f_equal. lia.
    + replace (Z.eqb b added) with false by (symmetry; apply Z.eqb_neq; lia). cbn [negb]. split.
      * split; [exact Hadd|]. exists (rs ++ [itoa_Z b]). left. reflexivity.
      * rewrite (expand_snoc (rs ++ [itoa_Z b])). fold (single added). rewrite (expand_single added Hadd). reflexivity.
  - (* range *)
    destruct Ha as [Ha1 Ha2]. destruct (range_parts a b Ha1) as [E1 [E2 E3]]. rewrite E1, E2, E3. rewrite (atoi_itoa_Z b Hb).
    destruct (Z.eqb b (added - 1)) eqn:E.
    + apply Z.eqb_eq in E. rewrite set_last_snoc. split.
      * split; [exact Hadd|]. exists rs. right. exists a. split; [lia|reflexivity].
      * rewrite !expand_snoc. fold (range a added). rewrite (expand_range a added Ha1 Hadd), (expand_range a b Ha1 Hb).
        replace (Z.to_nat (added - a + 1)) with (S (Z.to_nat (b - a + 1))) by lia. rewrite zrange_snoc, <- app_assoc. do 3 f_equal. lia.
    + split.
      * split; [exact Hadd|]. exists (rs ++ [range a b]). left. reflexivity.
      * rewrite (expand_snoc (rs ++ [range a b])). fold (single added). rewrite (expand_single added Hadd). reflexivity.
Qed.

Fixpoint no_equal_neighbours (prev : nat) (ids : list nat) : Prop :=
  match ids with [] => True | i :: t => i <> prev /\ no_equal_neighbours i t end.

Lemma add_refs_from refs : forall ids prev, ends_at refs (Z.of_nat prev + 1) -> no_equal_neighbours prev ids ->
  expand_refs (fold_left add_ref ids refs) = expand_refs refs ++ map (fun i => (Z.of_nat i + 1)%Z) ids.
Proof.
  intros ids. revert refs. induction ids as [|i t IH]; intros refs prev He Hn; cbn [fold_left map]; [symmetry; apply app_nil_r|].
  destruct Hn as [Hi Ht]. destruct (add_ref_step refs _ i He ltac:(lia)) as [He' Hx].
  rewrite (IH _ i He' Ht), Hx, <- app_assoc. reflexivity.
Qed.

(* any sequence of row numbers in which no number follows itself - in particular every increasing one *)
Theorem refs_roundtrip ids : match ids with [] => True | i :: t => no_equal_neighbours i t end ->
  expand_refs (fold_left add_ref ids []) = map (fun i => (Z.of_nat i + 1)%Z) ids.
Proof.
  destruct ids as [|i t]; intro H; [reflexivity|]. cbn [fold_left map].
  assert (E : add_ref [] i = [single (Z.of_nat i + 1)]) by reflexivity. rewrite E.
  rewrite (add_refs_from _ t i); [|split; [lia|exists []; left; reflexivity]|exact H].
  unfold expand_refs at 1. cbn [flat_map]. rewrite expand_single by lia. reflexivity.
Qed.

Lemma sorted_no_equal_neighbours : forall t i, StronglySorted lt (i :: t) -> no_equal_neighbours i t.
Proof.
  induction t as [|j t IH]; intros i H; [exact I|]. inversion H as [|? ? Hs Hf]; subst. inversion Hf as [|? ? Hij _]; subst.
  split; [lia|]. apply IH. exact Hs.
Qed.
Corollary refs_roundtrip_increasing ids : StronglySorted lt ids ->
  expand_refs (fold_left add_ref ids []) = map (fun i => (Z.of_nat i + 1)%Z) ids.
Proof. intro H. apply refs_roundtrip. destruct ids as [|i t]; [exact I|]. apply sorted_no_equal_neighbours. exact H. Qed.

(* the premise is needed: a repeated number is swallowed *)
Example refs_repeated_number : expand_refs (fold_left add_ref [4; 4] []) <> [5; 5]%Z.
Proof. vm_compute. discriminate. Qed.
