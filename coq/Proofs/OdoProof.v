(* Proofs/OdoProof.v - C04: the odometer enumerates exactly the Cartesian product of the non-empty arrays. *)
From Coq Require Import List Arith Bool Lia Strings.Byte.
Import ListNotations.
From IGP Require Import Base.Str Base.Outcome Model.Odo.

Section P.
Context {A : Type}.
Notation dig := (nat * list A)%type.
Local Notation shift := (@Odo.shift A).
Local Notation row := (@Odo.row A).
Local Notation bump := (@Odo.bump A).
Local Notation run := (@Odo.run A).
Local Notation count := (@Odo.count A).
Local Notation odometer := (@Odo.odometer A).

Definition radix (a : list A) : nat := Nat.max 1 (length a).
Arguments radix : simpl never.
Definition norm (st : list dig) : Prop := Forall (fun d : dig => fst d < radix (snd d)) st.

(* spec of "increment" on normalised digit vectors, least significant first *)
Fixpoint succ (st : list dig) : option (list dig) :=
  match st with
  | [] => None
  | (p, a) :: r => if S p <? radix a then Some ((S p, a) :: r) else option_map (cons (0, a)) (succ r)
  end.

Lemma shift_false_norm st : norm st -> shift false st = Some st.
Proof.
  induction st as [|[p a] r IH]; intros H; [reflexivity|].
  inversion H as [|? ? Hd Hr]; subst. cbn [fst snd] in Hd. unfold radix in Hd.
  cbn [shift].
  destruct (0 <? p) eqn:E0; destruct (length a <=? p) eqn:E1; cbn [andb];
    try (rewrite (IH Hr); reflexivity).
  apply Nat.ltb_lt in E0. apply Nat.leb_le in E1. lia.
Qed.

Lemma shift_bump st : st <> [] -> shift false (bump st) = shift true st.
Proof. destruct st as [|[p a] r]; [congruence|]. intros _. reflexivity. Qed.



Lemma shift_true_succ st : norm st -> st <> [] -> shift true st = succ st.
Proof.
  induction st as [|[p a] r IH]; intros H Hne; [congruence|].
  inversion H as [|? ? Hd Hr]; subst. cbn [fst snd] in Hd.
  cbn [shift succ].
  assert (Hov : ((0 <? S p) && (length a <=? S p)) = negb (S p <? radix a)).
  { unfold radix in *. destruct (length a <=? S p) eqn:E1; destruct (S p <? Nat.max 1 (length a)) eqn:E2; cbn;
      try reflexivity;
      [apply Nat.leb_le in E1; apply Nat.ltb_lt in E2; lia
      |apply Nat.leb_gt in E1; apply Nat.ltb_ge in E2; lia]. }
  rewrite Hov. destruct (S p <? radix a) eqn:E; cbn [negb].
  - rewrite (shift_false_norm r Hr). reflexivity.
  - destruct r as [|[p0 a0] r'].
    + reflexivity.
    + destruct r' as [|d r''].
      * (* i == 1 : the shortcut test *)
        inversion Hr as [|? ? Hd0 _]; subst. cbn [fst snd] in Hd0. unfold radix in Hd0.
        destruct (S p0 =? length a0) eqn:E0.
        -- apply Nat.eqb_eq in E0. cbn [succ]. unfold radix.
           replace (S p0 <? Nat.max 1 (length a0)) with false; [reflexivity|].
           symmetry. apply Nat.ltb_ge. lia.
        -- rewrite IH by (auto; congruence). reflexivity.
      * rewrite IH by (auto; congruence). reflexivity.
Qed.

Lemma radix_pos a : 0 < radix a. Proof. unfold radix. lia. Qed.

(* all normalised states in counting order; the least significant digit varies fastest *)
Fixpoint all_states (asr : list (list A)) : list (list dig) :=
  match asr with
  | [] => [[]]
  | a :: more => flat_map (fun hi => map (fun p => (p, a) :: hi) (seq 0 (radix a))) (all_states more)
  end.

(* l is a succ-chain ending in overflow *)
Fixpoint chain (l : list (list dig)) : Prop :=
  match l with
  | [] => True
  | [s] => succ s = None
  | s :: ((s' :: _) as t) => succ s = Some s' /\ chain t
  end.

Lemma chain_app_block a hi (k : nat) (t : list (list dig)) :
  (* block of states (k..radix-1, a)::hi followed by t, where t continues after the carry *)
  k < radix a ->
  (match t with [] => succ hi = None | s' :: _ => exists hi', succ hi = Some hi' /\ s' = (0, a) :: hi' end) ->
  chain t ->
  chain (map (fun p => (p, a) :: hi) (seq k (radix a - k)) ++ t).
Proof.
  intros Hk Ht Hc.
  remember (radix a - k) as n eqn:En. revert k Hk En.
  induction n as [|n IH]; intros k Hk En; [lia|].
  cbn [seq map app].
  destruct n as [|n'].
  - (* last of the block: S p = radix *)
    cbn [seq map app].
    assert (E : S k <? radix a = false) by (apply Nat.ltb_ge; lia).
    destruct t as [|s' t'].
    + cbn [chain succ]. rewrite E, Ht. reflexivity.
    + destruct Ht as [hi' [H1 H2]]. subst s'. cbn [chain succ]. rewrite E, H1. cbn. split; [reflexivity|exact Hc].
  - specialize (IH (S k)). 
    assert (E : S k <? radix a = true) by (apply Nat.ltb_lt; lia).
    cbn [seq map app] in *.
    cbn [chain succ]. rewrite E. split; [reflexivity|].
    apply IH; lia.
Qed.

Lemma chain_block0 a hi (t : list (list dig)) :
  (match t with [] => succ hi = None | s' :: _ => exists hi', succ hi = Some hi' /\ s' = (0, a) :: hi' end) ->
  chain t -> chain (map (fun p => (p, a) :: hi) (seq 0 (radix a)) ++ t).
Proof.
  intros H H0. pose proof (chain_app_block a hi 0 t (radix_pos a) H H0) as G.
  rewrite Nat.sub_0_r in G. exact G.
Qed.

Lemma all_states_nonempty asr : all_states asr <> [].
Proof.
  induction asr as [|a more IH]; cbn; [congruence|].
  destruct (all_states more) as [|hi t] eqn:E; [congruence|].
  cbn. pose proof (radix_pos a). destruct (radix a); [lia|]. cbn. congruence.
Qed.

Lemma hd_all_states asr : exists t, all_states asr = map (fun a => (0, a)) asr :: t.
Proof.
  induction asr as [|a more [t IH]]; cbn; [eauto|].
  rewrite IH. cbn. pose proof (radix_pos a). destruct (radix a) as [|n]; [lia|]. cbn. eauto.
Qed.

Lemma chain_flat_map a (his : list (list dig)) :
  chain his -> his <> [] ->
  chain (flat_map (fun hi => map (fun p => (p, a) :: hi) (seq 0 (radix a))) his).
Proof.
  induction his as [|hi t IH]; intros Hc Hne; [congruence|].
  cbn [flat_map].
  apply chain_block0.
  - destruct t as [|hi' t'].
    + cbn. exact Hc.
    + cbn [flat_map]. destruct Hc as [H1 _].
      pose proof (radix_pos a) as Hp. destruct (radix a) as [|n] eqn:Er; [lia|]. cbn. eauto.
  - destruct t as [|hi' t']; [exact I|]. apply IH; [|congruence]. destruct Hc as [_ H2]. exact H2.
Qed.

Lemma chain_all_states asr : chain (all_states asr).
Proof.
  induction asr as [|a more IH]; cbn [all_states]; [reflexivity|].
  apply chain_flat_map; [exact IH|apply all_states_nonempty].
Qed.

Lemma norm_all_states asr : Forall norm (all_states asr).
Proof.
  induction asr as [|a more IH]; cbn [all_states].
  - repeat constructor.
  - apply Forall_flat_map. eapply Forall_impl; [|exact IH]. intros hi Hhi.
    apply Forall_map. apply Forall_forall. intros p Hp. apply in_seq in Hp.
    constructor; [cbn; lia|exact Hhi].
Qed.

(* ---- the loop emits exactly the rows of a chain ---- *)
Lemma run_chain (l : list (list dig)) :
  chain l -> Forall norm l -> Forall (fun s => s <> []) l ->
  forall s0 rest, l = s0 :: rest ->
  forall f pre ct n acc, shift false pre = Some s0 -> length l < f -> ct + length l <= n ->
  run f pre ct n acc = Ok (rev acc ++ map row l).
Proof.
  induction l as [|s l' IH]; intros Hc Hn Hne s0 rest El f pre ct n acc Hs Hf Hct; [congruence|].
  injection El as -> ->.
  destruct f as [|f]; [cbn in Hf; lia|].
  cbn [run]. rewrite Hs.
  assert (Hle : (n <=? ct) = false) by (apply Nat.leb_gt; cbn [length] in Hct; lia).
  rewrite Hle.
  inversion Hn as [|? ? Hn0 Hn']; subst. inversion Hne as [|? ? Hne0 Hne']; subst.
  destruct rest as [|s1 rest'].
  - (* last state: next shift overflows *)
    cbn [chain] in Hc.
    destruct f as [|f]; [cbn in Hf; lia|].
    cbn [run]. rewrite shift_bump by exact Hne0. rewrite shift_true_succ by assumption. rewrite Hc.
    cbn. reflexivity.
  - destruct Hc as [Hc1 Hc2].
    rewrite (IH Hc2 Hn' Hne' s1 rest' eq_refl f (bump s0) (S ct) n (row s0 :: acc)).
    + cbn [rev map]. rewrite <- app_assoc. reflexivity.
    + rewrite shift_bump by exact Hne0. rewrite shift_true_succ by assumption. exact Hc1.
    + cbn [length] in *. lia.
    + cbn [length] in *. lia.
Qed.

(* ---- rows of all states = cartesian product ---- *)
Lemma cart_snoc (xs : list (list A)) (a : list A) :
  cart (xs ++ [a]) = flat_map (fun pre => map (fun x => pre ++ [x]) a) (cart xs).
Proof.
  induction xs as [|l xs IH]; cbn [app cart].
  - cbn [cart flat_map map]. rewrite app_nil_r.
    induction a as [|x a IHa]; cbn [flat_map map app]; [reflexivity|]. rewrite IHa. reflexivity.
  - rewrite IH. clear IH.
    induction l as [|x l IHl]; cbn [flat_map]; [reflexivity|].
    rewrite flat_map_app. f_equal; [|exact IHl].
    (* map (cons x) (flat_map g ys) = flat_map g' (map (cons x) ys) *)
    generalize (cart xs) as ys. intros ys.
    induction ys as [|y ys IHy]; cbn [flat_map map]; [reflexivity|].
    rewrite map_app. f_equal; [|exact IHy].
    rewrite map_map. reflexivity.
Qed.

Lemma map_nth_error_seq (a : list A) :
  flat_map (fun p => match nth_error a p with Some x => [[x]] | None => [[]] end) (seq 0 (length a)) = map (fun x => [x]) a.
Proof.
  assert (G : forall (pre a : list A), flat_map (fun p => match nth_error (pre ++ a) p with Some x => [[x]] | None => [[]] end) (seq (length pre) (length a)) = map (fun x => [x]) a).
  { intros pre a0. revert pre. induction a0 as [|x a0 IH]; intros pre; cbn [length seq flat_map map]; [reflexivity|].
    rewrite nth_error_app2 by lia. rewrite Nat.sub_diag. cbn [nth_error app]. f_equal.
    specialize (IH (pre ++ [x])). rewrite <- app_assoc in IH. cbn [app] in IH.
    rewrite app_length in IH. cbn [length] in IH. rewrite Nat.add_1_r in IH. exact IH. }
  apply (G [] a).
Qed.

Definition pick (d : dig) : list A := match nth_error (snd d) (fst d) with Some x => [x] | None => [] end.
Lemma row_cons p a hi : row ((p, a) :: hi) = row hi ++ pick (p, a).
Proof. unfold row. cbn [rev]. rewrite flat_map_app. cbn. rewrite app_nil_r. reflexivity. Qed.

Lemma rows_all_states (asr : list (list A)) :
  map row (all_states asr) = cart (filter nonempty (rev asr)).
Proof.
  induction asr as [|a more IH]; [reflexivity|].
  cbn [all_states rev]. rewrite filter_app. cbn [filter].
  destruct a as [|x a'] eqn:Ea.
  - (* empty array: radix 1, contributes nothing *)
    cbn [nonempty]. rewrite app_nil_r. rewrite <- IH. clear IH.
    unfold radix. cbn [length Nat.max seq].
    generalize (all_states more) as his. intros his.
    induction his as [|hi t IHt]; cbn [flat_map map app]; [reflexivity|].
    rewrite row_cons. unfold pick. cbn. rewrite app_nil_r. f_equal. exact IHt.
  - cbn [nonempty]. rewrite cart_snoc. rewrite <- IH. clear IH. rewrite <- Ea.
    assert (Hr : radix a = length a) by (subst a; unfold radix; cbn; lia).
    rewrite Hr. clear Hr Ea.
    generalize (all_states more) as his. intros his.
    induction his as [|hi t IHt]; cbn [flat_map map]; [reflexivity|].
    rewrite map_app. f_equal; [|exact IHt].
    rewrite map_map.
    transitivity (map (fun y => row hi ++ y) (flat_map (fun p => match nth_error a p with Some x => [[x]] | None => [[]] end) (seq 0 (length a)))).
    + clear. induction (seq 0 (length a)) as [|p ps IHp]; cbn [map flat_map]; [reflexivity|].
      rewrite map_app. rewrite <- IHp. rewrite row_cons. unfold pick. cbn [fst snd].
      destruct (nth_error a p); reflexivity.
    + rewrite map_nth_error_seq. rewrite map_map. reflexivity.
Qed.

(* ---- counting ---- *)
Lemma length_all_states asr : length (all_states asr) = fold_right (fun a n => radix a * n) 1 asr.
Proof.
  induction asr as [|a more IH]; cbn [all_states fold_right]; [reflexivity|].
  rewrite <- IH. clear IH.
  induction (all_states more) as [|hi t IHt]; cbn [flat_map length]; [lia|].
  rewrite app_length, map_length, seq_length, IHt. lia.
Qed.

Lemma count_spec (ls : list (list A)) : count ls = fold_right (fun a n => radix a * n) 1 (rev ls).
Proof.
  unfold count.
  assert (G : forall ls k, fold_left (fun n a => if length a =? 0 then n else n * length a) ls k
                           = k * fold_right (fun a n => radix a * n) 1 (rev ls)).
  { induction ls0 as [|a ls0 IH]; intros k; cbn [fold_left rev fold_right]; [lia|].
    rewrite IH. rewrite fold_right_app. cbn [fold_right].
    assert (F : forall l z, fold_right (fun a n => radix a * n) z l = z * fold_right (fun a n => radix a * n) 1 l).
    { induction l as [|b l IHl]; intros z; cbn [fold_right]; [lia|]. rewrite IHl. lia. }
    rewrite (F (rev ls0) (radix a * 1)).
    assert (Hr : radix a = if length a =? 0 then 1 else length a).
    { unfold radix. destruct (length a =? 0) eqn:E; [apply Nat.eqb_eq in E|apply Nat.eqb_neq in E]; lia. }
    rewrite Hr. destruct (length a =? 0); lia. }
  rewrite G. lia.
Qed.

Theorem odometer_is_product (ls : list (list A)) :
  ls <> [] -> odometer ls = Ok (cart (filter nonempty ls)).
Proof.
  intros Hne. unfold odometer. destruct ls as [|l0 ls'] eqn:Els; [congruence|]. rewrite <- Els in *.
  set (asr := rev ls).
  destruct (hd_all_states asr) as [t Ht].
  assert (Hall : Forall (fun s : list dig => s <> []) (all_states asr)).
  { clear -Hne. subst asr. assert (Hr : rev ls <> []) by (destruct ls; [congruence|cbn; intros E; apply app_eq_nil in E; destruct E; congruence]).
    destruct (rev ls) as [|a more]; [congruence|]. cbn [all_states]. apply Forall_flat_map. apply Forall_forall. intros hi _.
    apply Forall_map. apply Forall_forall. intros p _. congruence. }
  rewrite (run_chain (all_states asr) (chain_all_states asr) (norm_all_states asr) Hall _ _ Ht
             (S (S (count ls))) (map (fun a => (0, a)) asr) 0 (count ls) []).
  - cbn [rev app]. rewrite rows_all_states. subst asr. rewrite rev_involutive. reflexivity.
  - apply shift_false_norm. pose proof (norm_all_states asr) as Hn. rewrite Ht in Hn. inversion Hn; assumption.
  - rewrite length_all_states, count_spec. subst asr. lia.
  - rewrite length_all_states, count_spec. subst asr. lia.
Qed.
End P.

(* every reachable use: the premise is satisfiable and the conclusion is not trivially empty *)
Example odometer_example : odometer [[1;2];[];[3;4;5]] = Ok [[1;3];[1;4];[1;5];[2;3];[2;4];[2;5]].
Proof. vm_compute. reflexivity. Qed.

Corollary odometer_never_panics {A} (ls : list (list A)) : ls <> [] -> (forall n, odometer ls <> Panic n) /\ odometer ls <> OutOfFuel.
Proof. intros H. rewrite (odometer_is_product ls H). split; [intro n|]; congruence. Qed.
