(* Proofs/HandlersProof.v - C13 / C14 for handler programs given as data (Model/Handlers.v): if the decidable side
   conditions hold for the regenerated programs and read/write sets, the response of either page depends on nothing
   but its own request - after any history over both pages, and (under the handler lock) under any schedule. *)
From Coq Require Import List Arith Bool Lia Strings.Byte.
From IGP Require Import Base.Str Model.Handlers Proofs.Hist Proofs.Sched.
Import ListNotations.

Lemma beq_str_reflect a b : reflect (a = b) (beq_str a b).
Proof. destruct (beq_str a b) eqn:E; constructor; [apply beq_str_eq; exact E | intro H; apply beq_str_eq in H; congruence]. Qed.

Section Inst.
Variable payload response : Type.
Record request := mkReq { r_params : str -> bool; r_payload : payload }.

(* the conversions: functions of the request and of the global state; the theorem's hypotheses say through which
   globals (the read sets computed from the source) *)
Variable conv : request -> gst -> response.
Variable reads : list str.
Hypothesis conv_frame : forall r s s', (forall g, In g reads -> s g = s' g) -> conv r s = conv r s'.

Definition to_instr (i : ginstr) : list (instr str request response bool) :=
  match i with
  | GSet g e => [ISet _ _ _ _ g {| rhs_reads := src_reads e; rhs_fun := fun r st => eval (r_params r) st e |}]
  | GConvert ar => [IConvert _ _ _ _ (ar ++ reads) conv]
  | _ => []
  end.
Definition compile (p : list ginstr) := flat_map to_instr p.

Lemma eval_frame e : forall ps (s s' : gst), (forall g, In g (src_reads e) -> s g = s' g) -> eval ps s e = eval ps s' e.
Proof.
  induction e as [p | b | g | x IH | c IHc a IHa b IHb | t]; intros ps s s' H; cbn [eval src_reads] in *; try reflexivity.
  - apply H. left. reflexivity.
  - rewrite (IH ps s s' H). reflexivity.
  - rewrite (IHc ps s s'), (IHa ps s s'), (IHb ps s s'); [reflexivity | | |];
      intros g Hg; apply H; rewrite !in_app_iff; auto.
Qed.

Lemma compile_frame p : frame_ok str request response bool (compile p).
Proof.
  induction p as [|i p IH]; [exact I|].
  destruct i as [g e | ar | | | t]; cbn [compile flat_map to_instr app frame_ok]; try exact IH.
  - split; [|exact IH]. intros r s s' H. cbn [rhs_fun rhs_reads] in *. apply eval_frame. exact H.
  - split; [|exact IH]. intros r s s' H. apply conv_frame. intros g Hg. apply H. apply in_or_app. right. exact Hg.
Qed.

(* globals the program never assigns keep their value *)
Lemma exec_keeps p : forall r s out g, ~ In g (assigned p) ->
  fst (exec str beq_str request response bool (compile p) r s out) g = s g.
Proof.
  induction p as [|i p IH]; intros r s out g Hg; [reflexivity|].
  destruct i as [g' e | ar | | | t]; cbn [compile flat_map to_instr app exec assigned] in *; try (apply IH; exact Hg).
  - rewrite IH by (intro H; apply Hg; right; exact H).
    unfold upd. destruct (beq_str g g') eqn:E; [|reflexivity].
    apply beq_str_eq in E. subst g'. exfalso. apply Hg. left. reflexivity.
Qed.
End Inst.

(* ---------------------------------------------------------------- the decidable side condition, closed *)
Fixpoint covers_g (w : list str) (p : list ginstr) (rd : list str) : bool :=
  match p with
  | [] => true
  | GSet g e :: p' => forallb (fun v => in_strs v w) (src_reads e) && covers_g (g :: w) p' rd
  | GConvert ar :: p' => forallb (fun v => in_strs v w) (ar ++ rd) && covers_g w p' rd
  | _ :: p' => covers_g w p' rd
  end.

Definition all_reads (p : list ginstr) (rd : list str) : list str :=
  rd ++ flat_map (fun i => match i with GSet _ e => src_reads e | GConvert ar => ar | _ => [] end) p.

Record handler_facts := mkFacts {
  hf_tab : list ginstr; hf_vis : list ginstr;          (* the programs (G4) *)
  hf_reads_tab : list str; hf_reads_vis : list str;    (* globals read by anything reachable from the handler (G5) *)
  hf_runtime_writes : list str;                        (* globals written by anything reachable from the generic handler (G5) *)
  hf_conv_writes_tab : list str; hf_conv_writes_vis : list str;
  hf_web_state : list str                              (* web-layer globals outside the conversion: logging set-up *)
}.
Definition hf_assigned (F : handler_facts) := assigned (hf_tab F) ++ assigned (hf_vis F).
Definition hf_stable (F : handler_facts) : list str :=
  filter (fun g => negb (in_strs g (hf_assigned F))) (all_reads (hf_tab F) (hf_reads_tab F) ++ all_reads (hf_vis F) (hf_reads_vis F)).
Definition subset (a b : list str) : bool := forallb (fun g => in_strs g b) a.
Definition handlers_ok (F : handler_facts) : bool :=
  supported (hf_tab F) && has_convert (hf_tab F) && supported (hf_vis F) && has_convert (hf_vis F)
  && covers_g (hf_stable F) (hf_tab F) (hf_reads_tab F) && covers_g (hf_stable F) (hf_vis F) (hf_reads_vis F)
  (* the programs account for every run-time write the source contains *)
  && subset (hf_runtime_writes F) (hf_assigned F ++ hf_web_state F)
  && subset (hf_conv_writes_tab F) (assigned (hf_tab F)) && subset (hf_conv_writes_vis F) (assigned (hf_vis F))
  (* what is taken as stable is written nowhere at run time (except the logging plumbing of the web layer) *)
  && forallb (fun g => negb (in_strs g (hf_runtime_writes F)) || in_strs g (hf_web_state F)) (hf_stable F).

Lemma in_strs_In g l : in_strs g l = true <-> In g l.
Proof.
  induction l as [|x l IH]; cbn [in_strs In]; [split; [discriminate | tauto]|].
  rewrite orb_true_iff, IH, beq_str_eq. split; intros [H|H]; auto.
Qed.
Lemma forallb_ext' {A} (f g : A -> bool) l : (forall x, f x = g x) -> forallb f l = forallb g l.
Proof. intro H. induction l as [|x l IH]; cbn [forallb]; [reflexivity | rewrite H, IH; reflexivity]. Qed.
Lemma in_strs_mem g l : in_strs g l = mem str beq_str g l.
Proof. unfold mem. induction l as [|x l IH]; cbn [in_strs existsb]; [reflexivity | rewrite IH; reflexivity]. Qed.

(* ---------------------------------------------------------------- two pages *)
Section Pages.
Variable payload response : Type.
Notation req := (request payload).
Variable F : handler_facts.
Variables (conv_tab conv_vis : req -> gst -> response).
Hypothesis frame_tab : forall r s s', (forall g, In g (hf_reads_tab F) -> s g = s' g) -> conv_tab r s = conv_tab r s'.
Hypothesis frame_vis : forall r s s', (forall g, In g (hf_reads_vis F) -> s g = s' g) -> conv_vis r s = conv_vis r s'.
Hypothesis Hok : handlers_ok F = true.

Definition ctab := compile payload response conv_tab (hf_reads_tab F) (hf_tab F).
Definition cvis := compile payload response conv_vis (hf_reads_vis F) (hf_vis F).

Lemma covers_g_spec (conv : req -> gst -> response) rd p : forall w,
  covers_g w p rd = covers_from str beq_str req response bool w (compile payload response conv rd p).
Proof.
  induction p as [|i p IH]; intro w; [reflexivity|].
  destruct i as [g e | ar | | | t]; cbn [covers_g compile flat_map to_instr app covers_from rhs_reads]; try apply IH.
  - rewrite IH. f_equal. apply forallb_ext'. intro v. apply in_strs_mem.
  - rewrite IH. f_equal. apply forallb_ext'. intro v. apply in_strs_mem.
Qed.

Lemma assigns_compile (conv : req -> gst -> response) rd p :
  assigns str req response bool (compile payload response conv rd p) = assigned p.
Proof.
  induction p as [|i p IH]; [reflexivity|].
  destruct i as [g e | ar | | | t]; cbn [compile flat_map to_instr app assigns assigned]; try exact IH.
  - cbn [app]. f_equal. exact IH.
Qed.

Lemma ok_parts : covers_g (hf_stable F) (hf_tab F) (hf_reads_tab F) = true /\ covers_g (hf_stable F) (hf_vis F) (hf_reads_vis F) = true.
Proof.
  unfold handlers_ok in Hok. repeat (apply andb_true_iff in Hok as [Hok ?]). split; assumption.
Qed.

Lemma stable_not_assigned g : In g (hf_stable F) -> ~ In g (hf_assigned F).
Proof.
  unfold hf_stable. intro H. apply filter_In in H as [_ H]. intro Hin. apply in_strs_In in Hin. rewrite Hin in H. discriminate.
Qed.

Lemma prog_ok_tab : prog_ok str beq_str req response bool (hf_stable F) ctab.
Proof.
  destruct ok_parts as [H1 _]. unfold prog_ok, ctab. repeat split.
  - rewrite <- covers_g_spec. exact H1.
  - apply compile_frame. exact frame_tab.
  - rewrite assigns_compile. intros g Hg Hs. apply (stable_not_assigned g Hs). unfold hf_assigned. apply in_or_app. left. exact Hg.
Qed.
Lemma prog_ok_vis : prog_ok str beq_str req response bool (hf_stable F) cvis.
Proof.
  destruct ok_parts as [_ H2]. unfold prog_ok, cvis. repeat split.
  - rewrite <- covers_g_spec. exact H2.
  - apply compile_frame. exact frame_vis.
  - rewrite assigns_compile. intros g Hg Hs. apply (stable_not_assigned g Hs). unfold hf_assigned. apply in_or_app. right. exact Hg.
Qed.

Inductive page := PTab | PVis.
Definition cprog (pg : page) := match pg with PTab => ctab | PVis => cvis end.
Lemma prog_ok_page pg : prog_ok str beq_str req response bool (hf_stable F) (cprog pg).
Proof. destruct pg; [apply prog_ok_tab | apply prog_ok_vis]. Qed.

Definition serve (pg : page) (s : gst) (r : req) := handle str beq_str req response bool (cprog pg) s r.
Definition run_all (h : list (page * req)) (s0 : gst) : gst :=
  fold_left (fun s pr => fst (serve (fst pr) s (snd pr))) h s0.

Lemma run_all_stable h : forall s0 g, ~ In g (hf_assigned F) -> run_all h s0 g = s0 g.
Proof.
  induction h as [|[pg r] h IH]; intros s0 g Hg; [reflexivity|].
  unfold run_all in *. cbn [fold_left fst snd]. rewrite IH by exact Hg.
  unfold serve, handle, cprog. destruct pg; [unfold ctab | unfold cvis]; apply exec_keeps; intro H; apply Hg; unfold hf_assigned; apply in_or_app; auto.
Qed.

(* C13: after ANY history over both pages the response equals the one given from the initial state *)
Theorem history_independent_pages : forall (pg : page) (h : list (page * req)) (r : req) (s0 : gst),
  snd (serve pg (run_all h s0) r) = snd (serve pg s0 r).
Proof.
  intros pg h r s0. unfold serve, handle.
  destruct (prog_ok_page pg) as [Hc [Hf _]].
  apply (exec_agree str beq_str beq_str_reflect req response bool (cprog pg) Hf (hf_stable F) Hc).
  intros g Hg. apply run_all_stable. apply stable_not_assigned. exact Hg.
Qed.

(* C14: requests of both pages processed concurrently under the handler lock, any number, any schedule *)
Definition mk_threads (reqs : list (page * req)) := map (fun pr => (snd pr, cprog (fst pr))) reqs.
Theorem schedule_independent_pages : forall (reqs : list (page * req)) (s0 : gst) (sch : list nat) i t,
  nth_error (threads str req response bool (run_sched str beq_str req response bool (init_sys str req response bool s0 (mk_threads reqs)) sch)) i = Some t ->
  t_phase str req response bool t = Finished str req response bool ->
  t_out str req response bool t = snd (handle str beq_str req response bool (t_body str req response bool t) s0 (t_req str req response bool t)).
Proof.
  intros reqs s0 sch i t Ht Hp.
  apply (schedule_independent str beq_str beq_str_reflect req response bool (hf_stable F) s0 (mk_threads reqs) sch i t); auto.
  intros rb Hin. unfold mk_threads in Hin. apply in_map_iff in Hin as [[pg r] [E _]]. subst rb. apply prog_ok_page.
Qed.
End Pages.
