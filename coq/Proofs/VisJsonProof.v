(* Proofs/VisJsonProof.v - C09 / C17 on the structured output value (Model/VisJson.v):
   - the values read back from the output are exactly the values of the specification Spec/VisView.v,
     which does not look at the options binary / DoV / annotations (so these cannot change them);
   - binary mode: every operator object has exactly two children;
   - DoV / annotation members appear only when selected. *)
From Coq Require Import List Arith Bool Lia ZArith Strings.Byte.
From IGP Require Import Base.Str Base.Outcome Model.Tree Model.DoV Model.Leaves Model.Flat Model.Visual Model.VisJson Spec.VisView.
Import ListNotations.

Lemma bind_ok {A B} (r : res A) (f : A -> res B) b : bind r f = Ok b -> exists a, r = Ok a /\ f a = Ok b.
Proof. destruct r; cbn; intro H; try discriminate. eauto. Qed.
Ltac inv_bind H :=
  let a := fresh "a" in let E := fresh "E" in
  apply bind_ok in H; destruct H as [a [E H]].
Ltac inv_ok H :=
  match type of H with
  | Ok ?x = Ok ?y => let E := fresh "Eq" in assert (E : x = y) by congruence; clear H; try subst y; try subst x
  end.

Lemma leafseq_children cs :
  (fix go (l : list jnode) := match l with [] => [] | x :: t => leafseq x ++ go t end) cs = leafseqs cs.
Proof. induction cs as [|x cs IH]; cbn; [reflexivity|rewrite IH; reflexivity]. Qed.
Lemma leafseqs_app a b : leafseqs (a ++ b) = leafseqs a ++ leafseqs b.
Proof. unfold leafseqs. apply flat_map_app. Qed.

Lemma components_of_actop T o1 o2 st : o_actop o1 = o_actop o2 -> components_of T o1 st = components_of T o2 st.
Proof. intro H. unfold components_of. rewrite H. reflexivity. Qed.

Section Rel.
Variable T : vis_tables.
Variable o : vopts.

Definition REL (jn : jn_t) (lv : lv_t) : Prop :=
  forall s n a lvl js, jn s n a lvl = Ok js -> lv s n a lvl = Ok (leafseqs js).

Section Step.
Variables (jn : jn_t) (lv : lv_t).
Hypothesis H : REL jn lv.

Lemma prop_children_rel s lvl ps : forall cs, prop_children jn s lvl ps = Ok cs -> lv_props lv s lvl ps = Ok (leafseqs cs).
Proof.
  induction ps as [|p ps IH]; intros cs E; cbn [prop_children lv_props] in *.
  - inv_ok E. reflexivity.
  - inv_bind E. inv_bind E. inv_ok E. rewrite (H _ _ _ _ _ E0). cbn [bind]. rewrite (IH _ E1). cbn [bind].
    rewrite leafseqs_app. reflexivity.
Qed.

Lemma props_of_rel s n a lvl pos cs label :
  props_of T o jn s n a lvl = Ok (pos, cs, label) ->
  lv_props_of T (o_flat o) lv s n a lvl = Ok (leafseqs cs, label).
Proof.
  unfold props_of, lv_props_of.
  match goal with |- (if ?c then _ else _) = _ -> _ => destruct c end; [|intro E; inv_ok E; inversion Eq; subst; reflexivity].
  intro E. inv_bind E. rewrite E0. cbn [bind].
  destruct a0 as [|p ps]; [inv_ok E; inversion Eq; subst; reflexivity|].
  destruct (o_flat o).
  - inv_bind E. inv_ok E. inversion Eq; subst. rewrite E1. reflexivity.
  - inv_bind E. inv_ok E. inversion Eq; subst. rewrite (prop_children_rel _ _ _ _ E1). reflexivity.
Qed.

Lemma props_of_comb s m op l r a lvl pos cs label :
  props_of T o jn s (Comb m op l r) a lvl = Ok (pos, cs, label) -> cs = [].
Proof.
  unfold props_of. cbn [nil_b negb orb]. rewrite orb_false_r.
  match goal with |- (if ?c then _ else _) = _ -> _ => destruct c eqn:C end; [|intro E; inv_ok E; inversion Eq; reflexivity].
  apply andb_true_iff in C as [Cf _]. cbn [orb] in Cf. rewrite Cf. cbn [bind].
  destruct (get_props T s (comp_name (node_meta (Comb m op l r)) a)); intro E.
  - inv_ok E. inversion Eq; reflexivity.
  - inv_bind E. inv_ok E. inversion Eq; reflexivity.
Qed.

Lemma json_children_rel st lvl cs : forall js, json_children jn st lvl cs = Ok js -> lv_children lv st lvl cs = Ok (leafseqs js).
Proof.
  induction cs as [|v cs IH]; intros js E; cbn [json_children lv_children] in *.
  - inv_ok E. reflexivity.
  - destruct (printable v); [|apply IH, E].
    inv_bind E. inv_bind E. inv_ok E. rewrite (H _ _ _ _ _ E0). cbn [bind]. rewrite (IH _ E1). cbn [bind].
    rewrite leafseqs_app. reflexivity.
Qed.

Lemma tree_step_rel st parent lvl j :
  json_tree_step T o jn st parent lvl = Ok j ->
  lv_children lv st lvl (components_of T (mkVopts (o_flat o) true false false (o_actop o)) st) = Ok (leafseq j).
Proof.
  unfold json_tree_step. intro E. inv_bind E. inv_bind E. inv_bind E. inv_ok E.
  rewrite (components_of_actop T (mkVopts (o_flat o) true false false (o_actop o)) o st eq_refl). rewrite (json_children_rel _ _ _ _ E2).
  cbn [leafseq]. reflexivity.
Qed.

Lemma node_step_rel : REL (json_node_step T o jn (json_tree_step T o jn)) (lv_step T (o_flat o) (o_actop o) lv).
Proof.
  intros s n a lvl js E. unfold json_node_step in E. unfold lv_step.
  destruct (is_empty_node n a); [inv_ok E; reflexivity|].
  destruct n as [m e priv|m op l r].
  - destruct e as [|txt|st|ns]; try discriminate.
    + inv_bind E. destruct a0 as [[pos cs] label]. inv_bind E. inv_ok E.
      rewrite (props_of_rel _ _ _ _ _ _ _ E0). cbn [bind fst snd].
      unfold leafseqs. cbn [flat_map leafseq]. rewrite app_nil_r. reflexivity.
    + inv_bind E. inv_ok E. rewrite (tree_step_rel _ _ _ _ E0). unfold leafseqs. cbn [flat_map]. rewrite app_nil_r. reflexivity.
    + destruct ns as [|[m' e' priv'|] rest]; try discriminate.
      destruct e' as [| |st|]; try discriminate.
      inv_bind E. inv_ok E. rewrite (tree_step_rel _ _ _ _ E0). unfold leafseqs. cbn [flat_map]. rewrite app_nil_r. reflexivity.
  - inv_bind E. inv_bind E. rewrite (H _ _ _ _ _ E0), (H _ _ _ _ _ E1). cbn [bind].
    match type of E with (if ?c then _ else _) = _ => destruct c end.
    + inv_ok E. rewrite leafseqs_app. reflexivity.
    + inv_bind E. destruct a2 as [[pos cs] label]. inv_bind E. inv_ok E.
      rewrite (props_of_comb _ _ _ _ _ _ _ _ _ _ E2).
      unfold leafseqs at 3. cbn [flat_map leafseq]. rewrite !app_nil_r. fold (leafseqs (a0 ++ a1)). rewrite leafseqs_app. reflexivity.
Qed.
End Step.

Theorem jn_lv fuel : REL (jn T o fuel) (lv T (o_flat o) (o_actop o) fuel).
Proof.
  induction fuel as [|f IH]; cbn [jn lv].
  - intros s n a lvl js E. discriminate.
  - apply node_step_rel, IH.
Qed.
End Rel.

(* ---------------------------------------------------------------- C17: options that must not matter *)
Theorem values_independent_of_bin_dov_anno T o1 o2 fuel s n a lvl js1 js2 :
  o_flat o1 = o_flat o2 -> o_actop o1 = o_actop o2 ->
  jn T o1 fuel s n a lvl = Ok js1 -> jn T o2 fuel s n a lvl = Ok js2 -> leafseqs js1 = leafseqs js2.
Proof.
  intros Hf Ha E1 E2. apply jn_lv in E1. apply jn_lv in E2. rewrite Hf, Ha in E1. rewrite E1 in E2.
  injection E2; auto.
Qed.

(* ---------------------------------------------------------------- C17: binary mode *)
Fixpoint bin_ok (j : jnode) : Prop :=
  match j with
  | JN k _ _ _ _ children _ _ _ _ =>
    (match k with KOp => length children = 2 | _ => True end) /\
    (fix go (l : list jnode) := match l with [] => True | x :: t => bin_ok x /\ go t end) children
  end.
Lemma bin_ok_children cs :
  (fix go (l : list jnode) := match l with [] => True | x :: t => bin_ok x /\ go t end) cs <-> Forall bin_ok cs.
Proof. induction cs as [|x cs IH]; cbn; split; intro H; auto; [destruct H; constructor; tauto|inversion H; subst; tauto]. Qed.

Section Bin.
Variable T : vis_tables.
Variable o : vopts.
Hypothesis Hbin : o_bin o = true.

Definition BIN (jn : jn_t) : Prop :=
  forall s n a lvl js, jn s n a lvl = Ok js -> Forall bin_ok js /\ (a <> [] -> length js = 1).

Section Step.
Variable jn : jn_t.
Hypothesis H : BIN jn.

Lemma prop_children_bin s lvl ps : forall cs, prop_children jn s lvl ps = Ok cs -> Forall bin_ok cs.
Proof.
  induction ps as [|p ps IH]; intros cs E; cbn [prop_children] in E.
  - inv_ok E. constructor.
  - inv_bind E. inv_bind E. inv_ok E. apply Forall_app. split; [apply (H _ _ _ _ _ E0)|apply IH, E1].
Qed.
Lemma props_of_bin s n a lvl pos cs label : props_of T o jn s n a lvl = Ok (pos, cs, label) -> Forall bin_ok cs.
Proof.
  unfold props_of.
  match goal with |- (if ?c then _ else _) = _ -> _ => destruct c end; [|intro E; inv_ok E; inversion Eq; subst; constructor].
  intro E. inv_bind E. destruct a0 as [|p ps]; [inv_ok E; inversion Eq; subst; constructor|].
  destruct (o_flat o); inv_bind E; inv_ok E; inversion Eq; subst; [constructor|].
  eapply prop_children_bin; eassumption.
Qed.
Lemma json_children_bin st lvl cs : forall js, json_children jn st lvl cs = Ok js -> Forall bin_ok js.
Proof.
  induction cs as [|v cs IH]; intros js E; cbn [json_children] in E.
  - inv_ok E. constructor.
  - destruct (printable v); [|apply IH, E].
    inv_bind E. inv_bind E. inv_ok E. apply Forall_app. split; [apply (H _ _ _ _ _ E0)|apply IH, E1].
Qed.
Lemma tree_step_bin st parent lvl j : json_tree_step T o jn st parent lvl = Ok j -> bin_ok j.
Proof.
  unfold json_tree_step. intro E. inv_bind E. inv_bind E. inv_bind E. inv_ok E.
  cbn [bin_ok]. split; [exact I|]. apply bin_ok_children. eapply json_children_bin; eassumption.
Qed.

Lemma node_step_bin : BIN (json_node_step T o jn (json_tree_step T o jn)).
Proof.
  intros s n a lvl js E. unfold json_node_step in E.
  assert (Hne : a <> [] -> is_empty_node n a = false).
  { intro Ha. destruct a; [contradiction|]. destruct n as [[c sf an l r] e priv|]; [|reflexivity].
    destruct c, sf, an, l, r, e, priv; reflexivity. }
  destruct (is_empty_node n a) eqn:Em.
  - inv_ok E. split; [constructor|]. intro Ha. discriminate (Hne Ha).
  - destruct n as [m e priv|m op l r].
    + destruct e as [|txt|st|ns]; try discriminate.
      * inv_bind E. destruct a0 as [[pos cs] label]. inv_bind E. inv_ok E. split; [|reflexivity].
        constructor; [|constructor]. cbn [bin_ok]. split; [exact I|]. apply bin_ok_children. eapply props_of_bin; eassumption.
      * inv_bind E. inv_ok E. split; [|reflexivity]. constructor; [|constructor]. eapply tree_step_bin; eassumption.
      * destruct ns as [|[m' e' priv'|] rest]; try discriminate.
        destruct e' as [| |st|]; try discriminate.
        inv_bind E. inv_ok E. split; [|reflexivity]. constructor; [|constructor]. eapply tree_step_bin; eassumption.
    + rewrite Hbin in E. inv_bind E. inv_bind E. cbv iota in E. inv_bind E. destruct a2 as [[pos cs] label]. inv_bind E. inv_ok E.
      split; [|reflexivity]. constructor; [|constructor].
      destruct (H _ _ _ _ _ E0) as [Fl Ll]. destruct (H _ _ _ _ _ E1) as [Fr Lr].
      rewrite (props_of_comb T o jn _ _ _ _ _ _ _ _ _ _ E2). rewrite app_nil_r.
      cbn [bin_ok]. split.
      * rewrite app_length, Ll, Lr by discriminate. reflexivity.
      * apply bin_ok_children, Forall_app. split; assumption.
Qed.
End Step.

Theorem jn_binary fuel : BIN (jn T o fuel).
Proof.
  induction fuel as [|f IH]; cbn [jn].
  - intros s n a lvl js E. discriminate.
  - apply node_step_bin, IH.
Qed.
End Bin.

(* ---------------------------------------------------------------- C17: members only when selected *)
Fixpoint no_member (sel : jnode -> option str) (j : jnode) : Prop :=
  sel j = None /\
  (fix go (l : list jnode) := match l with [] => True | x :: t => no_member sel x /\ go t end) (jn_children j).
Lemma no_member_children sel cs :
  (fix go (l : list jnode) := match l with [] => True | x :: t => no_member sel x /\ go t end) cs <-> Forall (no_member sel) cs.
Proof. induction cs as [|x cs IH]; cbn; split; intro H; auto; [destruct H; constructor; tauto|inversion H; subst; tauto]. Qed.

Section Members.
Variable T : vis_tables.
Variable o : vopts.
Variable sel : jnode -> option str.
(* sel is the dov member with DoV off, or the anno member with annotations off *)
Hypothesis Hsel : (sel = jn_dov /\ o_dov o = false) \/ (sel = jn_anno /\ o_anno o = false).

Lemma sel_none k name comp lvl hc cs pos prop m a n d :
  dov_of T o n = Ok d -> sel (JN k name comp lvl hc cs pos prop (anno_of o m a) d) = None.
Proof.
  intro E. destruct Hsel as [[-> Hd]|[-> Ha]]; cbn.
  - unfold dov_of in E. rewrite Hd in E. inv_ok E. reflexivity.
  - unfold anno_of. rewrite Ha. reflexivity.
Qed.

Definition NOM (jn : jn_t) : Prop := forall s n a lvl js, jn s n a lvl = Ok js -> Forall (no_member sel) js.

Section Step.
Variable jn : jn_t.
Hypothesis H : NOM jn.

Lemma prop_children_nom s lvl ps : forall cs, prop_children jn s lvl ps = Ok cs -> Forall (no_member sel) cs.
Proof.
  induction ps as [|p ps IH]; intros cs E; cbn [prop_children] in E.
  - inv_ok E. constructor.
  - inv_bind E. inv_bind E. inv_ok E. apply Forall_app. split; [apply (H _ _ _ _ _ E0)|apply IH, E1].
Qed.
Lemma props_of_nom s n a lvl pos cs label : props_of T o jn s n a lvl = Ok (pos, cs, label) -> Forall (no_member sel) cs.
Proof.
  unfold props_of.
  match goal with |- (if ?c then _ else _) = _ -> _ => destruct c end; [|intro E; inv_ok E; inversion Eq; subst; constructor].
  intro E. inv_bind E. destruct a0 as [|p ps]; [inv_ok E; inversion Eq; subst; constructor|].
  destruct (o_flat o); inv_bind E; inv_ok E; inversion Eq; subst; [constructor|].
  eapply prop_children_nom; eassumption.
Qed.
Lemma json_children_nom st lvl cs : forall js, json_children jn st lvl cs = Ok js -> Forall (no_member sel) js.
Proof.
  induction cs as [|v cs IH]; intros js E; cbn [json_children] in E.
  - inv_ok E. constructor.
  - destruct (printable v); [|apply IH, E].
    inv_bind E. inv_bind E. inv_ok E. apply Forall_app. split; [apply (H _ _ _ _ _ E0)|apply IH, E1].
Qed.
Lemma tree_step_nom st parent lvl j : json_tree_step T o jn st parent lvl = Ok j -> no_member sel j.
Proof.
  unfold json_tree_step. intro E. inv_bind E. inv_bind E. inv_bind E. inv_ok E.
  cbn [no_member jn_children]. split.
  - destruct parent as [[p a']|].
    + apply (sel_none _ _ _ _ _ _ _ _ (node_meta p) a' p a0 E1).
    + inv_ok E1. destruct Hsel as [[-> _]|[-> _]]; reflexivity.
  - apply no_member_children. eapply json_children_nom; eassumption.
Qed.

Lemma node_step_nom : NOM (json_node_step T o jn (json_tree_step T o jn)).
Proof.
  intros s n a lvl js E. unfold json_node_step in E.
  destruct (is_empty_node n a); [inv_ok E; constructor|].
  destruct n as [m e priv|m op l r].
  - destruct e as [|txt|st|ns]; try discriminate.
    + inv_bind E. destruct a0 as [[pos cs] label]. inv_bind E. inv_ok E.
      constructor; [|constructor]. cbn [no_member jn_children]. split.
      * eapply sel_none; eassumption.
      * apply no_member_children. eapply props_of_nom; eassumption.
    + inv_bind E. inv_ok E. constructor; [|constructor]. eapply tree_step_nom; eassumption.
    + destruct ns as [|[m' e' priv'|] rest]; try discriminate.
      destruct e' as [| |st|]; try discriminate.
      inv_bind E. inv_ok E. constructor; [|constructor]. eapply tree_step_nom; eassumption.
  - inv_bind E. inv_bind E.
    match type of E with (if ?c then _ else _) = _ => destruct c end.
    + inv_ok E. apply Forall_app. split; [apply (H _ _ _ _ _ E0)|apply (H _ _ _ _ _ E1)].
    + inv_bind E. destruct a2 as [[pos cs] label]. inv_bind E. inv_ok E.
      constructor; [|constructor]. cbn [no_member jn_children]. split.
      * eapply sel_none; eassumption.
      * apply no_member_children. apply Forall_app. split; [apply (H _ _ _ _ _ E0)|].
        apply Forall_app. split; [apply (H _ _ _ _ _ E1)|eapply props_of_nom; eassumption].
Qed.
End Step.

Theorem jn_no_member fuel : NOM (jn T o fuel).
Proof.
  induction fuel as [|f IH]; cbn [jn].
  - intros s n a lvl js E. discriminate.
  - apply node_step_nom, IH.
Qed.
End Members.
