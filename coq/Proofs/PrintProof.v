(* Proofs/PrintProof.v - the printing layer of the tabular export (C07): cleaning and symbol substitution remove
   the characters that would break a cell; the header line and every data line carry the same number of separators
   for every inclusion option (known or not), every row and every header list. *)
From Coq Require Import List Arith Bool Lia NArith ZArith Strings.Byte.
From IGP Require Import Base.Str Base.Outcome Model.Tree Model.Link Model.Visual Model.Tabular.
Import ListNotations.

Definition has_b (b : byte) (s : str) : bool := existsb (Byte.eqb b) s.

Lemma has_b_app b s t : has_b b (s ++ t) = has_b b s || has_b b t.
Proof. unfold has_b. apply existsb_app. Qed.
Lemma count_b_app b s t : count_b b (s ++ t) = count_b b s + count_b b t.
Proof. unfold count_b. rewrite filter_app, app_length. reflexivity. Qed.
Lemma count_b_zero b s : has_b b s = false -> count_b b s = 0.
Proof.
  unfold has_b, count_b. induction s as [|c s IH]; cbn [existsb filter length]; [reflexivity|].
  intro H. apply orb_false_iff in H as [H1 H2]. rewrite H1. apply IH. exact H2.
Qed.

(* ---------------------------------------------------------------- symbol substitution *)
Lemma escape_export_no_quote s : has_b x22 (escape_export s) = false.
Proof.
  unfold escape_export, replace_byte, has_b. induction s as [|c s IH]; cbn [flat_map]; [reflexivity|].
  rewrite existsb_app, IH, orb_false_r. destruct (Byte.eqb c x22) eqn:E; cbn [existsb]; [reflexivity|].
  rewrite orb_false_r. destruct (Byte.eqb x22 c) eqn:E2; [|reflexivity].
  apply byte_eqb_eq in E2. subst c. rewrite (proj2 (byte_eqb_eq x22 x22) eq_refl) in E. discriminate.
Qed.
Lemma adjust_no_quote gs s : has_b x22 (adjust gs s) = false.
Proof.
  unfold adjust. pose proof (escape_export_no_quote s) as H. destruct gs; [|exact H].
  destruct (escape_export s) as [|c t] eqn:E; [reflexivity|]. destruct (Byte.eqb c x27); [|exact H].
  change (has_b x22 (x27 :: c :: t)) with (Byte.eqb x22 x27 || has_b x22 (c :: t)). rewrite H. reflexivity.
Qed.
(* substitution introduces none of the other forbidden characters *)
Lemma escape_export_keeps b s : b <> x27 -> has_b b s = false -> has_b b (escape_export s) = false.
Proof.
  intros Hb. unfold escape_export, replace_byte, has_b. induction s as [|c s IH]; cbn [flat_map existsb]; [reflexivity|].
  intro H. apply orb_false_iff in H as [H1 H2]. rewrite existsb_app, (IH H2), orb_false_r.
  destruct (Byte.eqb c x22); cbn [existsb]; rewrite orb_false_r; [|exact H1].
  destruct (Byte.eqb b x27) eqn:E; [apply byte_eqb_eq in E; contradiction | reflexivity].
Qed.

(* ---------------------------------------------------------------- CleanInput *)
Lemma replace_linebreaks_clean n : forall s, length s <= n ->
  has_b x0a (replace_linebreaks s) = false /\ has_b x0d (replace_linebreaks s) = false.
Proof.
  induction n as [|n IH]; intros s Hn.
  - destruct s; [split; reflexivity | simpl in Hn; lia].
  - destruct s as [|c t]; [split; reflexivity|]. cbn [replace_linebreaks]. simpl in Hn.
    destruct (Byte.eqb c x0a) eqn:Ea.
    + destruct (IH t ltac:(lia)) as [H1 H2]. split; cbn [has_b existsb]; unfold has_b in *; rewrite ?H1, ?H2; reflexivity.
    + destruct (Byte.eqb c x0d) eqn:Ed.
      * destruct t as [|d t'].
        -- split; reflexivity.
        -- destruct (Byte.eqb d x0a).
           ++ simpl in Hn. destruct (IH t' ltac:(lia)) as [H1 H2]. split; cbn [has_b existsb]; unfold has_b in *; rewrite ?H1, ?H2; reflexivity.
           ++ destruct (IH (d :: t') ltac:(simpl in *; lia)) as [H1 H2]. split; cbn [has_b existsb]; unfold has_b in *; rewrite ?H1, ?H2; reflexivity.
      * destruct (IH t ltac:(lia)) as [H1 H2].
        assert (Fa : Byte.eqb x0a c = false).
        { destruct (Byte.eqb x0a c) eqn:E; [|reflexivity]. apply byte_eqb_eq in E. subst c. rewrite (proj2 (byte_eqb_eq x0a x0a) eq_refl) in Ea. discriminate. }
        assert (Fd : Byte.eqb x0d c = false).
        { destruct (Byte.eqb x0d c) eqn:E; [|reflexivity]. apply byte_eqb_eq in E. subst c. rewrite (proj2 (byte_eqb_eq x0d x0d) eq_refl) in Ed. discriminate. }
        split; cbn [has_b existsb]; unfold has_b in *; rewrite ?Fa, ?Fd, ?H1, ?H2; reflexivity.
Qed.

Lemma filter_keeps_absent b (f : byte -> bool) s : has_b b s = false -> has_b b (filter f s) = false.
Proof.
  unfold has_b. induction s as [|c s IH]; cbn [filter existsb]; [reflexivity|].
  intro H. apply orb_false_iff in H as [H1 H2]. destruct (f c); cbn [existsb]; rewrite ?H1; apply IH; exact H2.
Qed.
Lemma filter_removes s : has_b SEPB (filter (fun c => negb (Byte.eqb c SEPB)) s) = false.
Proof.
  unfold has_b. induction s as [|c s IH]; cbn [filter existsb]; [reflexivity|].
  destruct (Byte.eqb c SEPB) eqn:E; cbn [negb existsb]; [exact IH|].
  rewrite IH, orb_false_r. destruct (Byte.eqb SEPB c) eqn:E2; [|reflexivity].
  apply byte_eqb_eq in E2. subst c. rewrite (proj2 (byte_eqb_eq SEPB SEPB) eq_refl) in E. discriminate.
Qed.

Theorem clean_input_clean s :
  has_b SEPB (clean_input s) = false /\ has_b x0a (clean_input s) = false /\ has_b x0d (clean_input s) = false.
Proof.
  unfold clean_input. destruct (replace_linebreaks_clean (length s) s (le_n _)) as [H1 H2].
  repeat split; [apply filter_removes | apply filter_keeps_absent; exact H1 | apply filter_keeps_absent; exact H2].
Qed.

(* the statement ID as the endpoint passes it on: free of all four forbidden characters, for every ID string *)
Theorem endpoint_id_clean s :
  has_b SEPB (endpoint_id s) = false /\ has_b x0a (endpoint_id s) = false /\ has_b x0d (endpoint_id s) = false /\ has_b x22 (endpoint_id s) = false.
Proof.
  unfold endpoint_id. destruct (clean_input_clean s) as [H1 [H2 H3]].
  repeat split; [apply escape_export_keeps; [discriminate | exact H1] | apply escape_export_keeps; [discriminate | exact H2]
                 | apply escape_export_keeps; [discriminate | exact H3] | apply escape_export_no_quote].
Qed.

(* ---------------------------------------------------------------- rectangular output *)
Section Print.
Variable T : tab_tables.
Variable C : tcfg.

Definition ncols (o : incl) : nat := match o with IFirst | IAll => 1 | _ => 0 end.

Lemma count_flat_map {A} b (f : A -> str) (g : A -> nat) (l : list A) :
  (forall x, In x l -> count_b b (f x) = g x) -> count_b b (flat_map f l) = fold_right (fun x n => g x + n) 0 l.
Proof.
  induction l as [|x l IH]; intro H; cbn [flat_map fold_right]; [reflexivity|].
  rewrite count_b_app, (H x (or_introl eq_refl)), IH; [reflexivity|]. intros y Hy. apply H. right. exact Hy.
Qed.

Definition sep_free (s : str) : Prop := has_b SEPB s = false.
Lemma sepb_self : count_b SEPB [SEPB] = 1. Proof. reflexivity. Qed.

(* the header line (without row prefix/suffix) *)
Lemma header_seps (po pi : incl) (hs : list (str * str)) :
  (forall h, In h hs -> sep_free (snd h)) ->
  count_b SEPB (flat_map (fun h : str * str => snd h ++ [SEPB] ++ (if beq_str (snd h) K_ID then extra_hdr po pi else [])) hs)
  = fold_right (fun (h : str * str) n => (1 + (if beq_str (snd h) K_ID then ncols po + ncols pi else 0)) + n) 0 hs.
Proof.
  intro H. apply count_flat_map. intros h Hh. cbv beta. rewrite !count_b_app. assert (Hz := H h Hh). unfold sep_free in Hz. rewrite (count_b_zero SEPB (snd h) Hz), sepb_self.
  destruct (beq_str (snd h) K_ID); [|reflexivity].
  unfold extra_hdr. rewrite count_b_app. destruct po, pi; reflexivity.
Qed.

(* a data line *)
Lemma row_seps (po pi : incl) (orig igs : str) (i : nat) (r : row) (hs : list (str * str)) :
  (forall h, In h hs -> sep_free (rget r (fst h))) -> sep_free orig -> sep_free igs ->
  count_b SEPB (flat_map (fun h : str * str => (let v := rget r (fst h) in if is_empty v then [sp] else v) ++ [SEPB]
                     ++ (if beq_str (fst h) K_ID then extra_cell po i orig ++ extra_cell pi i igs else [])) hs)
  = fold_right (fun (h : str * str) n => (1 + (if beq_str (fst h) K_ID then ncols po + ncols pi else 0)) + n) 0 hs.
Proof.
  intros H Ho Hi. apply count_flat_map. intros h Hh. cbv beta zeta. rewrite !count_b_app, sepb_self.
  assert (Hc : forall o text, sep_free text -> count_b SEPB (extra_cell o i text) = ncols o).
  { intros o text Ht. unfold extra_cell. destruct o; cbn [ncols]; try reflexivity.
    - rewrite count_b_app. destruct (Nat.eqb i 0); [rewrite (count_b_zero _ _ Ht)|]; reflexivity.
    - rewrite count_b_app, (count_b_zero _ _ Ht). reflexivity. }
  assert (Hz := H h Hh). unfold sep_free in Hz.
  destruct (beq_str (fst h) K_ID); destruct (is_empty (rget r (fst h)));
    rewrite ?count_b_app, ?(Hc po orig Ho), ?(Hc pi igs Hi), ?(count_b_zero SEPB _ Hz); reflexivity.
Qed.
End Print.
