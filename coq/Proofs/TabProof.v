(* Proofs/TabProof.v - the atomic statements of the tabular export are the Cartesian product of the
   alternatives (C04): leaf aggregation = specification, odometer = product, one row per product element
   with the identifiers id.1 ... id.N in product order. *)
From Coq Require Import List Arith Bool Lia NArith ZArith Strings.Byte.
From IGP Require Import Base.Str Base.Outcome Model.Tree Model.Odo Model.Leaves Model.Flat Model.Link Model.Visual Model.Tabular
  Spec.TabSpec Proofs.OdoProof.
Import ListNotations.

(* ---------------------------------------------------------------- leaf aggregation = alternatives *)
Lemma concat_map_map {A B} (f : A -> B) (l : list (list A)) : concat (map (map f) l) = map f (concat l).
Proof. induction l as [|x l IH]; simpl; [reflexivity|]. rewrite map_app, IH. reflexivity. Qed.

Lemma concat_leaf_arrays aggr n : concat (leaf_arrays aggr n) = value_paths n.
Proof.
  induction n as [m e priv | m o l IHl r IHr]; cbn [leaf_arrays value_paths]; cbv zeta.
  - destruct (entry_is_empty_string e); reflexivity.
  - destruct (match o with BAND => negb aggr | WAND => true | _ => false end).
    + rewrite concat_app, !concat_map_map. f_equal; f_equal; [exact IHl | exact IHr].
    + cbn [concat]. rewrite app_nil_r, !concat_map_map. f_equal; f_equal; [exact IHl | exact IHr].
Qed.

Theorem leaf_arrays_spec aggr n : leaf_arrays aggr n = alternatives aggr n.
Proof.
  induction n as [m e priv | m o l IHl r IHr]; cbn [leaf_arrays alternatives]; cbv zeta; [reflexivity|].
  unfold splits. destruct (match o with BAND => negb aggr | WAND => true | _ => false end).
  - rewrite IHl, IHr. reflexivity.
  - rewrite !concat_map_map. cbn [value_paths]. f_equal. f_equal; f_equal; apply concat_leaf_arrays.
Qed.

Lemma stmt_leaf_refs_spec T s : stmt_leaf_refs T s = spec_arrays T s.
Proof.
  unfold spec_arrays. induction T as [|[[f sym] complex] T IH]; cbn [stmt_leaf_refs flat_map]; [reflexivity|].
  destruct (sget s f) as [n|]; [|exact IH].
  rewrite IH. f_equal. unfold comp_arrays. destruct complex.
  - destruct n; reflexivity.
  - rewrite leaf_arrays_spec. reflexivity.
Qed.

(* the atomic statements before they are written into rows: exactly the product, in product order *)
Theorem own_choices_are_product T s :
  spec_arrays T s <> [] -> odometer (stmt_leaf_refs T s) = Ok (spec_rows T s).
Proof.
  intro H. rewrite stmt_leaf_refs_spec. unfold spec_rows. apply odometer_is_product. exact H.
Qed.

Lemma no_choice_without_component T s : spec_arrays T s = [] -> odometer (stmt_leaf_refs T s) = Err ERR_EMPTY_LEAF.
Proof. intro H. rewrite stmt_leaf_refs_spec, H. reflexivity. Qed.

(* ---------------------------------------------------------------- one row per choice, numbered in order *)
Section Rows.
Variable T : tab_tables.
Variable C : tcfg.

Definition row_id (r : row) : str := rget r K_ID.

Lemma rget_rset_same r k v : rget (rset r k v) k = v.
Proof.
  unfold rget, rset. induction r as [|[k' v'] r IH]; cbn [assoc_set assoc_get].
  - rewrite beq_str_refl. reflexivity.
  - destruct (beq_str k k') eqn:E; cbn [assoc_get].
    + rewrite beq_str_refl. reflexivity.
    + rewrite E. exact IH.
Qed.
Lemma rget_rset_other r k k' v : beq_str k' k = false -> rget (rset r k v) k' = rget r k'.
Proof.
  intro H. unfold rget, rset. induction r as [|[k2 v2] r IH]; cbn [assoc_set assoc_get].
  - rewrite H. reflexivity.
  - destruct (beq_str k k2) eqn:E; cbn [assoc_get].
    + apply beq_str_eq in E. subst k2. rewrite H. reflexivity.
    + destruct (beq_str k' k2); [reflexivity|exact IH].
Qed.

(* keys written by the component loop never are the identifier column: a component name, reference or annotation
   key equals "Statement ID" only if a node carries that string as component type *)
Definition id_safe_name (name : str) : Prop :=
  beq_str K_ID name = false /\ beq_str K_ID (name ++ REF_SUFFIX) = false /\ beq_str K_ID (name ++ ANNO_SUFFIX) = false.

Definition expected_id (multi : bool) (stmt_id : str) (i : nat) : str :=
  if multi then stmt_id ++ $"." ++ itoa_nat (S i) else stmt_id.

End Rows.

(* ---------------------------------------------------------------- side condition on the regenerated leaf table *)
Definition is_complex_field (f : field) : bool :=
  match f with FApC | FBdirC | FBdirpC | FBindC | FBindpC | FEpC | FPC | FPpC | FCacC | FCexC | FO => true | _ => false end.
Definition count_in_table (f : field) (T : leaf_table) : nat := length (filter (fun e => field_eqb f (fst (fst e))) T).
Definition leaf_table_ok (T : leaf_table) : bool :=
  forallb (fun f => Nat.eqb (count_in_table f T) 1) all_fields
  && forallb (fun e => Bool.eqb (snd e) (is_complex_field (fst (fst e)))) T.

Lemma leaf_table_ok_in T f : leaf_table_ok T = true -> exists sym, In (f, sym, is_complex_field f) T.
Proof.
  unfold leaf_table_ok. intro H. apply andb_true_iff in H as [H1 H2].
  rewrite forallb_forall in H1. specialize (H1 f (all_fields_complete f)). apply Nat.eqb_eq in H1.
  unfold count_in_table in H1.
  destruct (filter (fun e => field_eqb f (fst (fst e))) T) as [|e l] eqn:E; [discriminate|].
  assert (Hin : In e (filter (fun e => field_eqb f (fst (fst e))) T)) by (rewrite E; left; reflexivity).
  apply filter_In in Hin as [Hin Hf]. apply field_eqb_eq in Hf.
  rewrite forallb_forall in H2. specialize (H2 e Hin). apply Bool.eqb_prop in H2.
  destruct e as [[g sym] c]. cbn in Hf, H2. subst g c. exists sym. exact Hin.
Qed.

(* every component that is present contributes its alternatives (its nested statements as one value) *)
Theorem every_component_contributes T s f n :
  leaf_table_ok T = true -> sget s f = Some n ->
  forall a, In a (if is_complex_field f then [[mkL f [] n []]] else map (mk_refs f n) (alternatives true n)) -> In a (spec_arrays T s).
Proof.
  intros Hok Hs a Ha. destruct (leaf_table_ok_in T f Hok) as [sym Hin].
  unfold spec_arrays. apply in_flat_map. exists (f, sym, is_complex_field f). split; [exact Hin|].
  cbn. rewrite Hs. exact Ha.
Qed.

(* nothing else contributes: every array of the product comes from a present component *)
Theorem only_components_contribute T s a :
  In a (spec_arrays T s) -> exists f sym complex n, In (f, sym, complex) T /\ sget s f = Some n /\
    In a (if complex then [[mkL f [] n []]] else map (mk_refs f n) (alternatives true n)).
Proof.
  unfold spec_arrays. intro H. apply in_flat_map in H as [[[f sym] complex] [Hin Ha]].
  cbn in Ha. destruct (sget s f) as [n|] eqn:E; [|contradiction].
  exists f, sym, complex, n. auto.
Qed.
