(* Proofs/RowIds.v - the identifiers of the own rows of a statement (C04, C06): row i of the row loop carries
   id.(i+1) (or the plain id for a single row) in its "Statement ID" cell - provided no component of the statement is
   itself called "Statement ID" (nothing the parser produces is) -, hence the own rows have pairwise different
   identifiers. *)
From Coq Require Import List Arith Bool Lia Strings.Byte.
From IGP Require Import Base.Str Base.Outcome Model.Tree Model.Odo Model.Leaves Model.Link Model.Tabular Spec.TabSpec
  Model.Visual Proofs.OdoProof Proofs.TabProof Proofs.ItoaProof Proofs.IdProof.
Import ListNotations.

Section R.
Variable T : tab_tables.
Variable C : tcfg.
Notation idc r := (rget r K_ID).

Lemma append_cell_other r k v : beq_str K_ID k = false -> idc (append_cell r k v) = idc r.
Proof. intro H. unfold append_cell. apply rget_rset_other. exact H. Qed.

Definition name_safe (name : str) : Prop :=
  beq_str K_ID name = false /\ beq_str K_ID (name ++ REF_SUFFIX) = false /\ beq_str K_ID (name ++ ANNO_SUFFIX) = false.
Definition priv_safe (pv : node) : Prop := name_safe (comp_name (node_meta pv) []).
Definition lref_safe (x : lref) : Prop :=
  name_safe (comp_name (node_meta (l_n x)) (l_a x)) /\
  match l_n x with Leaf _ _ priv => Forall priv_safe priv | Comb _ _ _ _ => True end.

Lemma priv_elems_id x pv i sid : priv_safe pv -> forall vs r reg j r' reg',
  priv_elems T C r reg x pv i j vs sid = Ok (r', reg') -> idc r' = idc r.
Proof.
  intros [H1 [H2 _]]. induction vs as [|v t IH]; intros r reg j r' reg' H; cbn [priv_elems] in H.
  - inversion H; subst. reflexivity.
  - destruct (t_ext C).
    + destruct (new_nested_id reg _ v sid) as [reg1 id]. apply IH in H. rewrite H. apply append_cell_other. exact H2.
    + destruct (sflat T v) as [fl|e|k|k|]; cbn [bind] in H; try discriminate. apply IH in H. rewrite H. apply append_cell_other. exact H1.
Qed.

Lemma priv_loop_id x sid : forall pvs, Forall priv_safe pvs -> forall r reg i r' reg',
  priv_loop T C r reg x i pvs sid = Ok (r', reg') -> idc r' = idc r.
Proof.
  induction pvs as [|pv t IH]; intros Hs r reg i r' reg' H; cbn [priv_loop] in H.
  - inversion H; subst. reflexivity.
  - inversion Hs as [|? ? Hpv Ht]; subst.
    assert (Hstep : forall rr, (match pv with
                | Leaf m (EStmt s) _ => priv_elems T C r reg x pv i 0 [Leaf meta0 (EStmt s) []] sid
                | Leaf m (ENodes vs) _ => priv_elems T C r reg x pv i 0 vs sid
                | Leaf m (EStr s) _ => Ok (append_cell r (comp_name m []) (adjust (t_gs C) s), reg)
                | _ => Ok (r, reg)
                end) = Ok rr -> idc (fst rr) = idc r).
    { intros [r1 reg1] E. cbn [fst]. destruct pv as [m e pr|m o l0 r0].
      - destruct e as [|s|st|ns].
        + inversion E; subst. reflexivity.
        + inversion E; subst. apply append_cell_other. exact (proj1 Hpv).
        + exact (priv_elems_id x _ i sid Hpv _ _ _ _ _ _ E).
        + exact (priv_elems_id x _ i sid Hpv _ _ _ _ _ _ E).
      - inversion E; subst. reflexivity. }
    destruct (match pv with
                | Leaf m (EStmt s) _ => priv_elems T C r reg x pv i 0 [Leaf meta0 (EStmt s) []] sid
                | Leaf m (ENodes vs) _ => priv_elems T C r reg x pv i 0 vs sid
                | Leaf m (EStr s) _ => Ok (append_cell r (comp_name m []) (adjust (t_gs C) s), reg)
                | _ => Ok (r, reg)
                end) as [rr|e|k|k|] eqn:E; cbn [bind] in H; try discriminate.
    apply (IH Ht) in H. rewrite H. exact (Hstep rr eq_refl).
Qed.

Lemma complex_loop_id key sid : beq_str K_ID key = false -> forall vs r reg r' reg',
  complex_loop T C r reg key vs sid = Ok (r', reg') -> idc r' = idc r.
Proof.
  intro Hk. induction vs as [|v t IH]; intros r reg r' reg' H; cbn [complex_loop] in H.
  - inversion H; subst. reflexivity.
  - cbv zeta in H. destruct (t_ext C).
    + destruct (new_nested_id reg _ (l_n v) sid) as [reg1 id]. apply IH in H. rewrite H. apply rget_rset_other. exact Hk.
    + destruct (sflat T (l_n v)) as [fl|e|k|k|]; cbn [bind] in H; try discriminate. apply IH in H. rewrite H. apply rget_rset_other. exact Hk.
Qed.

Lemma comps_loop_id s sid : forall xs, Forall lref_safe xs -> forall r reg lv lms r' reg' lv',
  comps_loop T C s r reg lv xs lms sid = Ok (r', reg', lv') -> idc r' = idc r.
Proof.
  induction xs as [|x t IH]; intros Hs r reg lv lms r' reg' lv' H; cbn [comps_loop] in H.
  - inversion H; subst. reflexivity.
  - inversion Hs as [|? ? Hx Ht]; subst. destruct Hx as [[N1 [N2 N3]] Hp]. cbv zeta in H.
    set (name := comp_name (node_meta (l_n x)) (l_a x)) in *.
    match type of H with bind ?e _ = _ => destruct e as [rr|e0|k|k|] eqn:E end; cbn [bind] in H; try discriminate.
    destruct (comp_links s lv x _ sid) as [lv1|e0|k|k|]; cbn [bind] in H; try discriminate.
    apply (IH Ht) in H. rewrite H. clear H IH. destruct rr as [r1 reg1]. cbn [fst].
    destruct (Visual.is_empty_node (l_n x) (l_a x)); [inversion E; subst; reflexivity|].
    destruct (l_n x) as [m e pr|m o l0 r0] eqn:En.
    + destruct e as [|ev|st|ns].
      * exact (complex_loop_id _ sid N2 _ _ _ _ _ E).
      * destruct (prim_cell (rget r name) x ev) as [v skip].
        match type of E with bind ?e _ = _ => destruct e as [r2|e0|k|k|] eqn:E2 end; cbn [bind] in E; try discriminate.
        destruct r2 as [r2 reg2]. cbn [fst snd] in E.
        pose proof (priv_loop_id x sid pr Hp _ _ _ _ _ E2) as Hpl.
        assert (Hbase : idc r2 = idc r). { rewrite Hpl. apply rget_rset_other. exact N1. }
        inversion E as [[Hr1 Hreg1]]. clear E.
        destruct (t_anno C && annot_set (get_annotations m (l_a x))); [|exact Hbase].
        rewrite append_cell_other by exact N3. exact Hbase.
      * exact (complex_loop_id _ sid N2 _ _ _ _ _ E).
      * exact (complex_loop_id _ sid N2 _ _ _ _ _ E).
    + exact (complex_loop_id _ sid N2 _ _ _ _ _ E).
Qed.

Definition sub_of (multi : bool) (sid : str) (ct : nat) : str := if multi then sid ++ $"." ++ itoa_nat (S ct) else sid.

Theorem rows_loop_ids s anno sl : forall rows, Forall (Forall lref_safe) rows -> forall lms multi ct reg sid acc out reg',
  rows_loop T C s anno sl rows lms multi ct reg sid acc = Ok (out, reg') ->
  map (fun r => idc r) out = map (fun r => idc r) (rev acc) ++ map (sub_of multi sid) (seq ct (length rows)).
Proof.
  induction rows as [|xs t IH]; intros Hs lms multi ct reg sid acc out reg' H; cbn [rows_loop] in H.
  - inversion H; subst. cbn [length seq map]. rewrite app_nil_r. reflexivity.
  - inversion Hs as [|? ? Hx Ht]; subst. cbv zeta in H.
    match type of H with bind ?e _ = _ => destruct e as [[[r2 regx] lv]|e0|k|k|] eqn:E end; cbn [bind] in H; try discriminate.
    apply (IH Ht) in H. rewrite H. cbn [rev length seq map]. rewrite map_app. cbn [map]. rewrite <- app_assoc. cbn [app]. f_equal. f_equal.
    pose proof (comps_loop_id s sid xs Hx _ _ _ _ _ _ _ E) as Hid.
    assert (Hr0 : idc r2 = sub_of multi sid ct).
    { rewrite Hid. unfold sub_of. destruct anno as [a|]; [destruct (t_anno C)|];
        rewrite ?rget_rset_other by reflexivity; apply rget_rset_same. }
    destruct (is_empty lv), (is_empty sl); rewrite ?rget_rset_other by reflexivity; exact Hr0.
Qed.

(* the own rows of a statement with more than one atomic statement: id.1 ... id.N, pairwise different *)
Corollary own_row_ids_distinct s anno sl rows lms reg sid out reg' : Forall (Forall lref_safe) rows ->
  rows_loop T C s anno sl rows lms true 0 reg sid [] = Ok (out, reg') ->
  map (fun r => idc r) out = map (fun i => sid ++ $"." ++ itoa_nat (S i)) (seq 0 (length rows)) /\ NoDup (map (fun r => idc r) out).
Proof.
  intros Hs H. pose proof (rows_loop_ids s anno sl rows Hs _ _ _ _ _ _ _ _ H) as E. cbn [rev map app] in E.
  split; [exact E|]. rewrite E. clear.
  assert (Hinj : forall a b, sid ++ $"." ++ itoa_nat (S a) = sid ++ $"." ++ itoa_nat (S b) -> a = b).
  { intros a b Hab. apply app_inv_head in Hab. apply app_inv_head in Hab. apply itoa_nat_injective in Hab. lia. }
  generalize 0. induction (length rows) as [|n IH]; intro st; cbn [seq map]; constructor.
  - intro Hin. apply in_map_iff in Hin. destruct Hin as [j [Ej Hj]]. apply Hinj in Ej. apply in_seq in Hj. lia.
  - apply IH.
Qed.
End R.
