(* Proofs/Sched.v - C14, generic part: concurrent requests under one lock.
   Every request runs  Lock; program of its page; Unlock  on the shared global state; a schedule is any list of thread
   numbers ("let thread i perform its next step if it can"; a blocked or finished thread's turn is a no-op).
   Generalises notes/calibration/Hist.v: every thread has its own program, and globals that no program assigns
   ("stable") count as known.  Theorem: whatever the schedule, a request that has been answered got the answer it
   gets when it is processed alone from the initial state. *)
From Coq Require Import List Bool Arith Lia.
From IGP Require Import Proofs.Hist.
Import ListNotations.

Section Sched.
Variable gvar : Type.
Variable gvar_eqb : gvar -> gvar -> bool.
Hypothesis gvar_eqb_spec : forall a b, reflect (a = b) (gvar_eqb a b).
Variables request response value : Type.
Notation gstate := (gvar -> value).
Notation instr := (Hist.instr gvar request response value).
Notation exec := (Hist.exec gvar gvar_eqb request response value).
Notation upd := (Hist.upd gvar gvar_eqb value).

Variable stable : list gvar.                (* globals that no thread's program assigns *)
Definition assigns (p : list instr) : list gvar := flat_map (fun i => match i with ISet _ _ _ _ g _ => [g] | _ => [] end) p.
Definition prog_ok (p : list instr) : Prop :=
  covers_from gvar gvar_eqb request response value stable p = true /\ frame_ok gvar request response value p /\
  (forall g, In g (assigns p) -> ~ In g stable).

Inductive phase := NotStarted | Inside (rest : list instr) | Finished.
Record thread := { t_req : request; t_body : list instr; t_phase : phase; t_out : option response }.
Record sys := { glob : gstate; holder : option nat; threads : list thread }.

Fixpoint set_thread (ts : list thread) (i : nat) (t : thread) : list thread :=
  match ts, i with
  | [], _ => []
  | _ :: r, 0 => t :: r
  | x :: r, S i' => x :: set_thread r i' t
  end.

Definition step (y : sys) (i : nat) : sys :=
  match nth_error (threads y) i with
  | None => y
  | Some t =>
    match t_phase t with
    | Finished => y
    | NotStarted =>
      match holder y with
      | Some _ => y                                            (* blocked on the lock *)
      | None => {| glob := glob y; holder := Some i;
                   threads := set_thread (threads y) i {| t_req := t_req t; t_body := t_body t; t_phase := Inside (t_body t); t_out := None |} |}
      end
    | Inside [] =>                                              (* Unlock *)
      {| glob := glob y; holder := None;
         threads := set_thread (threads y) i {| t_req := t_req t; t_body := t_body t; t_phase := Finished; t_out := t_out t |} |}
    | Inside (ISet _ _ _ _ g e :: rest) =>
      {| glob := upd (glob y) g (rhs_fun _ _ _ e (t_req t) (glob y)); holder := holder y;
         threads := set_thread (threads y) i {| t_req := t_req t; t_body := t_body t; t_phase := Inside rest; t_out := t_out t |} |}
    | Inside (IConvert _ _ _ _ _ conv :: rest) =>
      {| glob := glob y; holder := holder y;
         threads := set_thread (threads y) i {| t_req := t_req t; t_body := t_body t; t_phase := Inside rest;
                                                t_out := Some (conv (t_req t) (glob y)) |} |}
    end
  end.

Definition run_sched (y : sys) (sch : list nat) : sys := fold_left step sch y.
Definition init_sys (g0 : gstate) (ts : list (request * list instr)) : sys :=
  {| glob := g0; holder := None;
     threads := map (fun rb => {| t_req := fst rb; t_body := snd rb; t_phase := NotStarted; t_out := None |}) ts |}.

Definition solo (t : thread) (g : gstate) : option response := snd (exec (t_body t) (t_req t) g None).

(* what remains to be executed only assigns non-stable globals *)
Definition rest_ok (rest : list instr) : Prop := forall g, In g (assigns rest) -> ~ In g stable.

Definition thread_ok (y : sys) (g0 : gstate) (i : nat) (t : thread) : Prop :=
  prog_ok (t_body t) /\
  match t_phase t with
  | NotStarted => holder y <> Some i
  | Inside rest => holder y = Some i /\ rest_ok rest /\ snd (exec rest (t_req t) (glob y) (t_out t)) = solo t g0
  | Finished => holder y <> Some i /\ t_out t = solo t g0
  end.
Definition inv (g0 : gstate) (y : sys) : Prop :=
  agree gvar value stable (glob y) g0 /\
  forall i t, nth_error (threads y) i = Some t -> thread_ok y g0 i t.

Lemma nth_error_set_same ts i t t0 : nth_error ts i = Some t0 -> nth_error (set_thread ts i t) i = Some t.
Proof. revert i; induction ts as [|x r IH]; intros [|i] H; cbn in *; try discriminate; auto. Qed.
Lemma nth_error_set_other ts i j t : i <> j -> nth_error (set_thread ts i t) j = nth_error ts j.
Proof. revert i j; induction ts as [|x r IH]; intros [|i] [|j] H; cbn; try congruence; auto. Qed.

(* the other threads are unaffected by a step of thread i that keeps the holder, as far as their own clause goes *)
Lemma others_kept (y : sys) g0 i (t' : thread) (gl : gstate) (hd : option nat) :
  (forall j tj, i <> j -> nth_error (threads y) j = Some tj -> thread_ok y g0 j tj ->
     thread_ok {| glob := gl; holder := hd; threads := set_thread (threads y) i t' |} g0 j tj) ->
  thread_ok {| glob := gl; holder := hd; threads := set_thread (threads y) i t' |} g0 i t' ->
  (forall j tj, nth_error (threads y) j = Some tj -> thread_ok y g0 j tj) ->
  forall t0, nth_error (threads y) i = Some t0 ->
  forall j tj, nth_error (set_thread (threads y) i t') j = Some tj ->
     thread_ok {| glob := gl; holder := hd; threads := set_thread (threads y) i t' |} g0 j tj.
Proof.
  intros Hoth Hme Hall t0 Ht0 j tj Ej. destruct (Nat.eq_dec i j) as [<-|Hne].
  - rewrite (nth_error_set_same _ _ _ _ Ht0) in Ej. injection Ej as <-. exact Hme.
  - rewrite nth_error_set_other in Ej by exact Hne. apply Hoth; auto.
Qed.

Lemma inv_step g0 y i : inv g0 y -> inv g0 (step y i).
Proof.
  intros [Hst HI]. unfold step. destruct (nth_error (threads y) i) as [t|] eqn:Et; [|split; assumption].
  pose proof (HI i t Et) as [Hprog Hi].
  destruct (t_phase t) as [|rest|] eqn:Ep; [| |split; assumption].
  - (* Lock *)
    destruct (holder y) as [h|] eqn:Eh; [split; assumption|].
    split; [exact Hst|]. cbn [threads].
    refine (others_kept y g0 i _ (glob y) (Some i) _ _ HI t Et).
    + intros j tj Hne Ej [Hpj Hj]. split; [exact Hpj|]. cbn [holder glob]. destruct (t_phase tj).
      * congruence.
      * destruct Hj as [Hj _]. congruence.
      * destruct Hj as [_ Hj]. split; [congruence|exact Hj].
    + split; [exact Hprog|]. cbn [t_phase holder glob t_req t_out]. split; [reflexivity|]. split.
      * destruct Hprog as [_ [_ Hp]]. exact Hp.
      * unfold solo. cbn [t_body t_req]. destruct Hprog as [Hc [Hf _]].
        apply (exec_agree gvar gvar_eqb gvar_eqb_spec request response value (t_body t) Hf stable Hc). exact Hst.
  - destruct Hi as [Hh [Hr Hs]]. destruct rest as [|[g e|reads conv] rest].
    + (* Unlock *)
      split; [exact Hst|]. cbn [threads].
      refine (others_kept y g0 i _ (glob y) None _ _ HI t Et).
      * intros j tj Hne Ej [Hpj Hj]. split; [exact Hpj|]. cbn [holder glob]. destruct (t_phase tj).
        -- congruence.
        -- destruct Hj as [Hj _]. rewrite Hh in Hj. congruence.
        -- destruct Hj as [_ Hj]. split; [congruence|exact Hj].
      * split; [exact Hprog|]. cbn [t_phase holder t_out]. split; [congruence|exact Hs].
    + (* a global write by the holder: never to a stable global *)
      assert (Hg : ~ In g stable) by (apply Hr; cbn [assigns flat_map app]; left; reflexivity).
      split.
      * cbn [glob]. intros v Hv. unfold Hist.upd. destruct (gvar_eqb_spec v g) as [->|Hne]; [contradiction|]. apply Hst. exact Hv.
      * cbn [threads].
        refine (others_kept y g0 i _ _ (holder y) _ _ HI t Et).
        -- intros j tj Hne Ej [Hpj Hj]. split; [exact Hpj|]. cbn [holder glob]. destruct (t_phase tj).
           ++ exact Hj.
           ++ destruct Hj as [Hj _]. rewrite Hh in Hj. congruence.
           ++ exact Hj.
        -- split; [exact Hprog|]. cbn [t_phase holder glob t_req t_out]. split; [exact Hh|]. split.
           ++ intros v Hv. apply Hr. cbn [assigns flat_map app]. right. exact Hv.
           ++ exact Hs.
    + (* the conversion by the holder *)
      split; [exact Hst|]. cbn [threads].
      refine (others_kept y g0 i _ (glob y) (holder y) _ _ HI t Et).
      * intros j tj Hne Ej [Hpj Hj]. split; [exact Hpj|]. cbn [holder glob]. destruct (t_phase tj).
        -- exact Hj.
        -- destruct Hj as [Hj _]. rewrite Hh in Hj. congruence.
        -- exact Hj.
      * split; [exact Hprog|]. cbn [t_phase holder glob t_req t_out]. split; [exact Hh|]. split; [|exact Hs].
        intros v Hv. apply Hr. exact Hv.
Qed.

Lemma inv_init g0 ts : (forall rb, In rb ts -> prog_ok (snd rb)) -> inv g0 (init_sys g0 ts).
Proof.
  intro Hok. split; [intros v _; reflexivity|].
  intros i t Ht. cbn [init_sys threads] in Ht. rewrite nth_error_map in Ht.
  destruct (nth_error ts i) as [rb|] eqn:E; [|discriminate]. injection Ht as <-.
  split; [apply Hok; eapply nth_error_In; exact E|]. cbn. congruence.
Qed.

Lemma inv_run g0 sch : forall y, inv g0 y -> inv g0 (run_sched y sch).
Proof. unfold run_sched. induction sch as [|j sch IH]; intros y Hy; [exact Hy|]. cbn [fold_left]. apply IH. apply inv_step. exact Hy. Qed.

(* C14: under EVERY schedule, a request that has been answered got the answer it gets when processed alone *)
Theorem schedule_independent g0 ts sch i t :
  (forall rb, In rb ts -> prog_ok (snd rb)) ->
  nth_error (threads (run_sched (init_sys g0 ts) sch)) i = Some t -> t_phase t = Finished ->
  t_out t = solo t g0.
Proof.
  intros Hok Ht Hp.
  pose proof (inv_run g0 sch _ (inv_init g0 ts Hok)) as [_ HI].
  pose proof (HI i t Ht) as [_ H]. rewrite Hp in H. destruct H as [_ H]. exact H.
Qed.

(* the request and the program of a thread never change *)
Lemma step_keeps_identity y i j t : nth_error (threads (step y i)) j = Some t ->
  exists t0, nth_error (threads y) j = Some t0 /\ t_req t0 = t_req t /\ t_body t0 = t_body t.
Proof.
  unfold step. destruct (nth_error (threads y) i) as [ti|] eqn:Ei; [|intro H; exists t; auto].
  assert (Hgen : forall t', t_req t' = t_req ti -> t_body t' = t_body ti -> forall gl hd,
            nth_error (threads {| glob := gl; holder := hd; threads := set_thread (threads y) i t' |}) j = Some t ->
            exists t0, nth_error (threads y) j = Some t0 /\ t_req t0 = t_req t /\ t_body t0 = t_body t).
  { intros t' Hr Hb gl hd H. cbn [threads] in H. destruct (Nat.eq_dec i j) as [<-|Hne].
    - rewrite (nth_error_set_same _ _ _ _ Ei) in H. injection H as <-. exists ti. auto.
    - rewrite nth_error_set_other in H by exact Hne. exists t. auto. }
  destruct (t_phase ti) as [|rest|]; [| |intro H; exists t; auto].
  - destruct (holder y); [intro H; exists t; auto|]. apply Hgen; reflexivity.
  - destruct rest as [|[g e|reads conv] rest]; apply Hgen; reflexivity.
Qed.
End Sched.
