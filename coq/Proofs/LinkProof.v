(* Proofs/LinkProof.v - FindLogicalLinkage returns exactly the operators on the tree path between two leaves
   (C05), for every tree and every pair of distinct leaves; the redundant re-exploration of grandchildren in
   searchDownward never succeeds and never disturbs the result. *)
From Coq Require Import List Arith Bool Lia NArith ZArith Strings.Byte.
From IGP Require Import Base.Str Base.Outcome Model.Tree Model.Link.
Import ListNotations.

Definition is_leaf_at (t : node) (p : path) : Prop := exists m e pr, subtree t p = Some (Leaf m e pr).
Definition suffix_of (sp tg : rpath) : Prop := exists e, tg = e ++ sp.

Lemma rpeq_refl a : rpeq a a = true. Proof. apply rpeq_eq. reflexivity. Qed.
Lemma rpeq_neq a b : a <> b -> rpeq a b = false.
Proof. intro H. destruct (rpeq a b) eqn:E; [apply rpeq_eq in E; contradiction | reflexivity]. Qed.

Lemma suffix_refl a : suffix_of a a. Proof. exists []. reflexivity. Qed.
Lemma suffix_cons_inv b sp tg : suffix_of (b :: sp) tg -> suffix_of sp tg.
Proof. intros [e H]. exists (e ++ [b]). rewrite <- app_assoc. exact H. Qed.
Lemma suffix_diff b b' sp e : suffix_of (b :: sp) (e ++ b' :: sp) -> b = b'.
Proof.
  intros [x H].
  assert (H2 : (e ++ [b']) ++ sp = (x ++ [b]) ++ sp) by (rewrite <- !app_assoc; exact H).
  apply app_inv_tail in H2. apply app_inj_tail in H2. destruct H2 as [_ H2]. congruence.
Qed.
Lemma no_self_suffix {A} (e : list A) b sp : sp <> e ++ b :: sp.
Proof. intro E. apply (f_equal (@length A)) in E. rewrite app_length in E. simpl in E. lia. Qed.
Lemma not_suffix_longer b sp : ~ suffix_of (b :: sp) sp.
Proof. intros [e H]. exact (no_self_suffix e b sp H). Qed.

(* ---------------------------------------------------------------- one side of searchDownward, as a function *)
Definition dfun := rpath -> rpath -> option node -> list op -> res (bool * list op).
Definition side_of (D : dfun) (last sp : rpath) (l r : node) (ops1 : list op) (d : bool) (k : res (bool * list op)) : res (bool * list op) :=
  let cp := d :: sp in
  if rpeq cp last then k else
  let c := Some (if d then r else l) in
  let* r1 := D cp cp c ops1 in
  match r1 with
  | (true, o2) => Ok (true, o2)
  | (false, ops2) =>
    let* r2 := D (false :: cp) (false :: cp) (child c false) ops2 in
    match r2 with
    | (true, o3) => Ok (true, o3)
    | (false, _) =>
      let* r3 := D (true :: cp) (true :: cp) (child c true) ops2 in
      match r3 with
      | (true, o3) => Ok (true, o3)
      | (false, _) => k
      end
    end
  end.

Lemma down_unfold f' last sp m o l r tg ops : rpeq sp tg = false ->
  down (S f') last sp (Some (Comb m o l r)) tg ops =
  let D : dfun := fun a b c o' => down f' a b c tg o' in
  side_of D last sp l r (ops ++ [o]) false (side_of D last sp l r (ops ++ [o]) true (Ok (false, ops ++ [o]))).
Proof. intro H. cbn [down]. rewrite H. reflexivity. Qed.

Lemma side_fail (D : dfun) last sp l r ops1 d k :
  (forall o, exists o', D (d :: sp) (d :: sp) (Some (if d then r else l)) o = Ok (false, o')) ->
  (forall o, exists o', D (false :: d :: sp) (false :: d :: sp) (child (Some (if d then r else l)) false) o = Ok (false, o')) ->
  (forall o, exists o', D (true :: d :: sp) (true :: d :: sp) (child (Some (if d then r else l)) true) o = Ok (false, o')) ->
  side_of D last sp l r ops1 d k = k.
Proof.
  intros H1 H2 H3. unfold side_of. destruct (rpeq (d :: sp) last); [reflexivity|].
  destruct (H1 ops1) as [o1 E1]. rewrite E1. cbn [bind].
  destruct (H2 o1) as [o2 E2]. rewrite E2. cbn [bind].
  destruct (H3 o1) as [o3 E3]. rewrite E3. reflexivity.
Qed.

Lemma side_found (D : dfun) last sp l r ops1 d k o2 :
  rpeq (d :: sp) last = false -> D (d :: sp) (d :: sp) (Some (if d then r else l)) ops1 = Ok (true, o2) ->
  side_of D last sp l r ops1 d k = Ok (true, o2).
Proof. intros H1 H2. unfold side_of. rewrite H1, H2. reflexivity. Qed.

Lemma side_skip (D : dfun) last sp l r ops1 d k : rpeq (d :: sp) last = true -> side_of D last sp l r ops1 d k = k.
Proof. intro H. unfold side_of. rewrite H. reflexivity. Qed.

Definition need (st : option node) : nat := match st with Some s => height s + 2 | None => 1 end.

(* ---------------------------------------------------------------- the target is not below the start node *)
Lemma need_grandchild (c : node) (d : bool) f : need (Some c) <= f -> need (child (Some c) d) <= f.
Proof. destruct c as [? ? ?|? ? cl cr]; cbn [need child height]; destruct d; lia. Qed.

Lemma down_fail f : forall st last sp tg ops, need st <= f -> ~ suffix_of sp tg -> exists o', down f last sp st tg ops = Ok (false, o').
Proof.
  induction f as [|f IH]; intros st last sp tg ops Hf Hs.
  - destruct st; simpl in Hf; lia.
  - destruct st as [s | ]; [ | exists ops; reflexivity].
    assert (Hne : rpeq sp tg = false) by (apply rpeq_neq; intro E; apply Hs; subst; apply suffix_refl).
    destruct s as [m e pr | m o l r].
    + exists ops. cbn [down]. rewrite Hne. reflexivity.
    + rewrite down_unfold by exact Hne. cbv zeta.
      assert (Hc : forall d : bool, need (Some (if d then r else l)) <= f) by (intro d; cbn [need height] in *; destruct d; lia).
      assert (Hside : forall (d : bool) k, side_of (fun a b c o' => down f a b c tg o') last sp l r (ops ++ [o]) d k = k).
      { intros d k. apply side_fail; intro o0; apply IH.
        - apply Hc.
        - intro Hsuf. apply Hs. eapply suffix_cons_inv; exact Hsuf.
        - apply need_grandchild, Hc.
        - intro Hsuf. apply Hs. eapply suffix_cons_inv, suffix_cons_inv; exact Hsuf.
        - apply need_grandchild, Hc.
        - intro Hsuf. apply Hs. eapply suffix_cons_inv, suffix_cons_inv; exact Hsuf. }
      exists (ops ++ [o]). rewrite !Hside. reflexivity.
Qed.

(* ---------------------------------------------------------------- the target is below the start node *)
Lemma down_found f : forall s sp d ops x, subtree s d = Some x -> need (Some s) <= f ->
  down f sp sp (Some s) (rev d ++ sp) ops = Ok (true, ops ++ ops_along s d).
Proof.
  induction f as [|f IH]; intros s sp d ops x Hsub Hf.
  - cbn [need] in Hf. lia.
  - destruct d as [|b d'].
    + cbn [rev app down]. rewrite rpeq_refl. destruct s; cbn [ops_along]; rewrite app_nil_r; reflexivity.
    + destruct s as [m e pr | m o l r]; [destruct b; discriminate|].
      assert (Htg : rev (b :: d') ++ sp = rev d' ++ b :: sp) by (cbn [rev]; rewrite <- app_assoc; reflexivity).
      rewrite Htg.
      assert (Hne : rpeq sp (rev d' ++ b :: sp) = false).
      { apply rpeq_neq. apply no_self_suffix. }
      rewrite down_unfold by exact Hne. cbv zeta.
      assert (Hc : forall d : bool, need (Some (if d then r else l)) <= f) by (intro d; cbn [need height] in *; destruct d; lia).
      assert (Hlast : forall d : bool, rpeq (d :: sp) sp = false).
      { intro d. apply rpeq_neq. intro E. symmetry in E. exact (no_self_suffix [] d sp E). }
      destruct b.
      * (* target in the right subtree: the left side fails, the right side finds it *)
        rewrite side_fail.
        -- rewrite (side_found _ _ _ _ _ _ _ _ ((ops ++ [o]) ++ ops_along r d')); [ | apply Hlast | ].
           ++ cbn [ops_along]. rewrite <- app_assoc. reflexivity.
           ++ cbn [subtree] in Hsub. exact (IH r (true :: sp) d' (ops ++ [o]) x Hsub (Hc true)).
        -- intro o0. apply down_fail; [apply (Hc false)|]. intro Hs. apply suffix_diff in Hs. discriminate.
        -- intro o0. apply down_fail; [apply need_grandchild, (Hc false)|]. intro Hs. apply suffix_cons_inv, suffix_diff in Hs. discriminate.
        -- intro o0. apply down_fail; [apply need_grandchild, (Hc false)|]. intro Hs. apply suffix_cons_inv, suffix_diff in Hs. discriminate.
      * rewrite (side_found _ _ _ _ _ _ _ _ ((ops ++ [o]) ++ ops_along l d')); [ | apply Hlast | ].
        -- cbn [ops_along]. rewrite <- app_assoc. reflexivity.
        -- cbn [subtree] in Hsub. exact (IH l (false :: sp) d' (ops ++ [o]) x Hsub (Hc false)).
Qed.

(* searching from the parent with the side one came from excluded: target on that side -> not found *)
Lemma down_excluded f m o l r sp (dp : bool) e ops :
  need (Some (Comb m o l r)) <= f ->
  exists o', down f (dp :: sp) sp (Some (Comb m o l r)) (e ++ dp :: sp) ops = Ok (false, o').
Proof.
  intro Hf. destruct f as [|f]; [cbn [need] in Hf; lia|].
  assert (Hne : rpeq sp (e ++ dp :: sp) = false).
  { apply rpeq_neq. apply no_self_suffix. }
  rewrite down_unfold by exact Hne. cbv zeta.
  assert (Hc : forall d : bool, need (Some (if d then r else l)) <= f) by (intro d; cbn [need height] in *; destruct d; lia).
  exists (ops ++ [o]).
  assert (Hother : forall k, side_of (fun a b c o' => down f a b c (e ++ dp :: sp) o') (dp :: sp) sp l r (ops ++ [o]) (negb dp) k = k).
  { intro k. apply side_fail; intro o0; apply down_fail.
    - apply Hc.
    - intro Hs. apply suffix_diff in Hs. destruct dp; discriminate.
    - apply need_grandchild, Hc.
    - intro Hs. apply suffix_cons_inv, suffix_diff in Hs. destruct dp; discriminate.
    - apply need_grandchild, Hc.
    - intro Hs. apply suffix_cons_inv, suffix_diff in Hs. destruct dp; discriminate. }
  destruct dp; cbn [negb] in Hother.
  - rewrite Hother. rewrite side_skip by apply rpeq_refl. reflexivity.
  - rewrite side_skip by apply rpeq_refl. rewrite Hother. reflexivity.
Qed.

(* ... target on the other side -> found, with the parent's operator and those below it *)
Lemma down_other f m o l r sp (dp dq : bool) d' ops x :
  dp <> dq -> subtree (if dq then r else l) d' = Some x -> need (Some (Comb m o l r)) <= f ->
  down f (dp :: sp) sp (Some (Comb m o l r)) (rev d' ++ dq :: sp) ops = Ok (true, ops ++ [o] ++ ops_along (if dq then r else l) d').
Proof.
  intros Hd Hsub Hf. destruct f as [|f]; [cbn [need] in Hf; lia|].
  assert (Hne : rpeq sp (rev d' ++ dq :: sp) = false).
  { apply rpeq_neq. apply no_self_suffix. }
  rewrite down_unfold by exact Hne. cbv zeta.
  assert (Hc : forall d : bool, need (Some (if d then r else l)) <= f) by (intro d; cbn [need height] in *; destruct d; lia).
  assert (Hfound : down f (dq :: sp) (dq :: sp) (Some (if dq then r else l)) (rev d' ++ dq :: sp) (ops ++ [o])
                   = Ok (true, (ops ++ [o]) ++ ops_along (if dq then r else l) d')) by (apply (down_found f _ _ _ _ x Hsub), Hc).
  assert (Hnl : rpeq (dq :: sp) (dp :: sp) = false) by (apply rpeq_neq; intro E; inversion E; congruence).
  rewrite <- app_assoc in Hfound.
  destruct dp, dq; try congruence.
  - (* came from the right, target on the left *)
    erewrite side_found; [reflexivity | exact Hnl | exact Hfound].
  - (* came from the left (skipped), target on the right *)
    rewrite side_skip by apply rpeq_refl. erewrite side_found; [reflexivity | exact Hnl | exact Hfound].
Qed.

(* ---------------------------------------------------------------- auxiliary facts on paths *)
Lemma subtree_app t p1 : forall p2, subtree t (p1 ++ p2) = match subtree t p1 with Some s => subtree s p2 | None => None end.
Proof.
  revert t. induction p1 as [|b p1 IH]; intros t p2.
  - destruct t; reflexivity.
  - destruct t as [m e pr | m o l r].
    + destruct b; reflexivity.
    + destruct b; cbn [app subtree]; apply IH.
Qed.
Lemma subtree_nil t : subtree t [] = Some t. Proof. destruct t; reflexivity. Qed.
Lemma height_subtree t : forall p s, subtree t p = Some s -> height s <= height t.
Proof.
  induction t as [m e pr | m o l IHl r IHr]; intros p s H.
  - destruct p as [|b p]; [inversion H; subst; lia | destruct b; discriminate].
  - destruct p as [|b p]; [inversion H; subst; lia|].
    destruct b; cbn [subtree] in H; [apply IHr in H | apply IHl in H]; cbn [height]; lia.
Qed.
Lemma ops_along_snoc t : forall p d m o l r, subtree t p = Some (Comb m o l r) -> ops_along t (p ++ [d]) = ops_along t p ++ [o].
Proof.
  induction t as [m0 e pr | m0 o0 l0 IHl r0 IHr]; intros p d m o l r H.
  - destruct p as [|b p]; [discriminate | destruct b; discriminate].
  - destruct p as [|b p].
    + inversion H; subst. cbn [app ops_along]. destruct d; [destruct r | destruct l]; reflexivity.
    + destruct b; cbn [subtree] in H; cbn [app ops_along]; f_equal; [eapply IHr | eapply IHl]; exact H.
Qed.
Lemma path_ops_split t : forall c (dp dq : bool) p2 q2 m o l r, subtree t c = Some (Comb m o l r) -> dp <> dq ->
  path_ops t (c ++ dp :: p2) (c ++ dq :: q2) = rev (ops_along (if dp then r else l) p2) ++ [o] ++ ops_along (if dq then r else l) q2.
Proof.
  induction t as [m0 e pr | m0 o0 l0 IHl r0 IHr]; intros c dp dq p2 q2 m o l r H Hd.
  - destruct c as [|b c]; [discriminate | destruct b; discriminate].
  - destruct c as [|b c].
    + inversion H; subst. cbn [app path_ops]. destruct dp, dq; try congruence; reflexivity.
    + cbn [app path_ops]. rewrite Bool.eqb_reflx. destruct b; cbn [subtree] in H; [eapply IHr | eapply IHl]; eassumption.
Qed.

Lemma diverge t : forall p q, is_leaf_at t p -> is_leaf_at t q -> p <> q ->
  exists c (dp dq : bool) p2 q2 m o l r, p = c ++ dp :: p2 /\ q = c ++ dq :: q2 /\ dp <> dq /\ subtree t c = Some (Comb m o l r)
    /\ is_leaf_at (if dp then r else l) p2 /\ is_leaf_at (if dq then r else l) q2.
Proof.
  induction t as [m0 e pr | m0 o0 l0 IHl r0 IHr]; intros p q [mp [ep [prp Hp]]] [mq [eq_ [prq Hq]]] Hne.
  - destruct p as [|b p]; [|destruct b; discriminate]. destruct q as [|b q]; [congruence | destruct b; discriminate].
  - destruct p as [|dp p]; [discriminate|]. destruct q as [|dq q]; [discriminate|].
    destruct (Bool.bool_dec dp dq) as [E | E].
    + subst dq. assert (Hne' : p <> q) by congruence.
      destruct dp; cbn [subtree] in Hp, Hq.
      * destruct (IHr p q (ex_intro _ mp (ex_intro _ ep (ex_intro _ prp Hp))) (ex_intro _ mq (ex_intro _ eq_ (ex_intro _ prq Hq))) Hne')
          as (c & dp & dq & p2 & q2 & m & o & l & r & H1 & H2 & H3 & H4 & H5 & H6).
        exists (true :: c), dp, dq, p2, q2, m, o, l, r. subst. repeat split; auto.
      * destruct (IHl p q (ex_intro _ mp (ex_intro _ ep (ex_intro _ prp Hp))) (ex_intro _ mq (ex_intro _ eq_ (ex_intro _ prq Hq))) Hne')
          as (c & dp & dq & p2 & q2 & m & o & l & r & H1 & H2 & H3 & H4 & H5 & H6).
        exists (false :: c), dp, dq, p2, q2, m, o, l, r. subst. repeat split; auto.
    + exists [], dp, dq, p, q, m0, o0, l0, r0. repeat split; auto.
      * exists mp, ep, prp. destruct dp; exact Hp.
      * exists mq, eq_, prq. destruct dq; exact Hq.
Qed.

(* rewriting the scrutinee of a bind with an equation that matches it only up to conversion (path = list bool) *)
Ltac rw_bind H :=
  match goal with
  | |- bind ?X _ = _ => match type of H with _ = ?Y => replace X with Y by (symmetry; exact H) end
  end.

(* ---------------------------------------------------------------- searchUpward *)
Section Up.
Variables (root : node) (c : path) (m : meta) (o : op) (l r : node) (dp dq : bool) (q2 : path) (x : node) (big : nat).
Hypothesis Hc : subtree root c = Some (Comb m o l r).
Hypothesis Hd : dp <> dq.
Hypothesis Hq : subtree (if dq then r else l) q2 = Some x.
Hypothesis Hbig : height root + 2 <= big.
Let Xp := if dp then r else l.
Let Xq := if dq then r else l.
Let tg := rev (c ++ dq :: q2).

Lemma tg_form : tg = rev q2 ++ dq :: rev c.
Proof. unfold tg. rewrite rev_app_distr. cbn [rev]. rewrite <- app_assoc. reflexivity. Qed.

Lemma up_spec : forall p2 f ops y, subtree Xp p2 = Some y -> length p2 < f ->
  up f big root (rev (c ++ dp :: p2)) tg ops = Ok (true, ops ++ rev (ops_along Xp p2) ++ [o] ++ ops_along Xq q2).
Proof.
  induction p2 as [|d p2' IH] using rev_ind; intros f ops y Hy Hf.
  - destruct f as [|f]; [simpl in Hf; lia|].
    rewrite rev_app_distr. cbn [rev app up]. rewrite rev_involutive, Hc. rewrite tg_form.
    assert (HD := down_other big m o l r (rev c) dp dq q2 ops x Hd Hq
                    ltac:(cbn [need]; pose proof (height_subtree root c _ Hc); lia)).
    rw_bind HD. cbn [bind]. unfold Xp, Xq. destruct dp; [destruct r | destruct l]; reflexivity.
  - destruct f as [|f]; [rewrite app_length in Hf; simpl in Hf; lia|].
    change (c ++ dp :: p2' ++ [d]) with (c ++ (dp :: p2') ++ [d]). rewrite app_assoc, (rev_app_distr _ [d]). cbn [rev app up]. rewrite rev_involutive.
    assert (Hsub : subtree root (c ++ dp :: p2') = subtree Xp p2').
    { rewrite subtree_app, Hc. unfold Xp. destruct dp; reflexivity. }
    match goal with |- context [subtree root ?P] => replace (subtree root P) with (subtree Xp p2') by (symmetry; exact Hsub) end.
    rewrite subtree_app in Hy. destruct (subtree Xp p2') as [s|] eqn:Es; [|discriminate].
    destruct s as [m' e' pr' | m' o' l' r']; [destruct d; discriminate|].
    destruct (down_fail big (Some (Comb m' o' l' r')) (d :: rev (c ++ dp :: p2')) (rev (c ++ dp :: p2')) tg ops) as [o1 E1].
    + cbn [need]. assert (H1 : subtree root (c ++ dp :: p2') = Some (Comb m' o' l' r')) by (rewrite Hsub; reflexivity).
      pose proof (height_subtree root _ _ H1). lia.
    + rewrite tg_form. intros [e He].
      assert (E2 : rev (c ++ dp :: p2') = rev p2' ++ dp :: rev c).
      { rewrite rev_app_distr. cbn [rev]. rewrite <- app_assoc. reflexivity. }
      rewrite E2 in He. rewrite app_assoc in He.
      assert (Hs : suffix_of (dp :: rev c) (rev q2 ++ dq :: rev c)) by (exists (e ++ rev p2'); exact He).
      apply suffix_diff in Hs. congruence.
    + rw_bind E1. cbn [bind].
      assert (Hlen : length p2' < f) by (rewrite app_length in Hf; simpl in Hf; lia).
      etransitivity; [exact (IH f (ops ++ [o']) (Comb m' o' l' r') eq_refl Hlen)|].
      rewrite (ops_along_snoc Xp p2' d m' o' l' r' Es). rewrite rev_app_distr. cbn [rev app].
      rewrite <- app_assoc. reflexivity.
Qed.
End Up.

(* ---------------------------------------------------------------- the theorem *)
Theorem find_linkage_spec t p q : is_leaf_at t p -> is_leaf_at t q -> p <> q -> find_linkage t p q = Ok (true, path_ops t p q).
Proof.
  intros Hp Hq Hne.
  destruct (diverge t p q Hp Hq Hne) as (c & dp & dq & p2 & q2 & m & o & l & r & Ep & Eq & Hd & Hc & Hp2 & Hq2).
  destruct Hp2 as (mp & ep & prp & Hp2). destruct Hq2 as (mq & eq_ & prq & Hq2).
  destruct Hp as (mp' & ep' & prp' & Hp).
  assert (Hr : rpeq (rev p) (rev q) = false).
  { apply rpeq_neq. intro E. apply Hne. rewrite <- (rev_involutive p), <- (rev_involutive q), E. reflexivity. }
  assert (HD : down (2 * height t + 3) (rev p) (rev p) (subtree t p) (rev q) [] = Ok (false, [])).
  { replace (2 * height t + 3) with (S (2 * height t + 2)) by lia. rewrite Hp. cbn [down]. rewrite Hr. reflexivity. }
  assert (HU : up (S (length p)) (2 * height t + 3) t (rev p) (rev q) [] = Ok (true, path_ops t p q)).
  { subst p q.
    assert (Hbig : height t + 2 <= 2 * height t + 3) by lia.
    assert (Hlen : length p2 < S (length (c ++ dp :: p2))) by (rewrite app_length; simpl; lia).
    etransitivity.
    - exact (up_spec t c m o l r dp dq q2 _ (2 * height t + 3) Hc Hd Hq2 Hbig p2 (S (length (c ++ dp :: p2))) [] _ Hp2 Hlen).
    - cbn [app]. f_equal. f_equal. symmetry. exact (path_ops_split t c dp dq p2 q2 m o l r Hc Hd). }
  unfold find_linkage, find_linkage_f, link_fuel.
  rw_bind HD. cbn [bind]. rw_bind HU. reflexivity.
Qed.

Theorem path_ops_sym t p q : is_leaf_at t p -> is_leaf_at t q -> p <> q -> path_ops t q p = rev (path_ops t p q).
Proof.
  intros Hp Hq Hne.
  destruct (diverge t p q Hp Hq Hne) as (c & dp & dq & p2 & q2 & m & o & l & r & Ep & Eq & Hd & Hc & _).
  subst p q.
  assert (H1 := path_ops_split t c dp dq p2 q2 m o l r Hc Hd).
  assert (H2 := path_ops_split t c dq dp q2 p2 m o l r Hc (fun E => Hd (eq_sym E))).
  etransitivity; [exact H2|]. etransitivity; [|apply f_equal; symmetry; exact H1].
  rewrite !rev_app_distr, rev_involutive. cbn [rev app]. rewrite <- app_assoc. reflexivity.
Qed.

(* ---------------------------------------------------------------- CollapseAdjacentOperators *)
Lemma collapse_acc_keeps l : forall last,
  filter (fun o => negb (collapsible o)) (collapse_acc l last) = filter (fun o => negb (collapsible o)) l.
Proof.
  induction l as [|v t IH]; intro last; [reflexivity|].
  cbn [collapse_acc]. destruct last as [p|].
  - destruct (collapsible v && collapsible p) eqn:E.
    + apply andb_true_iff in E as [Ev _]. cbn [filter]. rewrite Ev. cbn [negb]. apply IH.
    + cbn [filter]. rewrite IH. reflexivity.
  - cbn [filter]. rewrite IH. reflexivity.
Qed.
Theorem collapse_keeps_noncollapsible l :
  filter (fun o => negb (collapsible o)) (collapse_ops l) = filter (fun o => negb (collapsible o)) l.
Proof. apply collapse_acc_keeps. Qed.

(* a collapsed list never has two adjacent conjunction-type operators *)
Fixpoint no_adjacent_conj (l : list op) : bool :=
  match l with
  | a :: ((b :: _) as t) => negb (collapsible a && collapsible b) && no_adjacent_conj t
  | _ => true
  end.
Lemma collapse_acc_no_adjacent l : forall p, no_adjacent_conj (p :: collapse_acc l (Some p)) = true.
Proof.
  induction l as [|v t IH]; intro p; [reflexivity|].
  cbn [collapse_acc]. destruct (collapsible v && collapsible p) eqn:E.
  - apply IH.
  - change (negb (collapsible p && collapsible v) && no_adjacent_conj (v :: collapse_acc t (Some v)) = true).
    rewrite andb_comm in E. rewrite E, IH. reflexivity.
Qed.
Theorem collapse_no_adjacent l : no_adjacent_conj (collapse_ops l) = true.
Proof. destruct l as [|v t]; [reflexivity|]. apply collapse_acc_no_adjacent. Qed.

(* ---------------------------------------------------------------- GenerateReferenceSlice: bounded check *)
(* every strictly increasing list of row indices below 11 (2048 lists): the compressed reference list expands
   to exactly the rows it was built from.  A finite sweep, not the unbounded statement. *)
Fixpoint sublists (l : list nat) : list (list nat) :=
  match l with [] => [[]] | x :: t => let r := sublists t in map (cons x) r ++ r end.
Fixpoint zlist_eqb (a b : list Z) : bool :=
  match a, b with [], [] => true | x :: a', y :: b' => Z.eqb x y && zlist_eqb a' b' | _, _ => false end.
Definition refs_ok (ids : list nat) : bool :=
  zlist_eqb (expand_refs (fold_left add_ref ids [])) (map (fun i => (Z.of_nat i + 1)%Z) ids).
Lemma refs_roundtrip_upto_11 : forallb refs_ok (sublists (seq 0 11)) = true.
Proof. vm_compute. reflexivity. Qed.
