(* Proofs/SameRows.v - IG Core and IG Extended (and every other option setting) write the same number of own rows with
   the same identifiers: the row loop's identifier cells do not depend on the configuration (C19). *)
From Coq Require Import List Arith Bool Lia Strings.Byte.
From IGP Require Import Base.Str Base.Outcome Model.Tree Model.Odo Model.Leaves Model.Link Model.Tabular Spec.TabSpec
  Proofs.OdoProof Proofs.TabProof Proofs.RowsProof Proofs.RowIds.
Import ListNotations.

Theorem own_rows_same_in_every_mode T C1 C2 s anno1 anno2 sl1 sl2 rows lms1 lms2 multi reg1 reg2 sid out1 out2 r1 r2 :
  Forall (Forall lref_safe) rows ->
  rows_loop T C1 s anno1 sl1 rows lms1 multi 0 reg1 sid [] = Ok (out1, r1) ->
  rows_loop T C2 s anno2 sl2 rows lms2 multi 0 reg2 sid [] = Ok (out2, r2) ->
  length out1 = length out2 /\ map (fun r => rget r K_ID) out1 = map (fun r => rget r K_ID) out2.
Proof.
  intros Hs H1 H2.
  pose proof (rows_loop_ids T C1 s anno1 sl1 rows Hs _ _ _ _ _ _ _ _ H1) as E1.
  pose proof (rows_loop_ids T C2 s anno2 sl2 rows Hs _ _ _ _ _ _ _ _ H2) as E2.
  split.
  - apply (rows_loop_length T C1) in H1. apply (rows_loop_length T C2) in H2. lia.
  - rewrite E1, E2. reflexivity.
Qed.
