(* Proofs/Hist.v - C13 / C14, generic part: a response depends only on its own request.
   Generic over the set of global variables, the request type and the conversions;
   the handler program is data (as the translator will generate it). *)
From Coq Require Import List Bool Arith Lia.
Import ListNotations.

Section Hist.
Variable gvar : Type.
Variable gvar_eqb : gvar -> gvar -> bool.
Hypothesis gvar_eqb_spec : forall a b, reflect (a = b) (gvar_eqb a b).
Variables request response value : Type.
Definition gstate := gvar -> value.

(* right-hand side of a global assignment: a function of the request and of globals *)
Record rhs := { rhs_reads : list gvar; rhs_fun : request -> gstate -> value }.
Inductive instr :=
| ISet (g : gvar) (e : rhs)
| IConvert (reads : list gvar) (conv : request -> gstate -> response).

Definition upd (s : gstate) (g : gvar) (v : value) : gstate := fun x => if gvar_eqb x g then v else s x.

(* run one handler program for one request; the response is that of the last IConvert *)
Fixpoint exec (p : list instr) (r : request) (s : gstate) (out : option response) : gstate * option response :=
  match p with
  | [] => (s, out)
  | ISet g e :: p' => exec p' r (upd s g (rhs_fun e r s)) out
  | IConvert _ conv :: p' => exec p' r s (Some (conv r s))
  end.

Definition handle (p : list instr) (s : gstate) (r : request) : gstate * option response := exec p r s None.
Definition run (p : list instr) (h : list request) (s0 : gstate) : gstate := fold_left (fun s r => fst (handle p s r)) h s0.

(* frame conditions: declared read sets are honest *)
Definition agree (vs : list gvar) (s s' : gstate) : Prop := forall v, In v vs -> s v = s' v.
Definition frame_rhs (e : rhs) : Prop := forall r s s', agree (rhs_reads e) s s' -> rhs_fun e r s = rhs_fun e r s'.
Fixpoint frame_ok (p : list instr) : Prop :=
  match p with
  | [] => True
  | ISet _ e :: p' => frame_rhs e /\ frame_ok p'
  | IConvert reads conv :: p' => (forall r s s', agree reads s s' -> conv r s = conv r s') /\ frame_ok p'
  end.

(* decidable side condition: everything read has been written earlier in the same program *)
Definition mem (g : gvar) (l : list gvar) : bool := existsb (gvar_eqb g) l.
Fixpoint covers_from (written : list gvar) (p : list instr) : bool :=
  match p with
  | [] => true
  | ISet g e :: p' => forallb (fun v => mem v written) (rhs_reads e) && covers_from (g :: written) p'
  | IConvert reads _ :: p' => forallb (fun v => mem v written) reads && covers_from written p'
  end.
Definition covers (p : list instr) : bool := covers_from [] p.

Lemma mem_In g l : mem g l = true -> In g l.
Proof.
  unfold mem. intros H. apply existsb_exists in H. destruct H as [x [Hx E]].
  destruct (gvar_eqb_spec g x); [subst; exact Hx|discriminate].
Qed.

Lemma exec_agree p : frame_ok p -> forall written, covers_from written p = true ->
  forall r s s' out, agree written s s' -> snd (exec p r s out) = snd (exec p r s' out).
Proof.
  induction p as [|i p IH]; intros Hf written Hc r s s' out Ha; [reflexivity|].
  destruct i as [g e|reads conv]; cbn [exec covers_from frame_ok] in *.
  - destruct Hf as [He Hf]. apply andb_true_iff in Hc. destruct Hc as [Hr Hc].
    assert (Ev : rhs_fun e r s = rhs_fun e r s').
    { apply He. intros v Hv. apply Ha. apply mem_In. rewrite forallb_forall in Hr. apply Hr. exact Hv. }
    rewrite Ev. apply (IH Hf (g :: written) Hc).
    intros v [->|Hv]; unfold upd.
    + destruct (gvar_eqb_spec v v); [reflexivity|congruence].
    + destruct (gvar_eqb v g); [reflexivity|apply Ha; exact Hv].
  - destruct Hf as [Hcv Hf]. apply andb_true_iff in Hc. destruct Hc as [Hr Hc].
    assert (Ev : conv r s = conv r s').
    { apply Hcv. intros v Hv. apply Ha. apply mem_In. rewrite forallb_forall in Hr. apply Hr. exact Hv. }
    rewrite Ev. apply (IH Hf written Hc). exact Ha.
Qed.

(* C13: after ANY history the response to r equals the one given from the initial state *)
Theorem history_independent p : covers p = true -> frame_ok p ->
  forall (h : list request) (r : request) (s0 : gstate),
    snd (handle p (run p h s0) r) = snd (handle p s0 r).
Proof.
  intros Hc Hf h r s0. unfold handle. apply (exec_agree p Hf [] Hc). intros v [].
Qed.


(* stronger form used below: the response does not depend on the state the handler starts in *)
Corollary state_independent p : covers p = true -> frame_ok p ->
  forall r s s', snd (handle p s r) = snd (handle p s' r).
Proof. intros Hc Hf r s s'. unfold handle. apply (exec_agree p Hf [] Hc). intros v []. Qed.

(* ------------------------------------------------------------------ C14: interleavings *)
(* a thread runs  Lock; body; Unlock  where body is a handler program as above *)
Inductive phase := NotStarted | Inside (rest : list instr) | Finished.
Record thread := { t_req : request; t_phase : phase; t_out : option response }.
Record sys := { glob : gstate; holder : option nat; threads : list thread }.

Variable body : list instr.

Fixpoint set_thread (ts : list thread) (i : nat) (t : thread) : list thread :=
  match ts, i with
  | [], _ => []
  | _ :: r, 0 => t :: r
  | x :: r, S i' => x :: set_thread r i' t
  end.

(* one scheduling decision: thread i performs its next step if it can (a blocked or finished thread does nothing) *)
Definition step (y : sys) (i : nat) : sys :=
  match nth_error (threads y) i with
  | None => y
  | Some t =>
    match t_phase t with
    | Finished => y
    | NotStarted =>
      match holder y with
      | Some _ => y                                            (* blocked on the lock *)
      | None => {| glob := glob y; holder := Some i;
                   threads := set_thread (threads y) i {| t_req := t_req t; t_phase := Inside body; t_out := None |} |}
      end
    | Inside [] =>                                              (* Unlock *)
      {| glob := glob y; holder := None;
         threads := set_thread (threads y) i {| t_req := t_req t; t_phase := Finished; t_out := t_out t |} |}
    | Inside (ISet g e :: rest) =>
      {| glob := upd (glob y) g (rhs_fun e (t_req t) (glob y)); holder := holder y;
         threads := set_thread (threads y) i {| t_req := t_req t; t_phase := Inside rest; t_out := t_out t |} |}
    | Inside (IConvert _ conv :: rest) =>
      {| glob := glob y; holder := holder y;
         threads := set_thread (threads y) i {| t_req := t_req t; t_phase := Inside rest;
                                                t_out := Some (conv (t_req t) (glob y)) |} |}
    end
  end.

Definition run_sched (y : sys) (sch : list nat) : sys := fold_left step sch y.
Definition init_sys (g0 : gstate) (reqs : list request) : sys :=
  {| glob := g0; holder := None; threads := map (fun r => {| t_req := r; t_phase := NotStarted; t_out := None |}) reqs |}.

Hypothesis Hcov : covers body = true.
Hypothesis Hframe : frame_ok body.

Definition solo (r : request) (g : gstate) : option response := snd (handle body g r).

(* the invariant: only the lock holder is inside; what it will answer is already determined *)
Definition thread_ok (y : sys) (g0 : gstate) (i : nat) (t : thread) : Prop :=
  match t_phase t with
  | NotStarted => holder y <> Some i
  | Inside rest => holder y = Some i /\ snd (exec rest (t_req t) (glob y) (t_out t)) = solo (t_req t) g0
  | Finished => holder y <> Some i /\ t_out t = solo (t_req t) g0
  end.
Definition inv (g0 : gstate) (y : sys) : Prop :=
  forall i t, nth_error (threads y) i = Some t -> thread_ok y g0 i t.

Lemma nth_error_set_same ts i t t0 : nth_error ts i = Some t0 -> nth_error (set_thread ts i t) i = Some t.
Proof. revert i; induction ts as [|x r IH]; intros [|i] H; cbn in *; try discriminate; auto. Qed.
Lemma nth_error_set_other ts i j t : i <> j -> nth_error (set_thread ts i t) j = nth_error ts j.
Proof. revert i j; induction ts as [|x r IH]; intros [|i] [|j] H; cbn; try congruence; auto. Qed.

Lemma inv_step g0 y i : inv g0 y -> inv g0 (step y i).
Proof.
  intros HI. unfold step. destruct (nth_error (threads y) i) as [t|] eqn:Et; [|exact HI].
  pose proof (HI i t Et) as Hi. unfold thread_ok in Hi.
  destruct (t_phase t) as [|rest|] eqn:Ep; [| |exact HI].
  - (* Lock *)
    destruct (holder y) as [h|] eqn:Eh; [exact HI|].
    intros j tj Ej. cbn [threads] in Ej. destruct (Nat.eq_dec i j) as [<-|Hne].
    + rewrite (nth_error_set_same _ _ _ _ Et) in Ej. injection Ej as <-. unfold thread_ok. cbn.
      split; [reflexivity|]. unfold solo. apply (state_independent body Hcov Hframe).
    + rewrite nth_error_set_other in Ej by exact Hne. pose proof (HI j tj Ej) as Hj. unfold thread_ok in *. cbn [holder glob].
      destruct (t_phase tj); rewrite Eh in Hj.
      * congruence.
      * destruct Hj as [Hj _]. discriminate.
      * destruct Hj as [_ Hj]. split; [congruence|exact Hj].
  - destruct Hi as [Hh Hs]. destruct rest as [|[g e|reads conv] rest].
    + (* Unlock *)
      intros j tj Ej. cbn [threads] in Ej. destruct (Nat.eq_dec i j) as [<-|Hne].
      * rewrite (nth_error_set_same _ _ _ _ Et) in Ej. injection Ej as <-. unfold thread_ok. cbn. split; [congruence|exact Hs].
      * rewrite nth_error_set_other in Ej by exact Hne. pose proof (HI j tj Ej) as Hj. unfold thread_ok in *. cbn [holder glob].
        destruct (t_phase tj).
        -- congruence.
        -- destruct Hj as [Hj _]. rewrite Hh in Hj. congruence.
        -- destruct Hj as [_ Hj]. split; [congruence|exact Hj].
    + (* a global write by the holder *)
      intros j tj Ej. cbn [threads] in Ej. destruct (Nat.eq_dec i j) as [<-|Hne].
      * rewrite (nth_error_set_same _ _ _ _ Et) in Ej. injection Ej as <-. unfold thread_ok. cbn. split; [exact Hh|exact Hs].
      * rewrite nth_error_set_other in Ej by exact Hne. pose proof (HI j tj Ej) as Hj. unfold thread_ok in *. cbn [holder glob].
        destruct (t_phase tj).
        -- exact Hj.
        -- destruct Hj as [Hj _]. rewrite Hh in Hj. congruence.
        -- exact Hj.
    + (* the conversion by the holder *)
      intros j tj Ej. cbn [threads] in Ej. destruct (Nat.eq_dec i j) as [<-|Hne].
      * rewrite (nth_error_set_same _ _ _ _ Et) in Ej. injection Ej as <-. unfold thread_ok. cbn. split; [exact Hh|exact Hs].
      * rewrite nth_error_set_other in Ej by exact Hne. pose proof (HI j tj Ej) as Hj. unfold thread_ok in *. cbn [holder glob].
        destruct (t_phase tj).
        -- exact Hj.
        -- destruct Hj as [Hj _]. rewrite Hh in Hj. congruence.
        -- exact Hj.
Qed.

Lemma inv_init g0 reqs : inv g0 (init_sys g0 reqs).
Proof.
  intros i t Ht. cbn [init_sys threads] in Ht. rewrite nth_error_map in Ht.
  destruct (nth_error reqs i); [|discriminate]. injection Ht as <-. unfold thread_ok. cbn. congruence.
Qed.

Lemma inv_run g0 sch : forall y, inv g0 y -> inv g0 (run_sched y sch).
Proof. unfold run_sched. induction sch as [|j sch IH]; intros y Hy; [exact Hy|]. cbn [fold_left]. apply IH. apply inv_step. exact Hy. Qed.

(* C14: under EVERY schedule, a request that has been answered got the answer it gets alone *)
Theorem schedule_independent g0 reqs sch i t :
  nth_error (threads (run_sched (init_sys g0 reqs) sch)) i = Some t -> t_phase t = Finished ->
  t_out t = solo (t_req t) g0.
Proof.
  intros Ht Hp.
  pose proof (inv_run g0 sch _ (inv_init g0 reqs)) as HI.
  pose proof (HI i t Ht) as H. unfold thread_ok in H. rewrite Hp in H. destruct H as [_ H]. exact H.
Qed.
End Hist.

