(* Proofs/VisViewProof.v - C09, readable core: for a component tree of plain values in a statement without
   properties, (1) the shown values are exactly the leaves in source order, each once, with inherited
   shared text, under the component's name at the given level; (2) in binary mode the output object has
   exactly the written operator tree (operators as inner nodes, in order). *)
From Coq Require Import List Arith Bool Lia ZArith Strings.Byte.
From IGP Require Import Base.Str Base.Outcome Model.Tree Model.DoV Model.Leaves Model.Flat Model.Visual Model.VisJson Spec.VisView.
Import ListNotations.

(* plain value tree: every leaf is a (possibly empty-texted) string without private links *)
Fixpoint plain (n : node) : bool :=
  match n with
  | Leaf _ (EStr _) [] => true
  | Leaf _ _ _ => false
  | Comb _ _ l r => plain l && plain r
  end.
Fixpoint height (n : node) : nat := match n with Leaf _ _ _ => 0 | Comb _ _ l r => S (Nat.max (height l) (height r)) end.

Fixpoint leaves_with_ctx (n : node) (a : anc) : list (meta * str * anc) :=
  match n with
  | Leaf m (EStr t) _ => [(m, t, a)]
  | Leaf _ _ _ => []
  | Comb m o l r => leaves_with_ctx l ((m, o) :: a) ++ leaves_with_ctx r ((m, o) :: a)
  end.

Lemma plain_not_empty n a : plain n = true -> is_empty_node n a = false.
Proof. destruct n as [[c sf an l r] e priv|]; [|reflexivity]. destruct e; try discriminate. intros _. destruct c, sf, an, l, r; reflexivity. Qed.

Section Plain.
Variable T : vis_tables.
Variable s : option stmt.
Hypothesis no_props : forall name, get_props T s name = [].

Theorem lv_plain flat actop n : plain n = true -> forall fuel a lvl, height n < fuel ->
  lv T flat actop fuel s n a lvl
  = Ok (map (fun x => let '(m, t, a') := x in (comp_name m a', shown (leaf_text m a' t), lvl, None)) (leaves_with_ctx n a)).
Proof.
  induction n as [m e priv|m o l IHl r IHr]; intros Hp fuel a lvl Hf; (destruct fuel as [|f]; [lia|]); cbn [lv]; unfold lv_step;
    rewrite (plain_not_empty _ a Hp).
  - cbn [plain] in Hp. destruct e as [|t| |]; try discriminate. destruct priv; [|discriminate].
    unfold lv_props_of. rewrite no_props. cbn. reflexivity.
  - cbn [plain] in Hp. apply andb_true_iff in Hp as [Hl Hr]. cbn [height] in Hf.
    rewrite (IHl Hl f _ lvl) by lia. rewrite (IHr Hr f _ lvl) by lia. cbn [bind leaves_with_ctx]. rewrite map_app. reflexivity.
Qed.

(* the operator tree read back from a binary-mode output object *)
Inductive shape := SLeaf (comp text : str) (lvl : nat) | SOp (o : str) (comp : str) (lvl : nat) (l r : shape) | SOther.
Fixpoint shape_of_json (j : jnode) : shape :=
  match j with
  | JN KLeaf name (Some c) lvl _ _ _ _ _ _ => SLeaf c name lvl
  | JN KOp name (Some c) lvl _ [l; r] _ _ _ _ => SOp name c lvl (shape_of_json l) (shape_of_json r)
  | _ => SOther
  end.
Fixpoint shape_of_node (n : node) (a : anc) (lvl : nat) : shape :=
  match n with
  | Leaf m (EStr t) _ => SLeaf (comp_name m a) (shown (leaf_text m a t)) lvl
  | Leaf _ _ _ => SOther
  | Comb m o l r => SOp (op_name o) (comp_name m a) lvl (shape_of_node l ((m, o) :: a) lvl) (shape_of_node r ((m, o) :: a) lvl)
  end.

Lemma node_cx_plain W n : plain n = true -> exists v, node_cx W n = Ok v.
Proof.
  induction n as [m e priv|m o l IHl r IHr]; intro Hp; cbn [plain] in Hp.
  - destruct e as [|t| |]; try discriminate. destruct t; cbn; eauto.
  - apply andb_true_iff in Hp as [Hl Hr]. destruct (IHl Hl) as [vl El]. destruct (IHr Hr) as [vr Er].
    cbn [node_cx]. rewrite El, Er. destruct o; eauto.
Qed.
Lemma dov_of_plain o n : plain n = true -> exists d, dov_of T o n = Ok d.
Proof. intro Hp. unfold dov_of. destruct (o_dov o); [|eauto]. destruct (node_cx_plain (vt_dov T) n Hp) as [v ->]. eauto. Qed.

Theorem jn_plain_binary o n : o_bin o = true -> plain n = true -> forall fuel a lvl, height n < fuel ->
  exists j, jn T o fuel s n a lvl = Ok [j] /\ shape_of_json j = shape_of_node n a lvl.
Proof.
  intros Hb. induction n as [m e priv|m op l IHl r IHr]; intros Hp fuel a lvl Hf; (destruct fuel as [|f]; [lia|]); cbn [jn]; unfold json_node_step;
    rewrite (plain_not_empty _ a Hp).
  - destruct (dov_of_plain o _ Hp) as [d Ed].
    cbn [plain] in Hp. destruct e as [|t| |]; try discriminate. destruct priv; [|discriminate].
    unfold props_of. rewrite no_props. cbn [nil_b negb andb orb bind]. rewrite Ed. cbn [bind].
    eexists; split; reflexivity.
  - destruct (dov_of_plain o _ Hp) as [d Ed].
    cbn [plain] in Hp. apply andb_true_iff in Hp as [Hl Hr]. cbn [height] in Hf.
    destruct (IHl Hl f ((m, op) :: a) lvl ltac:(lia)) as [jl [El Sl]].
    destruct (IHr Hr f ((m, op) :: a) lvl ltac:(lia)) as [jr [Er Sr]].
    rewrite Hb, El, Er. cbn [bind]. unfold props_of. rewrite no_props. cbn [nil_b negb andb orb bind app]. rewrite Ed.
    destruct (o_flat o); cbn [andb orb bind app]; (eexists; split; [reflexivity|]); cbn [shape_of_json shape_of_node]; rewrite Sl, Sr; reflexivity.
Qed.
End Plain.
