(* Proofs/RegWf.v - the registry of nested statements after the row loop of a statement (C06): the identifiers handed
   out are {id}.1 ... {id}.K, pairwise different and different from every identifier of the statement's own rows. *)
From Coq Require Import List Arith Bool Lia Strings.Byte.
From IGP Require Import Base.Str Base.Outcome Model.Tree Model.Odo Model.Leaves Model.Link Model.Visual Model.Tabular Spec.TabSpec
  Proofs.OdoProof Proofs.TabProof Proofs.ItoaProof Proofs.IdProof Proofs.RowsProof Proofs.RowIds.
Import ListNotations.

Section R.
Variable T : tab_tables.
Variable C : tcfg.

Lemma priv_elems_wf x pv i sid : forall vs r reg j r' reg', reg_wf sid reg ->
  priv_elems T C r reg x pv i j vs sid = Ok (r', reg') -> reg_wf sid reg'.
Proof.
  induction vs as [|v t IH]; intros r reg j r' reg' Hw H; cbn [priv_elems] in H.
  - inversion H; subst. exact Hw.
  - destruct (t_ext C).
    + pose proof (new_nested_id_wf sid reg (KPriv (l_f x) (get_suffix (node_meta (l_n x)) (l_a x)) i j) v Hw) as Hw'.
      destruct (new_nested_id reg _ v sid) as [reg1 id]. cbn [fst] in Hw'. exact (IH _ _ _ _ _ Hw' H).
    + destruct (sflat T v) as [fl|e|k|k|]; cbn [bind] in H; try discriminate. exact (IH _ _ _ _ _ Hw H).
Qed.

Lemma priv_loop_wf x sid : forall pvs r reg i r' reg', reg_wf sid reg ->
  priv_loop T C r reg x i pvs sid = Ok (r', reg') -> reg_wf sid reg'.
Proof.
  induction pvs as [|pv t IH]; intros r reg i r' reg' Hw H; cbn [priv_loop] in H.
  - inversion H; subst. exact Hw.
  - destruct (match pv with
                | Leaf m (EStmt s) _ => priv_elems T C r reg x pv i 0 [Leaf meta0 (EStmt s) []] sid
                | Leaf m (ENodes vs) _ => priv_elems T C r reg x pv i 0 vs sid
                | Leaf m (EStr s) _ => Ok (append_cell r (comp_name m []) (adjust (t_gs C) s), reg)
                | _ => Ok (r, reg)
                end) as [[r1 reg1]|e|k|k|] eqn:E; cbn [bind] in H; try discriminate.
    cbn [fst snd] in H. apply (IH _ _ _ _ _) in H; [exact H|].
    destruct pv as [m e pr|m o l0 r0].
    + destruct e as [|s|st|ns].
      * inversion E; subst. exact Hw.
      * inversion E; subst. exact Hw.
      * exact (priv_elems_wf x _ i sid _ _ _ _ _ _ Hw E).
      * exact (priv_elems_wf x _ i sid _ _ _ _ _ _ Hw E).
    + inversion E; subst. exact Hw.
Qed.

Lemma complex_loop_wf key sid : forall vs r reg r' reg', reg_wf sid reg ->
  complex_loop T C r reg key vs sid = Ok (r', reg') -> reg_wf sid reg'.
Proof.
  induction vs as [|v t IH]; intros r reg r' reg' Hw H; cbn [complex_loop] in H.
  - inversion H; subst. exact Hw.
  - cbv zeta in H. destruct (t_ext C).
    + pose proof (new_nested_id_wf sid reg (KComp (l_f v) (l_p v)) (l_n v) Hw) as Hw'.
      destruct (new_nested_id reg _ (l_n v) sid) as [reg1 id]. cbn [fst] in Hw'. exact (IH _ _ _ _ Hw' H).
    + destruct (sflat T (l_n v)) as [fl|e|k|k|]; cbn [bind] in H; try discriminate. exact (IH _ _ _ _ Hw H).
Qed.

Lemma comps_loop_wf s sid : forall xs r reg lv lms r' reg' lv', reg_wf sid reg ->
  comps_loop T C s r reg lv xs lms sid = Ok (r', reg', lv') -> reg_wf sid reg'.
Proof.
  induction xs as [|x t IH]; intros r reg lv lms r' reg' lv' Hw H; cbn [comps_loop] in H.
  - inversion H; subst. exact Hw.
  - cbv zeta in H.
    set (name := comp_name (node_meta (l_n x)) (l_a x)) in *.
    match type of H with bind ?e _ = _ => destruct e as [[r1 reg1]|e0|k|k|] eqn:E end; cbn [bind] in H; try discriminate.
    destruct (comp_links s lv x _ sid) as [lv1|e0|k|k|]; cbn [bind] in H; try discriminate.
    cbn [fst snd] in H. apply (IH _ _ _ _ _ _ _) in H; [exact H|]. clear H IH.
    destruct (Visual.is_empty_node (l_n x) (l_a x)); [inversion E; subst; exact Hw|].
    destruct (l_n x) as [m e pr|m o l0 r0] eqn:En.
    + destruct e as [|ev|st|ns].
      * exact (complex_loop_wf _ sid _ _ _ _ _ Hw E).
      * destruct (prim_cell (rget r name) x ev) as [v skip].
        match type of E with bind ?e _ = _ => destruct e as [[r2 reg2]|e0|k|k|] eqn:E2 end; cbn [bind] in E; try discriminate.
        cbn [fst snd] in E. inversion E; subst. exact (priv_loop_wf x sid pr _ _ _ _ _ Hw E2).
      * exact (complex_loop_wf _ sid _ _ _ _ _ Hw E).
      * exact (complex_loop_wf _ sid _ _ _ _ _ Hw E).
    + exact (complex_loop_wf _ sid _ _ _ _ _ Hw E).
Qed.

Theorem rows_loop_wf s anno sl : forall rows lms multi ct reg sid acc out reg', reg_wf sid reg ->
  rows_loop T C s anno sl rows lms multi ct reg sid acc = Ok (out, reg') -> reg_wf sid reg'.
Proof.
  induction rows as [|xs t IH]; intros lms multi ct reg sid acc out reg' Hw H; cbn [rows_loop] in H.
  - inversion H; subst. exact Hw.
  - cbv zeta in H.
    match type of H with bind ?e _ = _ => destruct e as [[[r2 regx] lv]|e0|k|k|] eqn:E end; cbn [bind] in H; try discriminate.
    exact (IH _ _ _ _ _ _ _ _ (comps_loop_wf s sid xs _ _ _ _ _ _ _ Hw E) H).
Qed.

(* all identifiers that belong to one statement: its own rows id.1 ... id.N and its nested statements {id}.1 ... {id}.K *)
Theorem statement_ids_distinct s anno sl rows lms sid out reg' : Forall (Forall lref_safe) rows ->
  rows_loop T C s anno sl rows lms true 0 [] sid [] = Ok (out, reg') ->
  NoDup (map (fun r => rget r K_ID) out ++ map n_id reg').
Proof.
  intros Hs H.
  destruct (own_row_ids_distinct T C s anno sl rows lms [] sid out reg' Hs H) as [Eown Nown].
  pose proof (rows_loop_wf s anno sl rows _ _ _ _ _ _ _ _ (reg_wf_nil sid) H) as Hw.
  pose proof (reg_ids_nodup sid reg' Hw) as Nreg.
  assert (Hdis : forall a, In a (map (fun r => rget r K_ID) out) -> In a (map n_id reg') -> False).
  { intros a Ha Hb. rewrite Eown in Ha. rewrite Hw in Hb.
    apply in_map_iff in Ha. destruct Ha as [i [<- _]]. apply in_map_iff in Hb. destruct Hb as [k [Hk _]].
    destruct (nested_id_not_own sid k (S i)) as [Hne _]. apply Hne. exact Hk. }
  revert Nown Hdis. generalize (map (fun r => rget r K_ID) out). intro L.
  induction L as [|a L IH]; intros Nown Hdis; cbn [app]; [exact Nreg|].
  inversion Nown as [|? ? Ha NL]; subst. constructor.
  - intro Hin. apply in_app_or in Hin. destruct Hin as [Hin|Hin]; [exact (Ha Hin)|exact (Hdis a (or_introl eq_refl) Hin)].
  - apply IH; [exact NL|]. intros b Hb1 Hb2. exact (Hdis b (or_intror Hb1) Hb2).
Qed.
End R.
