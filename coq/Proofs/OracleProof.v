(* Proofs/OracleProof.v - a range over a Go map visits the entries in an arbitrary order: the entries as a list `l`,
   the visit as any `l'` with Permutation l l'.  One theorem per class of Model/MapSites.v: the loop's result is the
   same for every such l' (C12). *)
From Coq Require Import List Arith Bool Lia Permutation Strings.Byte.
From IGP Require Import Parser.PStr Parser.Combo.
Import ListNotations.

(* ---------------------------------------------------------------- Singleton *)
Theorem singleton_any_order {A} (x : A) l' : Permutation [x] l' -> l' = [x].
Proof. apply Permutation_length_1_inv. Qed.

(* ---------------------------------------------------------------- LogOnly: the state is not touched *)
Theorem log_only_any_order {A S} (l l' : list A) (s : S) : fold_left (fun s _ => s) l s = fold_left (fun s _ => s) l' s.
Proof.
  assert (H : forall (k : list A), fold_left (fun (s : S) (_ : A) => s) k s = s) by (induction k; cbn; auto).
  rewrite !H. reflexivity.
Qed.

(* ---------------------------------------------------------------- Commutative bodies *)
Theorem commutative_any_order {A S} (f : S -> A -> S) : (forall s a b, f (f s a) b = f (f s b) a) ->
  forall l l', Permutation l l' -> forall s, fold_left f l s = fold_left f l' s.
Proof.
  intros Hc l l' HP. induction HP as [|x l l' HP IH|x y l|l l' l'' HP1 IH1 HP2 IH2]; intro s; cbn [fold_left].
  - reflexivity.
  - apply IH.
  - rewrite Hc. reflexivity.
  - rewrite IH1. apply IH2.
Qed.

(* detectCombinations, closing parenthesis: "for op := range foundOperators { delete(foundOperators[op], level) }" *)
Definition del1 (l : nat) (f : list (op * nat * nat)) (o : op) : list (op * nat * nat) :=
  filter (fun x => negb (op_eqb o (fst (fst x)) && Nat.eqb (snd (fst x)) l)) f.

Lemma fold_filter {A B} (p : B -> A -> bool) ops : forall f : list A,
  fold_left (fun f o => filter (p o) f) ops f = filter (fun x => forallb (fun o => p o x) ops) f.
Proof.
  induction ops as [|o ops IH]; intro f; cbn [fold_left forallb].
  - induction f as [|x f IHf]; cbn; [reflexivity|]. rewrite <- IHf. reflexivity.
  - rewrite IH. induction f as [|x f IHf]; cbn [filter]; [reflexivity|].
    destruct (p o x); cbn [filter andb]; [destruct (forallb (fun o0 => p o0 x) ops); rewrite IHf; reflexivity|exact IHf].
Qed.

Lemma op_eqb_refl o : op_eqb o o = true. Proof. destruct o; reflexivity. Qed.

(* whatever the order (and multiplicity) in which the operators are visited, as long as every operator that has an
   entry is visited: the level's counts are gone and nothing else is touched - found_del of the model *)
Theorem delete_level_any_order l f ops : (forall x, In x f -> In (fst (fst x)) ops) ->
  fold_left (del1 l) ops f = found_del f l.
Proof.
  intro Hall. unfold del1. rewrite (fold_filter (fun o x => negb (op_eqb o (fst (fst x)) && Nat.eqb (snd (fst x)) l))).
  unfold found_del. apply filter_ext_in. intros x Hx. specialize (Hall x Hx).
  destruct (Nat.eqb (snd (fst x)) l) eqn:El.
  - cbn [negb]. apply not_true_is_false. intro Hf. rewrite forallb_forall in Hf. specialize (Hf _ Hall).
    rewrite op_eqb_refl in Hf. discriminate.
  - cbn [negb]. apply forallb_forall. intros o _. rewrite andb_false_r. reflexivity.
Qed.

(* ---------------------------------------------------------------- UniqueMatch: break on the first match *)
Lemma find_some_in {A} (p : A -> bool) l x : find p l = Some x -> In x l /\ p x = true.
Proof. apply find_some. Qed.

Theorem find_any_order {A} (p : A -> bool) l l' : Permutation l l' ->
  (forall x y, In x l -> In y l -> p x = true -> p y = true -> x = y) -> find p l = find p l'.
Proof.
  intros HP Hu. destruct (find p l) as [x|] eqn:E1, (find p l') as [y|] eqn:E2.
  - apply find_some in E1, E2. destruct E1 as [I1 P1], E2 as [I2 P2].
    f_equal. apply Hu; [exact I1|apply (Permutation_in _ (Permutation_sym HP)); exact I2|exact P1|exact P2].
  - apply find_some in E1. destruct E1 as [I1 P1]. pose proof (find_none _ _ E2 x (Permutation_in _ HP I1)) as Hn. congruence.
  - apply find_some in E2. destruct E2 as [I2 P2]. pose proof (find_none _ _ E1 y (Permutation_in _ (Permutation_sym HP) I2)) as Hn. congruence.
  - reflexivity.
Qed.

(* extractSharedComponents: the enclosing operator-less group on the level below.  Groups of one level are disjoint
   (or the same entry), so at most one of them encloses the current combination *)
Definition apart (v w : bnd) : Prop := bR v < bL w \/ bR w < bL v \/ v = w.
Definition encloses (b v : bnd) : bool :=
  Nat.ltb (bL v) (bL b) && Nat.ltb (bR b) (bR v) && (match bOpVal v with None => true | _ => false end).

Lemma enclosing_unique b v w : bL b <= bR b -> apart v w -> encloses b v = true -> encloses b w = true -> v = w.
Proof.
  unfold encloses. intros Hb Hd Hv Hw.
  apply andb_true_iff in Hv. destruct Hv as [Hv _]. apply andb_true_iff in Hv. destruct Hv as [Hv1 Hv2].
  apply andb_true_iff in Hw. destruct Hw as [Hw _]. apply andb_true_iff in Hw. destruct Hw as [Hw1 Hw2].
  apply Nat.ltb_lt in Hv1, Hv2, Hw1, Hw2. destruct Hd as [H|[H|H]]; [lia|lia|exact H].
Qed.

Theorem find_outer_any_order lm l' b es' :
  Permutation (nth l' lm []) es' -> bL b <= bR b ->
  (forall v w, In v (nth l' lm []) -> In w (nth l' lm []) -> apart v w) ->
  find (encloses b) es' = find_outer lm (S l') b.
Proof.
  intros HP Hb Hd. unfold find_outer. symmetry. apply (find_any_order (encloses b) _ _ HP).
  intros x y Ix Iy Px Py. exact (enclosing_unique b x y Hb (Hd x y Ix Iy) Px Py).
Qed.

(* the premise is needed: with two overlapping candidates the visiting order shows *)
Example find_order_matters :
  let v := mkB 0 0 None 9 false in let w := mkB 1 0 None 8 false in let b := mkB 3 4 (Some AND) 6 true in
  find (encloses b) [v; w] <> find (encloses b) [w; v].
Proof. cbn. discriminate. Qed.
