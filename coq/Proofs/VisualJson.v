(* Proofs/VisualJson.v - C08: whenever the ported printer succeeds, what it has written is one JSON value -
   for every statement, every byte string as text/annotation/shared text, every option vector, every
   order table.  By induction on the fuel of the printer with invariants that mirror the hand-placed
   separators ("member tail", "element list"). *)
From Coq Require Import List Arith Bool Lia NArith ZArith Strings.Byte.
From IGP Require Import Base.Str Base.Outcome Model.Tree Model.DoV Model.Leaves Model.Flat Model.Visual
     Spec.Json Proofs.JsonLemmas.
Import ListNotations.
Open Scope list_scope.

(* ---------------------------------------------------------------- the guard: what is written raw must be a string body *)
Definition safe (s : str) : bool := forallb unescaped s.

Fixpoint vwf (n : node) : bool :=
  match n with
  | Leaf m e priv =>
    safe (ctype m) &&
    (match e with
     | ENil => false
     | EStr _ => true
     | EStmt (Stmt fs) => (fix go (l : list (field * node)) := match l with [] => true | (_, x) :: t => vwf x && go t end) fs
     | ENodes ns => (fix go (l : list node) := match l with [] => true | x :: t => vwf x && go t end) ns
     end) &&
    (fix go (l : list node) := match l with [] => true | x :: t => vwf x && go t end) priv
  | Comb m _ l r => safe (ctype m) && vwf l && vwf r
  end.
Definition vwf_stmt (s : stmt) : bool := forallb (fun fx => vwf (snd fx)) (stmt_fields s).
Definition anc_safe (a : anc) : Prop := Forall (fun mo => safe (ctype (fst mo)) = true) a.
Definition ostmt_ok (s : option stmt) : Prop := forall st, s = Some st -> vwf_stmt st = true.

Lemma nested_fields fs :
  (fix go (l : list (field * node)) := match l with [] => true | (_, x) :: t => vwf x && go t end) fs
  = forallb (fun fx => vwf (snd fx)) fs.
Proof. induction fs as [|[f x] fs IH]; cbn; [reflexivity|rewrite IH; reflexivity]. Qed.
Lemma nested_nodes ns :
  (fix go (l : list node) := match l with [] => true | x :: t => vwf x && go t end) ns = forallb vwf ns.
Proof. induction ns as [|x ns IH]; cbn; [reflexivity|rewrite IH; reflexivity]. Qed.

Lemma vwf_leaf m e priv : vwf (Leaf m e priv) = true ->
  safe (ctype m) = true /\ forallb vwf priv = true /\
  match e with
  | ENil => False | EStr _ => True
  | EStmt st => vwf_stmt st = true
  | ENodes ns => forallb vwf ns = true
  end.
Proof.
  cbn [vwf]. rewrite nested_nodes. intro H. apply andb_true_iff in H as [H H3]. apply andb_true_iff in H as [H1 H2].
  repeat split; auto. destruct e as [|s|[fs]|ns]; try discriminate; auto.
  all: try (unfold vwf_stmt; cbn [stmt_fields]; rewrite <- nested_fields; exact H2).
  all: try (rewrite <- nested_nodes; exact H2).
Qed.
Lemma vwf_comb m o l r : vwf (Comb m o l r) = true -> safe (ctype m) = true /\ vwf l = true /\ vwf r = true.
Proof. cbn [vwf]. intro H. apply andb_true_iff in H as [H H3]. apply andb_true_iff in H as [H1 H2]. auto. Qed.

Lemma sget_vwf st f x : vwf_stmt st = true -> sget st f = Some x -> vwf x = true.
Proof.
  destruct st as [fs]. unfold vwf_stmt, sget; cbn [stmt_fields]. induction fs as [|[g y] fs IH]; cbn; [discriminate|].
  intros H E. apply andb_true_iff in H as [H1 H2]. destruct (field_eqb f g); [inversion E; subst; exact H1 | apply IH; assumption].
Qed.

Lemma safe_body s : safe s = true -> SBody s.
Proof. apply plain_body. Qed.
Lemma comp_name_anc_safe a : anc_safe a -> safe (comp_name_anc a) = true.
Proof. induction 1 as [|[m o] a Hm _ IH]; cbn; [reflexivity|]. destruct (is_empty (ctype m)); auto. Qed.
Lemma comp_name_safe m a : safe (ctype m) = true -> anc_safe a -> safe (comp_name m a) = true.
Proof. intros Hm Ha. unfold comp_name. destruct (is_empty (ctype m)); [apply comp_name_anc_safe, Ha|exact Hm]. Qed.

(* ---------------------------------------------------------------- plumbing *)
Lemma bind_ok {A B} (r : res A) (f : A -> res B) b : bind r f = Ok b -> exists a, r = Ok a /\ f a = Ok b.
Proof. destruct r; cbn; intro H; try discriminate. eauto. Qed.
Ltac inv_bind H :=
  let a := fresh "a" in let E := fresh "E" in
  apply bind_ok in H; destruct H as [a [E H]].
Ltac inv_ok H :=
  match type of H with
  | Ok ?x = Ok ?y => let E := fresh "Eq" in assert (E : x = y) by congruence; clear H; try subst y; try subst x
  | Some ?x = Some ?y => let E := fresh "Eq" in assert (E : x = y) by congruence; clear H; try subst y; try subst x
  end.

Lemma JElems_nonempty es : JElems es -> es <> [].
Proof.
  assert (V : forall v, JV v -> v <> []).
  { intros v Hv. destruct Hv; try discriminate. intro X; subst; auto. }
  destruct 1 as [w1 v w2 H1 Hv H2 | w1 v w2 rest H1 Hv H2 Hr]; intro X.
  - apply app_eq_nil in X as [_ X]. apply app_eq_nil in X as [X _]. exact (V _ Hv X).
  - apply app_eq_nil in X as [_ X]. apply app_eq_nil in X as [X _]. exact (V _ Hv X).
Qed.

(* constants in the shape q ++ key ++ q *)
Lemma K_NAME_eq : K_NAME = q ++ $"name" ++ q. Proof. reflexivity. Qed.
Lemma K_COMP_eq : K_COMP = q ++ $"comp" ++ q. Proof. reflexivity. Qed.
Lemma K_LEVEL_eq : K_LEVEL = q ++ $"level" ++ q. Proof. reflexivity. Qed.
Lemma K_POS_eq : K_POS = q ++ $"pos" ++ q. Proof. reflexivity. Qed.
Lemma K_CHILDREN_eq : K_CHILDREN = q ++ $"children" ++ q. Proof. reflexivity. Qed.
Lemma K_PROP_eq : K_PROP = q ++ $"prop" ++ q. Proof. reflexivity. Qed.
Lemma K_ANNO_eq : K_ANNO = q ++ $"anno" ++ q. Proof. reflexivity. Qed.
Lemma K_DOV_eq : K_DOV = q ++ $"dov" ++ q. Proof. reflexivity. Qed.
Lemma key_ok (k : str) : forallb unescaped k = true -> SBody k. Proof. apply plain_body. Qed.

Lemma lit_lbr : $"[" = [x5b]. Proof. reflexivity. Qed.
Lemma lit_rbr : $"]" = [x5d]. Proof. reflexivity. Qed.
Lemma lit_lbc : $"{" = [x7b]. Proof. reflexivity. Qed.
Lemma lit_rbc : $"}" = [x7d]. Proof. reflexivity. Qed.
Ltac norm := rewrite ?lit_lbr, ?lit_rbr, ?lit_lbc, ?lit_rbc; cbn [app]; repeat (rewrite <- app_assoc; cbn [app]).
Ltac norm_in G := rewrite ?lit_lbr, ?lit_rbr, ?lit_lbc, ?lit_rbc in G; cbn [app] in G; repeat (rewrite <- app_assoc in G; cbn [app] in G).

(* a member appended behind ", " / ",\n" in front of a tail, in the printer's right-nested shape *)
Lemma tail_kv_w (w : str) K k v rest : W w -> K = q ++ k ++ q -> SBody k -> JV v -> MTail rest ->
  MTail (x2c :: w ++ K ++ EQ ++ v ++ rest).
Proof.
  intros Hw -> Hk Hv Hr. pose proof (mt_more w k v rest Hw Hk Hv Hr) as H.
  unfold member in H. repeat (rewrite <- app_assoc in H; cbn [app] in H). norm. exact H.
Qed.
Lemma tail_kv K k v rest : K = q ++ k ++ q -> SBody k -> JV v -> MTail rest -> MTail (CS ++ K ++ EQ ++ v ++ rest).
Proof. intros HK Hk Hv Hr. change (CS ++ K ++ EQ ++ v ++ rest) with (x2c :: [x20] ++ K ++ EQ ++ v ++ rest). apply (tail_kv_w [x20] K k v rest eq_refl HK Hk Hv Hr). Qed.
Lemma tail_kv_str K k body rest : K = q ++ k ++ q -> SBody k -> SBody body -> MTail rest ->
  MTail (CS ++ K ++ EQ ++ q ++ body ++ q ++ rest).
Proof.
  intros HK Hk Hb Hr. pose proof (tail_kv K k (q ++ body ++ q) rest HK Hk (jv_string body Hb) Hr) as H.
  repeat (rewrite <- app_assoc in H; cbn [app] in H). exact H.
Qed.
Lemma obj_kv w K k v rest : W w -> K = q ++ k ++ q -> SBody k -> JV v -> MTail rest -> JV (x7b :: w ++ K ++ EQ ++ v ++ rest).
Proof.
  intros Hw -> Hk Hv Hr. pose proof (obj_of_tail w k v rest Hw Hk Hv Hr) as H.
  unfold member in H. repeat (rewrite <- app_assoc in H; cbn [app] in H). norm. exact H.
Qed.
Lemma obj_kv_str w K k body rest : W w -> K = q ++ k ++ q -> SBody k -> SBody body -> MTail rest ->
  JV (x7b :: w ++ K ++ EQ ++ q ++ body ++ q ++ rest).
Proof.
  intros Hw HK Hk Hb Hr. pose proof (obj_kv w K k (q ++ body ++ q) rest Hw HK Hk (jv_string body Hb) Hr) as H.
  repeat (rewrite <- app_assoc in H; cbn [app] in H). exact H.
Qed.

Lemma CS_plain : forallb unescaped CS = true. Proof. reflexivity. Qed.

Section Proof.
Variable T : vis_tables.
Variable o : vopts.

(* ---------------------------------------------------------------- flat property labels are string bodies *)
Lemma join_flat_body vs : forall added b, join_flat_values T vs added = Ok b -> SBody b.
Proof.
  induction vs as [|v vs IH]; intros added b H; cbn [join_flat_values] in H.
  - inv_ok H. constructor.
  - inv_bind H. inv_bind H. inv_ok H.
    apply SBody_app; [destruct added; [apply plain_body, CS_plain|constructor]|].
    apply SBody_app; [apply esc_body|eapply IH; eassumption].
Qed.

Lemma flat_prop_body p b : flat_prop T p = Ok b -> SBody b.
Proof.
  destruct p as [m e priv|m op l r]; cbn [flat_prop]; intro H.
  - destruct e as [|s|st|ns]; try discriminate.
    + inv_ok H. apply esc_body.
    + inv_bind H. inv_ok H. apply esc_body.
  - eapply join_flat_body; eassumption.
Qed.

Definition PN_ok (pn : pn_t) : Prop :=
  forall s n a lvl out, ostmt_ok s -> vwf n = true -> anc_safe a -> pn s n a lvl = Ok out -> JElems out.

Section Step.
Variable pn : pn_t.
Hypothesis Hpn : PN_ok pn.

(* ---- properties, flat mode *)
Lemma props_loop_flat_more s lvl ps : o_flat o = true -> forall b, props_loop T o pn s lvl ps true = Ok b -> SBody b.
Proof.
  intro Hf. induction ps as [|p ps IH]; intros b H; cbn [props_loop] in H.
  - inv_ok H. constructor.
  - rewrite Hf in H. inv_bind H. inv_bind H. inv_ok H.
    apply SBody_app; [apply plain_body, CS_plain|]. apply SBody_app; [eapply flat_prop_body; eassumption | apply IH; assumption].
Qed.
Lemma props_loop_flat_first s lvl p ps b : o_flat o = true -> props_loop T o pn s lvl (p :: ps) false = Ok b ->
  exists body, b = CS ++ K_PROP ++ EQ ++ q ++ body /\ SBody body.
Proof.
  intros Hf H. cbn [props_loop] in H. rewrite Hf in H. inv_bind H. inv_bind H. inv_ok H.
  exists (a ++ a0). split; [norm; reflexivity|].
  apply SBody_app; [eapply flat_prop_body; eassumption | eapply props_loop_flat_more; eassumption].
Qed.

(* ---- properties, tree mode *)
Lemma props_loop_tree_more s lvl ps : o_flat o = false -> ostmt_ok s -> forallb vwf ps = true ->
  forall b, props_loop T o pn s lvl ps true = Ok b -> b = [] \/ exists es, b = CS ++ es /\ JElems es.
Proof.
  intros Hf Hs. induction ps as [|p ps IH]; intros Hps b H; cbn [props_loop] in H.
  - inv_ok H. left; reflexivity.
  - rewrite Hf in H. inv_bind H. inv_bind H. inv_ok H. cbn [forallb] in Hps. apply andb_true_iff in Hps as [Hp Hps].
    right. assert (Ja : JElems a) by (eapply Hpn; try eassumption; constructor).
    destruct (IH Hps _ E0) as [->|[es [-> Hes]]].
    + exists a. rewrite app_nil_r. auto.
    + exists (a ++ x2c :: [x20] ++ es). split; [reflexivity|]. apply JElems_join; auto. reflexivity.
Qed.
Lemma props_loop_tree_first s lvl p ps b : o_flat o = false -> ostmt_ok s -> forallb vwf (p :: ps) = true ->
  props_loop T o pn s lvl (p :: ps) false = Ok b ->
  exists es, b = CS ++ K_POS ++ EQ ++ $"""b""" ++ CS ++ K_CHILDREN ++ EQ ++ $"[" ++ es /\ JElems es.
Proof.
  intros Hf Hs Hps H. cbn [props_loop] in H. rewrite Hf in H. inv_bind H. inv_bind H. inv_ok H.
  cbn [forallb] in Hps. apply andb_true_iff in Hps as [Hp Hps].
  assert (Ja : JElems a) by (eapply Hpn; try eassumption; constructor).
  destruct (props_loop_tree_more s lvl ps Hf Hs Hps _ E0) as [->|[es [-> Hes]]].
  - exists a. split; [norm; rewrite ?app_nil_r; reflexivity|exact Ja].
  - exists (a ++ x2c :: [x20] ++ es). split; [norm; reflexivity|].
    apply JElems_join; auto. reflexivity.
Qed.

(* ---- Combine keeps nodes printable *)
Lemma combine_vwf l r op n : vwf l = true -> vwf r = true -> combine l r op = Ok n -> vwf n = true.
Proof.
  intros Hl Hr. unfold combine.
  destruct (is_empty_node l []); [intro H; inv_ok H; exact Hr|].
  destruct (is_empty_node r []); [intro H; inv_ok H; exact Hl|].
  match goal with |- (if ?c then _ else _) = _ -> _ => destruct c end; [discriminate|].
  intro H. inv_ok H. cbn [vwf ctype]. rewrite Hl, Hr, !andb_true_r.
  assert (Sl : safe (comp_name (node_meta l) []) = true).
  { apply comp_name_safe; [|constructor]. destruct l; [apply vwf_leaf in Hl|apply vwf_comb in Hl]; tauto. }
  assert (Sr : safe (comp_name (node_meta r) []) = true).
  { apply comp_name_safe; [|constructor]. destruct r; [apply vwf_leaf in Hr|apply vwf_comb in Hr]; tauto. }
  destruct (is_empty (comp_name (node_meta l) [])); assumption.
Qed.
Lemma merge_private_vwf ps : forall acc n, vwf acc = true -> forallb vwf ps = true -> merge_private acc ps = Ok n -> vwf n = true.
Proof.
  induction ps as [|p ps IH]; intros acc n Ha Hps H; cbn [merge_private] in H.
  - inv_ok H. exact Ha.
  - inv_bind H. cbn [forallb] in Hps. apply andb_true_iff in Hps as [Hp Hps].
    eapply IH; [exact (combine_vwf acc p BAND a Ha Hp E)|exact Hps|exact H].
Qed.

Lemma get_props_vwf s name : ostmt_ok s -> forallb vwf (get_props T s name) = true.
Proof.
  intro Hs. unfold get_props. destruct s as [st|]; [|reflexivity]. specialize (Hs st eq_refl).
  induction (vt_props T) as [|[[nm fs] fc] t IH]; [reflexivity|].
  destruct (beq_str name nm); [|exact IH].
  rewrite forallb_app.
  destruct (sget st fs) eqn:E1; destruct (sget st fc) eqn:E2; cbn [forallb];
    rewrite ?(sget_vwf _ _ _ Hs E1), ?(sget_vwf _ _ _ Hs E2); reflexivity.
Qed.

Lemma append_props_seg s n a lvl b : ostmt_ok s -> vwf n = true -> append_props T o pn s n a lvl = Ok b -> MSeg b.
Proof.
  intros Hs Hn. unfold append_props.
  set (props := get_props T s (comp_name (node_meta n) a)).
  assert (Hprops : forallb vwf props = true) by apply get_props_vwf, Hs.
  match goal with |- (if ?c then _ else _) = _ -> _ => destruct c end; [|intro H; inv_ok H; apply MSeg_nil].
  intro H. inv_bind H.
  assert (Hall : forallb vwf a0 = true).
  { destruct n as [m e priv|m op l r]; [|inv_ok E; exact Hprops].
    destruct priv as [|p0 rest]; [inv_ok E; exact Hprops|].
    inv_bind E. inv_ok E. apply vwf_leaf in Hn as [_ [Hpr _]]. cbn [forallb] in Hpr. apply andb_true_iff in Hpr as [H0 Hr].
    rewrite forallb_app, Hprops. cbn [forallb]. rewrite (merge_private_vwf _ _ _ H0 Hr E0). reflexivity. }
  destruct a0 as [|p ps]; [inv_ok H; apply MSeg_nil|].
  inv_bind H. inv_ok H. destruct (o_flat o) eqn:Hf.
  - destruct (props_loop_flat_first _ _ _ _ _ Hf E0) as [body [-> Hb]].
    intros rest Hr. norm.
    apply (tail_kv_str K_PROP $"prop" body rest K_PROP_eq (key_ok $"prop" eq_refl) Hb Hr).
  - destruct (props_loop_tree_first _ _ _ _ _ Hf Hs Hall E0) as [es [-> Hes]].
    intros rest Hr. norm.
    apply (tail_kv K_POS $"pos" _ _ K_POS_eq (key_ok $"pos" eq_refl)); [apply (jv_string $"b"), key_ok; reflexivity|].
    assert (Hv : JV (x5b :: es ++ [x5d])) by (apply jv_arr, Hes).
    pose proof (tail_kv K_CHILDREN $"children" _ rest K_CHILDREN_eq (key_ok $"children" eq_refl) Hv Hr) as G.
    norm_in G. norm. exact G.
Qed.

Lemma anno_seg m a : MSeg (append_annotations true false m a).
Proof.
  unfold append_annotations. destruct (get_annotations m a) as [s|]; [|apply MSeg_nil].
  intros rest Hr. norm.
  apply (tail_kv_str K_ANNO $"anno" (esc s) rest K_ANNO_eq (key_ok $"anno" eq_refl) (esc_body s) Hr).
Qed.
Lemma dov_seg n d : append_dov T true false n = Ok d -> MSeg d.
Proof.
  unfold append_dov. destruct (node_cx (vt_dov T) n) as [v|c|k|k|]; intro H; try discriminate; inv_ok H; [|apply MSeg_nil].
  intros rest Hr. norm.
  apply (tail_kv_str K_DOV $"dov" (esc (itoa_Z v)) rest K_DOV_eq (key_ok $"dov" eq_refl) (esc_body _) Hr).
Qed.

Lemma entry_tail_ok s n a lvl t : ostmt_ok s -> vwf n = true -> anc_safe a ->
  entry_tail T o pn s n a lvl = Ok t -> MTail t.
Proof.
  intros Hs Hn Ha H. unfold entry_tail in H. inv_bind H. inv_bind H. inv_ok H.
  assert (Hname : SBody (comp_name (node_meta n) a)).
  { apply safe_body, comp_name_safe; [|exact Ha]. destruct n; [apply vwf_leaf in Hn|apply vwf_comb in Hn]; tauto. }
  apply (tail_kv_str K_COMP $"comp" _ _ K_COMP_eq (key_ok $"comp" eq_refl) Hname).
  apply (tail_kv K_LEVEL $"level" _ _ K_LEVEL_eq (key_ok $"level" eq_refl) (itoa_nat_int lvl)).
  apply (append_props_seg _ _ _ _ _ Hs Hn E).
  assert (Hanno : MSeg (if o_anno o then append_annotations true false (node_meta n) a else [])).
  { destruct (o_anno o); [apply anno_seg|apply MSeg_nil]. }
  apply Hanno.
  assert (Hdov : MSeg a1).
  { destruct (o_dov o); [eapply dov_seg; eassumption|inv_ok E0; apply MSeg_nil]. }
  apply Hdov. apply (mt_end [] W_nil).
Qed.

Lemma vwf_not_empty n a : vwf n = true -> is_empty_node n a = false.
Proof.
  destruct n as [m e priv|]; [|reflexivity]. intro H. apply vwf_leaf in H as [_ [_ He]].
  destruct e; [contradiction| | |]; destruct m as [c sf an l r]; destruct c, sf, an, l, r; reflexivity.
Qed.

(* ---- PrintTree *)
Definition PT_ok (pt : pt_t) : Prop :=
  forall st parent lvl out, vwf_stmt st = true ->
    (forall p a, parent = Some (p, a) -> vwf p = true /\ anc_safe a) ->
    pt st parent lvl = Ok out -> JV out.

Lemma forallb_flat_map {A B} (p : B -> bool) (f : A -> list B) (l : list A) :
  (forall x, forallb p (f x) = true) -> forallb p (flat_map f l) = true.
Proof. intro H. induction l as [|x l IH]; [reflexivity|]. cbn [flat_map]. rewrite forallb_app, H, IH. reflexivity. Qed.

Lemma components_vwf st : vwf_stmt st = true -> forallb vwf (components_of T o st) = true.
Proof.
  intro Hs. unfold components_of. apply forallb_flat_map. intros [g fs]. cbn [fst snd].
  match goal with |- forallb vwf (if ?c then _ else _) = true => destruct c end; [|reflexivity].
  apply forallb_flat_map. intro f. destruct (sget st f) eqn:E; [|reflexivity].
  cbn [forallb]. rewrite (sget_vwf _ _ _ Hs E). reflexivity.
Qed.

Definition child_inv (head : str) (out : str) (present : bool) : Prop :=
  if present then exists es, out = head ++ K_CHILDREN ++ EQ ++ $"[" ++ LB ++ es /\ JElems es else out = head.

Lemma children_loop_inv st lvl head : vwf_stmt st = true ->
  forall cs present out r, forallb vwf cs = true -> child_inv head out present ->
    children_loop pn st lvl cs present out = Ok r -> child_inv head (fst r) (snd r).
Proof.
  intro Hst. induction cs as [|v cs IH]; intros present out r Hcs Hinv H; cbn [children_loop] in H.
  - inv_ok H. exact Hinv.
  - cbn [forallb] in Hcs. apply andb_true_iff in Hcs as [Hv Hcs].
    destruct (printable v); [|eapply IH; eassumption].
    inv_bind H.
    assert (Ja : JElems a).
    { eapply Hpn; [|exact Hv|constructor|exact E]. intros st' X. inv_ok X. exact Hst. }
    assert (Hne : is_empty a = false) by (destruct a; [exfalso; exact (JElems_nonempty _ Ja eq_refl)|reflexivity]).
    rewrite Hne in H. cbn [negb andb] in H. rewrite andb_true_r in H.
    eapply IH; [exact Hcs| |exact H].
    destruct present; cbn [negb orb child_inv] in *.
    + destruct Hinv as [es [-> Hes]]. exists (es ++ x2c :: [x0a] ++ a). split.
      * norm. reflexivity.
      * apply JElems_join; auto. reflexivity.
    + subst out. exists a. split; [norm; reflexivity|exact Ja].
Qed.

(* the closing part of PrintTree behind the "level" member *)
Lemma tree_close (v : str) : JV v -> MTail (LB ++ K_CHILDREN ++ EQ ++ v ++ LB ++ $"}") -> True.
Proof. trivial. Qed.

Lemma close_tail w v : W w -> JV v -> MTail (x2c :: w ++ K_CHILDREN ++ EQ ++ v ++ LB ++ $"}").
Proof.
  intros Hw Hv. apply (tail_kv_w w K_CHILDREN $"children" v _ Hw K_CHILDREN_eq (key_ok $"children" eq_refl) Hv).
  apply (mt_end LB). reflexivity.
Qed.

Lemma print_tree_ok : PT_ok (print_tree_step T o pn).
Proof.
  intros st parent lvl out Hst Hpar H. unfold print_tree_step in H.
  inv_bind H. inv_bind H. inv_bind H. destruct a1 as [out1 present]. inv_ok H.
  set (pname := match parent with Some (p, a') => comp_name (node_meta p) a' | None => [] end) in *.
  assert (Hroot : SBody (if is_empty pname then a else pname)).
  { destruct (is_empty pname) eqn:Ep.
    - destruct (o_dov o); [inv_bind E; inv_ok E; apply plain_body; cbn [forallb app]; rewrite forallb_app, itoa_Z_plain; reflexivity|inv_ok E; constructor].
    - apply safe_body. subst pname. destruct parent as [[p a']|]; [|discriminate].
      destruct (Hpar p a' eq_refl) as [Hp Ha']. apply comp_name_safe; [|exact Ha'].
      destruct p; [apply vwf_leaf in Hp|apply vwf_comb in Hp]; tauto. }
  set (root := if is_empty pname then a else pname) in *.
  set (anno := if o_anno o then match parent with Some (p, a') => append_annotations false true (node_meta p) a' | None => [] end else []) in *.
  set (head := $"{" ++ LB ++ K_NAME ++ EQ ++ q ++ root ++ q ++ SEP ++ K_LEVEL ++ EQ ++ itoa_nat lvl ++ CS ++ anno ++ a0 ++ LB) in *.
  pose proof (children_loop_inv st lvl head Hst _ false head _ (components_vwf st Hst) eq_refl E1) as Hinv.
  cbn [fst snd] in Hinv.
  (* the value of the children member and what follows it *)
  assert (Hfin : exists v, JV v /\ out1 ++ (if present then LB ++ $"]" else K_CHILDREN ++ EQ ++ $"[" ++ $"]") ++ LB ++ $"}"
                                  = head ++ K_CHILDREN ++ EQ ++ v ++ LB ++ $"}").
  { destruct present; cbn [child_inv] in Hinv.
    - destruct Hinv as [es [-> Hes]]. exists (x5b :: (LB ++ es ++ LB) ++ [x5d]). split.
      + apply jv_arr. apply JElems_ws_l; [reflexivity|]. apply JElems_ws_r; [exact Hes|reflexivity].
      + norm. reflexivity.
    - subst out1. exists (x5b :: [] ++ [x5d]). split; [apply (jv_arr0 []); reflexivity|].
      norm. reflexivity. }
  destruct Hfin as [v [Hv ->]]. subst head.
  norm.
  change (x7b :: x0a :: K_NAME ++ EQ ++ q ++ root ++ q ++ SEP ++ K_LEVEL ++ EQ ++ itoa_nat lvl ++ CS ++ anno ++ a0 ++ LB ++ K_CHILDREN ++ EQ ++ v ++ LB ++ $"}")
    with (x7b :: [x0a] ++ K_NAME ++ EQ ++ q ++ root ++ q ++ SEP ++ K_LEVEL ++ EQ ++ itoa_nat lvl ++ CS ++ anno ++ a0 ++ LB ++ K_CHILDREN ++ EQ ++ v ++ LB ++ $"}").
  apply (obj_kv_str [x0a] K_NAME $"name" root _ eq_refl K_NAME_eq (key_ok $"name" eq_refl) Hroot).
  change (SEP ++ K_LEVEL ++ EQ ++ itoa_nat lvl ++ CS ++ anno ++ a0 ++ LB ++ K_CHILDREN ++ EQ ++ v ++ LB ++ $"}")
    with (x2c :: [x0a] ++ K_LEVEL ++ EQ ++ itoa_nat lvl ++ CS ++ anno ++ a0 ++ LB ++ K_CHILDREN ++ EQ ++ v ++ LB ++ $"}").
  apply (tail_kv_w [x0a] K_LEVEL $"level" _ _ eq_refl K_LEVEL_eq (key_ok $"level" eq_refl) (itoa_nat_int lvl)).
  (* ", " [anno ", "] [dov ", "] "\n" children ... *)
  assert (Hdov : a0 = [] \/ exists e, a0 = K_DOV ++ EQ ++ q ++ esc e ++ q ++ CS).
  { destruct (o_dov o); [|inv_ok E0; left; reflexivity]. destruct parent as [[p a']|]; [|inv_ok E0; left; reflexivity].
    unfold append_dov in E0. destruct (node_cx (vt_dov T) p); try discriminate; inv_ok E0; [right|left; reflexivity].
    eexists. cbn [app]. reflexivity. }
  assert (Hanno : anno = [] \/ exists e, anno = K_ANNO ++ EQ ++ q ++ esc e ++ q ++ CS).
  { subst anno. destruct (o_anno o); [|left; reflexivity]. destruct parent as [[p a']|]; [|left; reflexivity].
    unfold append_annotations. destruct (get_annotations (node_meta p) a'); [right|left; reflexivity].
    eexists. cbn [app]. reflexivity. }
  assert (Hlast : forall d, (d = [] \/ exists e, d = K_DOV ++ EQ ++ q ++ esc e ++ q ++ CS) ->
                  MTail (CS ++ d ++ LB ++ K_CHILDREN ++ EQ ++ v ++ LB ++ $"}")).
  { intros d [->|[e ->]].
    - apply (close_tail [x20; x0a] v eq_refl Hv).
    - norm.
      apply (tail_kv_str K_DOV $"dov" (esc e) _ K_DOV_eq (key_ok $"dov" eq_refl) (esc_body e)).
      apply (close_tail [x20; x0a] v eq_refl Hv). }
  destruct Hanno as [->|[e ->]].
  - cbn [app]. apply Hlast, Hdov.
  - norm.
    apply (tail_kv_str K_ANNO $"anno" (esc e) _ K_ANNO_eq (key_ok $"anno" eq_refl) (esc_body e)).
    apply Hlast, Hdov.
Qed.

(* ---- PrintNodeTree *)
Lemma print_node_ok : PN_ok (print_node_step T o pn (print_tree_step T o pn)).
Proof.
  intros s n a lvl out Hs Hn Ha H. unfold print_node_step in H. rewrite (vwf_not_empty n a Hn) in H.
  destruct n as [m e priv|m op l r].
  - pose proof (vwf_leaf _ _ _ Hn) as [Hm [Hpriv He]].
    destruct e as [|txt|st|ns]; [contradiction| | |].
    + inv_bind H. inv_ok H. apply elems_one.
      pose proof (entry_tail_ok _ _ _ _ _ Hs Hn Ha E) as Ht.
      change ($"{" ++ K_NAME ++ EQ ++ q ++ esc (leaf_text m a txt) ++ q ++ a0)
        with (x7b :: [] ++ K_NAME ++ EQ ++ q ++ esc (leaf_text m a txt) ++ q ++ a0).
      apply (obj_kv_str [] K_NAME $"name" _ _ W_nil K_NAME_eq (key_ok $"name" eq_refl) (esc_body _) Ht).
    + apply elems_one. eapply print_tree_ok; [exact He| |exact H].
      intros p a' X. inversion X; subst; clear X. split; assumption.
    + destruct ns as [|[m' e' priv'|] rest]; try discriminate.
      destruct e' as [| |st|]; try discriminate.
      apply elems_one. eapply print_tree_ok; [| |exact H].
      * cbn [forallb] in He. apply andb_true_iff in He as [He _]. apply vwf_leaf in He. tauto.
      * intros p a' X. inversion X; subst; clear X. split; assumption.
  - pose proof (vwf_comb _ _ _ _ Hn) as [Hm [Hl Hr]].
    inv_bind H. inv_bind H.
    assert (Ha' : anc_safe ((m, op) :: a)) by (constructor; assumption).
    assert (Jl : JElems a0) by exact (Hpn s l _ lvl a0 Hs Hl Ha' E).
    assert (Jr : JElems a1) by exact (Hpn s r _ lvl a1 Hs Hr Ha' E0).
    match type of H with (if ?c then _ else _) = _ => destruct c end.
    + inv_ok H. change (a0 ++ CS ++ a1) with (a0 ++ x2c :: [x20] ++ a1). apply JElems_join; auto. reflexivity.
    + inv_bind H. inv_ok H. apply elems_one.
      pose proof (entry_tail_ok _ _ _ _ _ Hs Hn Ha E1) as Ht.
      assert (Hop : SBody (op_name op)) by (destruct op; apply key_ok; reflexivity).
      assert (Harr : JV (x5b :: (a0 ++ x2c :: [x0a] ++ a1) ++ [x5d])).
      { apply jv_arr. apply JElems_join; auto. reflexivity. }
      pose proof (obj_kv_str [] K_NAME $"name" (op_name op) _ W_nil K_NAME_eq (key_ok $"name" eq_refl) Hop
                    (tail_kv_w [x0a] K_CHILDREN $"children" _ a2 eq_refl K_CHILDREN_eq (key_ok $"children" eq_refl) Harr Ht)) as G.
      norm_in G. norm. exact G.
Qed.
End Step.

Theorem pn_ok fuel : PN_ok (pn T o fuel).
Proof.
  induction fuel as [|f IH]; cbn [pn].
  - intros s n a lvl out _ _ _ H. discriminate.
  - apply print_node_ok, IH.
Qed.

(* the endpoint's call: the root is a node holding the parsed statement *)
Theorem vis_print_json fuel st out : vwf_stmt st = true -> vis_print T o fuel st = Ok out -> JV out.
Proof.
  intros Hst H. unfold vis_print, vis_print_node in H.
  destruct fuel as [|f]; [discriminate|]. cbn [pn] in H. unfold print_node_step in H. cbn in H.
  eapply (print_tree_ok (pn T o f) (pn_ok f)); [exact Hst| |exact H].
  intros p a X. inversion X; subst; clear X. split; [|constructor].
  cbn [vwf meta0 ctype]. destruct st as [fs]. rewrite nested_fields. unfold vwf_stmt in Hst. cbn [stmt_fields] in Hst. rewrite Hst. reflexivity.
Qed.
End Proof.
