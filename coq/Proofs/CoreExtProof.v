(* Proofs/CoreExtProof.v - IG Core vs IG Extended in the tabular model (C19): with IG Extended off no nested
   statement is ever registered, so no row group is added: the table consists of the statement's own rows, one per
   element of the product.  With IG Extended on, every registered nested statement contributes its own rows. *)
From Coq Require Import List Arith Bool Lia NArith ZArith Strings.Byte.
From IGP Require Import Base.Str Base.Outcome Model.Tree Model.Odo Model.Leaves Model.Flat Model.Link Model.Visual Model.Tabular.
Import ListNotations.

Lemma bind_ok {A B} (r : res A) (f : A -> res B) b : bind r f = Ok b -> exists a, r = Ok a /\ f a = Ok b.
Proof. destruct r; cbn [bind]; intro H; try discriminate. eauto. Qed.

Section Core.
Variable T : tab_tables.
Variable C : tcfg.
Hypothesis Hcore : t_ext C = false.

Lemma priv_elems_core vs : forall r reg x pv i j sid r' reg',
  priv_elems T C r reg x pv i j vs sid = Ok (r', reg') -> reg' = reg.
Proof.
  induction vs as [|v t IH]; intros r reg x pv i j sid r' reg' H; cbn [priv_elems] in H.
  - inversion H. reflexivity.
  - rewrite Hcore in H. apply bind_ok in H as [fl [_ H]]. eapply IH. exact H.
Qed.

Lemma priv_loop_core pvs : forall r reg x i sid r' reg',
  priv_loop T C r reg x i pvs sid = Ok (r', reg') -> reg' = reg.
Proof.
  induction pvs as [|pv t IH]; intros r reg x i sid r' reg' H; cbn [priv_loop] in H.
  - inversion H. reflexivity.
  - apply bind_ok in H as [[r1 reg1] [H1 H2]]. cbn [fst snd] in H2. apply IH in H2. subst reg'.
    destruct pv as [m e pr | m o l rr]; [|inversion H1; reflexivity].
    destruct e as [ | s | st | ns ].
    + inversion H1. reflexivity.
    + inversion H1. reflexivity.
    + eapply priv_elems_core. exact H1.
    + eapply priv_elems_core. exact H1.
Qed.

Lemma complex_loop_core vs : forall r reg key sid r' reg',
  complex_loop T C r reg key vs sid = Ok (r', reg') -> reg' = reg.
Proof.
  induction vs as [|v t IH]; intros r reg key sid r' reg' H; cbn [complex_loop] in H.
  - inversion H. reflexivity.
  - rewrite Hcore in H. apply bind_ok in H as [fl [_ H]]. eapply IH. exact H.
Qed.

Lemma comps_loop_core s xs : forall r reg lv lms sid r' reg' lv',
  comps_loop T C s r reg lv xs lms sid = Ok (r', reg', lv') -> reg' = reg.
Proof.
  induction xs as [|x t IH]; intros r reg lv lms sid r' reg' lv' H; cbn [comps_loop] in H.
  - inversion H. reflexivity.
  - apply bind_ok in H as [[r1 reg1] [H1 H2]]. apply bind_ok in H2 as [lv1 [_ H2]]. cbn [fst snd] in H2.
    apply IH in H2. subst reg'.
    destruct (is_empty_node (l_n x) (l_a x)); [inversion H1; reflexivity|].
    destruct (l_n x) as [m e pr | m o l rr] eqn:En.
    + destruct e as [ | e | st | ns ]; try (eapply complex_loop_core; exact H1).
      match type of H1 with context [prim_cell ?a ?b ?c] => destruct (prim_cell a b c) as [v skip] end.
      apply bind_ok in H1 as [[r2 reg2] [H1 H3]]. inversion H3; subst. cbn [snd].
      eapply priv_loop_core. exact H1.
    + eapply complex_loop_core. exact H1.
Qed.

Lemma rows_loop_core s anno links rows : forall lms multi ct reg sid acc out reg',
  rows_loop T C s anno links rows lms multi ct reg sid acc = Ok (out, reg') ->
  reg' = reg /\ length out = length rows + length acc.
Proof.
  induction rows as [|xs t IH]; intros lms multi ct reg sid acc out reg' H; cbn [rows_loop] in H.
  - inversion H. split; [reflexivity | rewrite rev_length; reflexivity].
  - apply bind_ok in H as [[[r2 reg2] lv] [H1 H2]].
    apply comps_loop_core in H1. subst reg2.
    apply IH in H2 as [H2 H3]. split; [exact H2|]. rewrite H3. cbn [length]. lia.
Qed.

(* IG Core adds no rows: the table of a statement is its own rows, one per element of the product *)
Theorem core_adds_no_rows f n anno links sid rows :
  tab_stmt T C (S f) n anno links sid = Ok rows ->
  exists s perms, stmt_of_node n = Ok s /\ odometer (stmt_leaf_refs (tt_leaf T) s) = Ok perms /\ length rows = length perms.
Proof.
  intro H. cbn [tab_stmt] in H.
  apply bind_ok in H as [s [Hs H]]. apply bind_ok in H as [perms [Hp H]].
  destruct perms as [|p0 perms']; [discriminate|].
  apply bind_ok in H as [[own reg] [Hr H]].
  apply rows_loop_core in Hr as [Hreg Hlen]. subst reg. inversion H; subst.
  exists s, (p0 :: perms'). repeat split; try assumption. rewrite Hlen. cbn [length]. lia.
Qed.
End Core.
