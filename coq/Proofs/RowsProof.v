(* Proofs/RowsProof.v - the row loop of the static tabular exporter writes one row per element of the product it is
   given, in that order, none skipped and none added (C04); together with own_choices_are_product: the own rows of
   a statement are in one-to-one correspondence with the Cartesian product of its alternatives. *)
From Coq Require Import List Arith Bool Lia Strings.Byte.
From IGP Require Import Base.Str Base.Outcome Model.Tree Model.Odo Model.Leaves Model.Link Model.Tabular Spec.TabSpec Proofs.OdoProof Proofs.TabProof.
Import ListNotations.

Section R.
Variable T : tab_tables.
Variable C : tcfg.

Theorem rows_loop_length s anno sl : forall rows lms multi ct reg sid acc out reg',
  rows_loop T C s anno sl rows lms multi ct reg sid acc = Ok (out, reg') -> length out = length acc + length rows.
Proof.
  induction rows as [|xs t IH]; intros lms multi ct reg sid acc out reg' H; cbn [rows_loop] in H.
  - inversion H; subst. rewrite rev_length. cbn [length]. lia.
  - cbv zeta in H.
    destruct (comps_loop T C s _ reg [] xs lms sid) as [[[r2 regx] lv]|e|k|k|] eqn:E; cbn [bind] in H; try discriminate.
    apply IH in H. cbn [length] in H. cbn [length]. lia.
Qed.

(* one own row per element of the product *)
Corollary one_row_per_choice s anno sl perms lms multi reg sid out reg' :
  rows_loop T C s anno sl perms lms multi 0 reg sid [] = Ok (out, reg') -> length out = length perms.
Proof. intro H. apply rows_loop_length in H. exact H. Qed.
End R.
