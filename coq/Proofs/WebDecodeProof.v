(* Proofs/WebDecodeProof.v - C15, decoding: if the regenerated rules are well-formed and resolve to the specified wiring,
   then for EVERY set of request parameters the option handed over for a switch is exactly what the specification says:
   the named checkbox / URL parameter decides it, no other parameter has any influence. *)
From Coq Require Import List Arith Bool Strings.Byte.
From IGP Require Import Base.Str Model.Handlers Model.WebDecode.
Import ListNotations.

Lemma vget_app a vs v : vget v (a ++ vs) = match assoc_get v a with Some b => b | None => vget v vs end.
Proof.
  induction a as [|[k x] a IH]; cbn [app vget assoc_get]; [reflexivity|].
  destruct (beq_str v k); [reflexivity | exact IH].
Qed.

Lemma rule_target_spec a b v x : rule_target a b = Some (v, x) -> a = [(v, x)] /\ b = [(v, negb x)].
Proof.
  unfold rule_target. destruct a as [|[v1 x1] [|? ?]]; try discriminate. destruct b as [|[v2 x2] [|? ?]]; try discriminate.
  destruct (beq_str v1 v2 && negb (Bool.eqb x1 x2)) eqn:E; [|discriminate].
  intro H. inversion H; subst. apply andb_true_iff in E as [E1 E2]. apply beq_str_eq in E1. subst v2.
  split; [reflexivity|]. f_equal. f_equal. destruct x, x2; try reflexivity; discriminate.
Qed.

Section Proofs.
Variable form_vars : list (str * str).
Variable ps : params.

Definition pstep (vs : vars) (r : prule) : vars :=
  match r with PRule fv a b => vset_all (if beq_str (pget (form_param form_vars fv) ps) $"on" then a else b) vs end.

Lemma post_fold rs : forall acc v,
  forallb (fun r => match r with PRule _ a b => match rule_target a b with Some _ => true | None => false end end) rs = true ->
  vget v (fold_left pstep rs acc) =
  match post_source_in form_vars rs v with
  | Some (p, x) => if beq_str (pget p ps) $"on" then x else negb x
  | None => vget v acc
  end.
Proof.
  induction rs as [|[fv a b] rs IH]; intros acc v Hwf; [reflexivity|].
  cbn [forallb] in Hwf. apply andb_true_iff in Hwf as [H1 H2].
  cbn [fold_left post_source_in]. rewrite (IH _ v H2).
  destruct (post_source_in form_vars rs v) as [[p x]|]; [reflexivity|].
  destruct (rule_target a b) as [[v' x]|] eqn:E; [|discriminate].
  destruct (rule_target_spec a b v' x E) as [-> ->].
  unfold pstep, vset_all. rewrite vget_app.
  destruct (beq_str (pget (form_param form_vars fv) ps) $"on") eqn:Eon; cbn [assoc_get]; destruct (beq_str v v') eqn:Ev; rewrite ?Eon; reflexivity.
Qed.

Definition ustep (vs : vars) (r : urule) : vars :=
  match r with URule p d a b _ =>
     let v := pget p ps in
     let check := if is_empty v then match d with Some x => x | None => false end else url_true v in
     vset_all (if check then a else b) vs end.

Lemma get_fold rs : forall acc v,
  forallb (fun r => match r with URule _ _ a b _ => match rule_target a b with Some _ => true | None => false end end) rs = true ->
  vget v (fold_left ustep rs acc) =
  match get_source_in rs v with
  | Some (p, x, chk) => let check := if is_empty (pget p ps) then chk else url_true (pget p ps) in if check then x else negb x
  | None => vget v acc
  end.
Proof.
  induction rs as [|[p d a b g] rs IH]; intros acc v Hwf; [reflexivity|].
  cbn [forallb] in Hwf. apply andb_true_iff in Hwf as [H1 H2].
  cbn [fold_left get_source_in]. rewrite (IH _ v H2).
  destruct (get_source_in rs v) as [[[p' x] chk]|]; [reflexivity|].
  destruct (rule_target a b) as [[v' x]|] eqn:E; [|discriminate].
  destruct (rule_target_spec a b v' x E) as [-> ->].
  unfold ustep, vset_all. cbv zeta. rewrite vget_app.
  destruct (if is_empty (pget p ps) then match d with Some x0 => x0 | None => false end else url_true (pget p ps)) eqn:Ec;
    cbn [assoc_get]; destruct (beq_str v v') eqn:Ev; rewrite ?Ec; reflexivity.
Qed.
End Proofs.

(* the theorem: for every request, the option a page hands over for a switch is the specified function of the one
   parameter that names it *)
Theorem decode_correct form_vars post_rules get_rules handover prog :
  rules_wellformed post_rules get_rules = true ->
  forall w, In w spec_wiring -> wire_ok form_vars post_rules get_rules handover prog w = true ->
  forall p g pol absent cp v, w = (p, g, pol, absent) -> global_param prog g = Some cp -> arg_of handover cp = Some v ->
  forall (post : bool) (ps : params), vget v (decode form_vars post_rules get_rules post ps) = spec_value post ps w.
Proof.
  intros Hwf w _ Hw p g pol absent cp v -> Hg Ha post ps.
  unfold rules_wellformed in Hwf. apply andb_true_iff in Hwf as [Hp Hu].
  unfold wire_ok in Hw. rewrite Hg, Ha in Hw.
  destruct (post_source form_vars post_rules v) as [[pp x]|] eqn:Eps; [|discriminate].
  destruct (get_source get_rules v) as [[[gp y] chk]|] eqn:Egs; [|discriminate].
  apply andb_true_iff in Hw as [Hw H5]. apply andb_true_iff in Hw as [Hw H4]. apply andb_true_iff in Hw as [Hw H3]. apply andb_true_iff in Hw as [H1 H2].
  apply beq_str_eq in H1, H3. apply Bool.eqb_prop in H2, H4, H5. subst pp x gp y chk.
  unfold decode, spec_value.
  assert (Hpost : forall acc, vget v (fold_left (pstep form_vars ps) post_rules acc) = if beq_str (pget p ps) $"on" then pol else negb pol).
  { intro acc. rewrite (post_fold form_vars ps post_rules acc v Hp). unfold post_source in Eps. rewrite Eps. reflexivity. }
  destruct post.
  - unfold run_post. change (fun vs r => match r with PRule fv a b => vset_all (if beq_str (pget (form_param form_vars fv) ps) $"on" then a else b) vs end) with (pstep form_vars ps).
    rewrite Hpost. destruct pol, (beq_str (pget p ps) $"on"); reflexivity.
  - unfold run_get.
    change (fun vs r => match r with URule p0 d a b _ => let v0 := pget p0 ps in let check := if is_empty v0 then match d with Some x => x | None => false end else url_true v0 in vset_all (if check then a else b) vs end) with (ustep ps).
    rewrite (get_fold ps get_rules _ v Hu). unfold get_source in Egs. rewrite Egs. cbv zeta.
    destruct pol, (is_empty (pget p ps)), absent, (url_true (pget p ps)); reflexivity.
Qed.
