(* Proofs/JsonLemmas.v - grammar lemmas shaped like the way the printer writes: members appended one after
   another with hand-placed separators; escaping; decimal numbers. *)
From Coq Require Import List Arith Bool Lia NArith ZArith Strings.Byte.
From IGP Require Import Base.Str Spec.Json Model.Visual.
Import ListNotations.
Open Scope list_scope.

Lemma W_app a b : W a -> W b -> W (a ++ b).
Proof. unfold W. intros Ha Hb. rewrite forallb_app, Ha, Hb. reflexivity. Qed.
Lemma W_nil : W []. Proof. reflexivity. Qed.

Lemma SBody_app a b : SBody a -> SBody b -> SBody (a ++ b).
Proof. intros Ha Hb. induction Ha; cbn [app]; [exact Hb|apply sb_char|apply sb_esc|apply sb_u]; auto. Qed.

Lemma plain_body (k : str) : forallb unescaped k = true -> SBody k.
Proof. induction k as [|c k IH]; cbn; intros H; [constructor|]. apply andb_true_iff in H. destruct H. apply sb_char; auto. Qed.

(* ---------------------------------------------------------------- escaping: every byte string becomes a string body *)
Lemma hexdigit_hex n : (n < 16)%N -> is_hex (hexdigit n) = true.
Proof.
  intros H. assert (E : In n (map N.of_nat (seq 0 16))).
  { apply in_map_iff. exists (N.to_nat n). split; [apply N2Nat.id|apply in_seq; lia]. }
  cbn in E. repeat (destruct E as [<-|E]; [reflexivity|]). destruct E.
Qed.

Lemma esc1_body c : SBody (esc1 c).
Proof.
  unfold esc1. destruct (Byte.eqb c x22) eqn:E1.
  - apply sb_char; [reflexivity|constructor].
  - destruct (Byte.eqb c x5c) eqn:E2.
    + apply sb_esc; [reflexivity|constructor].
    + destruct (Byte.to_N c <? 32)%N eqn:E3.
      * apply N.ltb_lt in E3. cbn [app].
        apply sb_u; try reflexivity; try constructor; apply hexdigit_hex.
        -- apply N.div_lt_upper_bound; lia.
        -- apply N.mod_lt; lia.
      * apply sb_char; [|constructor]. unfold unescaped. rewrite E1, E2. cbn [negb andb].
        rewrite !andb_true_r. apply N.leb_le. apply N.ltb_ge in E3. exact E3.
Qed.
Theorem esc_body s : SBody (esc s).
Proof. induction s as [|c s IH]; cbn; [constructor|]. apply SBody_app; [apply esc1_body|exact IH]. Qed.

(* ---------------------------------------------------------------- decimal numbers *)
Lemma digit_byte_digit d : (d < 10)%N -> is_digit (digit_byte d) = true /\ (digit_byte d = x30 <-> d = 0%N).
Proof.
  intros H. assert (E : In d (map N.of_nat (seq 0 10))).
  { apply in_map_iff. exists (N.to_nat d). split; [apply N2Nat.id|apply in_seq; lia]. }
  cbn in E. repeat (destruct E as [<-|E]; [split; [reflexivity|split; intro X; try reflexivity; try discriminate]|]). destruct E.
Qed.

Lemma itoa_fuel_digits fuel : forall n acc, forallb is_digit acc = true -> forallb is_digit (itoa_fuel fuel n acc) = true.
Proof.
  induction fuel as [|f IH]; intros n acc Hacc; cbn [itoa_fuel]; [exact Hacc|].
  assert (Hd : is_digit (digit_byte (n mod 10)) = true) by (apply digit_byte_digit, N.mod_lt; lia).
  destruct (n <? 10)%N; [|apply IH]; cbn [forallb]; rewrite Hd, Hacc; reflexivity.
Qed.

Lemma log2_div10 n : (10 <= n)%N -> (N.log2 (n / 10) < N.log2 n)%N.
Proof.
  intros H. assert (H1 : (n / 10 <= n / 2)%N) by (apply N.div_le_compat_l; lia).
  assert (H2 : (N.log2 (n / 2) = N.log2 n - 1)%N).
  { rewrite <- N.div2_div. rewrite N.div2_spec. apply N.log2_shiftr. }
  pose proof (N.log2_le_mono _ _ H1) as H3.
  assert (0 < N.log2 n)%N by (apply N.log2_pos; lia). lia.
Qed.

(* with enough fuel the first digit is not 0 unless the number is 0 *)
Lemma itoa_fuel_head fuel : forall n acc, (N.to_nat (N.log2 n) < fuel)%nat ->
  exists c rest, itoa_fuel fuel n acc = c :: rest /\ (n <> 0%N -> c <> x30) /\ (n = 0%N -> rest = acc).
Proof.
  induction fuel as [|f IH]; intros n acc Hf; [lia|]. cbn [itoa_fuel].
  destruct (n <? 10)%N eqn:E.
  - apply N.ltb_lt in E. exists (digit_byte (n mod 10)), acc. split; [reflexivity|]. split.
    + intros Hn Hc. rewrite N.mod_small in Hc by lia. apply digit_byte_digit in Hc; [contradiction|lia].
    + reflexivity.
  - apply N.ltb_ge in E.
    destruct (IH (n / 10)%N (digit_byte (n mod 10) :: acc)) as [c [rest [H1 [H2 H3]]]].
    + pose proof (log2_div10 n E). lia.
    + exists c, rest. split; [exact H1|]. split; [|intros ->; lia].
      intros _. apply H2. intro Z0. apply N.div_small_iff in Z0; lia.
Qed.

Lemma itoa_N_int n : JV (itoa_N n).
Proof.
  unfold itoa_N.
  destruct (itoa_fuel_head (S (N.to_nat (N.log2 n))) n [] ltac:(lia)) as [c [rest [H1 [H2 H3]]]].
  apply jv_int.
  - rewrite H1. discriminate.
  - apply itoa_fuel_digits. reflexivity.
  - rewrite H1. destruct (N.eq_dec n 0) as [->|Hn].
    + left. rewrite (H3 eq_refl). reflexivity.
    + right. cbn [hd]. apply H2, Hn.
Qed.
Lemma itoa_nat_int n : JV (itoa_nat n).
Proof. apply itoa_N_int. Qed.

Lemma digits_plain ds : forallb is_digit ds = true -> forallb unescaped ds = true.
Proof.
  induction ds as [|c ds IH]; cbn; [reflexivity|]. intro H. apply andb_true_iff in H as [H1 H2].
  rewrite (IH H2), andb_true_r. unfold is_digit in H1. apply andb_true_iff in H1 as [A B].
  apply N.leb_le in A. apply N.leb_le in B. unfold unescaped.
  assert (c <> x22) by (intros ->; cbn in *; lia). assert (c <> x5c) by (intros ->; cbn in *; lia).
  destruct (Byte.eqb c x22) eqn:E1; [apply byte_eqb_eq in E1; contradiction|].
  destruct (Byte.eqb c x5c) eqn:E2; [apply byte_eqb_eq in E2; contradiction|].
  cbn. rewrite !andb_true_r. apply N.leb_le. lia.
Qed.
Lemma itoa_N_plain n : forallb unescaped (itoa_N n) = true.
Proof. apply digits_plain. unfold itoa_N. apply itoa_fuel_digits. reflexivity. Qed.
Lemma itoa_Z_plain z : forallb unescaped (itoa_Z z) = true.
Proof.
  destruct z as [|p|p]; cbn [itoa_Z].
  - apply itoa_N_plain.
  - apply itoa_N_plain.
  - change (unescaped minus_b && forallb unescaped (itoa_N (N.pos p)) = true). rewrite itoa_N_plain. reflexivity.
Qed.

(* ---------------------------------------------------------------- elements *)
Lemma JElems_ws_l w es : W w -> JElems es -> JElems (w ++ es).
Proof.
  intros Hw H. destruct H as [w1 v w2 H1 Hv H2 | w1 v w2 rest H1 Hv H2 Hr].
  - rewrite app_assoc. apply je_one; auto using W_app.
  - rewrite app_assoc. apply je_cons; auto using W_app.
Qed.
Lemma elems_one v : JV v -> JElems v.
Proof. intros H. pose proof (je_one [] v [] W_nil H W_nil) as G. cbn [app] in G. rewrite app_nil_r in G. exact G. Qed.
Lemma JElems_ws_r es : JElems es -> forall w, W w -> JElems (es ++ w).
Proof.
  induction 1 as [w1 v w2 H1 Hv H2 | w1 v w2 rest H1 Hv H2 Hr IH]; intros w Hw.
  - rewrite <- !app_assoc. apply je_one; auto using W_app.
  - rewrite <- ?app_assoc; cbn [app]; rewrite <- ?app_assoc; cbn [app]. apply je_cons; auto.
Qed.
(* two element lists joined by the printer's separator "," ++ whitespace *)
Lemma JElems_join a : JElems a -> forall w b, W w -> JElems b -> JElems (a ++ x2c :: w ++ b).
Proof.
  induction 1 as [w1 v w2 H1 Hv H2 | w1 v w2 rest H1 Hv H2 Hr IH]; intros w b Hw Hb.
  - rewrite <- !app_assoc. apply je_cons; auto. apply JElems_ws_l; auto.
  - rewrite <- ?app_assoc; cbn [app]; rewrite <- ?app_assoc; cbn [app]. apply je_cons; auto.
Qed.

(* ---------------------------------------------------------------- members, as the printer appends them *)
Definition member (k v : str) : str := q ++ k ++ q ++ EQ ++ v.

Inductive MTail : str -> Prop :=
| mt_end w : W w -> MTail (w ++ [x7d])
| mt_more w k v rest : W w -> SBody k -> JV v -> MTail rest -> MTail (x2c :: w ++ member k v ++ rest).

Lemma JMembers_ws_l w ms : W w -> JMembers ms -> JMembers (w ++ ms).
Proof.
  intros Hw H. destruct H as [w1 k w2 w3 v w4 H1 Hk H2 H3 Hv H4 | w1 k w2 w3 v w4 rest H1 Hk H2 H3 Hv H4 Hr].
  - rewrite app_assoc. apply jm_one; auto using W_app.
  - rewrite app_assoc. apply jm_cons; auto using W_app.
Qed.

Ltac norm_app := repeat (rewrite <- app_assoc; cbn [app]).

Lemma tail_members rest : MTail rest -> forall w1 k v, W w1 -> SBody k -> JV v ->
  exists ms, JMembers ms /\ w1 ++ member k v ++ rest = ms ++ [x7d].
Proof.
  induction 1 as [w Hw | w k' v' rest' Hw Hk' Hv' Hrest IH]; intros w1 k v H1 Hk Hv.
  - exists (w1 ++ (dq :: k ++ [dq]) ++ [] ++ x3a :: [x20] ++ v ++ w). split.
    + apply jm_one; auto using W_nil; reflexivity.
    + unfold member, q, EQ, dq. cbn. repeat (rewrite <- app_assoc; cbn [app]). reflexivity.
  - destruct (IH w k' v' Hw Hk' Hv') as [ms' [Hms' E]].
    exists (w1 ++ (dq :: k ++ [dq]) ++ [] ++ x3a :: [x20] ++ v ++ [] ++ x2c :: ms'). split.
    + apply jm_cons; auto using W_nil; reflexivity.
    + unfold member, q, EQ, dq in *. cbn in *. repeat (rewrite <- app_assoc; cbn [app]).
      repeat (rewrite <- app_assoc in E; cbn [app] in E). rewrite <- E. reflexivity.
Qed.

Lemma obj_of_tail w k v rest : W w -> SBody k -> JV v -> MTail rest -> JV (x7b :: w ++ member k v ++ rest).
Proof.
  intros Hw Hk Hv Hr. destruct (tail_members rest Hr w k v Hw Hk Hv) as [ms [Hms E]].
  rewrite E. apply jv_obj, Hms.
Qed.

(* a piece that may be appended in front of any member tail *)
Definition MSeg (s : str) : Prop := forall rest, MTail rest -> MTail (s ++ rest).
Lemma MSeg_nil : MSeg [].
Proof. intros rest H. exact H. Qed.
Lemma MSeg_app a b : MSeg a -> MSeg b -> MSeg (a ++ b).
Proof. intros Ha Hb rest H. rewrite <- app_assoc. apply Ha, Hb, H. Qed.
Lemma MSeg_member w k v : W w -> SBody k -> JV v -> MSeg (x2c :: w ++ member k v).
Proof. intros Hw Hk Hv rest H. cbn [app]. rewrite <- !app_assoc. apply mt_more; auto. Qed.

Lemma jv_string body : SBody body -> JV (q ++ body ++ q).
Proof. intro H. apply (jv_str body H). Qed.
