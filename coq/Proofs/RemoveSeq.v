(* Proofs/RemoveSeq.v - a sequence of RemoveNodeFromTree calls (C16).  Nodes are identified the way the code
   identifies them - by identity, here the leaf's path in the tree as it was before any removal, carried along as a
   label - so that later removals still find their node after earlier ones have re-shaped the tree.
   Result: removing the linked leaves one by one, in ANY order, leaves exactly the tree that Model/Priv.prune_at
   computes in one pass; in particular the order in which the links were found does not matter. *)
From Coq Require Import List Arith Bool Lia Strings.Byte.
From IGP Require Import Base.Str Model.Tree Model.Priv Proofs.PrivProof.
Import ListNotations.
Open Scope list_scope.

(* trees whose leaves carry an identity *)
Inductive bt : Type := BL (id : path) (n : node) | BN (m : meta) (o : op) (l r : bt).

Fixpoint label (n : node) (rcur : path) : bt :=
  match n with
  | Leaf _ _ _ => BL (rev rcur) n
  | Comb m o l r => BN m o (label l (false :: rcur)) (label r (true :: rcur))
  end.
Fixpoint unlabel (t : bt) : node :=
  match t with
  | BL _ n => n
  | BN m o l r => Comb m o (unlabel l) (unlabel r)
  end.
Fixpoint ids (t : bt) : list path :=
  match t with BL i _ => [i] | BN _ _ l r => ids l ++ ids r end.

Definition is_leaf_id (x : path) (t : bt) : bool := match t with BL i _ => path_eqb i x | BN _ _ _ _ => false end.

(* RemoveNodeFromTree(node) for the node with identity x: if it is the left (right) child of its parent, the right
   (left) sibling takes the parent's place - by re-pointing the grandparent or, for a parentless parent, by copying
   the sibling over it; a node without parent cannot be removed (None: the caller resets the statement's field) *)
Fixpoint bremove (x : path) (t : bt) : option bt :=
  match t with
  | BL i _ => if path_eqb i x then None else Some t
  | BN m o l r =>
    if is_leaf_id x l then Some r
    else if is_leaf_id x r then Some l
    else match bremove x l, bremove x r with
         | Some l', Some r' => Some (BN m o l' r')
         | _, _ => None
         end
  end.

(* withdrawal of a set in one pass *)
Fixpoint bprune (K : path -> bool) (t : bt) : option bt :=
  match t with
  | BL i _ => if K i then Some t else None
  | BN m o l r =>
    match bprune K l, bprune K r with
    | Some l', Some r' => Some (BN m o l' r')
    | Some l', None => Some l'
    | None, Some r' => Some r'
    | None, None => None
    end
  end.

Definition obind {A B} (o : option A) (f : A -> option B) : option B := match o with Some a => f a | None => None end.

Lemma bprune_all K t : (forall i, In i (ids t) -> K i = true) -> bprune K t = Some t.
Proof.
  induction t as [i n|m o l IHl r IHr]; intro H; cbn [bprune].
  - rewrite (H i (or_introl eq_refl)). reflexivity.
  - rewrite IHl, IHr; [reflexivity| |]; intros i Hi; apply H; cbn [ids]; apply in_or_app; [right|left]; exact Hi.
Qed.

Definition keep_but (x : path) (i : path) : bool := negb (path_eqb i x).

Lemma nodup_app {A} (L R : list A) : NoDup (L ++ R) -> NoDup L /\ NoDup R /\ (forall a, In a L -> In a R -> False).
Proof.
  induction L as [|y L IH]; cbn [app]; intro H; [split; [constructor|split; [exact H|intros a []]]|].
  inversion H as [|? ? Hy Hnd]; subst. destruct (IH Hnd) as [H1 [H2 H3]]. split; [|split; [exact H2|]].
  - constructor; [intro Hin; apply Hy; apply in_or_app; left; exact Hin|exact H1].
  - intros a [<-|Ha] Hb; [apply Hy; apply in_or_app; right; exact Hb|exact (H3 a Ha Hb)].
Qed.

Lemma ids_nonempty t : ids t <> [].
Proof. induction t as [i n|m o l IHl r IHr]; cbn [ids]; [discriminate|]. intro H. apply app_eq_nil in H. destruct H as [H _]. exact (IHl H). Qed.

Lemma bprune_none K t : bprune K t = None -> forall i, In i (ids t) -> K i = false.
Proof.
  induction t as [j n|m o l IHl r IHr]; cbn [bprune ids]; intros H i Hi.
  - destruct Hi as [<-|[]]. destruct (K j); [discriminate|reflexivity].
  - destruct (bprune K l) eqn:E1, (bprune K r) eqn:E2; try discriminate.
    apply in_app_or in Hi. destruct Hi as [Hi|Hi]; [exact (IHl eq_refl i Hi)|exact (IHr eq_refl i Hi)].
Qed.

(* a subtree that is not the leaf x itself does not vanish when x is withdrawn *)
Lemma not_leaf_x_some x t : is_leaf_id x t = false -> NoDup (ids t) -> exists t', bprune (keep_but x) t = Some t'.
Proof.
  intros Hx Hnd. destruct (bprune (keep_but x) t) as [t'|] eqn:E; [exists t'; reflexivity|exfalso].
  pose proof (bprune_none _ _ E) as Hall.
  assert (Heq : forall i, In i (ids t) -> i = x).
  { intros i Hi. specialize (Hall i Hi). unfold keep_but in Hall. apply negb_false_iff in Hall. apply path_eqb_eq. exact Hall. }
  destruct t as [i n|m o l r].
  - cbn [is_leaf_id] in Hx. rewrite (Heq i (or_introl eq_refl)) in Hx. rewrite (proj2 (path_eqb_eq x x) eq_refl) in Hx. discriminate.
  - cbn [ids] in Hnd, Heq. destruct (nodup_app _ _ Hnd) as [_ [_ Hdis]].
    pose proof (ids_nonempty l) as Hl. pose proof (ids_nonempty r) as Hr.
    destruct (ids l) as [|a L]; [congruence|]. destruct (ids r) as [|b R]; [congruence|].
    apply (Hdis a); [left; reflexivity|]. left.
    assert (Ha : a = x) by (apply Heq; left; reflexivity).
    assert (Hb : b = x) by (apply Heq; apply in_or_app; right; left; reflexivity).
    congruence.
Qed.

Lemma bprune_keeps_all x t : ~ In x (ids t) -> bprune (keep_but x) t = Some t.
Proof.
  intro H. apply bprune_all. intros i Hi. unfold keep_but. destruct (path_eqb i x) eqn:E; [|reflexivity].
  apply path_eqb_eq in E. subst i. exfalso. exact (H Hi).
Qed.

Lemma is_leaf_id_true x t : is_leaf_id x t = true -> exists n, t = BL x n.
Proof. destruct t as [i n|m o l r]; cbn [is_leaf_id]; intro H; [|discriminate]. apply path_eqb_eq in H. subst i. exists n. reflexivity. Qed.

(* one removal = withdrawal of that one leaf (identities are distinct) *)
Theorem bremove_is_bprune x t : NoDup (ids t) -> bremove x t = bprune (keep_but x) t.
Proof.
  induction t as [i n|m o l IHl r IHr]; intro Hnd; cbn [bremove bprune].
  - unfold keep_but. destruct (path_eqb i x); reflexivity.
  - cbn [ids] in Hnd. destruct (nodup_app _ _ Hnd) as [Hl [Hr Hdis]].
    destruct (is_leaf_id x l) eqn:El.
    + destruct (is_leaf_id_true x l El) as [n ->]. cbn [bprune]. unfold keep_but at 1.
      rewrite (proj2 (path_eqb_eq x x) eq_refl). cbn [negb].
      rewrite bprune_keeps_all; [reflexivity|]. intro Hin. apply (Hdis x); [left; reflexivity|exact Hin].
    + destruct (is_leaf_id x r) eqn:Er.
      * destruct (is_leaf_id_true x r Er) as [n ->]. cbn [bprune]. unfold keep_but at 2.
        rewrite (proj2 (path_eqb_eq x x) eq_refl). cbn [negb].
        rewrite bprune_keeps_all; [reflexivity|]. intro Hin. apply (Hdis x); [exact Hin|left; reflexivity].
      * rewrite (IHl Hl), (IHr Hr).
        destruct (not_leaf_x_some x l El Hl) as [l' ->]. destruct (not_leaf_x_some x r Er Hr) as [r' ->]. reflexivity.
Qed.

(* ---------------------------------------------------------------- withdrawals compose *)
Lemma bprune_ids K t t' : bprune K t = Some t' -> forall i, In i (ids t') -> In i (ids t) /\ K i = true.
Proof.
  revert t'. induction t as [j n|m o l IHl r IHr]; cbn [bprune ids]; intros t' H i Hi.
  - destruct (K j) eqn:E; [|discriminate]. inversion H; subst. cbn [ids] in Hi. destruct Hi as [<-|[]]. split; [left; reflexivity|exact E].
  - destruct (bprune K l) as [l'|] eqn:E1, (bprune K r) as [r'|] eqn:E2; try discriminate; inversion H; subst.
    + cbn [ids] in Hi. apply in_app_or in Hi. destruct Hi as [Hi|Hi].
      * destruct (IHl l' eq_refl i Hi) as [A B]. split; [apply in_or_app; left; exact A|exact B].
      * destruct (IHr r' eq_refl i Hi) as [A B]. split; [apply in_or_app; right; exact A|exact B].
    + destruct (IHl t' eq_refl i Hi) as [A B]. split; [apply in_or_app; left; exact A|exact B].
    + destruct (IHr t' eq_refl i Hi) as [A B]. split; [apply in_or_app; right; exact A|exact B].
Qed.

Theorem bprune_compose K1 K2 t : obind (bprune K1 t) (bprune K2) = bprune (fun i => K1 i && K2 i) t.
Proof.
  induction t as [j n|m o l IHl r IHr]; cbn [bprune obind].
  - destruct (K1 j); cbn [obind bprune andb]; [destruct (K2 j); reflexivity|reflexivity].
  - rewrite <- IHl, <- IHr.
    destruct (bprune K1 l) as [l1|], (bprune K1 r) as [r1|]; cbn [obind bprune]; try reflexivity.
    + destruct (bprune K2 l1); reflexivity.
    + destruct (bprune K2 r1); reflexivity.
Qed.

Lemma bprune_nodup K t t' : NoDup (ids t) -> bprune K t = Some t' -> NoDup (ids t').
Proof.
  revert t'. induction t as [j n|m o l IHl r IHr]; cbn [bprune ids]; intros t' Hnd H.
  - destruct (K j); [|discriminate]. inversion H; subst. exact Hnd.
  - destruct (nodup_app _ _ Hnd) as [Hl [Hr Hdis]].
    destruct (bprune K l) as [l'|] eqn:E1, (bprune K r) as [r'|] eqn:E2; try discriminate; inversion H; subst.
    + cbn [ids]. pose proof (IHl l' Hl eq_refl) as N1. pose proof (IHr r' Hr eq_refl) as N2.
      clear -N1 N2 Hdis E1 E2. revert N1. generalize (bprune_ids _ _ _ E1). intro S1. pose proof (bprune_ids _ _ _ E2) as S2.
      induction (ids l') as [|a L IH]; intro N1; [exact N2|]. inversion N1 as [|? ? Ha N1']; subst. cbn [app]. constructor.
      * intro Hin. apply in_app_or in Hin. destruct Hin as [Hin|Hin]; [exact (Ha Hin)|].
        apply (Hdis a); [exact (proj1 (S1 a (or_introl eq_refl)))|exact (proj1 (S2 a Hin))].
      * apply IH; [intros i Hi; apply S1; right; exact Hi|exact N1'].
    + exact (IHl t' Hl eq_refl).
    + exact (IHr t' Hr eq_refl).
Qed.

(* any sequence of removals, in any order *)
Definition bremove_all (xs : list path) (t : bt) : option bt := fold_left (fun ot x => obind ot (bremove x)) xs (Some t).

Lemma fold_none xs : fold_left (fun ot x => obind ot (bremove x)) xs None = None.
Proof. induction xs as [|x xs IH]; [reflexivity|]. cbn [fold_left obind]. exact IH. Qed.

Theorem bremove_all_is_bprune xs : forall t, NoDup (ids t) ->
  bremove_all xs t = bprune (fun i => negb (path_mem i xs)) t.
Proof.
  unfold bremove_all. induction xs as [|x xs IH]; intros t Hnd; cbn [fold_left].
  - symmetry. apply bprune_all. intros i _. reflexivity.
  - cbn [obind]. rewrite (bremove_is_bprune x t Hnd).
    destruct (bprune (keep_but x) t) as [t1|] eqn:E.
    + rewrite (IH t1 (bprune_nodup _ _ _ Hnd E)).
      pose proof (bprune_compose (keep_but x) (fun i => negb (path_mem i xs)) t) as Hc. rewrite E in Hc. cbn [obind] in Hc. rewrite Hc.
      clear. induction t as [j n|m o l IHl r IHr]; cbn [bprune].
      * unfold keep_but, path_mem. cbn [existsb]. rewrite negb_orb. reflexivity.
      * rewrite IHl, IHr. reflexivity.
    + rewrite fold_none. symmetry.
      pose proof (bprune_none _ _ E) as Hall.
      assert (Hn : forall t0, (forall i, In i (ids t0) -> keep_but x i = false) -> bprune (fun i => negb (path_mem i (x :: xs))) t0 = None).
      { induction t0 as [j n|m o l IHl r IHr]; cbn [bprune ids]; intro H.
        - specialize (H j (or_introl eq_refl)). unfold keep_but in H. apply negb_false_iff in H. unfold path_mem. cbn [existsb]. rewrite H. reflexivity.
        - rewrite IHl, IHr; [reflexivity| |]; intros i Hi; apply H; apply in_or_app; [right|left]; exact Hi. }
      exact (Hn t Hall).
Qed.

(* the order of the removals is irrelevant *)
Corollary bremove_order_irrelevant xs ys t : NoDup (ids t) -> (forall i, In i xs <-> In i ys) -> bremove_all xs t = bremove_all ys t.
Proof.
  intros Hnd Hs. rewrite !bremove_all_is_bprune by exact Hnd.
  assert (E : forall i, negb (path_mem i xs) = negb (path_mem i ys)).
  { intro i. f_equal. destruct (path_mem i xs) eqn:E1, (path_mem i ys) eqn:E2; try reflexivity.
    - apply path_mem_in in E1. apply Hs in E1. apply path_mem_in in E1. congruence.
    - apply path_mem_in in E2. apply Hs in E2. apply path_mem_in in E2. congruence. }
  clear Hs Hnd. induction t as [j n|m o l IHl r IHr]; cbn [bprune]; [rewrite E; reflexivity|rewrite IHl, IHr; reflexivity].
Qed.

(* ---------------------------------------------------------------- back to the statement's trees *)
Lemma ids_label n : forall rcur, ids (label n rcur) = map (fun p => rev rcur ++ p) (leaf_paths n).
Proof.
  induction n as [m e pr|m o l IHl r IHr]; intro rcur; cbn [label ids leaf_paths map].
  - rewrite app_nil_r. reflexivity.
  - rewrite IHl, IHr, map_app, !map_map. cbn [rev]. f_equal; apply map_ext; intro p; rewrite <- app_assoc; reflexivity.
Qed.

Lemma leaf_paths_nodup n : NoDup (leaf_paths n).
Proof.
  induction n as [m e pr|m o l IHl r IHr]; cbn [leaf_paths]; [constructor; [intros []|constructor]|].
  assert (Hinj : forall (d : bool) L, NoDup L -> NoDup (map (cons d) L)).
  { intros d L H. induction H as [|x L Hx HL IH]; cbn [map]; constructor; [|exact IH].
    intro Hin. apply in_map_iff in Hin. destruct Hin as [y [E Hy]]. inversion E; subst. exact (Hx Hy). }
  pose proof (Hinj false _ IHl) as N1. pose proof (Hinj true _ IHr) as N2.
  revert N1. generalize (leaf_paths l). intro L. induction L as [|a L IH]; cbn [map app]; intro N1; [exact N2|].
  inversion N1 as [|? ? Ha N1']; subst. constructor; [|exact (IH N1')].
  intro Hin. apply in_app_or in Hin. destruct Hin as [Hin|Hin]; [exact (Ha Hin)|].
  apply in_map_iff in Hin. destruct Hin as [y [E _]]. discriminate.
Qed.

Lemma label_nodup n : NoDup (ids (label n [])).
Proof. rewrite ids_label. cbn [rev app]. rewrite map_id. apply leaf_paths_nodup. Qed.

Lemma prune_label ps n : forall rcur, option_map unlabel (bprune (fun i => negb (path_mem i ps)) (label n rcur)) = prune_at ps n rcur.
Proof.
  induction n as [m e pr|m o l IHl r IHr]; intro rcur; cbn [label bprune prune_at].
  - destruct (path_mem (rev rcur) ps); reflexivity.
  - rewrite <- IHl, <- IHr.
    destruct (bprune _ (label l (false :: rcur))), (bprune _ (label r (true :: rcur))); reflexivity.
Qed.

(* the linked leaves of a property tree removed one by one, in any order, leave what Model/Priv withdraws in one pass *)
Theorem removals_in_any_order ps n : option_map unlabel (bremove_all ps (label n [])) = prune_at ps n [].
Proof. rewrite (bremove_all_is_bprune ps _ (label_nodup n)). apply prune_label. Qed.
