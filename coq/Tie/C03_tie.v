(* Tie/C03_tie.v - CopyComponentsFromStatement copies every one of the 27 fields exactly once, each onto itself. *)
From Coq Require Import List Bool.
From IGP Require Import Base.Str Model.Tree Model.Pairs Gen.Wiring.
Lemma copy_table_holds : copy_table_ok copy_table = true.
Proof. vm_compute. reflexivity. Qed.
