(* Tie/C15_tie.v - decidable side conditions of C15 on what was regenerated from converterHandler and the two output
   handlers: the decoding rules are well-formed, every switch resolves to the request parameter that names it (with the
   right polarity and the documented default on GET), and the positional hand-over of the text arguments is the
   specified one. *)
From Coq Require Import List Bool.
From IGP Require Import Base.Str Model.Handlers Model.WebDecode Gen.Handlers.
Import ListNotations.

Lemma web_rules_wellformed : rules_wellformed post_rules get_rules = true.
Proof. vm_compute. reflexivity. Qed.
Lemma web_wiring_tab : wiring_ok form_vars post_rules get_rules handover_tab handle_tab = true.
Proof. vm_compute. reflexivity. Qed.
Lemma web_wiring_vis : wiring_ok form_vars post_rules get_rules handover_vis handle_vis = true.
Proof. vm_compute. reflexivity. Qed.

(* text arguments: statement, original statement, ID and the selector values reach the endpoints in their own positions *)
Definition pairs_ok (expected actual : list (str * str)) : bool :=
  forallb (fun e => match assoc_get (fst e) actual with Some a => beq_str a (snd e) | None => false end) expected.
Lemma web_text_handover :
  pairs_ok [($"originalStatement", $"retStruct.RawStmt"); ($"codedStmt", $"retStruct.CodedStmt"); ($"stmtId", $"retStruct.StmtId");
            ($"outputType", $"retStruct.OutputType"); ($"printOriginalStatement", $"formValuePrintOriginalStatement"); ($"printIgScriptInput", $"formValuePrintIgScript")] handover_tab
  && pairs_ok [($"codedStmt", $"retStruct.CodedStmt"); ($"stmtId", $"retStruct.StmtId")] handover_vis
  && pairs_ok [($"originalStatement", $"originalStatement"); ($"statement", $"codedStmt"); ($"stmtId", $"stmtId"); ($"outputType", $"outputType");
               ($"printHeaders", $"tabular.IncludeHeader()"); ($"printOriginalStatement", $"printOriginalStatement"); ($"printIgScriptInput", $"printIgScriptInput")] endpoint_args_tab
  && pairs_ok [($"statement", $"codedStmt"); ($"stmtId", $"stmtId")] endpoint_args_vis = true.
Proof. vm_compute. reflexivity. Qed.
(* the selector values come from the request parameters that name them *)
Lemma web_selector_params :
  pairs_ok [($"formValuePrintOriginalStatement", $"printOriginalStatement"); ($"formValuePrintIgScript", $"printIgScript"); ($"formValueOutputType", $"outputType");
            ($"formValueRawStmt", $"rawStmt"); ($"formValueCodedStmt", $"codedStmt"); ($"formValueStmtId", $"stmtId")] form_vars = true.
Proof. vm_compute. reflexivity. Qed.
