(* Tie/C13_tie.v - the decidable side conditions of C13 / C14 on what was regenerated from the source:
   handler programs (translator, syntax tree) and read/write sets (gossa, SSA form). *)
From Coq Require Import List Bool.
From IGP Require Import Base.Str Model.Handlers Proofs.Hist Proofs.HandlersProof Gen.Handlers.
Import ListNotations.

(* web-layer state outside the conversions: the logging plumbing of the generic handler. LoggingPath is normalised
   idempotently; terminateOutput is assigned before every use when logging is on and is invoked after the page has been
   rendered. Neither is an input of the response body (the transaction id is masked when responses are compared). *)
Definition web_state : list str := [$"converter.LoggingPath"; $"converter.terminateOutput"].

Definition gen_facts : handler_facts :=
  mkFacts handle_tab handle_vis reads_tab reads_vis runtime_writes conversion_writes_tab conversion_writes_vis web_state.

Lemma handlers_translated : handlers_unsupported = [].
Proof. vm_compute. reflexivity. Qed.

(* every switch a handler (or anything reachable from it) reads is assigned earlier in the same handler from request
   data, or is written nowhere at run time; every run-time write in the source is an assignment of the programs *)
Lemma handlers_hold : handlers_ok gen_facts = true.
Proof. vm_compute. reflexivity. Qed.
