(* Tie/C08_tie.v - side conditions on the regenerated tables of the visual printer. *)
From Coq Require Import List Bool.
From IGP Require Import Base.Str Model.Tree Model.Visual Gen.Wiring.
Import ListNotations.

Lemma translator_supported : wiring_unsupported = [].
Proof. vm_compute. reflexivity. Qed.

(* at every recursive call of the printer the five flags are handed over in parameter order and the
   nesting level is passed unchanged, except into a nested statement (PrintTree) where it is level + 1:
   this is what the model's single option record and its level arithmetic assume *)
Definition FLAGS_SAME : str := $"printFlat,printBinary,includeAnnotations,includeDegreeOfVariability,moveActivationConditionsToFront,nestingLevel".
Definition FLAGS_INC : str := $"printFlat,printBinary,includeAnnotations,includeDegreeOfVariability,moveActivationConditionsToFront,nestingLevel+1".
Definition flag_site_ok (site : str * str) : bool :=
  if beq_str (fst site) $"PrintTree" then beq_str (snd site) FLAGS_INC else beq_str (snd site) FLAGS_SAME.
Definition count_sites (name : str) : nat := length (filter (fun s => beq_str (fst s) name) vis_flag_sites).

Lemma flags_passed_in_order : forallb flag_site_ok vis_flag_sites = true.
Proof. vm_compute. reflexivity. Qed.
(* the model has exactly these recursive calls: 5 + 1 of PrintNodeTree (node printer, property printer,
   component loop), 2 of PrintTree (statement entry, node-array entry), 1 of appendPropertyNodes *)
Lemma recursive_call_sites : (count_sites $"PrintNodeTree", count_sites $"PrintTree", count_sites $"appendPropertyNodes") = (6, 2, 1).
Proof. vm_compute. reflexivity. Qed.
