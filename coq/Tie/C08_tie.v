(* Tie/C08_tie.v - side conditions on the regenerated tables of the visual printer. *)
From Coq Require Import List.
From IGP Require Import Base.Str Model.Tree Model.Visual Gen.Wiring.
Import ListNotations.

Lemma translator_supported : wiring_unsupported = [].
Proof. vm_compute. reflexivity. Qed.
