(* Tie/C02_tie.v - the tables component symbol -> statement field of the two nested-statement parsers, regenerated from
   parseNestedStatements (switch) and parseNestedStatementCombination (prefix tests): each symbol assigns the field it
   reads, that field is the one the specification names, all eleven nesting-capable symbols are there, and in the
   prefix-test chain a property symbol is tested before the symbol it extends. *)
From Coq Require Import List Bool.
From IGP Require Import Base.Str Model.Tree Model.Nested Gen.Wiring.
Lemma nested_wiring_holds : nested_wiring_ok nested_wiring = true.
Proof. vm_compute. reflexivity. Qed.
Lemma nested_combo_wiring_holds : nested_wiring_ok nested_combo_wiring = true.
Proof. vm_compute. reflexivity. Qed.
