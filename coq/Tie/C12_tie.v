(* Tie/C12_tie.v - the regenerated inventory of map iterations and other sources of run-to-run variation in the
   code reachable from the conversion endpoints is exactly the analysed one (side condition of Props/C12.v). *)
From Coq Require Import List Bool Strings.Byte.
From IGP Require Import Base.Str Model.MapSites Gen.Sites.
Import ListNotations.

Lemma sites_analysed : sites_ok map_range_sites = true.
Proof. vm_compute. reflexivity. Qed.

Lemma no_other_source : nondet_sources = [].
Proof. reflexivity. Qed.

Lemma inventory_complete : sites_unsupported = [].
Proof. reflexivity. Qed.
