(* Tie/C20_tie.v - decidable side conditions on the regenerated wiring of CalculateComplexity. *)
From Coq Require Import List ZArith.
From IGP Require Import Base.Str Model.Tree Model.DoV Gen.Wiring.
Import ListNotations.

Lemma translator_supported : wiring_unsupported = [].
Proof. vm_compute. reflexivity. Qed.

Lemma dov_wiring_holds : dov_wiring_ok dov_W = true.
Proof. vm_compute. reflexivity. Qed.
