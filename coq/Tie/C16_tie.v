(* Tie/C16_tie.v - the component -> property pairing read from ProcessPrivateComponentLinkages (both passes, and the
   statement-side resets) is the documented one (side condition of Props/C16.v). *)
From Coq Require Import List Bool Strings.Byte.
From IGP Require Import Base.Str Model.Tree Model.Priv Gen.Wiring.
Import ListNotations.

Lemma priv_table_is_documented : priv_table_ok priv_link_table priv_reset_table = true.
Proof. vm_compute. reflexivity. Qed.

Lemma priv_translation_complete : wiring_unsupported = [].
Proof. reflexivity. Qed.
