(* Tie/C09_tie.v - the component list of the visual printer, as regenerated from Statement.PrintTree and
   GetPropertyComponent, is the documented one: every component field of a statement is handed to the printer, once,
   activation conditions first or in their place; every property field is reached through the component it qualifies.
   The specification (Spec/VisView.v, lv) is evaluated with the documented tables (spec_vis) when it is compared with
   the implementation; this lemma is what makes the generic theorem C09_values, instantiated with the regenerated
   tables, speak about the same specification. *)
From Coq Require Import List Bool.
From IGP Require Import Base.Str Model.Tree Model.DoV Model.Visual Spec.VisView Gen.Wiring.
Import ListNotations.

Lemma printer_component_list_is_documented : spec_vis vis_T = vis_T.
Proof. vm_compute. reflexivity. Qed.

(* the flat text names every field of a statement, once *)
Lemma documented_flat_complete : forall f : field, length (filter (fun r => field_eqb f (fst (fst r))) doc_flat) = 1.
Proof. intros f; destruct f; vm_compute; reflexivity. Qed.

(* what the documented list amounts to: for either position of the activation conditions, the component fields handed
   to the printer are 17, pairwise different, and every field of a statement is among them or is a property field of
   one of them *)
Definition shown_fields (front : bool) : list field :=
  flat_map (fun gf => match fst gf with GAlways => snd gf | GIfFront => if front then snd gf else [] | GIfNotFront => if front then [] else snd gf end) doc_vis_order.
Definition reached (front : bool) (f : field) : bool :=
  existsb (field_eqb f) (shown_fields front) || existsb (fun r => field_eqb f (snd (fst r)) || field_eqb f (snd r)) doc_vis_props.
Lemma documented_list_complete : forall front : bool,
  length (shown_fields front) = 17 /\ DoV.nodup_f (shown_fields front) = true /\ forall f, reached front f = true.
Proof.
  intros front. split; [destruct front; reflexivity|]. split; [destruct front; vm_compute; reflexivity|].
  intros f. destruct front; destruct f; vm_compute; reflexivity.
Qed.
