(* Tie/C14_tie.v - the generic handler holds one lock from before the options are applied until the page has been
   rendered (read from the source: first statements of converterHandler are  X.Lock(); defer X.Unlock()). *)
From IGP Require Import Base.Str Model.Handlers Gen.Handlers.
Lemma handler_is_locked : handler_locked = true.
Proof. vm_compute. reflexivity. Qed.

(* ... and a request does nothing else outside it: the two entry handlers only log and delegate, and nothing but the
   scheduler hook stands in front of the Lock() call (the model's threads are  Lock; program; Unlock  and nothing more) *)
Lemma nothing_outside_the_lock : handler_unlocked_statements = nil.
Proof. reflexivity. Qed.
