(* Tie/C04_tie.v - decidable side conditions on the tables regenerated from the source (Gen/Wiring.v):
   Statement.generateLeafArrays visits every one of the 27 component fields exactly once and treats exactly the
   nested-statement fields as complex. *)
From Coq Require Import List Bool.
From IGP Require Import Base.Str Model.Tree Model.Leaves Model.Tabular Proofs.TabProof Gen.Wiring.
Lemma leaf_table_holds : leaf_table_ok (tt_leaf tab_T) = true.
Proof. vm_compute. reflexivity. Qed.
Lemma tabular_translation_complete : wiring_unsupported = nil.
Proof. vm_compute. reflexivity. Qed.
