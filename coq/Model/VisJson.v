(* Model/VisJson.v - the structured value the visual printer serialises: the same recursion as
   Model/Visual.v (PrintTree / PrintNodeTree / appendPropertyNodes), producing nodes instead of bytes.
   Tied to the implementation by comparing with the parsed JSON of the Go output (value equality);
   the properties C09 / C17 / C20 (labels) are stated on this value. *)
From Coq Require Import List Arith Bool Lia ZArith Strings.Byte.
From IGP Require Import Base.Str Base.Outcome Model.Tree Model.DoV Model.Leaves Model.Flat Model.Visual.
Import ListNotations.

(* one object of the output; absent members are None / [] / false.
   kind: what the object stands for (not printed; used by the specifications) *)
Inductive jkind := KLeaf | KOp | KStmt.
Inductive jnode :=
| JN (kind : jkind) (name : str) (comp : option str) (level : nat)
     (has_children : bool) (children : list jnode)
     (pos_b : bool) (prop : option str) (anno : option str) (dov : option str).

Definition jn_kind (j : jnode) := match j with JN k _ _ _ _ _ _ _ _ _ => k end.
Definition jn_name (j : jnode) := match j with JN _ n _ _ _ _ _ _ _ _ => n end.
Definition jn_comp (j : jnode) := match j with JN _ _ c _ _ _ _ _ _ _ => c end.
Definition jn_level (j : jnode) := match j with JN _ _ _ l _ _ _ _ _ _ => l end.
Definition jn_children (j : jnode) := match j with JN _ _ _ _ _ c _ _ _ _ => c end.
Definition jn_prop (j : jnode) := match j with JN _ _ _ _ _ _ _ p _ _ => p end.
Definition jn_anno (j : jnode) := match j with JN _ _ _ _ _ _ _ _ a _ => a end.
Definition jn_dov (j : jnode) := match j with JN _ _ _ _ _ _ _ _ _ d => d end.

(* the text between quotes as a JSON parser reads it back: quote substitution is the only change
   (backslash and control characters are escaped and unescaped again) *)
Definition shown (s : str) : str := replace_byte x22 [x27] s.

Section ToJson.
Variable T : vis_tables.
Variable o : vopts.

Definition jn_t := option stmt -> node -> anc -> nat -> res (list jnode).
Definition jt_t := stmt -> option (node * anc) -> nat -> res jnode.

Definition anno_of (m : meta) (a : anc) : option str :=
  if o_anno o then option_map shown (get_annotations m a) else None.
Definition dov_of (n : node) : res (option str) :=
  if o_dov o then
    match node_cx (vt_dov T) n with
    | Ok v => Ok (Some (itoa_Z v))
    | Err _ => Ok None
    | Panic k => Panic k | Fatal k => Fatal k | OutOfFuel => OutOfFuel
    end
  else Ok None.

Fixpoint join_flat_texts (vs : list node) (added : bool) : res str :=
  match vs with
  | [] => Ok []
  | v :: t =>
    let* s := flat_value_text T v in
    let* rest := join_flat_texts t true in
    Ok ((if added then CS else []) ++ shown s ++ rest)
  end.
Definition flat_prop_text (p : node) : res str :=
  match p with
  | Comb _ _ _ _ => join_flat_texts (subnodes_at p (concat (leaf_arrays false p))) false
  | Leaf _ (EStr s) _ => Ok (shown s)
  | Leaf _ (EStmt st) _ =>
    let* t := finish_flat (assemble_flat (vt_flat_val T) true (flat_vals (vt_flat T) (stmt_fields st)) []) in Ok (shown t)
  | Leaf _ _ _ => Panic 44
  end.

Fixpoint flat_label (ps : list node) (printed : bool) : res str :=
  match ps with
  | [] => Ok []
  | p :: t =>
    let* b := flat_prop_text p in
    let* rest := flat_label t true in
    Ok ((if printed then CS else []) ++ b ++ rest)
  end.
Fixpoint prop_children (jn : jn_t) (s : option stmt) (lvl : nat) (ps : list node) : res (list jnode) :=
  match ps with
  | [] => Ok []
  | p :: t =>
    let* c := jn s p [] lvl in
    let* rest := prop_children jn s lvl t in
    Ok (c ++ rest)
  end.

(* properties of a node: (pos_b, children, prop label) *)
Definition props_of (jn : jn_t) (s : option stmt) (n : node) (a : anc) (lvl : nat) : res (bool * list jnode * option str) :=
  let props := get_props T s (comp_name (node_meta n) a) in
  let priv := match n with Leaf _ _ pr => pr | Comb _ _ _ _ => [] end in
  let is_leaf := match n with Leaf _ _ _ => true | _ => false end in
  if ((is_leaf || o_flat o) && negb (nil_b props)) || negb (nil_b priv) then
    let* all :=
      match priv with
      | [] => Ok props
      | p0 :: rest => let* merged := merge_private p0 rest in Ok (props ++ [merged])
      end in
    match all with
    | [] => Ok (false, [], None)
    | _ =>
      if o_flat o then let* l := flat_label all false in Ok (false, [], Some l)
      else let* cs := prop_children jn s lvl all in Ok (true, cs, None)
    end
  else Ok (false, [], None).

Definition json_node_step (jn : jn_t) (jt : jt_t) : jn_t := fun s n a lvl =>
  if is_empty_node n a then Ok [] else
  match n with
  | Leaf m (EStr txt) _ =>
    let* pr := props_of jn s n a lvl in
    let '(pos, cs, label) := pr in
    let* d := dov_of n in
    Ok [JN KLeaf (shown (leaf_text m a txt)) (Some (comp_name m a)) lvl pos cs pos label (anno_of m a) d]
  | Comb m op l r =>
    let collapse :=
      if o_bin o then false
      else match a with
           | (pm, pop) :: a' => op_eqb op pop && beq_str (comp_name m a) (comp_name pm a')
           | [] => false
           end in
    let* ls := jn s l ((m, op) :: a) lvl in
    let* rs := jn s r ((m, op) :: a) lvl in
    if collapse then Ok (ls ++ rs)
    else
      let* pr := props_of jn s n a lvl in
      let '(pos, cs, label) := pr in
      let* d := dov_of n in
      (* an operator node's own "children" member comes first; a property "children" member would be a second
         member of the same name (only in tree mode on a non-leaf: never, see props_of) *)
      Ok [JN KOp (op_name op) (Some (comp_name m a)) lvl true (ls ++ rs ++ cs) pos label (anno_of m a) d]
  | Leaf _ (EStmt st) _ => let* j := jt st (Some (n, a)) (S lvl) in Ok [j]
  | Leaf _ (ENodes (Leaf _ (EStmt st) _ :: _)) _ => let* j := jt st (Some (n, a)) (S lvl) in Ok [j]
  | Leaf _ (ENodes _) _ => Panic 45
  | Leaf _ ENil _ => Panic 46
  end.

Fixpoint json_children (jn : jn_t) (st : stmt) (lvl : nat) (cs : list node) : res (list jnode) :=
  match cs with
  | [] => Ok []
  | v :: t =>
    if printable v then
      let* c := jn (Some st) v [] lvl in
      let* rest := json_children jn st lvl t in
      Ok (c ++ rest)
    else json_children jn st lvl t
  end.

Definition json_tree_step (jn : jn_t) : jt_t := fun st parent lvl =>
  let* root0 := (if o_dov o then let* t := stmt_cx (vt_dov T) st in Ok ($"DoV: " ++ itoa_Z t) else Ok []) in
  let pname := match parent with Some (p, a) => comp_name (node_meta p) a | None => [] end in
  let root := if is_empty pname then root0 else pname in
  let anno := match parent with Some (p, a) => anno_of (node_meta p) a | None => None end in
  let* d := (match parent with Some (p, _) => dov_of p | None => Ok None end) in
  let* cs := json_children jn st lvl (components_of T o st) in
  Ok (JN KStmt root None lvl true cs false None anno d).

Fixpoint jn (fuel : nat) : jn_t :=
  match fuel with
  | 0 => fun _ _ _ _ => OutOfFuel
  | S f => let p := jn f in json_node_step p (json_tree_step p)
  end.

Definition to_json_node (fuel : nat) (root : node) : res (list jnode) := jn fuel None root [] 0.
Definition to_json (fuel : nat) (st : stmt) : res (list jnode) := to_json_node fuel (Leaf meta0 (EStmt st) []).
End ToJson.
