(* Model/Link.v - port of tree.FindLogicalLinkage / searchUpward / searchDownward (core/tree/IGTree.go:720-905),
   tree.CollapseAdjacentOperators (IGStructs.go:748) and tree.GenerateReferenceSlice
   (ArrayCombinationGenerator.go:145).
   Node identity = REVERSED path from the root of the component tree (head = last step), so that
   "Parent" is [tl] and pointer comparison is path comparison.  Entries of type []*Node below a leaf are
   explored by the Go code as well; the exporters only ever search for nodes of the operator skeleton (or
   for the single statement node embedded in such a leaf, which the harness identifies with the leaf), an
   unsuccessful exploration returns nothing that is kept, so the model does not descend into them. *)
From Coq Require Import List Arith Bool Lia NArith ZArith Strings.Byte.
From IGP Require Import Base.Str Base.Outcome Model.Tree.
Import ListNotations.

Definition rpath := list bool.
Definition rpeq (a b : rpath) : bool := if list_eq_dec bool_dec a b then true else false.
Lemma rpeq_eq a b : rpeq a b = true <-> a = b.
Proof. unfold rpeq; destruct (list_eq_dec bool_dec a b); split; intro; congruence. Qed.

Definition child (st : option node) (d : bool) : option node :=
  match st with Some (Comb _ _ l r) => Some (if d then r else l) | _ => None end.

(* searchDownward(origin, lastNode, startNode, targetNode, opsPath); OutOfFuel = fuel exhausted *)
Fixpoint down (f : nat) (last sp : rpath) (st : option node) (tg : rpath) (ops : list op) : res (bool * list op) :=
  match f with
  | 0 => OutOfFuel
  | S f' =>
    match st with
    | None => Ok (false, ops)                            (* nil start node: IsLeafNode() holds for nil *)
    | Some s =>
      if rpeq sp tg then Ok (true, ops) else
      match s with
      | Leaf _ _ _ => Ok (false, ops)
      | Comb _ o l r =>
        let ops1 := ops ++ [o] in
        let side (d : bool) (k : res (bool * list op)) : res (bool * list op) :=
          let cp := d :: sp in
          if rpeq cp last then k else                   (* startNode.Left != lastNode *)
          let c := Some (if d then r else l) in
          let* r1 := down f' cp cp c tg ops1 in
          match r1 with
          | (true, o2) => Ok (true, o2)
          | (false, ops2) =>                            (* "Delegate downwards": the redundant re-exploration *)
            let* r2 := down f' (false :: cp) (false :: cp) (child c false) tg ops2 in
            match r2 with
            | (true, o3) => Ok (true, o3)
            | (false, _) =>
              let* r3 := down f' (true :: cp) (true :: cp) (child c true) tg ops2 in
              match r3 with
              | (true, o3) => Ok (true, o3)
              | (false, _) => k
              end
            end
          end in
        side false (side true (Ok (false, ops1)))
      end
    end
  end.

(* searchUpward(origin, lastNode, targetNode, opsPath) *)
Fixpoint up (f big : nat) (root : node) (last tg : rpath) (ops : list op) : res (bool * list op) :=
  match f with
  | 0 => OutOfFuel
  | S f' =>
    match last with
    | [] => Ok (false, ops)                              (* lastNode.Parent == nil *)
    | _ :: pp =>
      let pst := subtree root (rev pp) in
      let* r1 := down big last pp pst tg ops in
      match r1 with
      | (true, o2) => Ok (true, o2)
      | (false, _) =>
        let ops' := match pst with Some (Comb _ o _ _) => ops ++ [o] | _ => ops end in
        up f' big root pp tg ops'
      end
    end
  end.

Fixpoint height (n : node) : nat :=
  match n with Leaf _ _ _ => 0 | Comb _ _ l r => S (Nat.max (height l) (height r)) end.

(* FindLogicalLinkage(source, target) for two nodes of the tree [root], given by forward paths *)
Definition find_linkage_f (big : nat) (root : node) (p q : path) : res (bool * list op) :=
  let rp := rev p in let rq := rev q in
  let* r1 := down big rp rp (subtree root p) rq [] in
  match r1 with
  | (true, o) => Ok (true, o)
  | (false, _) => let* r2 := up (S (length p)) big root rp rq [] in
                  match r2 with (true, o) => Ok (true, o) | (false, _) => Ok (false, []) end
  end.
Definition link_fuel (root : node) : nat := 2 * height root + 3.
Definition find_linkage (root : node) (p q : path) : res (bool * list op) := find_linkage_f (link_fuel root) root p q.

(* ---- specification: operators from p's parent up to the lowest common ancestor and down to q's parent *)
Fixpoint ops_along (t : node) (p : path) : list op :=
  match p, t with
  | d :: p', Comb _ o l r => o :: ops_along (if d then r else l) p'
  | _, _ => []
  end.
Fixpoint path_ops (t : node) (p q : path) : list op :=
  match t, p, q with
  | Comb _ o l r, dp :: p', dq :: q' =>
    if Bool.eqb dp dq then path_ops (if dp then r else l) p' q'
    else rev (ops_along (if dp then r else l) p') ++ [o] ++ ops_along (if dq then r else l) q'
  | _, _, _ => []
  end.

(* ---- CollapseAdjacentOperators(ops, [AND; bAND; wAND]) *)
Definition collapsible (o : op) : bool := match o with AND | BAND | WAND => true | _ => false end.
Fixpoint collapse_acc (l : list op) (last : option op) : list op :=
  match l with
  | [] => []
  | v :: t =>
    match last with
    | None => v :: collapse_acc t (Some v)
    | Some p => if collapsible v && collapsible p then collapse_acc t last else v :: collapse_acc t (Some v)
    end
  end.
Definition collapse_ops (l : list op) : list op := collapse_acc l None.

(* fmt.Sprint([]string): "[a b c]" *)
Definition sprint_ops (l : list op) : str := $"[" ++ join [sp] (map op_name l) ++ $"]".

(* ---- GenerateReferenceSlice(nodeRefs, id, generateRanges = true, incrementReferences = true) *)
Definition dash : byte := x2d.
Fixpoint last_opt {A} (l : list A) : option A := match l with [] => None | [x] => Some x | _ :: t => last_opt t end.
Definition set_last {A} (l : list A) (x : A) : list A := removelast l ++ [x].
Definition atoi_nat (s : str) : option Z := atoi s.
Definition add_ref (refs : list str) (id : nat) : list str :=
  let added := (Z.of_nat id + 1)%Z in
  match last_opt refs with
  | None => refs ++ [itoa_Z added]
  | Some val =>
    match index_of val [dash] with
    | Some i =>
      let lastv := skipn (S i) val in
      match atoi lastv with
      | Some iv => if Z.eqb iv (added - 1)%Z then set_last refs (firstn i val ++ [dash] ++ itoa_Z added)
                   else refs ++ [itoa_Z added]
      | None => refs ++ [itoa_Z added]
      end
    | None =>
      match atoi val with
      | Some iv => if Z.eqb iv (added - 1)%Z then set_last refs (val ++ [dash] ++ itoa_Z added)
                   else if negb (Z.eqb iv added) then refs ++ [itoa_Z added] else refs
      | None => if negb (Z.eqb 0%Z added) then refs ++ [itoa_Z added] else refs   (* intVal is 0 after a failed Atoi *)
      end
    end
  end.

(* specification side: expansion of a compressed reference list *)
Fixpoint zrange (from : Z) (n : nat) : list Z := match n with 0 => [] | S k => from :: zrange (from + 1)%Z k end.
Definition expand_ref (r : str) : list Z :=
  match index_of r [dash] with
  | Some i => match atoi (firstn i r), atoi (skipn (S i) r) with
              | Some a, Some b => zrange a (Z.to_nat (b - a + 1)%Z)
              | _, _ => []
              end
  | None => match atoi r with Some a => [a] | None => [] end
  end.
Definition expand_refs (l : list str) : list Z := flat_map expand_ref l.
