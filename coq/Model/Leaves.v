(* Model/Leaves.v - port of Node.GetLeafNodesWithoutGivenNode / aggregateNodes (core/tree/IGTree.go:1242,1374)
   and Statement.generateLeafArrays / getComponentLeafArray (core/tree/IGStatement.go:382,447).
   A leaf is identified by its path from the component root. *)
From Coq Require Import List Arith Bool Lia Strings.Byte.
From IGP Require Import Base.Str Base.Outcome Model.Tree.
Import ListNotations.

(* n.Entry == "" : the entry is the empty string *)
Definition entry_is_empty_string (e : entry) : bool := match e with EStr [] => true | _ => false end.

(* arrays of leaf paths; [aggr] = aggregateImplicitLinkages *)
Fixpoint leaf_arrays (aggr : bool) (n : node) : list (list path) :=
  match n with
  | Leaf _ e _ => if entry_is_empty_string e then [] else [[[]]]
  | Comb _ o l r =>
    let la := map (map (cons false)) (leaf_arrays aggr l) in
    let ra := map (map (cons true)) (leaf_arrays aggr r) in
    let separate := match o with BAND => negb aggr | WAND => true | _ => false end in
    if separate then la ++ ra                 (* aggregateNodes type 1 *)
    else [concat la ++ concat ra]             (* aggregateNodes type 0: one array, even if empty *)
  end.

(* specification: the values of a combination are all its non-empty leaves in source order; the tree is
   split only at wAND (and at bAND when implicit linkages are not aggregated), and only from the top *)
Fixpoint value_paths (n : node) : list path :=
  match n with
  | Leaf _ e _ => if entry_is_empty_string e then [] else [[]]
  | Comb _ _ l r => map (cons false) (value_paths l) ++ map (cons true) (value_paths r)
  end.
Definition splits (aggr : bool) (o : op) : bool := match o with BAND => negb aggr | WAND => true | _ => false end.
Fixpoint alternatives (aggr : bool) (n : node) : list (list path) :=
  match n with
  | Leaf _ e _ => if entry_is_empty_string e then [] else [[[]]]
  | Comb _ o l r =>
    if splits aggr o then map (map (cons false)) (alternatives aggr l) ++ map (map (cons true)) (alternatives aggr r)
    else [value_paths n]
  end.

(* generateLeafArrays: per entry of the (regenerated) table (field, symbol, complex) *)
Definition leaf_table := list (field * str * bool).
Definition comp_arrays (aggr : bool) (complex : bool) (n : node) : list (list path) :=
  if complex then [[[]]] else leaf_arrays aggr n.
Fixpoint stmt_leaf_arrays (T : leaf_table) (aggr : bool) (s : stmt) : list (field * list path) :=
  match T with
  | [] => []
  | (f, _, complex) :: rest =>
    match sget s f with
    | None => stmt_leaf_arrays rest aggr s
    | Some n => map (fun a => (f, a)) (comp_arrays aggr complex n) ++ stmt_leaf_arrays rest aggr s
    end
  end.
(* the componentRefs map: symbol -> number of arrays (later entries overwrite earlier ones of the same symbol) *)
Fixpoint stmt_comp_refs (T : leaf_table) (aggr : bool) (s : stmt) (acc : list (str * nat)) : list (str * nat) :=
  match T with
  | [] => acc
  | (f, sym, complex) :: rest =>
    match sget s f with
    | None => stmt_comp_refs rest aggr s acc
    | Some n => stmt_comp_refs rest aggr s (assoc_set sym (length (comp_arrays aggr complex n)) acc)
    end
  end.
