(* Model/Flat.v - port of Node.StringFlat (core/tree/IGTree.go:305) and Statement.StringFlat /
   StringFlatStatement / printComponent in flat mode (core/tree/IGStatement.go:221,266,119). *)
From Coq Require Import List Arith Bool Lia Strings.Byte.
From IGP Require Import Base.Str Base.Outcome Model.Tree.
Import ListNotations.

Definition flat_table := list (field * str * bool).   (* (field, symbol, complex) in the order of the printComponent calls *)

(* assembling a statement's flat string from the per-field flat strings *)
Fixpoint lookup_flat (f : field) (t : list (field * res str)) : option (res str) :=
  match t with [] => None | (g, v) :: r => if field_eqb f g then Some v else lookup_flat f r end.

Fixpoint assemble_flat (T : flat_table) (with_sym : bool) (vals : list (field * res str)) (out : str) : res str :=
  match T with
  | [] => Ok out
  | (f, sym, _) :: rest =>
    match lookup_flat f vals with
    | None => assemble_flat rest with_sym vals out          (* nil node *)
    | Some r =>
      let* content := r in
      match content with
      | [] => assemble_flat rest with_sym vals out
      | _ => assemble_flat rest with_sym vals
               (if with_sym then out ++ sym ++ $"(" ++ content ++ $")" ++ [sp] else out ++ content ++ [sp])
      end
    end
  end.
Definition drop_last (s : str) : str := match s with [] => [] | _ => removelast s end.
Definition finish_flat (r : res str) : res str := let* s := r in Ok (drop_last s).

Section Flat.
Variable T : flat_table.

Fixpoint node_flat (n : node) : res str :=
  match n with
  | Leaf _ e _ =>
    match e with
    | EStr s => Ok s
    | ENil => Ok []
    | EStmt (Stmt fs) =>
      finish_flat (assemble_flat T false
        ((fix go (l : list (field * node)) := match l with [] => [] | (f, x) :: t => (f, node_flat x) :: go t end) fs) [])
    | ENodes ns =>
      match ns with
      | Leaf _ (EStmt (Stmt fs)) _ :: _ =>
        finish_flat (assemble_flat T false
          ((fix go (l : list (field * node)) := match l with [] => [] | (f, x) :: t => (f, node_flat x) :: go t end) fs) [])
      | _ => Panic 40        (* [0] of an empty slice, or a failed type assertion to Statement *)
      end
    end
  | Comb m o l r =>
    let* ls := node_flat l in
    let* rs := node_flat r in
    Ok ((if shared_set (shl m) then flat_map (fun v => v ++ [sp]) (shl m) else [])
        ++ ls ++ [sp] ++ op_name o ++ [sp] ++ rs
        ++ (if shared_set (shr m) then sp :: flat_map (fun v => v ++ [sp]) (shr m) else []))
  end.

Definition flat_vals (fs : list (field * node)) : list (field * res str) := map (fun fx => (fst fx, node_flat (snd fx))) fs.
(* Statement.StringFlat(includeComponentSymbol) *)
Definition stmt_flat (with_sym : bool) (s : stmt) : res str :=
  finish_flat (assemble_flat T with_sym (flat_vals (stmt_fields s)) []).
End Flat.
