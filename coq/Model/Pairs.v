(* Model/Pairs.v - tree.CopyComponentsFromStatement / copyComponentValue (core/tree/IGStatement.go:562,605): an expanded
   component-pair statement receives every component written outside the braces; a component present on both sides
   is joined by the implicit conjunction.  The table (target, read target, read source) is regenerated from the source
   (Gen/Wiring.copy_table). *)
From Coq Require Import List Arith Bool Strings.Byte.
From IGP Require Import Base.Str Base.Outcome Model.Tree Model.Visual.
Import ListNotations.

Definition copy_value (target source : option node) : res (option node) :=
  match source with
  | None => Ok target
  | Some s => match target with
              | None => Ok (Some s)
              | Some t => let* c := combine t s BAND in Ok (Some c)
              end
  end.

(* the statement after the copy: per table entry (x, y, z):  x := copy_value (group y) (outside z) *)
Fixpoint copy_components (T : list (field * field * field)) (group outside : stmt) : res (list (field * node)) :=
  match T with
  | [] => Ok []
  | (x, y, z) :: rest =>
    let* v := copy_value (sget group y) (sget outside z) in
    let* tl := copy_components rest group outside in
    Ok (match v with Some n => (x, n) :: tl | None => tl end)
  end.

Definition copy_table_ok (T : list (field * field * field)) : bool :=
  forallb (fun e => let '(x, y, z) := e in field_eqb x y && field_eqb x z) T
  && forallb (fun f => Nat.eqb (length (filter (fun e => field_eqb f (fst (fst e))) T)) 1) all_fields.
