(* Model/MapSites.v - the sources of run-to-run variation that were analysed (C12).
   A Go map is iterated in an order that changes from loop to loop; the model is a function of its inputs, so it is
   a model of the code only where the code's result does not depend on that order.  Every range over a map in code
   reachable from the two conversion endpoints is listed here with the reason why its result is order-independent
   (proved per class in Proofs/OracleProof.v); Gen/Sites.v is the inventory regenerated from the source (SSA
   reachability, hash of the enclosing if-conditions and the statement's text), Tie/C12_tie.v compares the two. *)
From Coq Require Import List Arith Bool Strings.Byte.
From IGP Require Import Base.Str.
Import ListNotations.

Inductive site_class :=
| Singleton        (* runs under len(m) == 1 resp. on a map built with one key: one iteration *)
| LogOnly          (* the body only writes to the log *)
| Commutative      (* the body deletes/updates an entry that belongs to the key: bodies commute *)
| UniqueMatch      (* break on the first key satisfying a condition that at most one key satisfies *)
| AnyKeySameRoot.  (* takes an arbitrary key and uses only the root of its tree, which all keys share *)

Definition analysed_sites : list (str * nat * str * site_class) := [
  ($"parser.ParseIntoNodeTree", 0, $"7437effa0725", Singleton);
  ($"parser.ProcessPrivateComponentLinkages", 0, $"4ed6218f5564", Singleton);
  ($"parser.detectCombinations", 0, $"461ca5a8eee9", LogOnly);
  ($"parser.detectCombinations", 1, $"946dabdd2771", LogOnly);
  ($"parser.detectCombinations", 2, $"0ef9cd60cd5e", Commutative);
  ($"parser.extractSharedComponents", 0, $"3450c9015f3c", UniqueMatch);
  ($"parser.extractSharedComponents", 1, $"d6cd49a52878", UniqueMatch);
  ($"tabular.generateLogicalLinksExpressionForGivenComponentValue", 0, $"0f6661f5935a", AnyKeySameRoot);
  ($"tabular.generateStatementMatrix", 0, $"c5a687030cf1", LogOnly)].

Definition site_eqb (a b : str * nat * str) : bool :=
  beq_str (fst (fst a)) (fst (fst b)) && Nat.eqb (snd (fst a)) (snd (fst b)) && beq_str (snd a) (snd b).
Definition site_known (s : str * nat * str) : bool := existsb (fun a => site_eqb (fst a) s) analysed_sites.
Definition site_found (gen : list (str * nat * str)) (a : str * nat * str * site_class) : bool := existsb (site_eqb (fst a)) gen.

(* both inclusions: nothing new in the source, nothing analysed that is no longer there *)
Definition sites_ok (gen : list (str * nat * str)) : bool :=
  forallb site_known gen && forallb (site_found gen) analysed_sites.
