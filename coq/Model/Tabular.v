(* Model/Tabular.v - port of the static tabular export:
     tabular.GenerateTabularOutputFromParsedStatements / GenerateTabularOutputFromParsedStatement /
     generateStatementMatrix / generateLogicalLinksExpressionForGivenComponentValue /
     generateLogicalLinksExpressionForStatements / generateLogicalLinkageForExtrapolatedStatements /
     generateNewNestedStatementID / printTabularOutput / generateCSVOutput / generateGoogleSheetsOutput
     (core/exporter/tabular/TabularOutputGenerator.go), CleanInput / performOutputSpecificAdjustments
     (TabularHelpers.go), Statement.GenerateLeafArrays (IGStatement.go) and
     GenerateLogicalOperatorLinkagePerCombination (ArrayCombinationGenerator.go).
   Static output only (create_DYNAMIC_TABULAR_OUTPUT = false), shared elements included (the endpoint forces
   that switch), AGGREGATE_IMPLICIT_LINKAGES = true and collapse_OPERATORS = true (never written outside tests).
   Rows are association lists header symbol -> cell (the Go entryMap); a missing key is the empty cell. *)
From Coq Require Import List Arith Bool Lia NArith ZArith Strings.Byte.
From IGP Require Import Base.Str Base.Outcome Model.Tree Model.Odo Model.Leaves Model.Flat Model.Link Model.Visual.
Import ListNotations.

Record tab_tables := mkTabT {
  tt_leaf : leaf_table;                    (* generateLeafArrays: (field, symbol, complex) in call order *)
  tt_flat : flat_table;                    (* Statement.string order, for StringFlat *)
  tt_schema : list (str * str);            (* static header (symbol, name), annotations off *)
  tt_schema_anno : list (str * str)        (* static header (symbol, name), annotations on *)
}.
Record tcfg := mkTcfg { t_ext : bool; t_anno : bool; t_gs : bool }.
Inductive incl := INone | IFirst | IAll | IOther.

Definition K_ID : str := $"Statement ID".
Definition K_LLS : str := $"Logical Linkage (Statements)".
Definition K_LLC : str := $"Logical Linkage (Components)".
Definition K_SANNO : str := $"Statement Annotation".
Definition REF_SUFFIX : str := $"-Ref".
Definition ANNO_SUFFIX : str := $" (Annotation)".
Definition K_ORIG : str := $"Original Statement".
Definition K_IGS : str := $"IG Script Encoding".
Definition comma : str := $",".
Definition ERR_UNKNOWN_INPUT : str := $"PARSING_ERROR_UNKNOWN_INPUT_TYPE".

Definition row := list (str * str).
Definition rget (r : row) (k : str) : str := match assoc_get k r with Some v => v | None => [] end.
Definition rset (r : row) (k v : str) : row := assoc_set k v r.

(* shared.EscapeSymbolsForExport + performOutputSpecificAdjustments *)
Definition escape_export (s : str) : str := replace_byte x22 [x27] s.
Definition adjust (gs : bool) (s : str) : str :=
  let v := escape_export s in
  if gs then match v with c :: _ => if Byte.eqb c x27 then x27 :: v else v | [] => v end else v.

(* CleanInput(input, "|"):  \r\n | \r | \n -> " ", then the separator removed *)
Fixpoint replace_linebreaks (s : str) : str :=
  match s with
  | [] => []
  | c :: t =>
    if Byte.eqb c x0a then sp :: replace_linebreaks t
    else if Byte.eqb c x0d then
      match t with
      | d :: t' => if Byte.eqb d x0a then sp :: replace_linebreaks t' else sp :: replace_linebreaks t
      | [] => [sp]
      end
    else c :: replace_linebreaks t
  end.
Definition SEPB : byte := x7c.
Definition clean_input (s : str) : str := filter (fun c => negb (Byte.eqb c SEPB)) (replace_linebreaks s).
(* the statement ID as the endpoint hands it to the exporter *)
Definition endpoint_id (s : str) : str := escape_export (clean_input s).

(* ---------------------------------------------------------------- leaf references *)
Record lref := mkL { l_f : field; l_p : path; l_n : node; l_a : anc }.
Fixpoint node_at (n : node) (p : path) (a : anc) : option (node * anc) :=
  match p, n with
  | [], _ => Some (n, a)
  | d :: p', Comb m o l r => node_at (if d then r else l) p' ((m, o) :: a)
  | _, _ => None
  end.
Fixpoint path_eqb (a b : path) : bool :=
  match a, b with [], [] => true | x :: a', y :: b' => Bool.eqb x y && path_eqb a' b' | _, _ => false end.
Definition lref_eqb (x y : lref) : bool := field_eqb (l_f x) (l_f y) && path_eqb (l_p x) (l_p y).

Definition mk_refs (f : field) (root : node) (ps : list path) : list lref :=
  flat_map (fun p => match node_at root p [] with Some (n, a) => [mkL f p n a] | None => [] end) ps.

(* Statement.GenerateLeafArrays(aggr): arrays of leaf references *)
Fixpoint stmt_leaf_refs (T : leaf_table) (s : stmt) : list (list lref) :=
  match T with
  | [] => []
  | (f, _, complex) :: rest =>
    match sget s f with
    | None => stmt_leaf_refs rest s
    | Some n => map (mk_refs f n) (comp_arrays true complex n) ++ stmt_leaf_refs rest s
    end
  end.

(* ---------------------------------------------------------------- GenerateLogicalOperatorLinkagePerCombination *)
(* column c: map leaf -> compressed list of (1-based) row numbers that carry it, keys in order of first use *)
Fixpoint lmap_add (m : list (lref * list str)) (k : lref) (id : nat) : list (lref * list str) :=
  match m with
  | [] => [(k, add_ref [] id)]
  | (k', v) :: t => if lref_eqb k k' then (k', add_ref v id) :: t else (k', v) :: lmap_add t k id
  end.
Fixpoint lmap_get (m : list (lref * list str)) (k : lref) : option (list str) :=
  match m with [] => None | (k', v) :: t => if lref_eqb k k' then Some v else lmap_get t k end.
Fixpoint column_links (rows : list (list lref)) (c id : nat) (m : list (lref * list str)) : list (lref * list str) :=
  match rows with
  | [] => m
  | r :: t => column_links t c (S id) (match nth_error r c with Some k => lmap_add m k id | None => m end)
  end.
Definition link_maps (rows : list (list lref)) : list (list (lref * list str)) :=
  match rows with
  | [] => []
  | r0 :: _ => map (fun c => column_links rows c 0 []) (seq 0 (length r0))
  end.

(* ---------------------------------------------------------------- registry of nested statements *)
(* identity of a nested statement: a leaf of a complex component tree, or the j-th statement of the i-th private
   property of the component values carrying suffix [sfx] (the values of one suffix group share their private nodes) *)
Inductive nkey := KComp (f : field) (p : path) | KPriv (f : field) (sfx : str) (i j : nat).
Definition nkey_eqb (a b : nkey) : bool :=
  match a, b with
  | KComp f p, KComp g q => field_eqb f g && path_eqb p q
  | KPriv f p i j, KPriv g q k l => field_eqb f g && beq_str p q && Nat.eqb i k && Nat.eqb j l
  | _, _ => false
  end.
Record nested := mkN { n_key : nkey; n_id : str; n_node : node }.
Fixpoint reg_find (reg : list nested) (k : nkey) : option str :=
  match reg with [] => None | x :: t => if nkey_eqb (n_key x) k then Some (n_id x) else reg_find t k end.
(* generateNewNestedStatementID *)
Definition new_nested_id (reg : list nested) (k : nkey) (n : node) (stmt_id : str) : list nested * str :=
  match reg_find reg k with
  | Some id => (reg, id)
  | None => let id := $"{" ++ stmt_id ++ $"}" ++ $"." ++ itoa_nat (S (length reg)) in
            (reg ++ [mkN k id n], id)
  end.

Section Tab.
Variable T : tab_tables.
Variable C : tcfg.

Definition sflat (n : node) : res str := node_flat (tt_flat T) n.

(* value of a primitive cell: shared left/right around the entry; the left part is suppressed when the
   existing cell already ends with it *)
Definition prim_cell (existing : str) (x : lref) (e : str) : str * bool :=
  let m := node_meta (l_n x) in
  let ls := stringify_slices (get_shared shl m (l_a x)) in
  let rs0 := stringify_slices (get_shared shr m (l_a x)) in
  let rs := if is_empty rs0 then [] else sp :: rs0 in
  match ls with
  | [] => (e ++ rs, false)
  | _ => if negb (is_empty existing) && has_suffix existing ls then (sp :: e ++ rs, true)
         else (ls ++ [sp] ++ e ++ rs, false)
  end.

Definition append_cell (r : row) (k v : str) : row :=
  let ex := rget r k in rset r k (if is_empty ex then v else ex ++ comma ++ v).

(* private nodes of a primitive leaf *)
Fixpoint priv_elems (r : row) (reg : list nested) (x : lref) (pv : node) (i j : nat) (vs : list node) (stmt_id : str)
  : res (row * list nested) :=
  match vs with
  | [] => Ok (r, reg)
  | v :: t =>
    let name := comp_name (node_meta pv) [] in
    if t_ext C then
      let '(reg', id) := new_nested_id reg (KPriv (l_f x) (get_suffix (node_meta (l_n x)) (l_a x)) i j) v stmt_id in
      priv_elems (append_cell r (name ++ REF_SUFFIX) id) reg' x pv i (S j) t stmt_id
    else
      let* fl := sflat v in
      priv_elems (append_cell r name (adjust (t_gs C) fl)) reg x pv i (S j) t stmt_id
  end.
Fixpoint priv_loop (r : row) (reg : list nested) (x : lref) (i : nat) (pvs : list node) (stmt_id : str) : res (row * list nested) :=
  match pvs with
  | [] => Ok (r, reg)
  | pv :: t =>
    let* rr :=
      match pv with
      | Leaf m (EStmt s) _ => priv_elems r reg x pv i 0 [Leaf meta0 (EStmt s) []] stmt_id
      | Leaf m (ENodes vs) _ => priv_elems r reg x pv i 0 vs stmt_id
      | Leaf m (EStr s) _ => Ok (append_cell r (comp_name m []) (adjust (t_gs C) s), reg)
      | _ => Ok (r, reg)
      end in
    priv_loop (fst rr) (snd rr) x (S i) t stmt_id
  end.

(* leaves of a complex component that hold nested statements: Flatten(GetLeafNodes(true)) *)
Definition nested_leaves (x : lref) : list lref :=
  match l_n x with
  | Comb _ _ _ _ => mk_refs (l_f x) (l_n x) (concat (leaf_arrays true (l_n x)))
  | _ => [x]
  end.
Definition parent_op (a : anc) : option op := match a with [] => None | (_, o) :: _ => Some o end.

Fixpoint complex_loop (r : row) (reg : list nested) (key : str) (vs : list lref) (stmt_id : str) : res (row * list nested) :=
  match vs with
  | [] => Ok (r, reg)
  | v :: t =>
    let ex := rget r key in
    let ex1 := if negb (is_empty ex) && negb (has_suffix ex $"] ") then ex ++ comma else ex in
    if t_ext C then
      let '(reg', id) := new_nested_id reg (KComp (l_f v) (l_p v)) (l_n v) stmt_id in
      complex_loop (rset r key (ex1 ++ id)) reg' key t stmt_id
    else
      let* fl := sflat (l_n v) in
      let ex2 := ex1 ++ adjust false fl in
      let ex3 := match t, parent_op (l_a v) with
                 | _ :: _, Some o => ex2 ++ $" [" ++ op_name o ++ $"] "
                 | _, _ => ex2
                 end in
      complex_loop (rset r key ex3) reg key t stmt_id
  end.

(* generateLogicalLinksExpressionForGivenComponentValue *)
Fixpoint comp_links_loop (acc : str) (started : bool) (root : node) (x : lref) (name : str) (lm : list (lref * list str))
    (keys : list lref) (stmt_id : str) : res (str * bool) :=
  match keys with
  | [] => Ok (acc, started)
  | k :: t =>
    if lref_eqb k x then comp_links_loop acc started root x name lm t stmt_id else
    match lmap_get lm k with
    | None | Some [] => comp_links_loop acc started root x name lm t stmt_id
    | Some refs =>
      let* fl := find_linkage root (l_p x) (l_p k) in
      match fl with
      | (false, _) => comp_links_loop acc started root x name lm t stmt_id
      | (true, ops) =>
        let cell := sprint_ops (collapse_ops ops) ++ $"." ++ name ++ $"." ++ $"["
                    ++ join comma (map (fun rf => stmt_id ++ $"." ++ rf) refs) ++ $"]" in
        comp_links_loop (acc ++ (if started then $";" else []) ++ cell) true root x name lm t stmt_id
      end
    end
  end.
Definition comp_links (s : stmt) (acc : str) (x : lref) (lm : list (lref * list str)) (stmt_id : str) : res str :=
  match lm with
  | [] => Ok acc
  | (k0, _) :: _ =>
    match sget s (l_f k0) with
    | None => Ok acc
    | Some root =>
      let keys := match leaf_arrays true root with a :: _ => mk_refs (l_f k0) root a | [] => [] end in
      match lmap_get lm x with
      | None => Ok acc
      | Some _ =>
        let* r := comp_links_loop acc (negb (is_empty acc)) root x (comp_name (node_meta (l_n x)) (l_a x)) lm keys stmt_id in
        Ok (fst r)
      end
    end
  end.

(* one row of generateStatementMatrix *)
Fixpoint comps_loop (s : stmt) (r : row) (reg : list nested) (lv : str) (xs : list lref) (lms : list (list (lref * list str)))
    (stmt_id : str) : res (row * list nested * str) :=
  match xs with
  | [] => Ok (r, reg, lv)
  | x :: t =>
    let lm := match lms with m :: _ => m | [] => [] end in
    let name := comp_name (node_meta (l_n x)) (l_a x) in
    let* rr :=
      if is_empty_node (l_n x) (l_a x) then Ok (r, reg)
      else match l_n x with
      | Leaf m (EStr e) priv =>
        let '(v, skip) := prim_cell (rget r name) x e in
        let v' := adjust (t_gs C) v in
        let ex := rget r name in
        let r1 := rset r name (if is_empty ex then v' else ex ++ (if skip then [] else comma) ++ v') in
        let* r2 := priv_loop r1 reg x 0 priv stmt_id in
        let r3 := if t_anno C && annot_set (get_annotations m (l_a x))
                  then append_cell (fst r2) (name ++ ANNO_SUFFIX)
                         (adjust (t_gs C) (match get_annotations m (l_a x) with Some a => a | None => [] end))
                  else fst r2 in
        Ok (r3, snd r2)
      | _ => complex_loop r reg (name ++ REF_SUFFIX) (nested_leaves x) stmt_id
      end in
    let* lv' := comp_links s lv x lm stmt_id in
    comps_loop s (fst rr) (snd rr) lv' t (tl lms) stmt_id
  end.

Fixpoint rows_loop (s : stmt) (anno : option str) (stmt_links : str) (rows : list (list lref)) (lms : list (list (lref * list str)))
    (multi : bool) (ct : nat) (reg : list nested) (stmt_id : str) (acc : list row) : res (list row * list nested) :=
  match rows with
  | [] => Ok (rev acc, reg)
  | xs :: t =>
    let sub := if multi then stmt_id ++ $"." ++ itoa_nat (S ct) else stmt_id in
    let r0 := rset [] K_ID sub in
    let r1 := match anno with Some a => if t_anno C then rset r0 K_SANNO (adjust (t_gs C) a) else r0 | None => r0 end in
    let* x := comps_loop s r1 reg [] xs lms stmt_id in
    let '(r2, reg', lv) := x in
    let r3 := if is_empty lv then r2 else rset r2 K_LLC lv in
    let r4 := if is_empty stmt_links then r3 else rset r3 K_LLS stmt_links in
    rows_loop s anno stmt_links t lms multi (S ct) reg' stmt_id (r4 :: acc)
  end.

(* generateLogicalLinksExpressionForStatements *)
Fixpoint nested_links (s : stmt) (src : nested) (all : list nested) (acc : str) : res str :=
  match all with
  | [] => Ok acc
  | tg :: t =>
    if nkey_eqb (n_key tg) (n_key src) then nested_links s src t acc else
    match n_key src, n_key tg with
    | KComp f p, KComp g q =>
      if field_eqb f g then
        match sget s f with
        | Some root =>
          let* fl := find_linkage root p q in
          match fl with
          | (true, ops) => nested_links s src t (acc ++ (if is_empty acc then [] else comma) ++ sprint_ops (collapse_ops ops) ++ $"[" ++ n_id tg ++ $"]")
          | _ => nested_links s src t acc
          end
        | None => nested_links s src t acc
        end
      else nested_links s src t acc
    | _, _ => nested_links s src t acc
    end
  end.

Definition last_index_of (s sub : str) : option nat :=
  (fix go (i : nat) (best : option nat) (r : str) {struct r} :=
     let best' := if is_prefix sub r then Some i else best in
     match r with [] => best' | _ :: r' => go (S i) best' r' end) 0 None s.

(* the statement held by a node handed to GenerateTabularOutputFromParsedStatement *)
Definition stmt_of_node (n : node) : res stmt :=
  match n with
  | Leaf _ (EStmt s) _ => Ok s
  | Leaf _ (ENodes (Leaf _ (EStmt s) _ :: _)) _ => Ok s
  | Leaf _ (ENodes _) _ => Panic 50
  | Leaf _ (EStr _) _ => Err ERR_UNKNOWN_INPUT
  | _ => Panic 51
  end.

Definition assign_links (prefix links : str) (r : row) : row :=
  if is_prefix prefix (rget r K_ID) then
    let ex := rget r K_LLS in rset r K_LLS (if is_empty ex then links else ex ++ comma ++ links)
  else r.

(* GenerateTabularOutputFromParsedStatement without the printing: the rows of one statement and of everything
   nested in it *)
Fixpoint tab_stmt (fuel : nat) (n : node) (anno : option str) (stmt_links : str) (stmt_id : str) : res (list row) :=
  match fuel with
  | 0 => OutOfFuel
  | S f =>
    let* s := stmt_of_node n in
    let arrays := stmt_leaf_refs (tt_leaf T) s in
    let* perms := odometer arrays in
    match perms with
    | [] => Fatal 60                                (* GenerateLogicalOperatorLinkagePerCombination: log.Fatal on empty input *)
    | _ =>
      let lms := link_maps perms in
      let* rr := rows_loop s anno stmt_links perms lms (1 <? length perms) 0 [] stmt_id [] in
      let '(own, reg) := rr in
      (fix nest (todo : list nested) (acc : list row) {struct todo} : res (list row) :=
         match todo with
         | [] => Ok acc
         | nd :: t =>
           let* sub := tab_stmt f (n_node nd) (annot (node_meta (n_node nd))) [] (n_id nd) in
           let* links := nested_links s nd reg [] in
           let sub' :=
             if is_empty links then sub else
             match last_index_of (n_id nd) $"}." with
             | Some i => map (assign_links (firstn i (n_id nd)) links) sub
             | None => map (fun r => rset r K_LLS links) sub
             end in
           nest t (acc ++ sub')
         end) reg own
    end
  end.

(* ---------------------------------------------------------------- top level *)
(* GetTopLevelStatementNodes: statement-holding nodes with the path of the skeleton leaf that carries them *)
Fixpoint top_items (n : node) (p : path) : list (path * node) :=
  match n with
  | Leaf _ (EStmt _) _ => [(rev p, n)]
  | Leaf _ (ENodes ns) _ =>
    flat_map (fun e => match e with Leaf _ (EStmt _) _ => [(rev p, e)] | _ => [] end) ns
  | Comb _ _ l r => top_items l (false :: p) ++ top_items r (true :: p)
  | _ => []
  end.

(* generateLogicalLinkageForExtrapolatedStatements *)
Fixpoint top_links (root : node) (src : path) (i : nat) (items : list (path * node)) (j : nat) (base : str) (acc : str) : res str :=
  match items with
  | [] => Ok acc
  | (q, _) :: t =>
    if Nat.eqb i j then top_links root src i t (S j) base acc else
    let* fl := find_linkage root src q in
    match fl with
    | (true, ops) =>
      top_links root src i t (S j) base
        (acc ++ (if is_empty acc then [] else $";") ++ sprint_ops (collapse_ops ops) ++ $".[" ++ base ++ $"." ++ itoa_nat (S j) ++ $"]")
    | _ => top_links root src i t (S j) base acc
    end
  end.

Definition headers : list (str * str) :=
  (K_ID, K_ID) :: (if t_anno C then tt_schema_anno T else tt_schema T) ++ [(K_LLS, K_LLS); (K_LLC, K_LLC)].

(* printTabularOutput *)
Definition extra_hdr (po pi : incl) : str :=
  (match po with IFirst | IAll => K_ORIG ++ [SEPB] | _ => [] end) ++ (match pi with IFirst | IAll => K_IGS ++ [SEPB] | _ => [] end).
Definition extra_cell (o : incl) (i : nat) (text : str) : str :=
  match o with
  | INone | IOther => []
  | IFirst => (if Nat.eqb i 0 then text else [sp]) ++ [SEPB]
  | IAll => text ++ [SEPB]
  end.
Definition print_header (prefix suffix : str) (po pi : incl) : str :=
  prefix ++ flat_map (fun h => snd h ++ [SEPB] ++ (if beq_str (snd h) K_ID then extra_hdr po pi else [])) headers ++ suffix.
Definition print_row (prefix suffix : str) (po pi : incl) (orig igs : str) (i : nat) (r : row) : str :=
  prefix ++ [x27] ++
  flat_map (fun h => (let v := rget r (fst h) in if is_empty v then [sp] else v) ++ [SEPB]
                     ++ (if beq_str (fst h) K_ID then extra_cell po i orig ++ extra_cell pi i igs else [])) headers
  ++ suffix.
Fixpoint print_rows (prefix suffix : str) (po pi : incl) (orig igs : str) (i : nat) (rs : list row) : str :=
  match rs with [] => [] | r :: t => print_row prefix suffix po pi orig igs i r ++ print_rows prefix suffix po pi orig igs (S i) t end.
Definition print_table (hdr : bool) (po pi : incl) (orig igs : str) (rs : list row) : str :=
  let prefix := if t_gs C then $"=SPLIT(""" else [] in
  let suffix := if t_gs C then $"""; ""|"")" ++ [x0a] else [x0a] in
  (if hdr then print_header prefix suffix po pi else [])
  ++ print_rows prefix suffix po pi (adjust (t_gs C) orig) (adjust (t_gs C) igs) 0 rs.

(* GenerateTabularOutputFromParsedStatements for one root node: per top-level statement its rows and its text *)
Fixpoint top_loop (fuel : nat) (root : node) (items all : list (path * node)) (i : nat) (stmt_id : str)
    (hdr : bool) (po pi : incl) (orig igs : str) : res (list (list row * str)) :=
  match items with
  | [] => Ok []
  | (p, n) :: t =>
    let multi := 1 <? length all in
    let id := if multi then stmt_id ++ $"." ++ itoa_nat (S i) else stmt_id in
    let* links := if multi then top_links root p i all 0 stmt_id [] else Ok [] in
    let* rows := tab_stmt fuel n (Some []) links id in
    let* rest := top_loop fuel root t all (S i) stmt_id hdr po pi orig igs in
    Ok ((rows, print_table (hdr && Nat.eqb i 0) po pi orig igs rows) :: rest)
  end.
Definition tab_root (fuel : nat) (root : node) (stmt_id : str) (hdr : bool) (po pi : incl) (orig igs : str)
  : res (list (list row * str)) :=
  if is_empty_node root [] then Ok [] else
  let items := top_items root [] in
  top_loop fuel root items items 0 stmt_id hdr po pi (clean_input orig) (clean_input igs).
End Tab.
