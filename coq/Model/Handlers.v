(* Model/Handlers.v - the two request handlers (web/converter/AppSpecificHandler.go) as straight-line programs over
   the process-global switches.  The programs themselves are regenerated from the source on every run
   (Gen/Handlers.v, translator item G4); this file gives their syntax and semantics.
   A global is named by its qualified Go name ("tabular.include_ANNOTATIONS"); all switches are booleans. *)
From Coq Require Import List Arith Bool Lia Strings.Byte.
From IGP Require Import Base.Str.
Import ListNotations.

Inductive src :=
| SParam (p : str)            (* a parameter of the handler function: request data *)
| SConst (b : bool)
| SGlobal (g : str)           (* the current value of another global *)
| SNot (s : src)
| SIte (c a b : src)
| SOpaque (t : str).          (* anything the translator does not understand *)

Inductive ginstr :=
| GSet (g : str) (s : src)
| GConvert (arg_reads : list str)    (* the conversion; globals read for its arguments at the call *)
| GLock | GUnlock
| GUnsupported (t : str).

Definition gst := str -> bool.
Definition gupd (s : gst) (g : str) (v : bool) : gst := fun x => if beq_str x g then v else s x.

Fixpoint eval (params : str -> bool) (st : gst) (e : src) : bool :=
  match e with
  | SParam p => params p
  | SConst b => b
  | SGlobal g => st g
  | SNot x => negb (eval params st x)
  | SIte c a b => if eval params st c then eval params st a else eval params st b
  | SOpaque _ => false
  end.
Fixpoint src_reads (e : src) : list str :=
  match e with
  | SGlobal g => [g]
  | SNot x => src_reads x
  | SIte c a b => src_reads c ++ src_reads a ++ src_reads b
  | _ => []
  end.
Fixpoint src_ok (e : src) : bool :=
  match e with
  | SOpaque _ => false
  | SNot x => src_ok x
  | SIte c a b => src_ok c && src_ok a && src_ok b
  | _ => true
  end.

Definition assigned (p : list ginstr) : list str :=
  flat_map (fun i => match i with GSet g _ => [g] | _ => [] end) p.
Definition supported (p : list ginstr) : bool :=
  forallb (fun i => match i with GUnsupported _ => false | GSet _ s => src_ok s | _ => true end) p.
Definition has_convert (p : list ginstr) : bool := existsb (fun i => match i with GConvert _ => true | _ => false end) p.
