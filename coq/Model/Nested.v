(* Model/Nested.v - how nested statements are attached to the statement that carries them:
   attachComplexComponent (core/parser/IGStatementParser.go:905) on top of tree.Combine (Model/Visual.combine), and the
   table component symbol -> field that parseNestedStatements / parseNestedStatementCombination implement (regenerated:
   Gen/Wiring.nested_wiring, nested_combo_wiring). *)
From Coq Require Import List Arith Bool Strings.Byte.
From IGP Require Import Base.Str Base.Outcome Model.Tree Model.Visual.
Import ListNotations.

(* logicalOperator "" -> AND; AND / OR / XOR as written; anything else is rejected *)
Definition ERR_UNKNOWN_OPERATOR : str := $"UNKNOWN_LOGICAL_OPERATOR".
Definition attach_op (o : option op) : res op :=
  match o with
  | None => Ok AND
  | Some AND => Ok AND | Some OR => Ok OR | Some XOR => Ok XOR
  | Some _ => Err ERR_UNKNOWN_OPERATOR
  end.
Definition attach (existing : option node) (n : node) (o : option op) : res node :=
  let* oper := attach_op o in
  match existing with
  | None => Ok n
  | Some e => combine e n oper
  end.
Fixpoint attach_all (existing : option node) (ns : list node) (o : option op) : res (option node) :=
  match ns with
  | [] => Ok existing
  | n :: t => let* e := attach existing n o in attach_all (Some e) t o
  end.

(* specification: the nesting-capable symbols and the field each of them fills *)
Definition nested_spec : list (str * field) :=
  [($"A,p", FApC); ($"Bdir", FBdirC); ($"Bdir,p", FBdirpC); ($"Bind", FBindC); ($"Bind,p", FBindpC); ($"Cac", FCacC); ($"Cex", FCexC);
   ($"E,p", FEpC); ($"P", FPC); ($"P,p", FPpC); ($"O", FO)].

(* a wiring table (symbol, field assigned, field read as the existing value) implements the specification *)
Definition wiring_entry_ok (e : str * field * field) : bool :=
  let '(sym, tgt, src) := e in
  field_eqb tgt src && match assoc_get sym nested_spec with Some f => field_eqb f tgt | None => false end.
Definition wiring_covers (W : list (str * field * field)) : bool :=
  forallb (fun sf => existsb (fun e => beq_str (fst (fst e)) (fst sf)) W) nested_spec.
(* tests by prefix (the combination parser): a symbol that extends another one must be tested first *)
Fixpoint prefix_order_ok (W : list (str * field * field)) : bool :=
  match W with
  | [] => true
  | e :: t => forallb (fun e' => negb (is_prefix (fst (fst e)) (fst (fst e')) && negb (beq_str (fst (fst e)) (fst (fst e'))))) t && prefix_order_ok t
  end.
Definition nested_wiring_ok (W : list (str * field * field)) : bool :=
  forallb wiring_entry_ok W && wiring_covers W && prefix_order_ok W.
