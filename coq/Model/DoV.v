(* Model/DoV.v - port of Node.CalculateStateComplexity (core/tree/IGTree.go:1109),
   Statement.CalculateComplexity (core/tree/IGStatement.go:627; only the part that feeds
   TotalStateComplexity), shared.AggregateIfGreaterThan / FindMaxValue (core/shared/Helpers.go).
   The per-component wiring of CalculateComplexity is a parameter (record dov_wiring), regenerated
   from the source by the translator (Gen/Wiring.v). *)
From Coq Require Import List Arith Bool Lia ZArith Strings.Byte.
From IGP Require Import Base.Str Base.Outcome Model.Tree.
Import ListNotations.
Local Open Scope Z_scope.

Record dov_wiring := mkDovW {
  cx_calls : list field;      (* fields on which CalculateStateComplexity is called, in source order *)
  cx_leading : list field;    (* members of leadingStmtStates, resolved to the field each variable was computed from *)
  cx_cond : list field;       (* summands of the activation-condition term *)
  cx_thr : Z; cx_dflt : Z;    (* constants passed to AggregateIfGreaterThan *)
  cx_cdflt : Z                (* constant passed to FindMaxValue *)
}.

(* shared.AggregateIfGreaterThan arr threshold default *)
Definition aggregate_if_gt (arr : list Z) (threshold dflt : Z) : Z :=
  let sum := fold_left (fun s x => if Z.ltb threshold x then s + x else s) arr 0 in
  if Z.ltb dflt sum then sum else dflt.

(* shared.FindMaxValue arr default - including its "max += x" *)
Definition find_max_value (arr : list Z) (dflt : Z) : Z :=
  let mx := fold_left (fun m x => if Z.ltb m x then m + x else m) arr 0 in
  if Z.ltb dflt mx then mx else dflt.

Definition ERR_CX_TYPE : str := $"INVALID_TYPE_FOR_COMPLEXITY_CALCULATION".
Definition ERR_INVALID_TREE : str := $"TREE_INVALID_TREE".

(* value used by CalculateComplexity for a component: absent field -> 0; error -> the -1 that is returned with it *)
Definition cx_val (r : option (res Z)) : res Z :=
  match r with
  | None => Ok 0
  | Some (Err _) => Ok (-1)
  | Some x => x
  end.

Fixpoint lookup_cx (f : field) (t : list (field * res Z)) : option (res Z) :=
  match t with
  | [] => None
  | (g, v) :: rest => if field_eqb f g then Some v else lookup_cx f rest
  end.

(* all calls are evaluated (a panic in any of them is a panic of the whole), then the total is formed *)
Fixpoint seq_vals (l : list (res Z)) : res (list Z) :=
  match l with
  | [] => Ok []
  | r :: t => let* v := r in let* vs := seq_vals t in Ok (v :: vs)
  end.

Definition total_of (W : dov_wiring) (t : list (field * res Z)) : res Z :=
  let* _ := seq_vals (map (fun f => cx_val (lookup_cx f t)) (cx_calls W)) in
  let* lead := seq_vals (map (fun f => cx_val (lookup_cx f t)) (cx_leading W)) in
  let* cond := seq_vals (map (fun f => cx_val (lookup_cx f t)) (cx_cond W)) in
  Ok (aggregate_if_gt lead (cx_thr W) (cx_dflt W) * find_max_value [fold_left Z.add cond 0] (cx_cdflt W)).

Fixpoint node_cx (W : dov_wiring) (n : node) : res Z :=
  match n with
  | Leaf _ e _ =>
    match e with
    | EStr [] => Ok 0
    | EStr _ => Ok 1
    | EStmt (Stmt fs) =>
      total_of W ((fix go (l : list (field * node)) : list (field * res Z) :=
                     match l with [] => [] | (f, x) :: t => (f, node_cx W x) :: go t end) fs)
    | ENodes _ => Err ERR_CX_TYPE      (* the []*Node case compares with the type of &Node{}: never taken *)
    | ENil => Panic 20                 (* reflect.TypeOf(nil).String() *)
    end
  | Comb _ o l r =>
    match node_cx W l with
    | Err _ => Err ERR_INVALID_TREE
    | Ok lc =>
      match node_cx W r with
      | Err _ => Err ERR_INVALID_TREE
      | Ok rc =>
        match o with
        | AND | BAND | WAND => Ok (lc + rc - 1)
        | XOR => Ok (lc + rc)
        | OR => Ok (lc + rc + 1)
        end
      | other => other
      end
    | other => other
    end
  end.

Definition cx_table (W : dov_wiring) (fs : list (field * node)) : list (field * res Z) :=
  map (fun fx => (fst fx, node_cx W (snd fx))) fs.
Definition stmt_cx (W : dov_wiring) (s : stmt) : res Z := total_of W (cx_table W (stmt_fields s)).

(* ------------------------------------------------------------------ specification: the documented recurrence *)
Definition cond_field (f : field) : bool := match f with FCac | FCacC => true | _ => false end.
Definition lead_field (f : field) : bool := match f with FCac | FCacC | FO => false | _ => true end.

Fixpoint dov_node (n : node) : Z :=
  match n with
  | Leaf _ e _ =>
    match e with
    | EStmt (Stmt fs) =>
      let vals := (fix go (l : list (field * node)) : list (field * Z) :=
                     match l with [] => [] | (f, x) :: t => (f, dov_node x) :: go t end) fs in
      let v f := match (fix look (l : list (field * Z)) := match l with [] => None | (g, z) :: t => if field_eqb f g then Some z else look t end) vals with Some z => z | None => 0 end in
      Z.max 1 (fold_left Z.add (map (fun f => if Z.ltb 1 (v f) then v f else 0) (filter lead_field all_fields)) 0)
      * Z.max 1 (v FCac + v FCacC)
    | _ => 1
    end
  | Comb _ o l r =>
    match o with
    | AND | BAND | WAND => dov_node l + dov_node r - 1
    | XOR => dov_node l + dov_node r
    | OR => dov_node l + dov_node r + 1
    end
  end.

Definition dov_vals (fs : list (field * node)) : list (field * Z) := map (fun fx => (fst fx, dov_node (snd fx))) fs.
Fixpoint look_z (f : field) (l : list (field * Z)) : option Z :=
  match l with [] => None | (g, z) :: t => if field_eqb f g then Some z else look_z f t end.
Definition dov_v (fs : list (field * node)) (f : field) : Z :=
  match look_z f (dov_vals fs) with Some z => z | None => 0 end.
(* a statement's total: sum of the component values greater than one (at least 1) times the
   combined activation-condition value (at least 1) *)
Definition dov_total (s : stmt) : Z :=
  let fs := stmt_fields s in
  Z.max 1 (fold_left Z.add (map (fun f => if Z.ltb 1 (dov_v fs f) then dov_v fs f else 0) (filter lead_field all_fields)) 0)
  * Z.max 1 (dov_v fs FCac + dov_v fs FCacC).

(* trees on which the recurrence is defined: every leaf is a non-empty value or a nested statement
   (component pairs are outside the property's quantifier) *)
Fixpoint dov_wf (n : node) : bool :=
  match n with
  | Leaf _ e _ =>
    match e with
    | EStr [] => false
    | EStr _ => true
    | EStmt (Stmt fs) => (fix go (l : list (field * node)) := match l with [] => true | (_, x) :: t => dov_wf x && go t end) fs
    | _ => false
    end
  | Comb _ _ l r => dov_wf l && dov_wf r
  end.
Definition dov_wf_stmt (s : stmt) : bool := forallb (fun fx => dov_wf (snd fx)) (stmt_fields s).

(* decidable side condition on the regenerated wiring *)
Definition subset_f (a b : list field) : bool := forallb (fun f => existsb (field_eqb f) b) a.
Fixpoint nodup_f (l : list field) : bool :=
  match l with [] => true | x :: t => negb (existsb (field_eqb x) t) && nodup_f t end.
Definition dov_wiring_ok (W : dov_wiring) : bool :=
  nodup_f (cx_leading W) && subset_f (cx_leading W) (filter lead_field all_fields) && subset_f (filter lead_field all_fields) (cx_leading W)
  && nodup_f (cx_cond W) && subset_f (cx_cond W) [FCac; FCacC] && subset_f [FCac; FCacC] (cx_cond W)
  && Z.eqb (cx_thr W) 1 && Z.eqb (cx_dflt W) 1 && Z.eqb (cx_cdflt W) 1.
