(* Model/Priv.v - private properties: port of ProcessPrivateComponentLinkages / FindNodesLinkedViaSuffix /
   RemoveNodeFromTree (core/parser/IGSuffixProcessor.go, core/tree/IGTree.go) on the value model (C16).
   Node identity is the path in the tree as it is before any withdrawal: links are computed on the unpruned trees
   (as the code does: all links are identified first, removals follow), then all linked leaves are withdrawn at once.
   The table (which property field is searched for which component, in which pass) is regenerated from the source. *)
From Coq Require Import List Arith Bool Strings.Byte.
From IGP Require Import Base.Str Model.Tree.
Import ListNotations.
Open Scope list_scope.

Definition priv_table := list (str * bool * field).     (* source component name, complex pass?, property field *)

(* suffix up to the first comma: the element that links (secondary elements are ignored) *)
Fixpoint primary (s : str) : str :=
  match s with
  | [] => []
  | c :: t => if Byte.eqb c ","%byte then [] else c :: primary t
  end.

Fixpoint node_at (n : node) (p : path) (a : anc) : option (node * anc) :=
  match p, n with
  | [], _ => Some (n, a)
  | d :: p', Comb m o l r => node_at (if d then r else l) p' ((m, o) :: a)
  | _ :: _, Leaf _ _ _ => None
  end.

Definition eff_suffix (x : node * anc) : str := get_suffix (node_meta (fst x)) (snd x).

(* FindNodesLinkedViaSuffix for one source suffix: the target leaves, in order, whose (inherited) suffix is set and
   has the same first element *)
Definition links_to (sfx : str) (x : node * anc) : bool :=
  let t := eff_suffix x in negb (is_empty t) && beq_str (primary sfx) (primary t).
Definition linked_targets (sfx : str) (tgt : node) : list path :=
  filter (fun p => match node_at tgt p [] with Some x => links_to sfx x | None => false end) (leaf_paths tgt).

(* the detached value: the (possibly inherited) component name is written into the node before it leaves its tree *)
Definition detach (tgt : node) (p : path) : list node :=
  match node_at tgt p [] with
  | Some (Leaf m e pr, a) => [Leaf (mkMeta (comp_name m a) (suffix m) (annot m) (shl m) (shr m)) e pr]
  | _ => []
  end.

Definition lookup_prop (T : priv_table) (complex : bool) (name : str) : option field :=
  match find (fun r => beq_str (fst (fst r)) name && Bool.eqb (snd (fst r)) complex) T with
  | Some r => Some (snd r)
  | None => None
  end.

(* the property tree searched for a source leaf of the given component name *)
Definition prop_tree (T : priv_table) (complex : bool) (s : stmt) (name : str) : option (field * node) :=
  match lookup_prop T complex name with
  | Some f => match sget s f with Some n => Some (f, n) | None => None end
  | None => None
  end.

(* links of one source tree: every leaf with an (inherited) suffix gets the matching leaves of its property tree *)
Fixpoint attach (T : priv_table) (complex : bool) (s : stmt) (n : node) (a : anc) : node :=
  match n with
  | Leaf m e pr =>
    let sfx := get_suffix m a in
    if is_empty sfx then n else
    match prop_tree T complex s (comp_name m a) with
    | Some (_, tgt) => Leaf m e (pr ++ flat_map (detach tgt) (linked_targets sfx tgt))
    | None => n
    end
  | Comb m o l r => Comb m o (attach T complex s l ((m, o) :: a)) (attach T complex s r ((m, o) :: a))
  end.

(* what is to be withdrawn: (property field, path) per link *)
Fixpoint withdrawals (T : priv_table) (complex : bool) (s : stmt) (n : node) (a : anc) : list (field * path) :=
  match n with
  | Leaf m e pr =>
    let sfx := get_suffix m a in
    if is_empty sfx then [] else
    match prop_tree T complex s (comp_name m a) with
    | Some (f, tgt) => map (pair f) (linked_targets sfx tgt)
    | None => []
    end
  | Comb m o l r => withdrawals T complex s l ((m, o) :: a) ++ withdrawals T complex s r ((m, o) :: a)
  end.

Fixpoint path_eqb (p q : path) : bool :=
  match p, q with
  | [], [] => true
  | a :: p', b :: q' => Bool.eqb a b && path_eqb p' q'
  | _, _ => false
  end.
Definition path_mem (p : path) (ps : list path) : bool := existsb (path_eqb p) ps.

(* RemoveNodeFromTree for a set of leaves: a combination that loses one side is replaced by the other side (which
   keeps its own attributes; the combination's are gone); losing both sides it disappears; None = nothing is left *)
Fixpoint prune_at (ps : list path) (n : node) (rcur : path) : option node :=
  match n with
  | Leaf _ _ _ => if path_mem (rev rcur) ps then None else Some n
  | Comb m o l r =>
    match prune_at ps l (false :: rcur), prune_at ps r (true :: rcur) with
    | Some l', Some r' => Some (Comb m o l' r')
    | Some l', None => Some l'
    | None, Some r' => Some r'
    | None, None => None
    end
  end.

(* the literal single removal, by the position cases of RemoveNodeFromTree: the node's parent is replaced by the
   node's sibling (in the root case by copying the sibling over the parent); a node without parent cannot be removed *)
Fixpoint remove_at (n : node) (p : path) : option node :=
  match p, n with
  | [], _ => None
  | [d], Comb _ _ l r => match (if d then r else l) with Leaf _ _ _ => Some (if d then l else r) | Comb _ _ _ _ => None end
  | d :: p', Comb m o l r =>
    if d then match remove_at r p' with Some r' => Some (Comb m o l r') | None => None end
    else match remove_at l p' with Some l' => Some (Comb m o l' r) | None => None end
  | _ :: _, Leaf _ _ _ => None
  end.

Definition field_paths (f : field) (ws : list (field * path)) : list path :=
  map snd (filter (fun w => field_eqb f (fst w)) ws).

(* one pass over the statement *)
Definition process_links (T : priv_table) (complex : bool) (s : stmt) : stmt :=
  let fs := stmt_fields s in
  let ws := flat_map (fun fn => withdrawals T complex s (snd fn) []) fs in
  let attached := map (fun fn => (fst fn, attach T complex s (snd fn) [])) fs in
  Stmt (flat_map (fun fn => match field_paths (fst fn) ws with
                            | [] => [fn]
                            | ps => match prune_at ps (snd fn) [] with Some n' => [(fst fn, n')] | None => [] end
                            end) attached).

(* ---------------------------------------------------------------- the documented pairing (side condition on the regenerated table) *)
(* component -> its property, primitive and nested: A / A,p; I / Cex; Bdir / Bdir,p; Bind / Bind,p; E / E,p; P / P,p *)
Definition documented_pairs : priv_table :=
  [($"A", false, FAp); ($"A", true, FApC); ($"I", false, FCex); ($"I", true, FCexC);
   ($"Bdir", false, FBdirp); ($"Bdir", true, FBdirpC); ($"Bind", false, FBindp); ($"Bind", true, FBindpC);
   ($"E", false, FEp); ($"E", true, FEpC); ($"P", false, FPp); ($"P", true, FPpC)].
Definition row_eqb (a b : str * bool * field) : bool :=
  beq_str (fst (fst a)) (fst (fst b)) && Bool.eqb (snd (fst a)) (snd (fst b)) && field_eqb (snd a) (snd b).
Definition priv_table_ok (T : priv_table) (resets : list (str * field)) : bool :=
  forallb (fun r => existsb (row_eqb r) documented_pairs) T &&
  forallb (fun r => existsb (row_eqb r) T) documented_pairs &&
  Nat.eqb (length T) (length documented_pairs) &&
  (* the statement-side reset exists for every field that can be emptied, and for no other *)
  forallb (fun r => existsb (fun q => beq_str (fst q) (fst (fst r)) && field_eqb (snd q) (snd r)) resets) T &&
  forallb (fun q => existsb (fun r => beq_str (fst q) (fst (fst r)) && field_eqb (snd q) (snd r)) T) resets.

(* ---------------------------------------------------------------- the whole statement, as ParseStatement does it *)
(* nested statements are parsed (and linked) on their own before they are attached; the outer statement is linked in
   two passes: primitive properties, then nested ones *)
Fixpoint deep_node (T : priv_table) (fuel : nat) (n : node) : node :=
  match fuel with
  | 0 => n
  | S f =>
    match n with
    | Leaf m (EStmt st) pr => Leaf m (EStmt (deep_stmt T f st)) (map (deep_node T f) pr)
    | Leaf m (ENodes ns) pr => Leaf m (ENodes (map (deep_node T f) ns)) (map (deep_node T f) pr)
    | Leaf m e pr => Leaf m e (map (deep_node T f) pr)
    | Comb m o l r => Comb m o (deep_node T f l) (deep_node T f r)
    end
  end
with deep_stmt (T : priv_table) (fuel : nat) (s : stmt) : stmt :=
  match fuel with
  | 0 => s
  | S f =>
    let s1 := Stmt (map (fun fn => (fst fn, deep_node T f (snd fn))) (stmt_fields s)) in
    process_links T true (process_links T false s1)
  end.
