(* Model/WebDecode.v - how converterHandler (web/converter/GenericParserHandler.go) turns request parameters into the
   options handed to the output handlers, and on into the global switches.  The rules themselves are regenerated
   from the source (Gen/Handlers.v, translator item G6); this file gives their meaning, the specification (each
   checkbox / URL parameter controls the option it names), and the resolution request parameter -> global switch. *)
From Coq Require Import List Arith Bool Strings.Byte.
From IGP Require Import Base.Str Model.Handlers.
Import ListNotations.

(* if <form variable> == "on" { v := a ... } else { v := b ... } *)
Inductive prule := PRule (formvar : str) (on_true on_false : list (str * bool)).
(* URL parameter: value in {t,true,1} -> true, else false; absent -> dflt (None: false); guard: enclosing condition *)
Inductive urule := URule (param : str) (dflt : option bool) (on_true on_false : list (str * bool)) (guard : str).

Definition params := list (str * str).
Fixpoint pget (k : str) (ps : params) : str := match ps with [] => [] | (k', v) :: t => if beq_str k k' then v else pget k t end.

Definition url_true (v : str) : bool := beq_str v $"t" || beq_str v $"true" || beq_str v $"1".
Definition vars := list (str * bool).
Fixpoint vget (k : str) (vs : vars) : bool := match vs with [] => false | (k', v) :: t => if beq_str k k' then v else vget k t end.
Definition vset_all (a : list (str * bool)) (vs : vars) : vars := a ++ vs.    (* later assignments shadow earlier ones *)

Section Decode.
Variable form_vars : list (str * str).           (* form variable -> request parameter *)
Variable post_rules : list prule.
Variable get_rules : list urule.

Definition form_param (fv : str) : str := match assoc_get fv form_vars with Some p => p | None => [] end.

(* the POST-style block (runs for every request; r.FormValue also sees URL parameters) *)
Definition run_post (ps : params) : vars :=
  fold_left (fun vs r => match r with PRule fv a b => vset_all (if beq_str (pget (form_param fv) ps) $"on" then a else b) vs end) post_rules [].
(* the GET block *)
Definition run_get (ps : params) (vs : vars) : vars :=
  fold_left (fun vs r => match r with URule p d a b _ =>
     let v := pget p ps in
     let check := if is_empty v then match d with Some x => x | None => false end else url_true v in
     vset_all (if check then a else b) vs end) get_rules vs.
Definition decode (post : bool) (ps : params) : vars := if post then run_post ps else run_get ps (run_post ps).
End Decode.

(* ---------------------------------------------------------------- specification *)
(* request parameter, global switch it controls, polarity (false: the switch is the negation), value when absent on GET *)
Definition spec_wiring : list (str * str * bool * bool) :=
  [($"dynamicSchema", $"tabular.create_DYNAMIC_TABULAR_OUTPUT", true, false);
   ($"igExtended", $"tabular.create_IG_EXTENDED_OUTPUT", true, false);
   ($"annotations", $"tabular.include_ANNOTATIONS", true, false);
   ($"includeHeaders", $"tabular.include_HEADERS", true, true);
   ($"dov", $"tabular.include_DEGREE_OF_VARIABILITY", true, false);
   ($"propertyTree", $"tree.print_FLAT", false, true);
   ($"binaryTree", $"tree.print_BINARY", true, false);
   ($"actCondTop", $"tree.moveActivationConditionsToFront", true, false)].

(* what a switch must be, given the request *)
Definition spec_value (post : bool) (ps : params) (w : str * str * bool * bool) : bool :=
  let '(p, _, pol, absent) := w in
  let v := pget p ps in
  let on := if post then beq_str v $"on" else (if is_empty v then absent else url_true v) in
  if pol then on else negb on.

(* ---------------------------------------------------------------- resolution through the generated pieces *)
(* the handler variable that a rule assigns in both branches with opposite values, with the value it takes when on *)
Definition rule_target (a b : list (str * bool)) : option (str * bool) :=
  match a, b with
  | [(v, x)], [(v', y)] => if beq_str v v' && negb (Bool.eqb x y) then Some (v, x) else None
  | _, _ => None
  end.

Section Resolve.
Variable form_vars : list (str * str).
Variable post_rules : list prule.
Variable get_rules : list urule.
Variable handover : list (str * str).             (* callee parameter <- argument (a handler variable) *)
Variable prog : list ginstr.                      (* the output handler's program *)

(* global g is set from callee parameter cp (GSet g (SParam cp)) *)
Definition global_param (g : str) : option str :=
  (fix go (p : list ginstr) := match p with
     | GSet g' (SParam cp) :: t => if beq_str g g' then Some cp else go t
     | _ :: t => go t
     | [] => None end) prog.
Definition arg_of (cp : str) : option str := assoc_get cp handover.

(* POST: which request parameter drives handler variable v, and with which value when "on" (the LAST rule that assigns v
   counts: later assignments shadow earlier ones) *)
Fixpoint post_source_in (rs : list prule) (v : str) : option (str * bool) :=
  match rs with
  | [] => None
  | PRule fv a b :: t =>
    match post_source_in t v with
    | Some r => Some r
    | None => match rule_target a b with
              | Some (v', x) => if beq_str v v' then Some (form_param form_vars fv, x) else None
              | None => None end
    end
  end.
Definition post_source := post_source_in post_rules.
(* GET: request parameter, value when true, value of the CHECK when the parameter is absent *)
Fixpoint get_source_in (rs : list urule) (v : str) : option (str * bool * bool) :=
  match rs with
  | [] => None
  | URule p d a b _ :: t =>
    match get_source_in t v with
    | Some r => Some r
    | None => match rule_target a b with
              | Some (v', x) => if beq_str v v' then Some (p, x, match d with Some c => c | None => false end) else None
              | None => None end
    end
  end.
Definition get_source := get_source_in get_rules.

Definition wire_ok (w : str * str * bool * bool) : bool :=
  let '(p, g, pol, absent) := w in
  match global_param g with
  | None => true                                   (* this page does not set the switch *)
  | Some cp =>
    match arg_of cp with
    | None => false
    | Some v =>
      match post_source v, get_source v with
      | Some (pp, x), Some (gp, y, chk) =>
        beq_str pp p && Bool.eqb x pol && beq_str gp p && Bool.eqb y pol && Bool.eqb chk absent
      | _, _ => false
      end
    end
  end.
Definition wiring_ok : bool := forallb wire_ok spec_wiring.
(* every rule is well-formed: one variable, opposite values in the two branches *)
Definition rules_wellformed : bool :=
  forallb (fun r => match r with PRule _ a b => match rule_target a b with Some _ => true | None => false end end) post_rules
  && forallb (fun r => match r with URule _ _ a b _ => match rule_target a b with Some _ => true | None => false end end) get_rules.
End Resolve.
