(* Model/Tree.v - pure-value model of tree.Node / tree.Statement (core/tree/IGTree.go, IGStatement.go).
   Parent pointers become an explicit ancestor context; node identity becomes the path from the
   component root.  See DESIGN.md section 1.1. *)
From Coq Require Import List Arith Bool Lia ZArith Strings.Byte.
From IGP Require Import Base.Str.
Import ListNotations.
Open Scope list_scope.

Inductive op := AND | OR | XOR | BAND | WAND.
Definition op_eqb (a b : op) : bool :=
  match a, b with AND,AND | OR,OR | XOR,XOR | WAND,WAND | BAND,BAND => true | _,_ => false end.
Lemma op_eqb_eq a b : op_eqb a b = true <-> a = b.
Proof. destruct a, b; simpl; split; intro H; try reflexivity; discriminate. Qed.
Definition op_name (o : op) : str :=
  match o with AND => $"AND" | OR => $"OR" | XOR => $"XOR" | BAND => $"bAND" | WAND => $"wAND" end.

(* the 27 fields of tree.Statement, in declaration order *)
Inductive field :=
| FA | FAp | FApC | FD | FI | FBdir | FBdirC | FBdirp | FBdirpC | FBind | FBindC | FBindp | FBindpC
| FE | FEp | FEpC | FM | FF | FP | FPC | FPp | FPpC | FCac | FCacC | FCex | FCexC | FO.

Definition all_fields : list field :=
  [FA; FAp; FApC; FD; FI; FBdir; FBdirC; FBdirp; FBdirpC; FBind; FBindC; FBindp; FBindpC;
   FE; FEp; FEpC; FM; FF; FP; FPC; FPp; FPpC; FCac; FCacC; FCex; FCexC; FO].

Definition field_idx (f : field) : nat :=
  match f with
  | FA => 0 | FAp => 1 | FApC => 2 | FD => 3 | FI => 4 | FBdir => 5 | FBdirC => 6 | FBdirp => 7 | FBdirpC => 8
  | FBind => 9 | FBindC => 10 | FBindp => 11 | FBindpC => 12 | FE => 13 | FEp => 14 | FEpC => 15 | FM => 16
  | FF => 17 | FP => 18 | FPC => 19 | FPp => 20 | FPpC => 21 | FCac => 22 | FCacC => 23 | FCex => 24
  | FCexC => 25 | FO => 26
  end.
Definition field_eqb (a b : field) : bool := Nat.eqb (field_idx a) (field_idx b).
Lemma field_eqb_eq a b : field_eqb a b = true <-> a = b.
Proof. unfold field_eqb; split; [|intros ->; apply Nat.eqb_refl].
  intro H; apply Nat.eqb_eq in H; destruct a, b; simpl in H; try reflexivity; discriminate. Qed.
Lemma all_fields_complete f : In f all_fields.
Proof. destruct f; simpl; tauto. Qed.
Lemma all_fields_nodup : NoDup all_fields.
Proof. repeat constructor; simpl; intuition discriminate. Qed.

(* Go field names of tree.Statement - used by the translator's tables *)
Definition field_goname (f : field) : str :=
  match f with
  | FA => $"Attributes" | FAp => $"AttributesPropertySimple" | FApC => $"AttributesPropertyComplex"
  | FD => $"Deontic" | FI => $"Aim"
  | FBdir => $"DirectObject" | FBdirC => $"DirectObjectComplex"
  | FBdirp => $"DirectObjectPropertySimple" | FBdirpC => $"DirectObjectPropertyComplex"
  | FBind => $"IndirectObject" | FBindC => $"IndirectObjectComplex"
  | FBindp => $"IndirectObjectPropertySimple" | FBindpC => $"IndirectObjectPropertyComplex"
  | FE => $"ConstitutedEntity" | FEp => $"ConstitutedEntityPropertySimple" | FEpC => $"ConstitutedEntityPropertyComplex"
  | FM => $"Modal" | FF => $"ConstitutiveFunction"
  | FP => $"ConstitutingProperties" | FPC => $"ConstitutingPropertiesComplex"
  | FPp => $"ConstitutingPropertiesPropertySimple" | FPpC => $"ConstitutingPropertiesPropertyComplex"
  | FCac => $"ActivationConditionSimple" | FCacC => $"ActivationConditionComplex"
  | FCex => $"ExecutionConstraintSimple" | FCexC => $"ExecutionConstraintComplex"
  | FO => $"OrElse"
  end.

Record meta := mkMeta { ctype : str; suffix : option str; annot : option str; shl : list str; shr : list str }.
Definition meta0 : meta := mkMeta [] None None [] [].

Inductive node :=
| Leaf (m : meta) (e : entry) (priv : list node)     (* priv = PrivateNodeLinks (detached values) *)
| Comb (m : meta) (o : op) (l r : node)
with entry := ENil | EStr (s : str) | EStmt (st : stmt) | ENodes (ns : list node)
with stmt := Stmt (fs : list (field * node)).          (* absent field = nil pointer *)

Definition node_meta (n : node) : meta := match n with Leaf m _ _ => m | Comb m _ _ _ => m end.
Definition stmt_fields (s : stmt) := match s with Stmt fs => fs end.

Fixpoint get_field (f : field) (fs : list (field * node)) : option node :=
  match fs with
  | [] => None
  | (g, n) :: t => if field_eqb f g then Some n else get_field f t
  end.
Definition sget (s : stmt) (f : field) : option node := get_field f (stmt_fields s).

(* a size that decreases through every kind of nesting; used as fuel and as induction measure *)
Fixpoint node_size (n : node) : nat :=
  match n with
  | Leaf _ e priv => 1 + entry_size e + (fix go (l : list node) := match l with [] => 0 | x :: t => node_size x + go t end) priv
  | Comb _ _ l r => 1 + node_size l + node_size r
  end
with entry_size (e : entry) : nat :=
  match e with
  | ENil => 0 | EStr _ => 0
  | EStmt st => 1 + stmt_size st
  | ENodes ns => 1 + (fix go (l : list node) := match l with [] => 0 | x :: t => node_size x + go t end) ns
  end
with stmt_size (s : stmt) : nat :=
  match s with
  | Stmt fs => 1 + (fix go (l : list (field * node)) := match l with [] => 0 | (_, x) :: t => node_size x + go t end) fs
  end.

(* ancestors of a node inside one component tree, nearest first: meta and operator of each enclosing Comb *)
Definition anc := list (meta * op).

(* GetComponentName: own ComponentType if set, else the nearest ancestor's *)
Fixpoint comp_name_anc (a : anc) : str :=
  match a with
  | [] => []
  | (m, _) :: t => if is_empty (ctype m) then comp_name_anc t else ctype m
  end.
Definition comp_name (m : meta) (a : anc) : str :=
  if is_empty (ctype m) then comp_name_anc a else ctype m.

(* "truly non-empty" shared list in the Go sense: != nil && len != 0 && [0] != "" *)
Definition shared_set (l : list str) : bool :=
  match l with [] => false | x :: _ => negb (is_empty x) end.

(* getParentsLeftSharedElements: top first *)
Fixpoint parents_shared (sel : meta -> list str) (a : anc) : list str :=
  match a with
  | [] => []
  | (m, _) :: t => if shared_set (sel m) then parents_shared sel t ++ sel m else parents_shared sel t
  end.

(* GetSharedLeft / GetSharedRight under SHARED_ELEMENT_INHERIT_APPEND (the only mode non-test code uses) *)
Definition nil_b {A} (l : list A) : bool := match l with [] => true | _ => false end.
Definition get_shared (sel : meta -> list str) (m : meta) (a : anc) : list str :=
  let ps := parents_shared sel a in
  if shared_set (sel m) && negb (nil_b ps) then ps ++ sel m
  else if shared_set (sel m) then sel m
  else match a with [] => [] | _ => ps end.

(* GetAnnotations: own if non-empty; without a parent the own field whatever it holds; else the
   parent's unless the parent is a bAND node *)
Definition annot_set (o : option str) : bool := match o with Some (_ :: _) => true | _ => false end.
Fixpoint get_annotations (m : meta) (a : anc) : option str :=
  match a with
  | [] => annot m
  | (pm, po) :: t =>
    if annot_set (annot m) then annot m
    else if op_eqb po BAND then None else get_annotations pm t
  end.

(* GetSuffix: own if set, else the parent's (every Comb has an operator) *)
Fixpoint get_suffix (m : meta) (a : anc) : str :=
  match suffix m with
  | Some s => s
  | None => match a with [] => [] | (pm, _) :: t => get_suffix pm t end
  end.

(* shared.StringifySlices *)
Definition stringify_slices (l : list str) : str := join [sp] l.

(* leaves in order, with their ancestor context *)
Fixpoint leaves_ctx (n : node) (a : anc) : list (node * anc) :=
  match n with
  | Leaf _ _ _ => [(n, a)]
  | Comb m o l r => leaves_ctx l ((m, o) :: a) ++ leaves_ctx r ((m, o) :: a)
  end.
Fixpoint leaves (n : node) : list node :=
  match n with
  | Leaf _ _ _ => [n]
  | Comb _ _ l r => leaves l ++ leaves r
  end.

Definition dir := bool.   (* false = left, true = right *)
Definition path := list dir.
Fixpoint leaf_paths (n : node) : list path :=
  match n with
  | Leaf _ _ _ => [[]]
  | Comb _ _ l r => map (cons false) (leaf_paths l) ++ map (cons true) (leaf_paths r)
  end.
Fixpoint subtree (n : node) (p : path) : option node :=
  match p, n with
  | [], _ => Some n
  | false :: p', Comb _ _ l _ => subtree l p'
  | true :: p', Comb _ _ _ r => subtree r p'
  | _, _ => None
  end.
