(* Model/Visual.v - port of Statement.PrintTree / Node.PrintNodeTree / appendPropertyNodes /
   appendAnnotations / appendDegreeOfVariability (core/tree/IGTreePrinter.go), string concatenation
   with the hand-placed separators kept, Combine (core/tree/IGTree.go:921), and GetPropertyComponent
   (core/tree/IGStatement.go:509).  The order tables are parameters regenerated from the source. *)
From Coq Require Import List Arith Bool Lia ZArith Strings.Byte.
From IGP Require Import Base.Str Base.Outcome Model.Tree Model.DoV Model.Leaves Model.Flat.
Import ListNotations.

Record vopts := mkVopts { o_flat : bool; o_bin : bool; o_anno : bool; o_dov : bool; o_actop : bool }.

Inductive guard := GAlways | GIfFront | GIfNotFront.
Record vis_tables := mkVisT {
  vt_order : list (guard * list field);     (* PrintTree: the appends to [components], with their guards *)
  vt_props : list (str * field * field);    (* GetPropertyComponent: component name -> (simple, complex) property fields *)
  vt_flat : flat_table;                     (* Statement.StringFlat *)
  vt_flat_val : flat_table;                 (* Statement.StringFlatStatement *)
  vt_dov : dov_wiring
}.

(* ---------------------------------------------------------------- constants of the printer *)
Definition q : str := [x22].
Definition K_NAME : str := $"""name""".
Definition K_COMP : str := $"""comp""".
Definition K_LEVEL : str := $"""level""".
Definition K_POS : str := $"""pos""".
Definition K_CHILDREN : str := $"""children""".
Definition K_PROP : str := $"""prop""".
Definition K_ANNO : str := $"""anno""".
Definition K_DOV : str := $"""dov""".
Definition EQ : str := $": ".
Definition SEP : str := [x2c; x0a].          (* ",\n" TREE_PRINTER_SEPARATOR *)
Definition CS : str := $", ".
Definition LB : str := [x0a].
Definition PROPERTY_SUFFIX : str := $",p".
Definition ERR_COMPONENT_COMBINATION : str := $"TREE_INVALID_COMPONENT_COMBINATIONS".

(* escaping of text written between quotes: quote substitution of shared.EscapeSymbolsForExport, then
   backslash and control characters (escapeForJSON) *)
Definition hexdigit (n : N) : byte :=
  match Byte.of_N (if (n <? 10)%N then 48 + n else 87 + n)%N with Some b => b | None => x30 end.
Definition esc1 (c : byte) : str :=
  if Byte.eqb c x22 then [x27]
  else if Byte.eqb c x5c then [x5c; x5c]
  else if (Byte.to_N c <? 32)%N then [x5c; x75; x30; x30] ++ [hexdigit (Byte.to_N c / 16); hexdigit (Byte.to_N c mod 16)]
  else [c].
Definition esc (s : str) : str := flat_map esc1 s.

(* IsEmptyOrNilNode for a non-nil node: every field zero, no parent *)
Definition is_empty_node (n : node) (a : anc) : bool :=
  match n, a with
  | Leaf (mkMeta [] None None [] []) ENil [], [] => true
  | _, _ => false
  end.

(* tree.Combine *)
Definition combine (l r : node) (o : op) : res node :=
  if is_empty_node l [] then Ok r
  else if is_empty_node r [] then Ok l
  else
    let ln := comp_name (node_meta l) [] in
    let rn := comp_name (node_meta r) [] in
    if negb (is_empty ln) && negb (is_empty rn) && negb (beq_str ln rn) then Err ERR_COMPONENT_COMBINATION
    else Ok (Comb (mkMeta (if is_empty ln then rn else ln) None None [] []) o l r).

Fixpoint merge_private (acc : node) (l : list node) : res node :=
  match l with
  | [] => Ok acc
  | v :: t => let* m := combine acc v BAND in merge_private m t
  end.

Section Printer.
Variable T : vis_tables.
Variable o : vopts.

(* GetPropertyComponent(n, true) *)
Definition get_props (s : option stmt) (name : str) : list node :=
  match s with
  | None => []
  | Some st =>
    (fix look (t : list (str * field * field)) :=
       match t with
       | [] => []
       | (nm, fs, fc) :: rest =>
         if beq_str name nm then
           (match sget st fs with Some x => [x] | None => [] end) ++ (match sget st fc with Some x => [x] | None => [] end)
         else look rest
       end) (vt_props T)
  end.

Definition append_annotations (prepend append : bool) (m : meta) (a : anc) : str :=
  match get_annotations m a with
  | None => []
  | Some s => (if prepend then CS else []) ++ K_ANNO ++ EQ ++ q ++ esc s ++ q ++ (if append then CS else [])
  end.

Definition append_dov (prepend append : bool) (n : node) : res str :=
  match node_cx (vt_dov T) n with
  | Ok v => Ok ((if prepend then CS else []) ++ K_DOV ++ EQ ++ q ++ esc (itoa_Z v) ++ q ++ (if append then CS else []))
  | Err _ => Ok []
  | Panic k => Panic k
  | Fatal k => Fatal k
  | OutOfFuel => OutOfFuel
  end.

Definition pn_t := option stmt -> node -> anc -> nat -> res str.                   (* PrintNodeTree *)
Definition pt_t := stmt -> option (node * anc) -> nat -> res str.                  (* PrintTree *)

(* text of one flat-printed property value *)
Definition flat_value_text (v : node) : res str :=
  match v with
  | Leaf _ (EStr s) _ => Ok s
  | Leaf _ (EStmt st) _ => stmt_flat (vt_flat T) false st              (* wrapped into a node array, then [0].StringFlat() *)
  | Leaf _ (ENodes (x :: _)) _ => node_flat (vt_flat T) x
  | Leaf _ (ENodes []) _ => Panic 41
  | Leaf _ ENil _ => Panic 42                                          (* nil.(string) *)
  | Comb _ _ _ _ => Panic 43                                           (* not reachable: values are leaves *)
  end.

Fixpoint subnodes_at (n : node) (ps : list path) : list node :=
  match ps with
  | [] => []
  | p :: t => match subtree n p with Some x => x :: subnodes_at n t | None => subnodes_at n t end
  end.

Fixpoint join_flat_values (vs : list node) (added : bool) : res str :=
  match vs with
  | [] => Ok []
  | v :: t =>
    let* s := flat_value_text v in
    let* rest := join_flat_values t true in
    Ok ((if added then CS else []) ++ esc s ++ rest)
  end.

(* one property node in flat mode *)
Definition flat_prop (p : node) : res str :=
  match p with
  | Comb _ _ _ _ => join_flat_values (subnodes_at p (concat (leaf_arrays false p))) false
  | Leaf _ (EStr s) _ => Ok (esc s)
  | Leaf _ (EStmt st) _ =>
    let* t := finish_flat (assemble_flat (vt_flat_val T) true (flat_vals (vt_flat T) (stmt_fields st)) []) in
    Ok (esc t)                                                          (* StringFlatStatement(true) *)
  | Leaf _ _ _ => Panic 44                                             (* .( *Statement) on a node array / nil *)
  end.

Fixpoint props_loop (pn : pn_t) (s : option stmt) (lvl : nat) (ps : list node) (printed : bool) : res str :=
  match ps with
  | [] => Ok []
  | p :: t =>
    let open :=
      if printed then CS
      else if o_flat o then CS ++ K_PROP ++ EQ ++ q
      else CS ++ K_POS ++ EQ ++ $"""b""" ++ CS ++ K_CHILDREN ++ EQ ++ $"[" in
    let* body := (if o_flat o then flat_prop p else pn s p [] lvl) in
    let* rest := props_loop pn s lvl t true in
    Ok (open ++ body ++ rest)
  end.

Definition append_props (pn : pn_t) (s : option stmt) (n : node) (a : anc) (lvl : nat) : res str :=
  let props := get_props s (comp_name (node_meta n) a) in
  let priv := match n with Leaf _ _ pr => pr | Comb _ _ _ _ => [] end in
  let is_leaf := match n with Leaf _ _ _ => true | _ => false end in
  if ((is_leaf || o_flat o) && negb (nil_b props)) || negb (nil_b priv) then
    let* all :=
      match priv with
      | [] => Ok props
      | p0 :: rest => let* merged := merge_private p0 rest in Ok (props ++ [merged])
      end in
    match all with
    | [] => Ok []
    | _ => let* body := props_loop pn s lvl all false in Ok (body ++ (if o_flat o then q else $"]"))
    end
  else Ok [].

(* the closing part of a full entry *)
Definition entry_tail (pn : pn_t) (s : option stmt) (n : node) (a : anc) (lvl : nat) : res str :=
  let m := node_meta n in
  let* props := append_props pn s n a lvl in
  let anno := if o_anno o then append_annotations true false m a else [] in
  let* dov := (if o_dov o then append_dov true false n else Ok []) in
  Ok (CS ++ K_COMP ++ EQ ++ q ++ comp_name m a ++ q ++ CS ++ K_LEVEL ++ EQ ++ itoa_nat lvl ++ props ++ anno ++ dov ++ $"}").

Definition leaf_text (m : meta) (a : anc) (s : str) : str :=
  let l := stringify_slices (get_shared shl m a) in
  let r := stringify_slices (get_shared shr m a) in
  (if is_empty l then [] else l ++ [sp]) ++ s ++ (if is_empty r then [] else sp :: r).

Definition print_node_step (pn : pn_t) (pt : pt_t) : pn_t := fun s n a lvl =>
  if is_empty_node n a then Ok [] else
  match n with
  | Leaf m (EStr txt) _ =>
    let* tail := entry_tail pn s n a lvl in
    Ok ($"{" ++ K_NAME ++ EQ ++ q ++ esc (leaf_text m a txt) ++ q ++ tail)
  | Comb m op l r =>
    let collapse :=
      if o_bin o then false
      else match a with
           | (pm, pop) :: a' => op_eqb op pop && beq_str (comp_name m a) (comp_name pm a')
           | [] => false
           end in
    let* ls := pn s l ((m, op) :: a) lvl in
    let* rs := pn s r ((m, op) :: a) lvl in
    if collapse then Ok (ls ++ CS ++ rs)
    else
      let* tail := entry_tail pn s n a lvl in
      Ok ($"{" ++ K_NAME ++ EQ ++ q ++ op_name op ++ q ++ SEP ++ K_CHILDREN ++ EQ ++ $"[" ++ ls ++ SEP ++ rs ++ $"]" ++ tail)
  | Leaf _ (EStmt st) _ => pt st (Some (n, a)) (S lvl)
  | Leaf _ (ENodes (Leaf _ (EStmt st) _ :: _)) _ => pt st (Some (n, a)) (S lvl)
  | Leaf _ (ENodes _) _ => Panic 45
  | Leaf _ ENil _ => Panic 46                   (* reflect.TypeOf(nil).String() *)
  end.

Definition components_of (st : stmt) : list node :=
  flat_map (fun gf =>
    let use := match fst gf with GAlways => true | GIfFront => o_actop o | GIfNotFront => negb (o_actop o) end in
    if use then flat_map (fun f => match sget st f with Some x => [x] | None => [] end) (snd gf) else []) (vt_order T).

(* only print components that are not primitive properties *)
Definition printable (v : node) : bool :=
  let name := comp_name (node_meta v) [] in
  negb (has_suffix name PROPERTY_SUFFIX) || negb (match v with Leaf _ (EStr _) _ => true | _ => false end).

Fixpoint children_loop (pn : pn_t) (st : stmt) (lvl : nat) (cs : list node) (present : bool) (out : str) : res (str * bool) :=
  match cs with
  | [] => Ok (out, present)
  | v :: t =>
    if printable v then
      let prepend := if present then SEP else [] in
      let* c := pn (Some st) v [] lvl in
      let opened := negb present && negb (is_empty c) in
      children_loop pn st lvl t (present || opened)
        (out ++ (if opened then K_CHILDREN ++ EQ ++ $"[" ++ LB else []) ++ prepend ++ c)
    else children_loop pn st lvl t present out
  end.

Definition print_tree_step (pn : pn_t) : pt_t := fun st parent lvl =>
  let* root0 :=
    (if o_dov o then let* t := stmt_cx (vt_dov T) st in Ok ($"DoV: " ++ itoa_Z t) else Ok []) in
  let pname := match parent with Some (p, a) => comp_name (node_meta p) a | None => [] end in
  let root := if is_empty pname then root0 else pname in
  let anno := if o_anno o then match parent with Some (p, a) => append_annotations false true (node_meta p) a | None => [] end else [] in
  let* dov := (if o_dov o then match parent with Some (p, _) => append_dov false true p | None => Ok [] end else Ok []) in
  let head := $"{" ++ LB ++ K_NAME ++ EQ ++ q ++ root ++ q ++ SEP ++ K_LEVEL ++ EQ ++ itoa_nat lvl ++ CS ++ anno ++ dov ++ LB in
  let* r := children_loop pn st lvl (components_of st) false head in
  let '(out, present) := r in
  Ok (out ++ (if present then LB ++ $"]" else K_CHILDREN ++ EQ ++ $"[" ++ $"]") ++ LB ++ $"}").

Fixpoint pn (fuel : nat) : pn_t :=
  match fuel with
  | 0 => fun _ _ _ _ => OutOfFuel
  | S f => let p := pn f in print_node_step p (print_tree_step p)
  end.

(* the visual endpoint after parsing: stmts[0].PrintNodeTree(nil, flags..., 0) *)
Definition vis_print_node (fuel : nat) (root : node) : res str := pn fuel None root [] 0.
Definition vis_print (fuel : nat) (st : stmt) : res str := vis_print_node fuel (Leaf meta0 (EStmt st) []).
End Printer.

Definition vis_fuel (st : stmt) : nat := 2 * stmt_size st + 4.
