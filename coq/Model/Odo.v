(* Model/Odo.v - port of tree.GenerateNodeArrayPermutations (core/tree/ArrayCombinationGenerator.go:14):
   the odometer over leaf arrays with its position vector and its special-cased termination test. *)
From Coq Require Import List Arith Bool Lia Strings.Byte.
From IGP Require Import Base.Str Base.Outcome.
Import ListNotations.

(* ---- spec ---- *)
Fixpoint cart {A} (ls : list (list A)) : list (list A) :=
  match ls with
  | [] => [[]]
  | l :: rest => flat_map (fun x => map (cons x) (cart rest)) l
  end.
Definition nonempty {A} (l : list A) : bool := match l with [] => false | _ => true end.

(* ---- model of GenerateNodeArrayPermutations ---- *)
Definition ERR_EMPTY_LEAF : str := $"EMPTY_LEAF_VALUE".

(* state: (pos_i, array_i) from the LAST array to the first *)
Section Odo.
Context {A : Type}.
Definition dig := (nat * list A)%type.

Fixpoint shift (carry : bool) (l : list dig) : option (list dig) :=
  match l with
  | [] => Some []
  | (p, a) :: rest =>
    let p := if carry then S p else p in
    if (0 <? p) && (length a <=? p) then
      match rest with
      | [] => None
      | [(p0, a0)] => if S p0 =? length a0 then None else option_map (cons (0, a)) (shift true rest)
      | _ => option_map (cons (0, a)) (shift true rest)
      end
    else option_map (cons (p, a)) (shift false rest)
  end.

Definition row (st : list dig) : list A :=
  flat_map (fun d => match nth_error (snd d) (fst d) with Some x => [x] | None => [] end) (rev st).

Definition bump (st : list dig) : list dig :=
  match st with [] => [] | (p, a) :: r => (S p, a) :: r end.

Fixpoint run (fuel : nat) (st : list dig) (ct n : nat) (acc : list (list A)) : res (list (list A)) :=
  match fuel with
  | 0 => OutOfFuel
  | S f =>
    match shift false st with
    | None => Ok (rev acc)
    | Some st' =>
      if n <=? ct then Panic 30 else   (* stmts[ct] out of range *)
      run f (bump st') (S ct) n (row st' :: acc)
    end
  end.

Definition count (ls : list (list A)) : nat :=
  fold_left (fun n a => if length a =? 0 then n else n * length a) ls 1.

Definition odometer (ls : list (list A)) : res (list (list A)) :=
  match ls with
  | [] => Err ERR_EMPTY_LEAF
  | _ => let n := count ls in
         run (S (S n)) (map (fun a => (0, a)) (rev ls)) 0 n []
  end.
End Odo.

