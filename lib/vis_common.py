"""Shared by the visual-tree properties (C09, C17, C20 labels): running implementation and structured
model on built trees / parsed statements, reading values back from the implementation's JSON."""
import json, random
from common import *
from pool import run_pool, run_lines, out_bytes
from sxp import *
import gen_trees as GT
from hostile import hostile_text

FLAGS = ["%d%d%d%d%d" % (a, b, c, d, e) for a in (0, 1) for b in (0, 1) for c in (0, 1) for d in (0, 1) for e in (0, 1)]
OPNAMES = {"AND", "OR", "XOR", "bAND", "wAND"}


def vis_opts(f):
    return {"flat": f[0] == '1', "bin": f[1] == '1', "anno": f[2] == '1', "dov": f[3] == '1', "actop": f[4] == '1'}


def unhex(x):
    if isinstance(x, dict):
        return {k: unhex(v) for k, v in x.items()}
    if isinstance(x, list):
        return [unhex(v) for v in x]
    if isinstance(x, str) and x.startswith('x'):
        return bytes.fromhex(x[1:]).decode('utf-8', 'replace')
    return x


def parse_out(r):
    try:
        return json.loads(out_bytes(r).decode('utf-8', 'replace'))
    except Exception:
        return None


def is_op(j):
    return j.get("name") in OPNAMES and "comp" in j and "children" in j and "pos" not in j


def is_stmt(j):
    return "comp" not in j


def leafseq(j, out=None):
    """(comp, name, level, prop) of every value object, in document order (read-back used by C09/C17)."""
    out = out if out is not None else []
    if "comp" in j and not is_op(j):
        out.append([j.get("comp"), j.get("name"), j.get("level"), j.get("prop")])
    for c in j.get("children", []):
        leafseq(c, out)
    return out


def walk(j):
    yield j
    for c in j.get("children", []):
        yield from walk(c)


def pair_root(rng, g, k=None, ct=b""):
    """A root as the parser delivers it for component pairs: a combination whose leaves hold a node array
    with one node holding the expanded statement (top level: no component name; nested: the component's)."""
    k = k or rng.randint(2, 3)

    def stn():
        st = g.statement(max_depth=1, nfields=rng.randint(2, 5), max_leaves=4, annot=0.3, shared=0.2, budget=[16],
                         fields=rng.choice([None, ["A", "Ap", "I", "Bdir", "Bdirp", "Cac", "Cex", "E", "Ep", "P", "Pp", "CacC"]])) or [("A", leaf(b"z", ct="A"))]
        return leaf(('NS', [leaf(('T', st))]))
    n = stn()
    for _ in range(k - 1):
        n = comb(rng.choice(["AND", "OR", "XOR"]), n, stn())
    return with_ct(n, ct)


def gen_roots(tier, seed, salt, n_quick=900, n_thorough=12000, hostile_every=3):
    """Root nodes: statements (as Leaf holding a statement), pair combinations, statements with node-array entries."""
    rng = random.Random(seed * 7919 + salt)
    roots = []
    n = n_quick if tier == "quick" else n_thorough
    for i in range(n):
        g = GT.G(rng, hostile=(lambda r: hostile_text(r)) if i % hostile_every == 0 else None)
        kind = i % 6
        if kind == 0:
            roots.append(pair_root(rng, g))
            continue
        st = g.statement(max_depth=rng.choice([0, 1, 2, 3, 5]), nfields=rng.randint(1, 9), max_leaves=rng.choice([3, 5]), annot=0.4, shared=0.25)
        if not st:
            continue
        if kind == 1:
            # a component holding a node array (expanded pair statements nested in a component)
            f = rng.choice(["CacC", "BdirC", "CexC", "O", "PC"])
            st = [(ff, nn) for ff, nn in st if ff != f] + [(f, pair_root(rng, g, 2, ct=FIELD_SYMBOL[f]))]
            st.sort(key=lambda x: FIELDS.index(x[0]))
        if kind == 2:
            import props.c08 as c08
            st = c08.add_private(rng, g, st)
        roots.append(leaf(('T', st)))
    return roots
