"""Worker pool for line-oriented JSON workers (go/cmd/obs and friends).
Each worker is a separate OS process; a request that kills its worker (panic outside recover,
log.Fatal/os.Exit) or exceeds the timeout is reported as such and the worker is restarted."""
import json, os, select, subprocess, threading, time


class Worker:
    def __init__(self, argv, env=None):
        self.argv, self.env = argv, env
        self.p = None
        self.start()

    def start(self):
        self.p = subprocess.Popen(self.argv, stdin=subprocess.PIPE, stdout=subprocess.PIPE, stderr=subprocess.DEVNULL,
                                  env=self.env, bufsize=0)
        self.buf = b""

    def _readline(self, timeout):
        end = time.time() + timeout
        fd = self.p.stdout.fileno()
        while b"\n" not in self.buf:
            left = end - time.time()
            if left <= 0:
                return None
            r, _, _ = select.select([fd], [], [], left)
            if not r:
                return None
            chunk = os.read(fd, 1 << 16)
            if not chunk:
                return b""  # EOF
            self.buf += chunk
        line, self.buf = self.buf.split(b"\n", 1)
        return line

    def ask(self, req, timeout):
        t0 = time.time()
        try:
            self.p.stdin.write((json.dumps(req) + "\n").encode())
            self.p.stdin.flush()
        except (BrokenPipeError, OSError):
            self.restart()
            return {"exit": "broken-pipe-before-request"}
        line = self._readline(timeout)
        if line is None:
            self.restart()
            return {"timeout": True, "wall_s": time.time() - t0}
        if line == b"":
            rc = self.p.wait()
            self.restart()
            return {"exit": rc, "wall_s": time.time() - t0}
        try:
            r = json.loads(line)
        except Exception as e:
            return {"bad": "unparsable answer: %r" % line[:200]}
        r["wall_s"] = time.time() - t0
        return r

    def restart(self):
        try:
            self.p.kill()
            self.p.wait()
        except Exception:
            pass
        self.start()

    def close(self):
        try:
            self.p.stdin.close()
            self.p.wait(timeout=5)
        except Exception:
            try:
                self.p.kill()
            except Exception:
                pass


def run_pool(argv, reqs, nworkers=16, timeout=30.0, env=None):
    """Runs all requests; returns the list of answers in request order.
    Batch implementation: each shard is fed from a file and answers are collected from a file; a
    worker that dies or stalls identifies the request that did it by the number of answers written."""
    import tempfile
    if not reqs:
        return []
    n = max(1, min(nworkers, (len(reqs) + 7) // 8))
    out = [None] * len(reqs)
    tmp = tempfile.mkdtemp(prefix="igpv-pool-")

    def shard(k):
        idxs = list(range(k, len(reqs), n))
        pos = 0
        attempt = 0
        while pos < len(idxs):
            attempt += 1
            fin = os.path.join(tmp, "in-%d-%d" % (k, attempt))
            fout = os.path.join(tmp, "out-%d-%d" % (k, attempt))
            with open(fin, "w") as f:
                for i in idxs[pos:]:
                    f.write(json.dumps(reqs[i]) + "\n")
            with open(fin, "rb") as fi, open(fout, "wb") as fo:
                p = subprocess.Popen(argv, stdin=fi, stdout=fo, stderr=subprocess.DEVNULL, env=env)
                last_size, last_change = -1, time.time()
                status = None
                while True:
                    try:
                        rc = p.wait(timeout=0.05 if time.time() - last_change < 1 else 0.5)
                        status = ("exit", rc)
                        break
                    except subprocess.TimeoutExpired:
                        pass
                    sz = os.path.getsize(fout)
                    if sz != last_size:
                        last_size, last_change = sz, time.time()
                    elif time.time() - last_change > timeout:
                        p.kill()
                        p.wait()
                        status = ("timeout", None)
                        break
            with open(fout, "rb") as f:
                data = f.read()
            lines = data.split(b"\n")
            complete = lines[:-1]
            for line in complete:
                if pos >= len(idxs):
                    break
                try:
                    out[idxs[pos]] = json.loads(line)
                except Exception:
                    out[idxs[pos]] = {"bad": "unparsable answer: %r" % line[:200]}
                pos += 1
            if pos < len(idxs):
                # the request at pos killed or stalled the worker
                if status[0] == "timeout":
                    out[idxs[pos]] = {"timeout": True, "wall_s": timeout}
                else:
                    out[idxs[pos]] = {"exit": status[1]}
                pos += 1
            for fn in (fin, fout):
                try:
                    os.remove(fn)
                except OSError:
                    pass

    ts = [threading.Thread(target=shard, args=(k,)) for k in range(n)]
    for t in ts:
        t.start()
    for t in ts:
        t.join()
    try:
        os.rmdir(tmp)
    except OSError:
        pass
    return out


def run_lines(argv, lines, nshards=16):
    """Runs a pure line-in/line-out filter (the extracted model) over lines, sharded; keeps order."""
    if not lines:
        return []
    n = max(1, min(nshards, (len(lines) + 199) // 200))
    shards = [lines[i::n] for i in range(n)]
    outs = [None] * n

    def go(k):
        p = subprocess.run(argv, input=("\n".join(shards[k]) + "\n").encode(), stdout=subprocess.PIPE, stderr=subprocess.PIPE)
        res = p.stdout.decode("utf-8", "replace").split("\n")
        if res and res[-1] == "":
            res.pop()
        if len(res) != len(shards[k]):
            res = res + ["bad:model driver died rc=%s stderr=%s" % (p.returncode, p.stderr.decode("utf-8", "replace")[-300:])] * (len(shards[k]) - len(res))
        outs[k] = res

    ts = [threading.Thread(target=go, args=(k,)) for k in range(n)]
    for t in ts:
        t.start()
    for t in ts:
        t.join()
    out = [None] * len(lines)
    for k in range(n):
        for j, r in enumerate(outs[k]):
            out[k + j * n] = r
    return out


def out_bytes(r):
    """Exact output bytes of an obs answer."""
    if "outx" in r:
        return bytes.fromhex(r["outx"])
    return r.get("out", "").encode("utf-8", "surrogatepass")
