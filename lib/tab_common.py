"""Shared machinery of the tabular properties (C04 C05 C06 C07 C19 C16): corpora, the model/implementation
runs of the static tabular export, parsing of the cells."""
import json, random, re
from common import *
from pool import run_pool, run_lines, out_bytes
from sxp import *
import gen_trees as GT
import gen_text as TX
import hostile as HX
import vis_common as VC

PO = {"none": "No inclusion of Original Statement in output (i.e., no additional column)",
      "first": "Include Original Statement for first atomic statement only (i.e., in first row following optional header row)",
      "all": "Include Original Statement for each atomic statement (i.e., in each row)"}
PI = {"none": "No inclusion of IG Script coding in output (i.e., no additional column)",
      "first": "Include IG Script-encoded statement for first atomic statement only (i.e., in first row following optional header row)",
      "all": "Include IG Script-encoded statement for each atomic statement (i.e., in each row)"}
GS, CSV = "Google Sheets", "CSV format"


def hexs(bs):
    return "x" + bytes(bs).hex()


def unhex(x):
    return bytes.fromhex(x[1:])


class Opt:
    """One option vector of the tabular export."""
    def __init__(self, ext=True, anno=False, gs=False, hdr=True, po="none", pi="none"):
        self.ext, self.anno, self.gs, self.hdr, self.po, self.pi = ext, anno, gs, hdr, po, pi

    def flags(self):
        return "".join("1" if x else "0" for x in (self.ext, self.anno, self.gs, self.hdr))

    def req(self, **kw):
        d = {"ext": self.ext, "anno": self.anno, "hdr": self.hdr, "fmt": GS if self.gs else CSV,
             "po": PO.get(self.po, self.po), "pi": PI.get(self.pi, self.pi), "dyn": False}
        d.update(kw)
        return d

    def key(self):
        return "%s/%s/%s" % (self.flags(), self.po, self.pi)


def model_line(opt, sid, orig, igs, tree):
    return "\t".join(["tab", opt.flags(), opt.po if opt.po in PO else "other", opt.pi if opt.pi in PI else "other",
                      hexs(sid), hexs(orig), hexs(igs), tree])


def parse_model(line):
    """-> ('ok', [ {rows:[{k:v}], out:bytes} ]) | ('err', code) | ('panic'...)"""
    if line.startswith("ok:"):
        js = json.loads(line[3:])
        return "ok", [{"rows": [{unhex(k): unhex(v) for k, v in r.items()} for r in x["rows"]], "out": unhex(x["out"])} for x in js]
    kind, _, rest = line.partition(":")
    return kind, rest


def impl_tables(r):
    """Implementation answer -> list of {rows:[{k:v}] (empty cells dropped), hdr:[..]}; out bytes (concatenated)."""
    tabs = []
    for rows, hdr in zip(r.get("rows") or [], r.get("hdr") or []):
        tabs.append({"rows": [{k.encode("utf-8", "surrogateescape"): v.encode("utf-8", "surrogateescape") for k, v in (row or {}).items() if v != ""} for row in (rows or [])],
                     "hdr": hdr})
    return tabs


def split_out(out, gs):
    """Printed table -> list of lines, each a list of cells (bytes). Google Sheets lines are unwrapped."""
    lines = out.split(b"\n")
    if lines and lines[-1] == b"":
        lines.pop()
    res = []
    for l in lines:
        ok = True
        if gs:
            if l.startswith(b'=SPLIT("') and l.endswith(b'"; "|")'):
                l = l[len(b'=SPLIT("'):-len(b'"; "|")')]
            else:
                ok = False
        cells = l.split(b"|")
        res.append((ok, cells))
    return res


LINK_RE = re.compile(rb"\[([A-Za-z ]*)\]\.([^.\[\];]*(?:,p)?)\.\[([^\]]*)\]")


def parse_comp_links(cell):
    """'[AND OR].I.[7.1-3,7.5];...' -> list of (ops tuple, component, [ref strings])"""
    out = []
    for part in cell.split(b";"):
        m = re.fullmatch(rb"\[([A-Za-z ]*)\]\.(.*)\.\[([^\]]*)\]", part)
        if not m:
            out.append(None)
            continue
        out.append((tuple(m.group(1).split()), m.group(2), m.group(3).split(b",")))
    return out


def expand_ref(ref):
    """'7.3-5' -> ['7.3','7.4','7.5'] (the range applies to the last dot-separated number)"""
    m = re.fullmatch(rb"(.*\.)(\d+)-(\d+)", ref)
    if m:
        return [m.group(1) + str(i).encode() for i in range(int(m.group(2)), int(m.group(3)) + 1)]
    return [ref]
