"""Shared machinery of the tabular properties (C04 C05 C06 C07 C19 C16): corpora, the model/implementation
runs of the static tabular export, parsing of the cells."""
import json, random, re
from common import *
from pool import run_pool, run_lines, out_bytes
from sxp import *
import gen_trees as GT
import gen_text as TX
import hostile as HX
import vis_common as VC

PO = {"none": "No inclusion of Original Statement in output (i.e., no additional column)",
      "first": "Include Original Statement for first atomic statement only (i.e., in first row following optional header row)",
      "all": "Include Original Statement for each atomic statement (i.e., in each row)"}
PI = {"none": "No inclusion of IG Script coding in output (i.e., no additional column)",
      "first": "Include IG Script-encoded statement for first atomic statement only (i.e., in first row following optional header row)",
      "all": "Include IG Script-encoded statement for each atomic statement (i.e., in each row)"}
GS, CSV = "Google Sheets", "CSV format"


def hexs(bs):
    return "x" + bytes(bs).hex()


def unhex(x):
    return bytes.fromhex(x[1:])


class Opt:
    """One option vector of the tabular export."""
    def __init__(self, ext=True, anno=False, gs=False, hdr=True, po="none", pi="none"):
        self.ext, self.anno, self.gs, self.hdr, self.po, self.pi = ext, anno, gs, hdr, po, pi

    def flags(self):
        return "".join("1" if x else "0" for x in (self.ext, self.anno, self.gs, self.hdr))

    def req(self, **kw):
        d = {"ext": self.ext, "anno": self.anno, "hdr": self.hdr, "fmt": GS if self.gs else CSV,
             "po": PO.get(self.po, self.po), "pi": PI.get(self.pi, self.pi), "dyn": False}
        d.update(kw)
        return d

    def key(self):
        return "%s/%s/%s" % (self.flags(), self.po, self.pi)


def model_line(opt, sid, orig, igs, tree, endpoint=False):
    return "\t".join(["tab", opt.flags() + ("1" if endpoint else "0"), opt.po if opt.po in PO else "other", opt.pi if opt.pi in PI else "other",
                      hexs(sid), hexs(orig), hexs(igs), tree])


def parse_model(line):
    """-> ('ok', [ {rows:[{k:v}], out:bytes} ]) | ('err', code) | ('panic'...)"""
    if line.startswith("ok:"):
        js = json.loads(line[3:])
        return "ok", [{"rows": [{unhex(k): unhex(v) for k, v in r.items()} for r in x["rows"]], "out": unhex(x["out"])} for x in js]
    kind, _, rest = line.partition(":")
    return kind, rest


def impl_tables(r):
    """Implementation answer -> list of {rows:[{k:v}] (empty cells dropped), hdr:[..]}; out bytes (concatenated)."""
    tabs = []
    for rows, hdr in zip(r.get("rows") or [], r.get("hdr") or []):
        tabs.append({"rows": [{k.encode("utf-8", "surrogateescape"): (bytes.fromhex(v[5:]) if v.startswith("\x00hex:") else v.encode("utf-8", "surrogateescape")) for k, v in (row or {}).items() if v != ""} for row in (rows or [])],
                     "hdr": hdr})
    return tabs


def split_out(out, gs):
    """Printed table -> list of lines, each a list of cells (bytes). Google Sheets lines are unwrapped."""
    lines = out.split(b"\n")
    if lines and lines[-1] == b"":
        lines.pop()
    res = []
    for l in lines:
        ok = True
        if gs:
            if l.startswith(b'=SPLIT("') and l.endswith(b'"; "|")'):
                l = l[len(b'=SPLIT("'):-len(b'"; "|")')]
            else:
                ok = False
        cells = l.split(b"|")
        res.append((ok, cells))
    return res


LINK_RE = re.compile(rb"\[([A-Za-z ]*)\]\.([^.\[\];]*(?:,p)?)\.\[([^\]]*)\]")


def parse_comp_links(cell):
    """'[AND OR].I.[7.1-3,7.5];...' -> list of (ops tuple, component, [ref strings])"""
    out = []
    for part in cell.split(b";"):
        m = re.fullmatch(rb"\[([A-Za-z ]*)\]\.(.*)\.\[([^\]]*)\]", part)
        if not m:
            out.append(None)
            continue
        out.append((tuple(m.group(1).split()), m.group(2), m.group(3).split(b",")))
    return out


def expand_ref(ref):
    """'7.3-5' -> ['7.3','7.4','7.5'] (the range applies to the last dot-separated number)"""
    m = re.fullmatch(rb"(.*\.)(\d+)-(\d+)", ref)
    if m:
        return [m.group(1) + str(i).encode() for i in range(int(m.group(2)), int(m.group(3)) + 1)]
    return [ref]


# ------------------------------------------------------------------ corpus shared by the tabular properties
def top_statement_nodes(root):
    """Statement-holding nodes of a root in the order of GetTopLevelStatementNodes (python tuples)."""
    if root[0] == 'C':
        return top_statement_nodes(root[7]) + top_statement_nodes(root[8])
    e = root[6]
    if isinstance(e, tuple) and e[0] == 'T':
        return [root]
    if isinstance(e, tuple) and e[0] == 'NS':
        return [x for x in e[1] if x[0] == 'L' and isinstance(x[6], tuple) and x[6][0] == 'T']
    return []


def product_size(st):
    """Upper bound of the number of atomic statements of a statement (python tuple form), nested ones included."""
    n = 1
    for f, node in st:
        if f in COMPLEX_FIELDS:
            continue
        n *= max(1, nleaves(node))
    return n


def nested_statements(st, acc=None):
    acc = [] if acc is None else acc
    for f, node in st:
        for lf in leaves(node):
            for cand in [lf] + list(lf[7]):
                e = cand[6]
                if isinstance(e, tuple) and e[0] == 'T':
                    acc.append(e[1])
                    nested_statements(e[1], acc)
                elif isinstance(e, tuple) and e[0] == 'NS':
                    for x in e[1]:
                        for y in top_statement_nodes(x):
                            acc.append(y[6][1])
                            nested_statements(y[6][1], acc)
    return acc


def total_rows_bound(root):
    t = 0
    for n in top_statement_nodes(root):
        st = n[6][1]
        t += product_size(st) + sum(product_size(x) for x in nested_statements(st))
    return t


def rnd_opt(rng, hostile=False):
    po = rng.choice(["none", "none", "first", "all"])
    pi = rng.choice(["none", "none", "first", "all"])
    return Opt(ext=rng.random() < 0.6, anno=rng.random() < 0.5, gs=rng.random() < 0.4, hdr=rng.random() < 0.6, po=po, pi=pi)


def gen_tab_cases(tier, seed, salt=40, n_trees=None, n_texts=None, max_rows=256):
    """-> list of dicts: stream 'T' (built root, exported through btabn) / 'P' (text, exported through the endpoint)."""
    rng = random.Random(seed * 7919 + salt)
    n_trees = n_trees if n_trees is not None else (2400 if tier == "quick" else 30000)
    n_texts = n_texts if n_texts is not None else (220 if tier == "quick" else 3000)
    cases = []
    roots = VC.gen_roots(tier, seed, salt, n_quick=n_trees, n_thorough=n_trees, hostile_every=4)
    for root in roots:
        # the tabular model identifies a pair holder with the single statement node it embeds
        if total_rows_bound(root) > max_rows:
            continue
        cases.append({"stream": "T", "root": root, "tree": wnode(root), "opt": rnd_opt(rng), "id": rng.choice([b"7", b"123", b"a.1", b"1.1", b"007", b"x9."]),
                      "orig": rng.choice([b"", b"the original text", b"two\nlines | and a bar"]), "igs": rng.choice([b"", b"A(x) I(y)", b"A(\"q\") |"])})
    tg = TX.TG(rng, suffix_p=0.25, annot_p=0.3, shared_p=0.3)
    for i in range(n_texts):
        if i % 4 == 3:
            parts = TX.priv_stmt(tg)          # suffix-linked private properties (single values, combinations, nested statements)
        elif i % 8 == 2:
            parts = TX.groups_stmt(tg, rng)   # several combination groups side by side inside one component
        elif i % 8 == 5:
            parts = TX.pairs_shared_stmt(tg, rng)   # pair combination + component of the same type outside the braces
        else:
            parts = tg.stmt(rng.choice([0, 0, 1, 1, 2, 3]), maxleaves=3)
        cases.append({"stream": "P", "parts": parts, "text": TX.r_stmt(parts), "opt": rnd_opt(rng), "id": rng.choice([b"7", b"123", b"a.1", b"1.1"]),
                      "orig": rng.choice([b"", b"the original text"])})
    if n_texts:
        # all matchings of three properties (nested / primitive) against a suffixed and an unsuffixed component value
        pairs = TX.PRIV_PAIRS if tier == "thorough" else [TX.PRIV_PAIRS[(seed + k) % 5] for k in range(2)]
        for parts in TX.priv_systematic(tg, pairs):
            o = rnd_opt(rng)
            o.ext = True
            cases.append({"stream": "P", "parts": parts, "text": TX.r_stmt(parts), "opt": o, "id": b"7", "orig": b""})
    return cases


def run_tab_cases(build, cases, V, want_spec=True):
    """Runs implementation and model on all cases, reports correspondence failures through V.broke, and fills in
    per case: impl (answer), tabs (implementation tables), model (parsed model answer), spec (per top-level statement)."""
    reqs = []
    for c in cases:
        if c["stream"] == "T":
            reqs.append(c["opt"].req(mode="btabn", tree=c["tree"], id=c["id"].decode(), orig=c["orig"].decode(), stmt=c["igs"].decode()))
        else:
            reqs.append(c["opt"].req(mode="tabd", stmt=c["text"], id=c["id"].decode(), orig=c["orig"].decode()))
    impl = run_pool([build.obs], reqs, NCPU, timeout=60)
    lines, idx = [], []
    for i, (c, r) in enumerate(zip(cases, impl)):
        c["impl"] = r
        c["tabs"] = impl_tables(r) if "rows" in r else None
        c["model"] = None
        if c["stream"] == "P":
            if r.get("nodes") and r.get("perr") == "NO_ERROR_DURING_PARSING":
                c["tree"] = r["nodes"][0]
                try:
                    c["root"] = rnode(c["tree"])
                except Exception:
                    c["root"] = None
                c["igs"] = clean_py(c["text"].encode())
            else:
                continue
        if build.modelrun:
            lines.append(model_line(c["opt"], c["id"], c["orig"], c["igs"], c["tree"], endpoint=(c["stream"] == "P")))
            idx.append(i)
    mod = run_lines([build.modelrun], lines) if build.modelrun else []
    mism = {"rows": 0, "out": 0, "err": 0, "crash": 0, "excluded_known_finding_F21": 0}
    for i, ml in zip(idx, mod):
        c = cases[i]
        r = c["impl"]
        kind, m = parse_model(ml)
        c["model"] = (kind, m)
        if c.get("root") is not None and c["stream"] == "P" and partially_withdrawn(c["root"]):
            # known finding F21 (stale parent pointers after a partial withdrawal cannot be represented by the value-based
            # model): reported under C05 / C16, excluded from the correspondence and from the other predicates
            mism["excluded_known_finding_F21"] += 1
            if V.pid in ("C05", "C16"):
                V.violation("private-property:combination-partially-withdrawn", {"tree": c["tree"], "text": c.get("text")},
                            what="private property combination only partly withdrawn from the shared properties")
            c["tabs"] = None
            continue
        if "timeout" in r and c.get("stream") == "P":
            c["tabs"] = None
            continue  # a statement through the endpoint without answer within the pool's limit (load): termination is C10's business
        if "panic" in r or "exit" in r or "timeout" in r:
            if kind in ("panic", "fatal"):
                continue  # predicted by the model: outside the domain of the export
            mism["crash"] += 1
            continue
        if "bad" in r:
            V.broke("harness:tab", str(r)[:300])
            continue
        ok_impl = r.get("err") == "NO_ERROR_DURING_PARSING"
        if kind == "bad":
            V.broke("model:tab", str(m)[:300])
            continue
        if (kind == "ok") != ok_impl:
            if kind == "err" and not ok_impl:
                continue
            mism["err"] += 1
            if mism["err"] <= 2:
                V.broke("correspondence:tab-outcome", json.dumps({"case": c.get("text") or c["tree"][:600], "impl": r.get("err"), "model": [kind, str(m)[:100]]}))
            continue
        if kind != "ok":
            continue
        mrows = [x["rows"] for x in m]
        irows = [x["rows"] for x in c["tabs"]]
        if mrows != irows:
            mism["rows"] += 1
            if mism["rows"] <= 2:
                d = "row counts %s vs %s" % ([len(x) for x in mrows], [len(x) for x in irows])
                for a, cc in zip(sum(mrows, []), sum(irows, [])):
                    if a != cc:
                        k = sorted(k for k in set(a) | set(cc) if a.get(k) != cc.get(k))[0]
                        d = "cell %r of row %r: model=%r impl=%r" % (k, a.get(b"Statement ID"), a.get(k), cc.get(k))
                        break
                V.broke("correspondence:tab-rows", json.dumps({"case": c.get("text") or c["tree"][:600], "opt": c["opt"].key(), "diff": d}))
            continue
        mo = b"".join(x["out"] for x in m)
        if mo != out_bytes(r):
            mism["out"] += 1
            if mism["out"] <= 2:
                V.broke("correspondence:tab-bytes", json.dumps({"case": c.get("text") or c["tree"][:600], "opt": c["opt"].key(), "diff": first_diff(mo, out_bytes(r), 80)}))
    # specification of the top-level statements
    if want_spec and build.modelrun:
        slines, sidx = [], []
        for i, c in enumerate(cases):
            c["spec"] = None
            if c.get("root") is None or not c.get("tabs"):
                continue
            tops = top_statement_nodes(c["root"])
            c["tops"] = tops
            for j, n in enumerate(tops):
                slines.append("tabspec\t" + wnode(n))
                sidx.append((i, j))
        sp = run_lines([build.modelrun], slines)
        for (i, j), l in zip(sidx, sp):
            c = cases[i]
            if c["spec"] is None:
                c["spec"] = [None] * len(c["tops"])
            if l.startswith("ok:"):
                js = json.loads(l[3:])
                js["choices"] = [[(unhex(a), None if v is None else unhex(v)) for a, v in row] for row in js["choices"]]
                js["links"] = [[(unhex(a), tuple(o.split()), rs) for a, o, rs in row] for row in js["links"]]
                js["cores"] = [[None if v is None else unhex(v) for v in row] for row in js.get("cores", [])]
                c["spec"][j] = js
    return mism


def clean_py(s):
    """CleanInput as the repository defines it at present (kept in step with Model/Tabular.clean_input by the correspondence)."""
    return re.sub(rb"\r\n|\r|\n", b" ", s).replace(b"|", b"")


def adjust_py(s, gs):
    s = s.replace(b'"', b"'")
    if gs and s[:1] == b"'":
        s = b"'" + s
    return s


def own_rows(tab_rows):
    """Rows of the statement itself (not of statements nested in it): the leading rows whose ID does not open a brace group
    deeper than the first row's."""
    if not tab_rows:
        return []
    first = tab_rows[0].get(b"Statement ID", b"")
    depth = len(first) - len(first.lstrip(b"{"))
    out = []
    for r in tab_rows:
        i = r.get(b"Statement ID", b"")
        if len(i) - len(i.lstrip(b"{")) != depth:
            break
        out.append(r)
    return out


# ------------------------------------------------------------------ known finding F21
PROP_FIELDS = {b"A,p": ["Ap", "ApC"], b"Bdir,p": ["Bdirp", "BdirpC"], b"Bind,p": ["Bindp", "BindpC"], b"E,p": ["Ep", "EpC"], b"P,p": ["Pp", "PpC"], b"Cex": ["Cex", "CexC"]}


def partially_withdrawn(root):
    """True when some statement below root carries a value both as private link of a component value and still as
    leaf of the shared property field it was to be withdrawn from (signature of F21)."""
    def key(e):
        # a primitive value, or a nested statement (compared by its content)
        return e if isinstance(e, bytes) else repr(e) if isinstance(e, tuple) and e[0] == 'T' else None

    def stmt_has(st):
        shared = {}
        for f, n in st:
            for lf in leaves(n):
                if key(lf[6]) is not None:
                    shared.setdefault(f, set()).add(key(lf[6]))
        for f, n in st:
            for lf in leaves(n):
                for pv in lf[7]:
                    if key(pv[6]) is not None:
                        for pf in PROP_FIELDS.get(pv[1], []):
                            if key(pv[6]) in shared.get(pf, ()):
                                return True
        return any(stmt_has(x) for x in nested_statements(st)[:0])   # nested ones are visited below
    for n in top_statement_nodes(root):
        st = n[6][1]
        if stmt_has(st) or any(stmt_has(x) for x in nested_statements(st)):
            return True
    return False


@matcher("private_combination_partially_withdrawn")
def _m_f21(case, k):
    try:
        return bool(case.get("tree")) and partially_withdrawn(rnode(case["tree"]))
    except Exception:
        return False
