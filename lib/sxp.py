"""Python side of the s-expression exchange format (see go/sx/sx.go).
node  = ('L', ct, suf, ann, shl, shr, entry, priv) | ('C', ct, suf, ann, shl, shr, op, l, r)
entry = None | bytes | ('T', stmt) | ('NS', [node])
stmt  = [(fieldname, node)]            strings are bytes; suf/ann are None or bytes"""

FIELDS = ["A", "Ap", "ApC", "D", "I", "Bdir", "BdirC", "Bdirp", "BdirpC", "Bind", "BindC", "Bindp", "BindpC",
          "E", "Ep", "EpC", "M", "F", "P", "PC", "Pp", "PpC", "Cac", "CacC", "Cex", "CexC", "O"]
# component symbol (= ComponentType of the root node) per field
FIELD_SYMBOL = {"A": "A", "Ap": "A,p", "ApC": "A,p", "D": "D", "I": "I", "Bdir": "Bdir", "BdirC": "Bdir", "Bdirp": "Bdir,p", "BdirpC": "Bdir,p",
                "Bind": "Bind", "BindC": "Bind", "Bindp": "Bind,p", "BindpC": "Bind,p", "E": "E", "Ep": "E,p", "EpC": "E,p", "M": "M", "F": "F",
                "P": "P", "PC": "P", "Pp": "P,p", "PpC": "P,p", "Cac": "Cac", "CacC": "Cac", "Cex": "Cex", "CexC": "Cex", "O": "O"}
COMPLEX_FIELDS = {"ApC", "BdirC", "BdirpC", "BindC", "BindpC", "EpC", "PC", "PpC", "CacC", "CexC", "O"}
OPS = ["AND", "OR", "XOR", "bAND", "wAND"]


def b(s):
    return s if isinstance(s, bytes) else s.encode("utf-8")


def hx(s):
    return "x" + b(s).hex()


def opt(s):
    return "~" if s is None else hx(s)


def leaf(entry, ct=b"", suf=None, ann=None, shl=(), shr=(), priv=()):
    if isinstance(entry, str):
        entry = entry.encode()
    return ('L', b(ct), suf, ann, list(shl), list(shr), entry, list(priv))


def comb(op, l, r, ct=b"", suf=None, ann=None, shl=(), shr=()):
    return ('C', b(ct), suf, ann, list(shl), list(shr), op, l, r)


def with_ct(n, ct):
    return n[:1] + (b(ct),) + n[2:]


def wnode(n):
    head = "%s %s %s (%s) (%s)" % (hx(n[1]), opt(n[2]), opt(n[3]), " ".join(hx(x) for x in n[4]), " ".join(hx(x) for x in n[5]))
    if n[0] == 'L':
        return "(L %s %s (%s))" % (head, wentry(n[6]), " ".join(wnode(p) for p in n[7]))
    return "(C %s %s %s %s)" % (head, n[6], wnode(n[7]), wnode(n[8]))


def wentry(e):
    if e is None:
        return "~"
    if isinstance(e, (bytes, str)):
        return hx(e)
    if e[0] == 'T':
        return "(T %s)" % wstmt(e[1])
    if e[0] == 'NS':
        return "(NS %s)" % " ".join(wnode(x) for x in e[1])
    raise ValueError(e)


def wstmt(st):
    return "(ST" + "".join(" (%s %s)" % (f, wnode(n)) for f, n in st) + ")"


# ------------------------------------------------------------------ reader
def tokenize(s):
    out, i, n = [], 0, len(s)
    while i < n:
        c = s[i]
        if c in " \t\n":
            i += 1
        elif c in "()":
            out.append(c)
            i += 1
        else:
            j = i
            while j < n and s[j] not in " ()\t\n":
                j += 1
            out.append(s[i:j])
            i = j
    return out


class Outside(Exception):
    pass


class R:
    def __init__(self, s):
        self.t = tokenize(s)
        self.i = 0

    def next(self):
        x = self.t[self.i]
        self.i += 1
        return x

    def peek(self):
        return self.t[self.i]

    def expect(self, x):
        g = self.next()
        if g != x:
            raise ValueError("expected %s got %s" % (x, g))

    def unhx(self, t):
        if not t.startswith("x"):
            raise ValueError("expected hex, got " + t)
        return bytes.fromhex(t[1:])

    def optstr(self):
        t = self.next()
        if t == "!":
            raise Outside("non-string suffix/annotation")
        return None if t == "~" else self.unhx(t)

    def strlist(self):
        self.expect("(")
        out = []
        while self.peek() != ")":
            out.append(self.unhx(self.next()))
        self.expect(")")
        return out

    def node(self):
        self.expect("(")
        k = self.next()
        if k == "X":
            raise Outside(self.next())
        ct = self.unhx(self.next())
        suf = self.optstr()
        ann = self.optstr()
        shl = self.strlist()
        shr = self.strlist()
        if k == "L":
            e = self.entry()
            self.expect("(")
            priv = []
            while self.peek() != ")":
                priv.append(self.node())
            self.expect(")")
            n = ('L', ct, suf, ann, shl, shr, e, priv)
        else:
            op = self.next()
            l = self.node()
            r = self.node()
            n = ('C', ct, suf, ann, shl, shr, op, l, r)
        self.expect(")")
        return n

    def entry(self):
        t = self.next()
        if t == "~":
            return None
        if t != "(":
            return self.unhx(t)
        k = self.next()
        if k == "T":
            s = self.stmt()
            self.expect(")")
            return ('T', s)
        if k == "NS":
            ns = []
            while self.peek() != ")":
                ns.append(self.node())
            self.expect(")")
            return ('NS', ns)
        if k == "X":
            raise Outside(self.next())
        raise ValueError(k)

    def stmt(self):
        self.expect("(")
        self.expect("ST")
        out = []
        while self.peek() != ")":
            self.expect("(")
            f = self.next()
            n = self.node()
            self.expect(")")
            out.append((f, n))
        self.expect(")")
        return out


def rstmt(s):
    return R(s).stmt()


def rnode(s):
    return R(s).node()


# ------------------------------------------------------------------ helpers
def leaves(n):
    if n[0] == 'L':
        return [n]
    return leaves(n[7]) + leaves(n[8])


def nleaves(n):
    return 1 if n[0] == 'L' else nleaves(n[7]) + nleaves(n[8])


def depth(n):
    return 0 if n[0] == 'L' else 1 + max(depth(n[7]), depth(n[8]))


def sget(st, f):
    for g, n in st:
        if g == f:
            return n
    return None
