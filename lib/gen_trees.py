"""Generators of tree.Statement values (stream T of DESIGN.md section 4). Every random choice comes
from the one random.Random passed in."""
import itertools
from sxp import *

WORDS = [b"actor", b"farmer", b"certifier", b"must", b"may", b"inspect", b"comply", b"report", b"organic", b"produce",
         b"to agency", b"at any time", b"violations", b"fine", b"accredited", b"Program", b"manager", b"revoke", b"x", b"y z"]


def shapes(k):
    """All binary tree shapes with k leaves as nested tuples; leaf = None."""
    if k == 1:
        return [None]
    out = []
    for i in range(1, k):
        for l in shapes(i):
            for r in shapes(k - i):
                out.append((l, r))
    return out


def count_inner(sh):
    return 0 if sh is None else 1 + count_inner(sh[0]) + count_inner(sh[1])


def op_trees(k, ops):
    """All operator trees with k leaves over ops; leaves are numbered texts."""
    for sh in shapes(k):
        n = count_inner(sh)
        for assignment in itertools.product(ops, repeat=n):
            it = iter(assignment)
            ctr = [0]

            def build(s):
                if s is None:
                    ctr[0] += 1
                    return leaf(b"v%d" % ctr[0])
                o = next(it)
                l = build(s[0])
                r = build(s[1])
                return comb(o, l, r)
            yield build(sh)


def rnd_shape(rng, k):
    if k == 1:
        return None
    i = rng.randint(1, k - 1)
    return (rnd_shape(rng, i), rnd_shape(rng, k - i))


class G:
    def __init__(self, rng, ops=("AND", "OR", "XOR"), synth=True, texts=None, hostile=None):
        self.rng, self.ops, self.synth = rng, list(ops), synth
        self.texts = texts or WORDS
        self.hostile = hostile
        self.ctr = 0

    def text(self):
        self.ctr += 1
        if self.hostile is not None and self.rng.random() < 0.5:
            return self.hostile(self.rng)
        w = self.rng.choice(self.texts)
        return w + b" %d" % self.ctr if self.rng.random() < 0.7 else w

    def value_tree(self, k, sym, shared=0.15, annot=0.0, suffix=0.0, entry=None):
        """Operator tree with k leaves for a component symbol."""
        rng = self.rng

        def build(s, top):
            if s is None:
                e = entry() if entry else self.text()
                return leaf(e)
            ops = self.ops + (["bAND", "wAND"] if self.synth and rng.random() < 0.25 else [])
            o = rng.choice(ops)
            l = build(s[0], False)
            r = build(s[1], False)
            shl = [self.text()] if rng.random() < shared else []
            shr = [self.text()] if rng.random() < shared else []
            return comb(o, l, r, shl=shl, shr=shr)
        n = build(rnd_shape(rng, k), True)
        n = with_ct(n, sym)
        if rng.random() < annot:
            n = n[:3] + (b"ctx=" + self.text(),) + n[4:]
        if rng.random() < suffix:
            n = n[:2] + (b"%d" % rng.randint(1, 3),) + n[3:]
        return n

    def statement(self, depth=0, max_depth=2, nfields=None, max_leaves=4, nested_p=0.3, fields=None, annot=0.0, suffix=0.0, shared=0.15, budget=None):
        """Random statement; budget = [remaining leaves] bounds the total size whatever the nesting depth."""
        rng = self.rng
        if budget is None:
            budget = [40]
        nf = nfields or rng.randint(1, 6)
        if depth > 0:
            nf = min(nf, rng.randint(1, 3))
        cand = fields or FIELDS
        chosen = rng.sample(cand, min(nf, len(cand)))
        chosen.sort(key=FIELDS.index)
        st = []
        for f in chosen:
            if budget[0] <= 0 and st:
                break
            sym = FIELD_SYMBOL[f]
            k = rng.choice([1, 1, 1, 2, 2, 3, max_leaves])
            if f in COMPLEX_FIELDS:
                if depth >= max_depth:
                    continue
                k = rng.choice([1, 1, 2, 3]) if budget[0] > 6 else 1
                budget[0] -= k
                ent = lambda: ('T', self.statement(depth + 1, max_depth, None, max_leaves, nested_p, None, annot, suffix, shared, budget) or [("A", leaf(self.text(), ct="A"))])
                n = self.value_tree(k, sym, shared=0.0, annot=annot, suffix=suffix, entry=ent)
                st.append((f, n))
            else:
                k = max(1, min(k, budget[0]))
                budget[0] -= k
                st.append((f, self.value_tree(k, sym, shared=shared, annot=annot, suffix=suffix)))
        return st


def stats(st, acc=None, depth=0):
    acc = acc if acc is not None else {"leaves": 0, "combs": 0, "nested": 0, "maxdepth": 0, "ops": {}}

    def walk(n, d):
        if n[0] == 'L':
            acc["leaves"] += 1
            e = n[6]
            if isinstance(e, tuple) and e[0] == 'T':
                acc["nested"] += 1
                acc["maxdepth"] = max(acc["maxdepth"], d + 1)
                for _, x in e[1]:
                    walk(x, d + 1)
            elif isinstance(e, tuple) and e[0] == 'NS':
                for x in e[1]:
                    walk(x, d + 1)
            for p in n[7]:
                walk(p, d)
        else:
            acc["combs"] += 1
            acc["ops"][n[6]] = acc["ops"].get(n[6], 0) + 1
            walk(n[7], d)
            walk(n[8], d)
    for _, n in st:
        walk(n, depth)
    return acc
