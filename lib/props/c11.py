"""C11 Malformed input is rejected with its specific error, never half-converted."""
import json, random
from common import *
from pool import run_pool, out_bytes
from sxp import *
import gen_text as TX
import props.c02 as C02
import props.c03 as C03

FILES = ["Props/C11.v"]
OK = "NO_ERROR_DURING_PARSING"
NO_NEST = ['A', 'D', 'I', 'E', 'M', 'F']


@matcher("all_components_empty")
def _m_f8(case, k):
    t = case.get("text", "")
    import re
    return bool(re.fullmatch(r"\s*(?:[A-Za-z,]+\d*\(\s*\)\s*)+", t))


def positions(parts, path=()):
    """All statements (top level and nested) of an AST as (path, parts list)."""
    yield path, parts
    for i, p in enumerate(parts):
        if p[0] == 'nested':
            yield from positions(p[4], path + (i,))


def replace_at(parts, path, new_stmt):
    if not path:
        return new_stmt
    i = path[0]
    p = parts[i]
    return parts[:i] + [('nested', p[1], p[2], p[3], replace_at(p[4], path[1:], new_stmt))] + parts[i + 1:]


def plant(parts, rng, tg):
    """-> list of (rule, expected code, text): each documented violation planted at every statement level and component."""
    out = []
    for path, st in positions(parts):
        comps = [i for i, p in enumerate(st) if p[0] == 'comp']
        for i in comps:
            p = st[i]
            w = lambda new: TX.r_stmt(replace_at(parts, path, st[:i] + [new] + st[i + 1:]))
            raw = lambda txt: TX.r_stmt(replace_at(parts, path, st[:i] + [('fill', txt)] + st[i + 1:]))
            head = TX.head(p[1], p[2]) + p[3]
            body = TX.r_content(p[4])
            out.append(("unbalanced-parenthesis", "IMBALANCED_PARENTHESES", raw(head + "(" + body)))
            out.append(("unbalanced-parenthesis", "IMBALANCED_PARENTHESES", raw(head + "((" + body + ")")))
            out.append(("mixed-operators", "INVALID_LOGICAL_OPERATOR_COMBINATIONS", raw(head + "(" + tg.word() + " [AND] " + tg.word() + " [OR] " + tg.word() + ")")))
            out.append(("mixed-operators", "INVALID_LOGICAL_OPERATOR_COMBINATIONS", raw(head + "((" + tg.word() + " [XOR] " + tg.word() + ") [OR] " + tg.word() + " [AND] " + tg.word() + ")")))
            out.append(("empty-operand", "EMPTY_LEAF_VALUE", raw(head + "(" + tg.word() + " [AND] )")))
            out.append(("empty-operand", "EMPTY_LEAF_VALUE", raw(head + "(( [OR] " + tg.word() + ") [AND] " + tg.word() + ")")))
            out.append(("duplicate-component", "DUPLICATE_COMPONENT_ENTRIES", TX.r_stmt(replace_at(parts, path, st[:i] + [p, p] + st[i + 1:]))))
            if p[1] in NO_NEST:
                out.append(("braces-on-non-nesting-component", "IGNORED_ELEMENTS_NESTED_STATEMENT_PARSING",
                            TX.r_stmt(replace_at(parts, path, st + [('fill', p[1] + "{A(" + tg.word() + ") I(" + tg.word() + ")}")]))))
        # braces
        for i, p in enumerate(st):
            if p[0] == 'nested':
                inner = TX.r_stmt(p[4])
                raw = lambda txt: TX.r_stmt(replace_at(parts, path, st[:i] + [('fill', txt)] + st[i + 1:]))
                out.append(("unbalanced-brace", "IMBALANCED_PARENTHESES", raw(TX.head(p[1], p[2]) + p[3] + "{" + inner)))
                out.append(("unbalanced-brace", "IMBALANCED_PARENTHESES", raw(TX.head(p[1], p[2]) + p[3] + "{" + inner + "}}")))
        # nested combination mixing component types
        mk = lambda s: s + "{A(" + tg.word() + ") I(" + tg.word() + ")}"
        a, b = rng.sample(['Cac', 'Cex', 'Bdir', 'Bind', 'P', 'O'], 2)
        out.append(("mixed-types-in-nested-combination", "INVALID_TYPE_COMBINATIONS_IN_NESTED_STATEMENT_COMBINATIONS",
                    TX.r_stmt(replace_at(parts, path, st + [('fill', a + "{" + mk(a) + " [" + rng.choice(TX.OPS) + "] " + mk(b) + "}")]))))
        # ... also a component with its own property type (one symbol is the beginning of the other), in both orders,
        # and any two of the symbols that nest
        for a, b in (rng.choice([('Bdir', 'Bdir,p'), ('Bdir,p', 'Bdir'), ('Bind', 'Bind,p'), ('Bind,p', 'Bind'), ('P', 'P,p'), ('P,p', 'P')]),
                     tuple(rng.sample(['A,p', 'Bdir', 'Bdir,p', 'Bind', 'Bind,p', 'Cac', 'Cex', 'E,p', 'P', 'P,p', 'O'], 2))):
            out.append(("mixed-types-in-nested-combination", "INVALID_TYPE_COMBINATIONS_IN_NESTED_STATEMENT_COMBINATIONS",
                        TX.r_stmt(replace_at(parts, path, st + [('fill', a + "{" + mk(a) + " [" + rng.choice(TX.OPS) + "] " + mk(b) + "}")]))))
        # sibling nested statements of one type joined by two different operators (no braces): no precedence
        if not path and not any(p[0] in ('nested', 'ncombo', 'pairs') for p in st):
            used = {p[1] for p in st if p[0] == 'comp'}
            free = [x for x in ['Cac', 'Cex', 'Bdir', 'Bind', 'O'] if x not in used]
            if free:
                sy = rng.choice(free)
                sib = lambda: sy + "{A(" + tg.word() + ") I(" + tg.word() + ")}"
                for o1 in TX.OPS:
                    for o2 in TX.OPS:
                        if o1 != o2:
                            out.append(("mixed-operators-between-nested-statements", "INVALID_LOGICAL_OPERATOR_COMBINATIONS",
                                        TX.r_stmt(st + [('fill', sib() + " [" + o1 + "] " + sib() + " [" + o2 + "] " + sib())])))
        # a second component-pair expression on the level
        pair = lambda: "{I(" + tg.word() + ") [" + rng.choice(TX.OPS) + "] I(" + tg.word() + ")}"
        in_f25_region = bool(path) and sum(1 for p in st if p[0] == 'comp') >= 2 and any(p[0] == 'comp' and p[4][0] == 'comb' for p in st)   # known finding F25 (C03)
        if not any(p[0] == 'pairs' for p in st) and not any(p[0] == 'comp' and p[1] == 'I' for p in st) and not in_f25_region:
            out.append(("two-pair-expressions", "MULTIPLE_COMPONENT_PAIRS_ON_NESTING_LEVEL", TX.r_stmt(replace_at(parts, path, st + [('fill', pair()), ('fill', pair().replace("I(", "Bdir("))]))))
    return out


def gen(tier, seed):
    rng = random.Random(seed * 503 + 11)
    tg = TX.TG(rng, annot_p=0.2, shared_p=0.2)
    bases = []
    for _ in range(10 if tier == "quick" else 160):
        bases.append(tg.stmt(0, ncomp=rng.randint(2, 5), allow_pairs=False, maxleaves=3))
    for _ in range(8 if tier == "quick" else 160):
        bases.append([('comp', 'A', '', '', ('leaf', tg.word())), ('comp', 'I', '', '', ('leaf', tg.word()))] + C02.nest_chain(tg, rng, rng.choice(TX.NEST_NONPROP), rng.randint(1, 3)))
    for _, parts in [c for c in C03.gen("quick", seed) if c[0] == "P1"][:4 if tier == "quick" else 22]:
        bases.append(parts)
    bases = [b for b in bases if not (C02.member_contains_nesting(b) or C02.ncombo_in_nested_with_siblings(b) or C03.pairs_in_nested_with_sibling_combination(b))]
    cases = [("wellformed", OK, TX.r_stmt(b)) for b in bases]
    for b in bases:
        pl = plant(b, rng, tg)
        if tier == "quick" and len(pl) > 40:
            pl = rng.sample(pl, 40)
        cases += pl
    # no annotated component at all; all components empty
    cases += [("no-component", "EMPTY STATEMENT", t) for t in ["", "   ", "no annotated component here", "the (quick) brown [fox]", "word " * 40]]
    cases += [("empty-content", None, t) for t in ["A()", "A( )", "A() I()", "Cac( )"]]
    return cases


def run(args):
    build = prepare(verbose=True)
    V = Verdict("C11", args.tier, args.seed)
    po = check_props(build, FILES)
    for f in po["broken_files"]:
        V.broke("coq:" + f, po["log"])
    if not build.ok_go:
        V.broke("go-build", build.go_log)
        return V.finish(std_coverage(po, 0, 0, "harness did not build", []), po["assumptions"])
    cases = gen(args.tier, args.seed)
    if args.replay:
        rep = json.load(open(args.replay))
        if (rep.get("input") or {}).get("text") is not None:
            cases = [(rep["input"].get("rule", "replay"), rep["input"].get("expected"), rep["input"]["text"])]
    reqs = []
    for rule, code, t in cases:
        reqs.append({"mode": "tab", "stmt": t, "id": "7", "ext": True, "hdr": True})
        reqs.append({"mode": "vis", "stmt": t, "id": "7", "bin": True})
    res = run_pool([build.obs], reqs, NCPU, timeout=90)
    dist = {"rule": {}, "codes": {}}
    planted = 0
    for i, (rule, code, t) in enumerate(cases):
        a, b = res[2 * i], res[2 * i + 1]
        case = {"text": t, "rule": rule, "expected": code}
        dist["rule"][rule] = dist["rule"].get(rule, 0) + 1
        if any(k in a or k in b for k in ("panic", "exit", "timeout")):
            continue   # C10's business
        ea, eb = a.get("err"), b.get("err")
        dist["codes"][str(ea)] = dist["codes"].get(str(ea), 0) + 1
        if rule != "wellformed":
            planted += 1
        if ea != eb:
            V.violation("reject:conversions-disagree", case, observed={"tabular": ea, "visual": eb}, what="the two conversions disagree on accepting the input")
            continue
        if code is None:
            continue
        if ea != code:
            if code == OK:
                V.violation("reject:wellformed-statement-rejected", case, observed={"error": ea}, what="a well-formed statement is rejected")
            elif ea == OK:
                V.violation("reject:violation-accepted:" + rule, case, observed={"error": ea}, expected={"error": code}, what="input that breaks a documented rule is converted")
            else:
                V.violation("reject:unspecific-error:" + rule, case, observed={"error": ea}, expected={"error": code}, what="input that breaks a documented rule is rejected with a different error code")
            continue
        if code != OK and (out_bytes(a) or out_bytes(b)):
            V.violation("reject:output-despite-error", case, observed={"tabular_bytes": len(out_bytes(a)), "visual_bytes": len(out_bytes(b))}, what="a rejected input produces output")
    cov = std_coverage(po, len(cases) * 2, planted,
                       "well-formed base statements (flat, nested to depth 3, component pairs) through both conversions (acceptance and agreement), and each documented rule violation planted at every "
                       "component and every statement level of each base statement (sampled to 40 per statement in the quick tier): unbalanced parentheses and braces, different operators on one level, "
                       "nested combination mixing types, a second component-pair expression, duplicate component, braces on a component that does not nest, empty operand, no annotated component. "
                       "Both conversions must return the rule's specific error code and no output. Non-trivial = planted violation.",
                       [cases[0][2], cases[len(cases) // 2][2]], {"distribution": dist, "endpoint_level": len(cases) * 2, "planted_violations": planted, "exhaustive": False})
    return V.finish(cov, po["assumptions"])
