"""C19 IG Core and IG Extended differ only in how nested statements are shown."""
import copy, json, random
from tab_common import *

FILES = ["Tie/C04_tie.v", "Props/C19.v"]
SID = b"Statement ID"


def has_nested(root):
    for n in top_statement_nodes(root):
        st = n[6][1]
        if any(f in COMPLEX_FIELDS for f, _ in st):
            return True
    return False


def shared_texts(n, acc):
    for x in list(n[4]) + list(n[5]):
        if x:
            acc.append(x)
    if n[0] == 'C':
        shared_texts(n[7], acc)
        shared_texts(n[8], acc)


def stmt_texts(st, acc):
    """Every primitive value text of a statement (leaf texts and the shared texts that belong to the values), nested
    statements and private values included."""
    for f, node in st:
        shared_texts(node, acc)
        for lf in leaves(node):
            for cand in [lf] + list(lf[7]):
                e = cand[6]
                if isinstance(e, bytes):
                    if e:
                        acc.append(e)
                elif isinstance(e, tuple) and e[0] == 'T':
                    stmt_texts(e[1], acc)
                elif isinstance(e, tuple) and e[0] == 'NS':
                    for x in e[1]:
                        for y in top_statement_nodes(x):
                            stmt_texts(y[6][1], acc)
    return acc


def nested_texts_of_field(node):
    acc = []
    for lf in leaves(node):
        e = lf[6]
        if isinstance(e, tuple) and e[0] == 'T':
            stmt_texts(e[1], acc)
        elif isinstance(e, tuple) and e[0] == 'NS':
            for x in e[1]:
                for y in top_statement_nodes(x):
                    stmt_texts(y[6][1], acc)
    return acc


def private_texts_of_field(node):
    """Texts of private property values (at any depth) inside the nested statements of a component."""
    acc = []

    def from_stmt(st, inside_private):
        for f, n in st:
            for lf in leaves(n):
                e = lf[6]
                if inside_private:
                    sh = []
                    shared_texts(n, sh)
                    acc.extend(sh)
                    if isinstance(e, bytes) and e:
                        acc.append(e)
                if isinstance(e, tuple) and e[0] == 'T':
                    from_stmt(e[1], inside_private)
                elif isinstance(e, tuple) and e[0] == 'NS':
                    for x in e[1]:
                        for y in top_statement_nodes(x):
                            from_stmt(y[6][1], inside_private)
                for pv in lf[7]:
                    pe = pv[6]
                    if isinstance(pe, bytes) and pe:
                        acc.append(pe)
                    elif isinstance(pe, tuple) and pe[0] == 'T':
                        from_stmt(pe[1], True)
    for lf in leaves(node):
        e = lf[6]
        if isinstance(e, tuple) and e[0] == 'T':
            from_stmt(e[1], False)
        elif isinstance(e, tuple) and e[0] == 'NS':
            for x in e[1]:
                for y in top_statement_nodes(x):
                    from_stmt(y[6][1], False)
    return acc


@matcher("nested_statement_with_private_property")
def _m_f28(case, k):
    try:
        root = rnode(case["tree"])
    except Exception:
        return False
    for n in top_statement_nodes(root):
        for f, node in n[6][1]:
            if f in COMPLEX_FIELDS and private_texts_of_field(node):
                return True
    return False


def compare(core, ext, V, stats):
    if not core.get("tabs") or not ext.get("tabs"):
        return
    if core["impl"].get("err") != ext["impl"].get("err"):
        V.violation("core-ext:acceptance-differs", {"tree": core["tree"], "text": core.get("text")}, observed={"core": core["impl"].get("err"), "ext": ext["impl"].get("err")},
                    what="one of the two output modes rejects the statement")
        return
    if core["impl"].get("err") != "NO_ERROR_DURING_PARSING":
        return
    case = {"tree": core["tree"], "text": core.get("text"), "opt": core["opt"].key()}
    gs = core["opt"].gs
    tops = top_statement_nodes(core["root"])
    stats["pairs"] += 1
    for j, (tc, te) in enumerate(zip(core["tabs"], ext["tabs"])):
        rc = tc["rows"]
        re_own = own_rows(te["rows"])
        if any(r.get(SID, b"").startswith(b"{") for r in rc) or len(own_rows(rc)) != len(rc):
            V.violation("core-ext:core-has-nested-rows", case, observed={"ids": repr([r.get(SID) for r in rc][:6])}, what="IG Core output contains row groups of nested statements")
            continue
        if len(rc) != len(re_own):
            V.violation("core-ext:top-row-count-differs", case, observed={"core": len(rc), "extended": len(re_own)}, what="the number of top-level atomic statements differs between the modes")
            continue
        bad = False
        for a, b in zip(rc, re_own):
            for k in set(a) | set(b):
                if k.endswith(b"-Ref"):
                    continue
                if a.get(k) != b.get(k):
                    # private nested properties are shown in the property column in IG Core and in the reference column in IG Extended
                    if (k + b"-Ref") in b or (k + b"-Ref") in a:
                        # ... but every value IG Extended shows in the property column is in the IG Core cell as well
                        lost = [x for x in b.get(k, b"").split(b",") if x.strip() and x not in a.get(k, b"")]
                        if not lost:
                            continue
                        V.violation("core-ext:core-cell-lacks-private-value", case, observed={"row": a.get(SID), "column": k, "core": a.get(k), "extended": b.get(k), "lost": repr(lost[:3])},
                                    what="a private property value shown by IG Extended is missing from the IG Core cell")
                        bad = True
                        break
                    V.violation("core-ext:non-reference-cell-differs", case, observed={"row": a.get(SID), "column": k, "core": a.get(k), "extended": b.get(k)},
                                what="a non-reference cell of a top-level row differs between IG Core and IG Extended")
                    bad = True
                    break
            if bad:
                break
        if bad:
            continue
        # IG Extended: one row group per referenced nested statement, reference cells hold IDs
        groups = set()
        for r in te["rows"][len(re_own):]:
            rid = r.get(SID, b"")
            m = re.match(rb"^(\{.*\}\.\d+)(\.\d+)?$", rid)
            groups.add(rid if not m else rid)
        ext_ids = set(r.get(SID) for r in te["rows"])
        for b in re_own:
            # one row group per nested statement: the nested statements of one atomic statement are different statements,
            # so no ID occurs twice among its reference cells
            allrefs = [ref for k, v in b.items() if k.endswith(b"-Ref") for ref in v.split(b",") if ref]
            if len(allrefs) != len(set(allrefs)):
                dup = sorted(set(x for x in allrefs if allrefs.count(x) > 1))
                V.violation("core-ext:extended-reference-shared-by-two-nested-statements", case, observed={"row": b.get(SID), "references": repr(allrefs[:8]), "twice": repr(dup[:3])},
                            what="IG Extended: two different nested statements of one atomic statement are given the same ID (one row group for both)")
                break
            for k, v in b.items():
                if k.endswith(b"-Ref"):
                    for ref in v.split(b","):
                        stats["refs"] += 1
                        if not re.match(rb"^\{.*\}\.\d+$", ref):
                            V.violation("core-ext:extended-reference-is-not-an-id", case, observed={"row": b.get(SID), "column": k, "cell": v}, what="IG Extended reference cell does not hold statement IDs")
                        elif not (ref in ext_ids or any(x.startswith(ref + b".") for x in ext_ids)):
                            V.violation("core-ext:extended-reference-without-rows", case, observed={"row": b.get(SID), "reference": ref}, what="IG Extended references a nested statement that has no row group")
        # IG Core: private nested properties are written into the property cell of their value: every value of each of them
        if j < len(tops):
            st = tops[j][6][1]
            for f, node in st:
                if f in COMPLEX_FIELDS:
                    continue
                ccol = FIELD_SYMBOL[f].encode()
                for lf in leaves(node):
                    if not isinstance(lf[6], bytes) or not lf[6].strip():
                        continue
                    for pv in lf[7]:
                        if isinstance(pv[6], tuple) and pv[6][0] == 'T' and pv[1]:
                            texts = stmt_texts(pv[6][1], [])
                            for a in rc:
                                if adjust_py(lf[6], False) in a.get(ccol, b"") and len(leaves(node)) >= 1 and a.get(ccol, b"").count(b",") == 0:
                                    cell = a.get(pv[1], b"")
                                    stats["core_cells"] += 1
                                    miss = [t for t in texts if t.strip() and adjust_py(t, False) not in cell]
                                    if miss:
                                        V.violation("core-ext:core-cell-lacks-private-nested-value", case, observed={"row": a.get(SID), "column": pv[1], "cell": cell[:300], "missing": repr(miss[:3])},
                                                    what="IG Core property cell does not contain every value of a private nested property of the row's value")
                                        bad = True
                                        break
                        if bad:
                            break
                    if bad:
                        break
                if bad:
                    break
        if bad:
            continue
        # IG Core: the reference cell contains every value of each nested statement of the component
        if j < len(tops):
            st = tops[j][6][1]
            for f, node in st:
                if f not in COMPLEX_FIELDS:
                    continue
                texts = nested_texts_of_field(node)
                col = FIELD_SYMBOL[f].encode() + b"-Ref"
                for a in rc:
                    cell = a.get(col, b"")
                    stats["core_cells"] += 1
                    miss = [t for t in texts if adjust_py(t, False) not in cell]
                    if miss and all(t in private_texts_of_field(node) for t in miss):
                        # known finding F28: the flat text of a nested statement leaves out the values of private properties
                        V.violation("core-ext:core-cell-lacks-nested-private-value", case, observed={"row": a.get(SID), "column": col, "cell": cell[:300], "missing": repr(miss[:3])},
                                    what="IG Core reference cell does not contain the private property values of a nested statement")
                        break
                    if miss:
                        V.violation("core-ext:core-cell-lacks-value", case, observed={"row": a.get(SID), "column": col, "cell": cell[:300], "missing": repr(miss[:3])},
                                    what="IG Core reference cell does not contain every value of the nested statements")
                        break


def run(args):
    build = prepare(verbose=True)
    V = Verdict("C19", args.tier, args.seed)
    po = check_props(build, FILES)
    for f in po["broken_files"]:
        V.broke("coq:" + f, po["log"])
    if not build.ok_go:
        V.broke("go-build", build.go_log)
        return V.finish(std_coverage(po, 0, 0, "harness did not build", []), po["assumptions"])
    base = gen_tab_cases(args.tier, args.seed, salt=190, n_trees=1800 if args.tier == "quick" else 20000, n_texts=260 if args.tier == "quick" else 3000, max_rows=128)
    if args.replay:
        rep = json.load(open(args.replay))
        inp = rep.get("input") or {}
        if inp.get("text"):
            base = [{"stream": "P", "text": inp["text"], "opt": Opt(), "id": b"7", "orig": b""}]
        elif inp.get("tree"):
            base = [{"stream": "T", "root": rnode(inp["tree"]), "tree": inp["tree"], "opt": Opt(), "id": b"7", "orig": b"", "igs": b""}]
    cases = []
    for c in base:
        if c["stream"] == "T" and not has_nested(c["root"]):
            continue
        if c["stream"] == "P" and not (TX.has(c["parts"], 'nested') or TX.has(c["parts"], 'ncombo')) if c.get("parts") else False:
            continue
        a, b = dict(c), dict(c)
        a["opt"], b["opt"] = copy.copy(c["opt"]), copy.copy(c["opt"])
        a["opt"].ext, b["opt"].ext = False, True
        cases += [a, b]
    mism = run_tab_cases(build, cases, V, want_spec=False)
    stats = {"pairs": 0, "refs": 0, "core_cells": 0}
    for i in range(0, len(cases), 2):
        if cases[i].get("root") is not None:
            compare(cases[i], cases[i + 1], V, stats)
    if mism["crash"]:
        V.broke("correspondence:tab-crash", "%d built trees made the implementation panic where the model does not" % mism["crash"])
    dist = {"stream": {}}
    for c in cases[::2]:
        dist["stream"][c["stream"]] = dist["stream"].get(c["stream"], 0) + 1
    cov = std_coverage(po, len(cases), stats["pairs"],
                       "every case is exported twice (IG Core / IG Extended, all other options equal): T = built roots with nested statements (depth up to 5, nested combinations, nested pair combinations, "
                       "private nested properties), P = parsed statements with nested statements (depth <= 3); both output formats, annotations on/off. Non-trivial = accepted pair of tables compared.",
                       [c.get("text") or c["tree"][:300] for c in cases[:1] + cases[-2:]],
                       {"distribution": dist, "tree_level": dist["stream"].get("T", 0), "endpoint_level": dist["stream"].get("P", 0), "pairs_compared": stats["pairs"],
                        "extended_references": stats["refs"], "core_reference_cells": stats["core_cells"], "correspondence_mismatches": mism, "exhaustive": False})
    return V.finish(cov, po["assumptions"])
