"""C02 Nested statements and their combinations attach where and how they are written."""
import itertools, json, random, re
from common import *
from pool import run_pool
from sxp import *
import gen_text as TX

FILES = ["Tie/C02_tie.v", "Props/C02.v"]


def simple_stmt(tg, rng, n=None, combos=True):
    syms = rng.sample(['A', 'I', 'D', 'Bdir', 'Cac', 'Cex', 'E', 'F', 'M', 'P', 'Bind'], n or rng.randint(1, 3))
    parts = []
    for s in syms:
        if combos and rng.random() < 0.3:
            parts.append(('comp', s, '', '', ('comb', '', tg.tree(2), '')))
        else:
            parts.append(('comp', s, '', '', ('leaf', tg.word())))
    return parts


def nest_chain(tg, rng, sym, depth):
    """sym{ ... sym2{ ... } } to the given depth: every level a complete statement."""
    inner = simple_stmt(tg, rng)
    for d in range(depth):
        s = sym if d == depth - 1 else rng.choice(TX.NEST_NONPROP)
        inner = simple_stmt(tg, rng, rng.randint(1, 2), combos=False) + [('nested', s, '', tg.annot() if rng.random() < 0.3 else '', inner)] if d < depth - 1 else [('nested', s, '', tg.annot() if rng.random() < 0.3 else '', inner)]
    return inner


def ntree_shapes(k):
    yield from TX.tree_shapes(k)


def fill_ntree(t, sym, tg, rng):
    if t[0] == 'leaf':
        return ('leaf', ('nested', sym, '', '', simple_stmt(tg, rng, rng.randint(1, 2), combos=rng.random() < 0.3)))
    return ('op', t[1], fill_ntree(t[2], sym, tg, rng), fill_ntree(t[3], sym, tg, rng))


def gen(tier, seed):
    rng = random.Random(seed * 211 + 2)
    tg = TX.TG(rng, annot_p=0.2, shared_p=0.2)
    cases = []
    syms = TX.NEST
    base = lambda: [('comp', 'A', '', '', ('leaf', tg.word())), ('comp', 'I', '', '', ('leaf', tg.word()))]
    for sym in syms:
        b0 = [p for p in base() if TX.SYM_FIELD[p[1]] != TX.SYM_FIELD.get(sym)]
        # N1: nesting chains to depth 4
        for depth in ((1, 2, 3, 4) if tier == "thorough" else (1, 2 + (seed + len(sym)) % 3)):
            cases.append(("N1", b0 + nest_chain(tg, rng, sym, depth)))
        # N2: several nested statements of one type (implicit conjunction)
        for n in (2, 3):
            cases.append(("N2", b0 + [('nested', sym, '', '', simple_stmt(tg, rng, 2, combos=False)) for _ in range(n)]))
        # N3: braced combinations: every operator tree with 2 and 3 statements (4: sampled), brace-indicated precedence
        shapes = list(ntree_shapes(2)) + list(ntree_shapes(3))
        four = list(ntree_shapes(4))
        shapes += rng.sample(four, 6 if tier == "quick" else 60)
        if tier == "quick":
            shapes = rng.sample(shapes, 8)
        for sh in shapes:
            cases.append(("N3", b0 + [('ncombo', sym, fill_ntree(sh, sym, tg, rng))]))
        # N4: simple and nested values of the same component coexist
        if sym in TX.PAREN:
            cases.append(("N4", [p for p in base() if p[1] != sym] + [('comp', sym, '', '', ('leaf', tg.word())), ('nested', sym, '', '', simple_stmt(tg, rng, 2))]))
    # N5: two braced combinations on one level: of the same type (implicit conjunction of the two) and of two different types
    #     (each under its own component), every ordered pair of symbols in the thorough tier, a rotating sample otherwise
    pairs2 = [(a, b) for a in syms for b in syms]
    if tier == "quick":
        pairs2 = [pairs2[(seed * 7 + 5 * k) % len(pairs2)] for k in range(10)] + [(s_, s_) for s_ in syms]
    two = list(ntree_shapes(2))
    for a, b in pairs2:
        b0 = [p for p in base() if TX.SYM_FIELD[p[1]] not in (TX.SYM_FIELD.get(a), TX.SYM_FIELD.get(b))]
        cases.append(("N5", b0 + [('ncombo', a, fill_ntree(rng.choice(two), a, tg, rng)), ('ncombo', b, fill_ntree(rng.choice(two), b, tg, rng))]))
    # N6: sibling nested statements of one type joined by one written operator (no enclosing braces), 2 and 3 members
    # N7: two sibling nested statements (implicit conjunction, or a written operator) next to a simple component that holds
    #     a combination with ANOTHER operator: the operator between the siblings is the one written between them, whatever
    #     operators occur inside the other components
    for sym in (syms if tier == "thorough" else [syms[(seed + k) % len(syms)] for k in range(4)]):
        b0 = [p for p in base() if TX.SYM_FIELD[p[1]] != TX.SYM_FIELD.get(sym)]
        for n in (2, 3):
            for op in TX.OPS:
                cases.append(("N6", b0 + [('nsib', sym, op, [simple_stmt(tg, rng, 2, combos=False) for _ in range(n)])]))
    # N8: sibling nested statements whose members hold a combination in parentheses of its own followed by other components
    for _ in range(6 if tier == "quick" else 80):
        sym = rng.choice(['Cac', 'Cex', 'Bdir', 'Bind'])

        def member():
            st = [('comp', 'A', '', '', ('leaf', tg.word())),
                  ('comp', 'I', '', '', ('comb', '', ('sh', '', ('op', rng.choice(TX.OPS), ('leaf', tg.word()), ('leaf', tg.word())), ''), '')),
                  ('comp', rng.choice(['Bdir', 'Cex'] if sym not in ('Bdir', 'Cex') else ['Bind', 'E']), '', '', ('leaf', tg.word()))]
            rng.shuffle(st)
            return st
        cases.append(("N8", base() + [('nsib', sym, rng.choice(TX.OPS), [member() for _ in range(rng.choice([2, 2, 3]))])]))
    others = [x for x in TX.PAREN]
    for k, sym2 in enumerate(others):
        sym = syms[(seed + k) % len(syms)]
        if TX.SYM_FIELD.get(sym) == TX.SYM_FIELD[sym2] or sym2 in ('A', 'I'):
            continue
        inner_op, sib_op = rng.sample(TX.OPS, 2)
        extra = ('comp', sym2, '', '', ('comb', '', ('op', inner_op, ('leaf', tg.word()), ('leaf', tg.word())), ''))
        b0 = [p for p in base() if TX.SYM_FIELD[p[1]] not in (TX.SYM_FIELD.get(sym), TX.SYM_FIELD[sym2])]
        cases.append(("N7", b0 + [extra] + [('nested', sym, '', '', simple_stmt(tg, rng, 2, combos=False)) for _ in range(2)]))
        cases.append(("N7", b0 + [extra, ('nsib', sym, sib_op, [simple_stmt(tg, rng, 2, combos=False) for _ in range(2)])]))
    # S: random statements with nesting (depth <= 3), nested statements containing combinations and nested statements
    for _ in range(60 if tier == "quick" else 1500):
        cases.append(("S", tg.stmt(rng.choice([1, 2, 3]), maxleaves=2, allow_pairs=False, nest_syms=TX.NEST_NONPROP)))
    return cases


def member_contains_nesting(parts):
    """Some member of a braced combination of nested statements itself contains a nested statement, a combination of nested
    statements or component pairs (at any level)."""
    def stmt_has_nesting(st):
        return any(p[0] in ('nested', 'ncombo', 'pairs') for p in st)

    def nt(t):
        if t[0] == 'leaf':
            return stmt_has_nesting(t[1][4]) or walk(t[1][4])
        return nt(t[2]) or nt(t[3])

    def walk(st):
        for p in st:
            if p[0] == 'ncombo' and nt(p[2]):
                return True
            if p[0] == 'nested' and walk(p[4]):
                return True
        return False
    return walk(parts)


def ncombo_in_nested_with_siblings(parts, depth=0):
    """A combination of nested statements sits inside a nested statement next to two or more other parts."""
    for p in parts:
        if p[0] == 'ncombo':
            if depth >= 1 and len(parts) >= 3:
                return True
            stack = [p[2]]
            while stack:
                t = stack.pop()
                if t[0] == 'leaf':
                    if ncombo_in_nested_with_siblings(t[1][4], depth + 1):
                        return True
                else:
                    stack += [t[2], t[3]]
        elif p[0] == 'nested' and ncombo_in_nested_with_siblings(p[4], depth + 1):
            return True
    return False


@matcher("nested_combination_inside_nested_statement")
def _m_f24(case, k):
    try:
        return ncombo_in_nested_with_siblings(json.loads(case["ast"]))
    except Exception:
        return False


@matcher("nested_combination_member_contains_nesting")
def _m_f16(case, k):
    try:
        return member_contains_nesting(json.loads(case["ast"]))
    except Exception:
        return False


def skeleton(text):
    return re.sub(r"[a-z]+\d+( (of things|items|and more stuff|x))?", "w", text)


def run(args):
    build = prepare(verbose=True)
    V = Verdict("C02", args.tier, args.seed)
    po = check_props(build, FILES)
    for f in po["broken_files"]:
        V.broke("coq:" + f, po["log"])
    if not build.ok_go:
        V.broke("go-build", build.go_log)
        return V.finish(std_coverage(po, 0, 0, "harness did not build", []), po["assumptions"])
    cases = gen(args.tier, args.seed)
    texts = [TX.r_stmt(p) for _, p in cases]
    if args.replay:
        rep = json.load(open(args.replay))
        if (rep.get("input") or {}).get("text"):
            texts = [rep["input"]["text"]]
            cases = [("R", None)]
    res = run_pool([build.obs], [{"mode": "parse", "stmt": t} for t in texts], NCPU, timeout=90)

    def outcome(parts, r):
        if "timeout" in r:
            return "slow", None          # no answer within the pool's limit (load): termination is C10's business
        if "panic" in r or "exit" in r:
            return "crash", None
        if r.get("err") != "NO_ERROR_DURING_PARSING":
            return "rejected:" + str(r.get("err")), None
        got = TX.strip_full(rnode(r["nodes"][0]))
        exp = TX.strip_full(TX.d_root(parts))
        return ("ok", None) if got == exp else ("differs", (got, exp))

    def probe(parts):
        return outcome(parts, run_pool([build.obs], [{"mode": "parse", "stmt": TX.r_stmt(parts)}], 1, timeout=90)[0])[0]
    dist = {"stream": {}, "outcome": {}, "depth": {}}
    nontrivial, budget = 0, (6 if args.tier == "quick" else 40)
    for (stream, parts), t, r in zip(cases, texts, res):
        dist["stream"][stream] = dist["stream"].get(stream, 0) + 1
        if parts is None:
            print(json.dumps(r)[:2000])
            continue
        d = TX.nest_depth(parts)
        dist["depth"][d] = dist["depth"].get(d, 0) + 1
        oc, detail = outcome(parts, r)
        dist["outcome"][oc] = dist["outcome"].get(oc, 0) + 1
        nontrivial += 1 if d >= 1 else 0
        if oc in ("ok", "slow"):
            continue
        small = parts
        if member_contains_nesting(parts):
            sig = "nested:combination-member-with-nesting:" + ("rejected" if oc.startswith("rejected") else oc)
            V.violation(sig, {"text": t, "ast": json.dumps(parts)}, observed={"outcome": oc},
                        what="a combination of nested statements whose member itself contains nesting is rejected or attached at the wrong level")
            continue
        if ncombo_in_nested_with_siblings(parts):
            V.violation("nested:combination-inside-nested-statement:" + ("rejected" if oc.startswith("rejected") else oc), {"text": t, "ast": json.dumps(parts)}, observed={"outcome": oc},
                        what="a nested statement that contains a combination of nested statements next to other components is mis-read")
            continue
        if budget > 0:
            budget -= 1
            small = TX.shrink(parts, lambda v: probe(v) == oc and not member_contains_nesting(v) and not ncombo_in_nested_with_siblings(v), budget=30)
        st = TX.r_stmt(small)
        case = {"text": st, "original": t, "ast": json.dumps(small)}
        if oc == "crash":
            V.violation("nested:crash", case, what="a well-formed statement with nesting crashes or hangs the parser")
        elif oc.startswith("rejected"):
            V.violation("nested:wellformed-statement-" + oc, case, what="a well-formed statement with nested statements is rejected")
        else:
            V.violation("nested:tree-differs-from-written", case, observed=repr(detail[0])[:600] if small is parts else None, expected=repr(detail[1])[:600] if small is parts else None,
                        what="a nested statement (or combination of nested statements) is not attached where and how it is written")
    cov = std_coverage(po, len(cases), nontrivial,
                       "N1: nesting chains to depth 4 on each of the 11 nesting-capable symbols; N2: 2-3 nested statements of one type; N3: braced combinations of nested statements: operator trees with "
                       "2-4 statements and brace-indicated precedence; N4: simple and nested value of the same component; S: random statements with nesting depth <= 3. ParseStatement's tree (all levels) "
                       "is compared with the denotation of the generating AST; failing cases are minimised on the AST. Non-trivial = statement with nesting depth >= 1.",
                       [texts[0], texts[len(texts) // 2]], {"distribution": dist, "endpoint_level": len(cases), "exhaustive": False})
    return V.finish(cov, po["assumptions"])
