"""C18 Order of different components and unannotated text do not matter."""
import itertools, json, random
from common import *
from pool import run_pool, out_bytes
from sxp import *
import gen_text as TX
import props.c02 as C02
import props.c03 as C03

FILES = ["Props/C18.v"]
FILLERS = ["the", "of course", "then,", "in 2020", "shall", "unless otherwise stated;", "and", "-", "x1 y2", "which, if any", "7", "...", "e.g.", "§ 3", "-- ;",
           "in either of 2 cases:", "option 1:", "note: see above", "a/b", "50% + 1", "yes!", "~ approx.", "#4", "it's"]   # punctuation of the documented symbol set (SPECIAL_SYMBOLS); no brackets


def type_of(p):
    if p[0] in ('comp', 'nested'):
        return p[1]
    if p[0] == 'ncombo':
        return p[1]
    return p[0]          # 'pairs', 'fill'


def stable_perms(parts, rng, limit=6):
    """Permutations that keep parts of the same component type in their relative order."""
    core = [p for p in parts if p[0] != 'fill']
    n = len(core)
    seen, out = set(), []
    idxs = list(range(n))
    cand = list(itertools.permutations(idxs)) if n <= 4 else [tuple(rng.sample(idxs, n)) for _ in range(60)]
    rng.shuffle(cand)
    for perm in cand:
        # restore the relative order of equal types
        by = {}
        for i in sorted(perm):
            by.setdefault(type_of(core[i]), []).append(i)
        it = {k: iter(v) for k, v in by.items()}
        fixed = tuple(next(it[type_of(core[i])]) for i in perm)
        if fixed in seen or fixed == tuple(idxs):
            continue
        seen.add(fixed)
        out.append([core[i] for i in fixed])
        if len(out) >= limit:
            break
    return out


def perm_inner(parts, rng):
    """The parts inside every nested statement (also the members of sibling / braced combinations) in another order;
    parts of the same component type keep their relative order."""
    def shuffled(st):
        st = [inner(p) for p in st]
        if len(st) < 2:
            return st
        idx = list(range(len(st)))
        rng.shuffle(idx)
        by = {}
        for i in sorted(idx):
            by.setdefault(type_of(st[i]), []).append(i)
        it = {k: iter(v) for k, v in by.items()}
        return [st[next(it[type_of(st[i])])] for i in idx]

    def inner(p):
        if p[0] == 'nested':
            return ('nested', p[1], p[2], p[3], shuffled(p[4]))
        if p[0] == 'nsib':
            return ('nsib', p[1], p[2], [shuffled(st) for st in p[3]])
        if p[0] == 'ncombo':
            def nt(t):
                return ('leaf', inner(t[1])) if t[0] == 'leaf' else ('op', t[1], nt(t[2]), nt(t[3]))
            return ('ncombo', p[1], nt(p[2])) + tuple(p[3:])
        return p
    return [inner(p) for p in parts]


def norm_commutative(dump):
    """A parse dump with the operands of the operator chain at the top of every nested component sorted: the order in which
    the parser joins sibling nested statements depends on its extraction passes (DESIGN.md 9.4), not on what is written."""
    def chain(x, op):
        if x[0] == 'C' and x[6] == op and not x[4] and not x[5] and not x[2] and not x[3]:
            return chain(x[7], op) + chain(x[8], op)
        return [x]

    def node(n, complex_root=False):
        if n[0] == 'L':
            e = n[6]
            if isinstance(e, tuple) and e[0] == 'T':
                e = ('T', [(f, node(x, f in TX.COMPLEX_FIELD_NAMES)) for f, x in e[1]])
            elif isinstance(e, tuple) and e[0] == 'NS':
                e = ('NS', [node(x) for x in e[1]])
            return ('L', n[1], n[2], n[3], n[4], n[5], e, [node(x) for x in n[7]])
        if complex_root:
            ops = sorted((node(o) for o in chain(n, n[6])), key=repr)
            return ('chain', n[1], n[6], ops)
        return ('C', n[1], n[2], n[3], n[4], n[5], n[6], node(n[7]), node(n[8]))
    try:
        return node(rnode(dump))
    except Exception:
        return dump


def with_filler(parts, rng, everywhere=True):
    """Unannotated words at every gap, at top level and inside nested statements."""
    def deep(p):
        if p[0] == 'nested':
            return ('nested', p[1], p[2], p[3], with_filler(p[4], rng))
        if p[0] == 'ncombo':
            def nt(t):
                return ('leaf', deep(t[1])) if t[0] == 'leaf' else ('op', t[1], nt(t[2]), nt(t[3]))
            # also between the opening brace of the combination and its first member
            return ('ncombo', p[1], nt(p[2]), rng.choice(FILLERS))
        if p[0] == 'nsib':
            return ('nsib', p[1], p[2], [with_filler(st, rng) for st in p[3]])
        if p[0] == 'pairs':
            def pt(t):
                if t[0] == 'leaf':
                    return ('leaf', [('fill', rng.choice(FILLERS))] + [deep(c) for c in t[1]])
                return ('op', t[1], pt(t[2]), pt(t[3]))
            return ('pairs', pt(p[1]))
        return p
    out = []
    for p in parts:
        if p[0] == 'fill':
            continue
        if everywhere or rng.random() < 0.5:
            out.append(('fill', rng.choice(FILLERS)))
        out.append(deep(p))
    out.append(('fill', rng.choice(FILLERS)))
    return out


def lead_in_combination(parts):
    """Some braced combination of nested statements (at any depth) has unannotated text before its first member."""
    for p in parts:
        if p[0] == 'ncombo':
            if len(p) > 3 and p[3]:
                return True
            stack = [p[2]]
            while stack:
                t = stack.pop()
                if t[0] == 'leaf':
                    if lead_in_combination(t[1][4]):
                        return True
                else:
                    stack += [t[2], t[3]]
        elif p[0] == 'nested' and lead_in_combination(p[4]):
            return True
        elif p[0] == 'pairs':
            stack = [p[1]]
            while stack:
                t = stack.pop()
                if t[0] == 'leaf':
                    if lead_in_combination(t[1]):
                        return True
                else:
                    stack += [t[2], t[3]]
    return False


def only_suffixes_differ(a, b):
    """Two parse observations (error code, node dumps) are equal once every suffix field is blanked."""
    if a[0] != b[0] or len(a[1]) != len(b[1]):
        return False

    def blank(n):
        if n[0] == 'L':
            e = n[6]
            if isinstance(e, tuple) and e[0] == 'T':
                e = ('T', [(f, blank(x)) for f, x in e[1]])
            elif isinstance(e, tuple) and e[0] == 'NS':
                e = ('NS', [blank(x) for x in e[1]])
            return ('L', n[1], None, n[3], n[4], n[5], e, [blank(x) for x in n[7]])
        return ('C', n[1], None, n[3], n[4], n[5], n[6], blank(n[7]), blank(n[8]))
    try:
        return all(blank(rnode(x)) == blank(rnode(y)) for x, y in zip(a[1], b[1]))
    except Exception:
        return False


@matcher("filler_after_opening_brace_of_nested_combination")
def _m_f27(case, k):
    return bool(case.get("lead_in_combination"))


def gen(tier, seed):
    rng = random.Random(seed * 409 + 18)
    tg = TX.TG(rng, annot_p=0.25, shared_p=0.25)
    bases = []
    for _ in range(26 if tier == "quick" else 500):
        parts = tg.stmt(0, ncomp=rng.randint(2, 5), allow_pairs=False, maxleaves=3)
        bases.append(("flat", parts))
    # nested statements of different types on one level, in particular a component and its property both nested
    for comp, prop in TX.PRIV_PAIRS:
        if comp in TX.NEST and prop in TX.NEST:
            mk = lambda s: ('nested', s, '', '', C02.simple_stmt(tg, rng, 2, combos=False))
            bases.append(("nested", [('comp', 'A' if comp != 'A' else 'D', '', '', ('leaf', tg.word())), mk(comp), mk(prop), ('comp', 'I', '', '', ('leaf', tg.word()))]))
            bases.append(("nested", [mk(prop), mk(prop), mk(comp), ('comp', 'Cex', '', '', ('leaf', tg.word()))]))
    for _ in range(14 if tier == "quick" else 300):
        bases.append(("nested", tg.stmt(rng.choice([1, 2]), maxleaves=2, allow_pairs=False, nest_syms=TX.NEST, nest_p=1.0)))
    # sibling nested statements joined by a written operator (no braces); members hold a combination in parentheses of its
    # own followed by other components
    for _ in range(8 if tier == "quick" else 120):
        sym = rng.choice(['Cac', 'Cex', 'Bdir', 'Bind'])
        def member():
            st = [('comp', 'A', '', '', ('leaf', tg.word())),
                  ('comp', 'I', '', '', ('comb', '', ('sh', '', ('op', rng.choice(TX.OPS), ('leaf', tg.word()), ('leaf', tg.word())), ''), '')),
                  ('comp', rng.choice(['Bdir', 'Cex'] if sym not in ('Bdir', 'Cex') else ['Bind', 'E']), '', '', ('leaf', tg.word()))]
            rng.shuffle(st)
            return st
        bases.append(("siblings", [('comp', 'A', '', '', ('leaf', tg.word())), ('comp', 'I', '', '', ('leaf', tg.word())),
                                   ('nsib', sym, rng.choice(['XOR', 'OR']), [member() for _ in range(2)])]))
    c3 = [c for c in C03.gen("quick", seed) if c[0] == "P1"]
    for _, parts in c3[:8 if tier == "quick" else 22]:
        bases.append(("pairs", parts))
    cases = []
    for kind, parts in bases:
        if C02.member_contains_nesting(parts) or C02.ncombo_in_nested_with_siblings(parts) or C03.pairs_in_nested_with_sibling_combination(parts):
            continue     # outside the region the parser accepts (known findings of C02 / C03)
        vs = [("perm", v) for v in stable_perms(parts, rng, 5)]
        if any(p[0] in ('nested', 'nsib', 'ncombo') for p in parts):
            vs.append(("perm-inner", perm_inner(parts, rng)))
            vs.append(("perm-inner", perm_inner(parts, rng)))
        vs.append(("filler", with_filler(parts, rng)))
        vs.append(("filler", with_filler(parts, rng, everywhere=False)))
        if vs and vs[0][0] == "perm":
            vs.append(("perm+filler", with_filler(vs[0][1], rng)))
        cases.append((kind, parts, vs))
    return cases


def run(args):
    build = prepare(verbose=True)
    V = Verdict("C18", args.tier, args.seed)
    po = check_props(build, FILES)
    for f in po["broken_files"]:
        V.broke("coq:" + f, po["log"])
    if not build.ok_go:
        V.broke("go-build", build.go_log)
        return V.finish(std_coverage(po, 0, 0, "harness did not build", []), po["assumptions"])
    cases = gen(args.tier, args.seed)
    if args.replay:
        rep = json.load(open(args.replay))
        inp = rep.get("input") or {}
        if inp.get("base") and inp.get("variant"):
            cases = [("R", None, [("replay", None)])]
            texts_override = (inp["base"], inp["variant"])
    reqs, index = [], []
    for ci, (kind, parts, vs) in enumerate(cases):
        texts = [TX.r_stmt(parts)] + [TX.r_stmt(v) for _, v in vs] if parts is not None else list(texts_override)
        for vi, t in enumerate(texts):
            for mode in ("parse", "tab", "vis"):
                q = {"mode": mode, "stmt": t, "id": "7"}
                if mode == "tab":
                    q.update({"ext": True, "hdr": False, "anno": True})
                if mode == "vis":
                    q.update({"bin": True, "anno": True, "dov": True})
                reqs.append(q)
                index.append((ci, vi, mode, t))
    res = run_pool([build.obs], reqs, NCPU, timeout=90)
    table = {}
    for (ci, vi, mode, t), r in zip(index, res):
        if "timeout" in r:
            obs = None                   # no answer within the pool's limit (load): not compared
        elif "panic" in r or "exit" in r:
            obs = ("crash",)
        elif mode == "parse":
            obs = (r.get("err"), tuple(r.get("nodes") or []))
        else:
            obs = (r.get("err"), out_bytes(r))
        table[(ci, vi, mode)] = (t, obs)
    dist = {"kind": {}, "variant": {}, "base_outcome": {}}
    n_var = 0
    for ci, (kind, parts, vs) in enumerate(cases):
        dist["kind"][kind] = dist["kind"].get(kind, 0) + 1
        base_t, base_parse = table[(ci, 0, "parse")]
        if base_parse is None:
            dist["base_outcome"]["slow"] = dist["base_outcome"].get("slow", 0) + 1
            continue
        dist["base_outcome"][str(base_parse[0])] = dist["base_outcome"].get(str(base_parse[0]), 0) + 1
        for vi, (vk, _) in enumerate(vs, start=1):
            n_var += 1
            dist["variant"][vk] = dist["variant"].get(vk, 0) + 1
            for mode in ("parse", "tab", "vis"):
                t, obs = table[(ci, vi, mode)]
                b = table[(ci, 0, mode)][1]
                if obs is None or b is None:
                    continue
                if vk == "perm-inner":
                    # reordering inside nested statements: the parsed statement up to the order in which sibling nested
                    # statements are joined (the exports number the nested statements in that order)
                    if mode != "parse":
                        continue
                    if obs[0] == b[0] and [norm_commutative(x) for x in obs[1]] == [norm_commutative(x) for x in b[1]]:
                        continue
                if obs != b:
                    if "filler" in vk and lead_in_combination(vs[vi - 1][1]):
                        # known finding F27: text between the opening brace of a combination of nested statements and its first
                        # member (or precedence group)
                        V.violation("invariance:filler-after-combination-brace", {"base": base_t, "variant": t, "transformation": vk, "lead_in_combination": True},
                                    observed={"suffix_only": only_suffixes_differ(table[(ci, vi, "parse")][1], table[(ci, 0, "parse")][1])},
                                    what="unannotated text after the opening brace of a combination of nested statements changes the parsed statement")
                        break
                    what = {"parse": "the parsed statement", "tab": "the tabular export", "vis": "the visual export"}[mode]
                    d = None
                    if len(obs) > 1 and len(b) > 1 and isinstance(obs[1], bytes):
                        d = first_diff(obs[1], b[1], 80)
                    V.violation("invariance:%s-changes:%s" % (mode, vk.split("+")[0]), {"base": base_t, "variant": t, "transformation": vk},
                                observed={"outcome": str(obs[0]), "diff": d}, expected={"outcome": str(b[0])},
                                what="%s changes when %s" % (what, "components of different types are reordered" if vk.startswith("perm") else "unannotated text is inserted"))
                    break
    cov = std_coverage(po, len(reqs), n_var,
                       "base statements: flat (2-5 components, combinations, repeated annotations), nested (two nested statements of different types on one level incl. a component and its property, "
                       "random nesting depth <= 2), component pairs; variants: up to 5 permutations that keep same-type parts in order, unannotated words/digits/punctuation at every gap (also inside "
                       "nested statements) and at some gaps, and a permutation plus filler. For every variant the parser's tree dump, the tabular export (IG Extended, annotations) and the visual export "
                       "(binary, annotations, DoV) must equal those of the base statement byte for byte. Non-trivial = variant.",
                       [table[(0, 0, "parse")][0], table[(0, 1, "parse")][0]], {"distribution": dist, "endpoint_level": len(reqs), "bases": len(cases), "variants": n_var, "exhaustive": False})
    return V.finish(cov, po["assumptions"])
