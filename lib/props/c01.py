"""C01 Components and combinations are parsed exactly as written."""
import itertools, json, random
from common import *
from pool import run_pool, run_lines
from sxp import *
import gen_text as TX

FILES = ["Props/C01.v"]


def explicit(t):
    """Rendering with every pair of parentheses written (no same-operator chains)."""
    return TX.r_tree(t, chain_ok=False)


def gen_pint(tier, seed):
    """Expressions for the combination parser alone: every operator tree up to 4 leaves over [AND]/[OR]/[XOR] in both
    renderings, with shared text around inner combinations, plus token-level mutations (malformed input)."""
    rng = random.Random(seed * 17 + 1)
    out = []
    for k in range(1, 5):
        for sh in TX.tree_shapes(k):
            t = TX.number_leaves(sh, [0])
            out.append(explicit(t))
            c = TX.r_tree(t, chain_ok=True)
            if c != out[-1]:
                out.append(c)
            if k >= 2:
                out.append(out[-1][1:-1])          # without the outermost parentheses
    # shared text left/right of inner combinations, whitespace variations
    extra = []
    for e in rng.sample(out, min(len(out), 220)):
        if e.startswith("("):
            extra.append("pre " + e + " post")
            extra.append("(" + "in " + e + " out) [OR] z")
            extra.append("((in " + e + " out) [XOR] z)")
            extra.append(" " + e + "  ")
    # malformed: token-level mutations
    toks = ["(", ")", "[AND]", "[OR]", "[XOR]", " ", "a", "[", "]", "[NOT]"]
    mut = []
    for e in rng.sample(out, min(len(out), 260 if tier == "quick" else 2000)):
        for _ in range(2):
            i = rng.randrange(len(e) + 1)
            kind = rng.random()
            if kind < 0.4:
                mut.append(e[:i] + rng.choice(toks) + e[i:])
            elif kind < 0.7 and e:
                mut.append(e[:i] + e[i + 1:])
            else:
                j = rng.randrange(len(e) + 1)
                mut.append(e[:min(i, j)] + e[max(i, j):])
    return out + extra + [m for m in mut if "\n" not in m]


def gen_statements(tier, seed):
    rng = random.Random(seed * 101 + 1)
    cases = []
    syms = TX.PAREN if tier == "thorough" else [TX.PAREN[(seed * 3 + k * 5) % 16] for k in range(3)]
    # E: every tree shape up to 4 leaves, both renderings, on the chosen symbols
    for sym in syms:
        other = 'I' if sym != 'I' else 'A'
        for k in range(1, 5):
            for sh in TX.tree_shapes(k):
                t = TX.number_leaves(sh, [0], word=lambda i: "w%d" % i)
                content = ('leaf', t[1]) if k == 1 else ('comb', '', t, '')
                for chain in ((True, False) if k >= 3 else (True,)):
                    cases.append(("E", [('comp', other, '', '', ('leaf', 'base')), ('comp', sym, '', '', content)], chain))
    # S: structured sample: up to 8 components, depth <= 4, shared text (component level and around inner combinations),
    # suffixes without matching property, annotations, unannotated words between the parts, repeated annotations of one type
    tg = TX.TG(rng, suffix_p=0.0, annot_p=0.3, shared_p=0.35, fill_p=0.3)

    def rnd_tree(n, depth):
        if n == 1 or depth == 0:
            return ('leaf', tg.word())
        k = rng.randint(1, n - 1)
        t = ('op', rng.choice(TX.OPS), rnd_tree(k, depth - 1), rnd_tree(n - k, depth - 1))
        if rng.random() < 0.25:
            t = ('sh', tg.word() if rng.random() < 0.7 else '', t, tg.word() if rng.random() < 0.7 else '')
            if not t[1] and not t[3]:
                t = t[2]
        return t
    for i in range(260 if tier == "quick" else 5000):
        n = rng.randint(1, 8)
        pool = list(TX.PAREN)
        rng.shuffle(pool)
        parts = []
        for sym in pool[:n]:
            k = rng.choice([1, 1, 2, 2, 3, 4, 5])
            if k == 1:
                c = ('leaf', tg.word())
            else:
                t = rnd_tree(k, 4)
                while t[0] == 'sh':
                    t = t[2]
                if t[0] == 'leaf':
                    c = t
                else:
                    c = ('comb', tg.word() if rng.random() < 0.3 else '', t, tg.word() if rng.random() < 0.3 else '')
            suf = str(rng.randint(1, 9)) if (rng.random() < 0.25 and ',p' not in sym and (sym + ',p') not in pool[:n] and sym not in ('I',)) else ''
            parts.append(('comp', sym, suf, tg.annot(), c))
            if rng.random() < 0.15:
                parts.append(('comp', sym, '', '', ('leaf', tg.word())))
        rng.shuffle(parts)
        out = []
        for p in parts:
            if rng.random() < 0.3:
                out.append(('fill', rng.choice(TX.FILL)))
            out.append(p)
        cases.append(("S", out, True))
    # H: three and four levels of combinations with text outside the combination at several levels on the same side:
    # the text of every enclosing level is shared by the innermost values
    for i in range(36 if tier == "quick" else 400):
        sym = rng.choice([x for x in TX.PAREN if ',p' not in x])
        side = i % 3                      # 0 left, 1 right, 2 both
        def shw(p=1.0):
            return tg.word() if rng.random() < p else ''
        def wrap(t, p):
            l, r = (shw(p) if side in (0, 2) else ''), (shw(p) if side in (1, 2) else '')
            return ('sh', l, t, r) if (l or r) else t
        inner = ('op', rng.choice(TX.OPS), ('leaf', tg.word()), ('leaf', tg.word()))
        mid = ('op', rng.choice(TX.OPS), wrap(inner, 0.6), ('leaf', tg.word()))
        if rng.random() < 0.5:
            mid = ('op', mid[1], mid[3], mid[2])
        if i % 2:
            mid = ('op', rng.choice(TX.OPS), wrap(mid, 0.8), ('leaf', tg.word()))
        top = ('op', rng.choice(TX.OPS), wrap(mid, 0.9), ('leaf', tg.word()))
        if rng.random() < 0.5:
            top = ('op', top[1], top[3], top[2])
        c = ('comb', shw() if side in (0, 2) else '', top, shw() if side in (1, 2) else '')
        parts = [('comp', sym, '', '', c)]
        if sym != 'I':
            parts.append(('comp', 'I', '', '', ('leaf', tg.word())))
        rng.shuffle(parts)
        cases.append(("H", parts, True))
    # D: the same text more than once: an inner combination, a whole component content or single values repeated in two
    # components of one statement (with and without shared text around one of the occurrences)
    for i in range(40 if tier == "quick" else 600):
        a, b = rng.sample([s for s in TX.PAREN if ',p' not in s], 2)
        inner = ('op', rng.choice(TX.OPS), ('leaf', tg.word()), ('leaf', tg.word()))
        if rng.random() < 0.3:
            inner = ('op', rng.choice(TX.OPS), inner, ('leaf', tg.word()))
        k = i % 4
        if k == 0:
            ca = ('comb', '', ('op', rng.choice(TX.OPS), ('leaf', tg.word()), inner), '')
            cb = ('comb', '', ('op', rng.choice(TX.OPS), ('leaf', tg.word()), inner), '')
        elif k == 1:
            ca = ('comb', '', ('op', rng.choice(TX.OPS), inner, ('leaf', tg.word())), '')
            cb = ('comb', tg.word(), ('op', rng.choice(TX.OPS), ('sh', tg.word(), inner, ''), ('leaf', tg.word())), tg.word())
        elif k == 2:
            ca = ('comb', '', inner, '')
            cb = ('comb', '', inner, '')
        else:
            w = tg.word()
            ca = ('comb', '', ('op', rng.choice(TX.OPS), ('leaf', w), ('leaf', tg.word())), '')
            cb = ('comb', '', ('op', rng.choice(TX.OPS), ('leaf', tg.word()), ('op', rng.choice(TX.OPS), ('leaf', w), ('leaf', tg.word()))), '')
        parts = [('comp', a, '', '', ca), ('comp', b, '', '', cb)]
        if 'I' not in (a, b):
            parts.append(('comp', 'I', '', '', ('leaf', tg.word())))
        rng.shuffle(parts)
        cases.append(("D", parts, rng.random() < 0.5))
    return cases


def first_field_diff(got, exp):
    gf, ef = [f for f, _ in got], [f for f, _ in exp]
    if gf != ef:
        return {"fields": gf}, {"fields": ef}
    for (f, n), (_, m) in zip(got, exp):
        a, c = TX.strip_node(n), TX.strip_node(m)
        if a != c:
            return {f: repr(a)[:500]}, {f: repr(c)[:500]}
    return None


def run(args):
    build = prepare(verbose=True)
    V = Verdict("C01", args.tier, args.seed)
    po = check_props(build, FILES)
    for f in po["broken_files"]:
        V.broke("coq:" + f, po["log"])
    if not build.ok_go:
        V.broke("go-build", build.go_log)
        return V.finish(std_coverage(po, 0, 0, "harness did not build", []), po["assumptions"])
    # (1) the combination parser: model (extracted Parser/Combo.v) = implementation, all outcome classes
    exprs = gen_pint(args.tier, args.seed)
    impl = run_pool([build.obs], [{"mode": "pint", "stmt": e} for e in exprs], NCPU, timeout=30)
    mod = run_lines([build.comborun], exprs) if build.comborun else None
    pm, classes = 0, {}
    if mod is None:
        V.broke("model:combo-extraction", build.coq_log[-800:])
    else:
        for e, r, m in zip(exprs, impl, mod):
            got = "PANIC" if "panic" in r else r.get("res", str(r)[:80])
            classes[got.split(" ")[0]] = classes.get(got.split(" ")[0], 0) + 1
            if got != m:
                pm += 1
                if pm <= 3:
                    V.broke("correspondence:ParseIntoNodeTree", json.dumps({"expr": e, "impl": got[:300], "model": m[:300]}))
    # (2) statements: dump(ParseStatement(render st)) == denote st
    cases = gen_statements(args.tier, args.seed)
    if args.replay:
        rep = json.load(open(args.replay))
        if (rep.get("input") or {}).get("text"):
            cases = [("R", None, True)]
            texts = [rep["input"]["text"]]
    texts = [TX.r_stmt(p, chain_ok=ch) for _, p, ch in cases] if cases[0][1] is not None else texts
    res = run_pool([build.obs], [{"mode": "parse", "stmt": t} for t in texts], NCPU, timeout=60)
    dist = {"stream": {}, "components": {}, "leaves": {}}
    nontrivial = 0
    shared_cases = []
    for (stream, parts, ch), t, r in zip(cases, texts, res):
        case = {"text": t}
        dist["stream"][stream] = dist["stream"].get(stream, 0) + 1
        if parts is None:
            print(json.dumps(r)[:1500])
            continue
        ncomp = sum(1 for p in parts if p[0] == 'comp')
        dist["components"][ncomp] = dist["components"].get(ncomp, 0) + 1
        if "timeout" in r:
            continue                     # no answer within the pool's limit (load): termination is C10's business
        if "panic" in r or "exit" in r:
            V.violation("parse:crash", case, observed=str(r)[:300], what="a well-formed statement crashes or hangs the parser")
            continue
        if r.get("err") != "NO_ERROR_DURING_PARSING":
            V.violation("parse:wellformed-statement-rejected", case, observed={"error": r.get("err")}, what="a well-formed statement is rejected")
            continue
        if r.get("parent_links"):
            # component type, shared text, suffix and annotations of a value are read upwards through the parent links
            V.violation("parse:tree-not-linked-upwards", case, observed={"tree": r["parent_links"]}, what="a node of the delivered tree does not point back to the combination that holds it")
            continue
        try:
            got = rnode(r["nodes"][0])[6][1]
        except Exception as e:
            V.broke("harness:dump", str(e)[:200])
            continue
        if "eff_shared" in r:
            shared_cases.append((case, r["nodes"][0], r["eff_shared"]))
        exp = TX.d_stmt(parts)
        if any(n[0] == 'C' for _, n in exp):
            nontrivial += 1
        d = first_field_diff(got, exp)
        if d:
            V.violation("parse:tree-differs-from-written", case, observed=d[0], expected=d[1],
                        what="the parsed tree of a component differs from the annotated text (leaves, operators, precedence, shared text, suffix or annotation)")
    # (3) the shared text every value reports (GetSharedLeft / GetSharedRight) = the model's (Spec/Shared.v) on the parsed tree
    sh = {"values": 0, "with_inherited_text": 0, "three_levels": 0}
    if build.modelrun and shared_cases:
        ml = run_lines([build.modelrun], ["shared\t%s" % t for _, t, _ in shared_cases])
        bad = 0
        for (case, t, got), m in zip(shared_cases, ml):
            if not m.startswith("ok "):
                V.broke("model:shared", m[:200])
                break
            exp = [[[bytes.fromhex(x[1:] if x.startswith('x') else x).decode('utf-8', 'replace') for x in side] for side in v] for v in json.loads(m[3:])]
            got = [[list(side or []) for side in v] for v in got]
            sh["values"] += len(exp)
            sh["with_inherited_text"] += sum(1 for v in exp if len(v[0]) + len(v[1]) >= 1)
            sh["three_levels"] += sum(1 for v in exp if len(v[0]) >= 3 or len(v[1]) >= 3)
            if got != exp:
                k = next((i for i, (a, b) in enumerate(zip(got, exp)) if a != b), min(len(got), len(exp)))
                bad += 1
                if bad <= 5:
                    V.violation("parse:shared-text-of-value", case, observed={"value_index": k, "shared": got[k] if k < len(got) else None},
                                expected={"shared": exp[k] if k < len(exp) else None},
                                what="a value does not report the text written outside the combinations that enclose it (left, right shared text) as the statement has it")
    cov = std_coverage(po, len(exprs) + len(cases), nontrivial,
                       "F: combination expressions (every operator tree <= 4 leaves x 3 operators, explicit parentheses / same-operator chains / without outer parentheses, shared text around inner "
                       "combinations, ~500 token-level mutations) through ParseIntoNodeTree vs the extracted Coq model; E: every tree <= 4 leaves in every rendering on %d component symbols; "
                       "S: 260 sampled statements (<= 8 components, depth <= 4, shared text at component level and around inner combinations, suffixes without property, annotations, filler words, "
                       "repeated annotations) and H: statements with 3-4 combination levels carrying outside text on the same side, through ParseStatement, compared with the denotation of the generating AST; the shared text each value reports is compared with the model's on the parsed tree. Non-trivial = statement with at least one combination." % (16 if args.tier == "thorough" else 3),
                       [texts[0], texts[len(texts) // 2], texts[-1]],
                       {"distribution": dist, "function_level": len(exprs), "endpoint_level": len(cases), "outcome_classes": classes, "correspondence_mismatches": pm, "shared_text": sh, "exhaustive": False})
    return V.finish(cov, po["assumptions"])
