"""C12 Conversion is deterministic."""
import json, random, hashlib
from common import *
from pool import run_pool, out_bytes
import gen_text as TX
import props.c01 as C01
import props.c02 as C02
import props.c03 as C03
import props.c10 as C10
import props.c11 as C11

FILES = ["Tie/C12_tie.v", "Props/C12.v"]
REPS = 5
FRESH = 3


def remark_shapes(rng, tg):
    """Component contents with several parenthesised groups on one level: operator-less remarks next to a group that
    wraps shared text and a combination one level deeper (the enclosing-group search of extractSharedComponents)."""
    w = tg.word
    comb = lambda: "(%s [%s] %s)" % (w(), rng.choice(TX.OPS), w())
    deep = lambda: "(%s [%s] (%s [%s] %s))" % (w(), rng.choice(TX.OPS), w(), rng.choice(TX.OPS), w())
    rem = lambda: "(%s)" % rng.choice(["if applicable", "the", w(), w() + " " + w()])
    forms = [
        lambda: "%s (%s %s)" % (rem(), w(), comb()),
        lambda: "(%s %s) %s" % (w(), comb(), rem()),
        lambda: "%s (%s %s %s) %s" % (rem(), w(), comb(), w(), rem()),
        lambda: "%s %s (%s %s)" % (rem(), rem(), comb(), w()),
        lambda: "(%s (%s %s)) %s" % (rem(), w(), comb(), rem()),
        lambda: "%s (%s %s)" % (rem(), w(), deep()),
        lambda: "(%s %s) [%s] (%s %s %s)" % (w(), comb(), rng.choice(TX.OPS), rem(), w(), comb()),
        lambda: "(%s (%s %s) %s (%s %s))" % (rem(), w(), comb(), rem(), comb(), w()),
    ]
    return rng.choice(forms)()


def gen(tier, seed):
    rng = random.Random(seed * 811 + 12)
    tg = TX.TG(rng, annot_p=0.2, shared_p=0.3)
    q = tier == "quick"
    texts = []
    c1 = C01.gen_statements("quick", seed)
    c1 = [c for c in c1 if c[1] is not None]
    for _, p, ch in (rng.sample(c1, min(len(c1), 35 if q else 400))):
        texts.append(("C01", TX.r_stmt(p, chain_ok=ch)))
    for gen_, name, n in ((C02.gen, "C02", 25 if q else 300), (C03.gen, "C03", 20 if q else 200)):
        cs = gen_("quick", seed)
        for _, p in rng.sample(cs, min(len(cs), n)):
            texts.append((name, TX.r_stmt(p)))
    c11 = C11.gen("quick", seed)
    for rule, code, t in rng.sample(c11, min(len(c11), 35 if q else 500)):
        texts.append(("C11:" + rule, t))
    for k, t in rng.sample(C10.gen("quick", seed)[:900], 15 if q else 300):
        if len(t) < 400:
            texts.append(("junk", t))
    syms = ['A', 'Bdir', 'Bind', 'Cac', 'Cex', 'E', 'P', 'I']
    for _ in range(40 if q else 800):
        k = rng.randint(1, 3)
        ss = rng.sample(syms, k)
        parts = ["%s(%s)" % (s, remark_shapes(rng, tg)) for s in ss]
        parts += ["%s(%s)" % (s, tg.word()) for s in rng.sample([x for x in ['A', 'D', 'I', 'Cac', 'Bdir'] if x not in ss], 2)]
        rng.shuffle(parts)
        t = ' '.join(parts)
        if rng.random() < 0.3:
            t = "A(%s) I(%s) Cac{%s}" % (tg.word(), tg.word(), ' '.join(p for p in parts if not p.startswith(('A(', 'I('))) + " A(x) I(y)")
        texts.append(("remark", t))
    # several combination groups side by side inside one component (link maps with several keys per column)
    for _ in range(30 if q else 400):
        texts.append(("groups", TX.r_stmt(TX.groups_stmt(tg, rng))))
    # component pairs with a component of the same type outside the braces (shared by - and copied into - every expanded statement)
    for _ in range(30 if q else 400):
        texts.append(("pairs-shared", TX.r_stmt(TX.pairs_shared_stmt(tg, rng))))
    # conversion time grows steeply with the length of the statement; order dependence does not need long ones
    return [(k, t) for k, t in texts if len(t) <= (260 if q else 600)]


def strip(r):
    return {k: v for k, v in r.items() if k not in ("us", "stack", "reps_done", "rep_diff", "wall_s")}


def digest(r):
    return hashlib.sha1(json.dumps(strip(r), sort_keys=True).encode()).hexdigest()[:16]


def run(args):
    build = prepare(verbose=True)
    V = Verdict("C12", args.tier, args.seed)
    po = check_props(build, FILES)
    for f in po["broken_files"]:
        V.broke("coq:" + f, po["log"])
    if not build.ok_go:
        V.broke("go-build", build.go_log)
        return V.finish(std_coverage(po, 0, 0, "harness did not build", []), po["assumptions"])
    texts = gen(args.tier, args.seed)
    reps, fresh = REPS, FRESH
    if po["broken_files"]:
        reps, fresh = 15, 4        # the inventory or a theorem no longer checks: search harder for a differing run
    if args.replay:
        rep = json.load(open(args.replay))
        if (rep.get("input") or {}).get("text") is not None:
            texts = [("replay", rep["input"]["text"])]
            reps, fresh = 60, 6
    rng = random.Random(args.seed)
    reqs = []
    for kind, t in texts:
        o = {"ext": rng.random() < 0.6, "anno": rng.random() < 0.5, "dyn": rng.random() < 0.3, "hdr": rng.random() < 0.5, "fmt": rng.choice(["Google Sheets", "CSV format"]),
             "flat": rng.random() < 0.3, "bin": rng.random() < 0.5, "dov": rng.random() < 0.5, "actop": rng.random() < 0.5}
        reqs.append(dict(o, mode="tab", stmt=t, id="7", orig="o", reps=reps))
        reqs.append(dict(o, mode="vis", stmt=t, id="7", reps=reps))
    first = run_pool([build.obs], reqs, NCPU, timeout=300)
    others = []
    for k in range(fresh):
        # fresh worker processes (new map hash seeds); shards are dealt differently so that neighbours change as well
        perm = list(range(len(reqs)))
        random.Random(args.seed * 7 + k).shuffle(perm)
        rs = run_pool([build.obs], [dict(reqs[i], reps=1) for i in perm], NCPU, timeout=300)
        back = [None] * len(reqs)
        for j, i in enumerate(perm):
            back[i] = rs[j]
        others.append(back)
    dist = {"kind": {}, "outcome": {}}
    n_err = 0
    for i, q in enumerate(reqs):
        kind, t = texts[i // 2]
        r = first[i]
        which = "tabular" if q["mode"] == "tab" else "visual"
        case = {"text": t, "conversion": which, "options": {k: v for k, v in q.items() if k not in ("stmt", "mode", "reps")}}
        if i % 2 == 0:
            dist["kind"][kind.split(":")[0]] = dist["kind"].get(kind.split(":")[0], 0) + 1
        oc = "crash" if any(k in r for k in ("panic", "exit", "timeout")) else str(r.get("err"))
        dist["outcome"][oc] = dist["outcome"].get(oc, 0) + 1
        if oc not in ("crash", "NO_ERROR_DURING_PARSING"):
            n_err += 1
        if "exit" in r or "timeout" in r:
            continue     # C10's business
        if "rep_diff" in r:
            d = r["rep_diff"]
            a, b = out_bytes(r), out_bytes(d["resp"])
            V.violation("determinism:differs-within-process", case,
                        observed={"repetition": d["at"], "error": d["resp"].get("err"), "diff": first_diff(b, a, 80)}, expected={"error": r.get("err")},
                        what="the %s conversion of the same statement with the same options differs between two calls in one process" % which)
            continue
        for k, back in enumerate(others):
            r2 = back[i]
            if "exit" in r2 or "timeout" in r2:
                continue
            if digest(r2) != digest(r):
                V.violation("determinism:differs-across-processes", case,
                            observed={"process": k + 2, "error": r2.get("err"), "diff": first_diff(out_bytes(r2), out_bytes(r), 80)}, expected={"error": r.get("err")},
                            what="the %s conversion of the same statement with the same options differs between two separately started processes" % which)
                break
    cov = std_coverage(po, len(reqs) * (reps + fresh), len(reqs),
                       "statements of the C01 (combinations, shared text), C02 (nested statements and their combinations) and C03 (component pairs) generators, planted rule violations of C11 "
                       "(rejected inputs), junk strings, and component contents with several parenthesised groups on one level (operator-less remarks beside a group wrapping shared text and a deeper "
                       "combination); each under a random option vector through both conversions: %d calls in one process and %d separately started processes (shards reshuffled); output bytes, error "
                       "code and header/row structure must be identical. Non-trivial = every request." % (reps, fresh),
                       [texts[0][1][:200], texts[-1][1][:200]], {"distribution": dist, "endpoint_level": len(reqs) * (reps + fresh), "requests": len(reqs), "rejected_inputs": n_err,
                                                                "repetitions_in_process": reps, "fresh_processes": fresh, "exhaustive": False,
                                                                "not_expressible": "addresses, map hash seeds and scheduling are the runtime's; the check samples them by repetition"})
    return V.finish(cov, po["assumptions"])
