"""C07 Tabular output is machine-parseable for every input and option."""
import json, random
from tab_common import *

FILES = ["Tie/C04_tie.v", "Props/C07.v"]
FORBIDDEN = (b"|", b"\n", b"\r", b'"')


@matcher("dynamic_output_of_pair_statements")
def _m_dyn(case, k):
    return bool((case.get("options") or {}).get("dyn")) and "{" in (case.get("text") or "")


def hostile(rng, n=None):
    alphabet = ["|", '"', "'", "\n", "\r", "\r\n", "\t", "\\", "'lead", " ", "ä", "€", "a", "b", "x1", ";", ",", "=SPLIT(", ")"]
    return "".join(rng.choice(alphabet) for _ in range(n or rng.randint(0, 7)))


def gen_cases(tier, seed):
    rng = random.Random(seed * 4241 + 7)
    n = 420 if tier == "quick" else 6000
    cases = []

    def text(r):
        w = r.choice(["alpha", "beta", "gamma", "delta"]) + str(r.randint(1, 99))
        return w + " " + hostile_word(r) if r.random() < 0.7 else w
    tg = TX.TG(rng, text=lambda r: text(r), suffix_p=0.1, annot_p=0.5, shared_p=0.3)
    for i in range(n):
        k = i % 5
        if k == 4:
            parts = TX.priv_stmt(tg)
        else:
            parts = tg.stmt(rng.choice([0, 0, 1, 2]), maxleaves=3)
        # hostile annotations on nested statements and components
        t = TX.r_stmt(parts)
        if rng.random() < 0.3:
            t = t.replace("[type=x]", '[k="v" | w]')
        po = rng.choice(["none", "first", "all", "bogus", "", PO["all"] + " "])
        pi = rng.choice(["none", "first", "all", "whatever", PI["first"].upper()])
        o = Opt(ext=rng.random() < 0.5, anno=rng.random() < 0.6, gs=rng.random() < 0.5, hdr=rng.random() < 0.6, po=po, pi=pi)
        cases.append({"stream": "P", "parts": parts, "text": t, "opt": o, "dyn": rng.random() < 0.2,
                      "id": rng.choice(["7", "123", '12"3', "1|2", "a\nb", "x\r", "'9", "", "id.1"]).encode() if rng.random() < 0.6 else hostile(rng, 4).encode("utf-8"),
                      "orig": hostile(rng, rng.randint(0, 12)).encode("utf-8")})
    return cases


def hostile_word(r):
    return r.choice(['"q"', "o'c", "'lead", "a\\b", "tab\there", "cr\rx", "semi;colon", "comma,", "ünï", "eq=", "pipe|in", "line\nbreak", "crlf\r\nx"])


def shape_ok(out, opt, case, V, stats, table_lines=None):
    """The property on the output bytes: rectangular, no forbidden character in a cell, Google Sheets lines complete.
    table_lines: number of lines of each result table (dynamic output: every expanded statement is a table of its own)."""
    lines = out.split(b"\n")
    if lines and lines[-1] == b"":
        lines.pop()
    if not lines:
        return
    ncells = None
    bounds = set()
    if table_lines and sum(table_lines) == len(lines):
        acc = 0
        for n in table_lines[:-1]:
            acc += n
            bounds.add(acc)
    widths = []
    for li, l in enumerate(lines):
        if li in bounds:
            widths.append(ncells)
            ncells = None
        body = l
        if opt.gs:
            if not (l.startswith(b'=SPLIT("') and l.endswith(b'"; "|")')):
                V.violation("shape:line-is-not-a-split-formula", case, observed={"line": li, "text": l[:200]}, what="Google Sheets line is not one complete SPLIT formula")
                return
            body = l[len(b'=SPLIT("'):-len(b'"; "|")')]
        cells = body.split(b"|")
        stats["cells"] += len(cells)
        if ncells is None:
            ncells = len(cells)
        elif len(cells) != ncells:
            V.violation("shape:not-rectangular", case, observed={"line": li, "cells": len(cells), "first_line_cells": ncells, "text": l[:300]},
                        what="a line has a different number of cells than the first line")
            return
        for c in cells:
            for fb in (b'"', b"\r"):
                if fb in c:
                    V.violation("shape:forbidden-character-in-cell", case, observed={"line": li, "cell": c[:120], "character": repr(fb)},
                                what="a cell contains a double quote or a line break")
                    return
    stats["lines"] += len(lines)
    widths.append(ncells)
    if len(set(widths)) > 1:
        V.violation("shape:dynamic-tables-differ-in-width", case, observed={"cells_per_line_by_statement": widths},
                    what="dynamic output: the tables of the expanded component-pair statements have different numbers of columns")
    return len(lines), ncells


def run(args):
    build = prepare(verbose=True)
    V = Verdict("C07", args.tier, args.seed)
    po = check_props(build, FILES)
    for f in po["broken_files"]:
        V.broke("coq:" + f, po["log"])
    if not build.ok_go:
        V.broke("go-build", build.go_log)
        return V.finish(std_coverage(po, 0, 0, "harness did not build", []), po["assumptions"])
    cases = gen_cases(args.tier, args.seed)
    if args.replay:
        rep = json.load(open(args.replay))
        inp = rep.get("input") or {}
        if inp.get("text") is not None:
            o = inp.get("options") or {}
            cases = [{"stream": "P", "text": inp["text"], "opt": Opt(ext=o.get("ext", True), anno=o.get("anno", False), gs=o.get("gs", False), hdr=o.get("hdr", True), po=o.get("po", "none"), pi=o.get("pi", "none")),
                      "dyn": o.get("dyn", False), "id": inp.get("id", "7").encode("latin1"), "orig": inp.get("orig", "").encode("latin1")}]
    stats = {"cells": 0, "lines": 0, "accepted": 0, "nontrivial": 0}
    # (a) the property on the implementation's bytes, all options incl. dynamic output and arbitrary inclusion strings
    reqs = [c["opt"].req(mode="tab", stmt=c["text"], id=c["id"].decode("utf-8", "surrogateescape"), orig=c["orig"].decode("utf-8", "surrogateescape"), dyn=c["dyn"]) for c in cases]
    impl = run_pool([build.obs], reqs, NCPU, timeout=60)
    dist = {"options": {}, "outcome": {}}
    for c, r in zip(cases, impl):
        case = {"text": c["text"], "id": c["id"].decode("latin1"), "orig": c["orig"].decode("latin1"),
                "options": {"ext": c["opt"].ext, "anno": c["opt"].anno, "gs": c["opt"].gs, "hdr": c["opt"].hdr, "po": c["opt"].po, "pi": c["opt"].pi, "dyn": c["dyn"]}}
        k = "%s/%s" % ("gs" if c["opt"].gs else "csv", "hdr" if c["opt"].hdr else "nohdr")
        dist["options"][k] = dist["options"].get(k, 0) + 1
        if "panic" in r or "exit" in r or "timeout" in r:
            dist["outcome"]["crash"] = dist["outcome"].get("crash", 0) + 1
            continue  # C10's business
        dist["outcome"][r.get("err")] = dist["outcome"].get(r.get("err"), 0) + 1
        if r.get("err") != "NO_ERROR_DURING_PARSING":
            continue
        stats["accepted"] += 1
        out = out_bytes(r)
        if any(ch in c["text"] + c["id"].decode("latin1") + c["orig"].decode("latin1") for ch in '"|\n\r'):
            stats["nontrivial"] += 1
        tl = None
        if c["dyn"]:
            tl = [len(x or []) for x in (r.get("rows") or [])]
            if tl and c["opt"].hdr:
                tl[0] += 1
        res = shape_ok(out, c["opt"], case, V, stats, tl)
        if res and not c["dyn"]:
            nl, nc = res
            # optional columns appear exactly as selected
            extra = (1 if c["opt"].po in ("first", "all") else 0) + (1 if c["opt"].pi in ("first", "all") else 0)
            hdr = r.get("hdr") or []
            if hdr and hdr[0] is not None:
                want = len(hdr[0]) + extra + 1      # + the empty cell behind the trailing separator
                if nc != want:
                    V.violation("shape:optional-columns-not-as-selected", case, observed={"cells_per_line": nc}, expected={"cells_per_line": want},
                                what="the optional Original Statement / IG Script columns do not appear exactly as selected")
            nrows = sum(len(x or []) for x in (r.get("rows") or []))
            ntabs = len(r.get("rows") or [])
            want_lines = nrows + (1 if c["opt"].hdr and ntabs else 0)
            if nl != want_lines:
                V.violation("shape:header-row-not-as-selected", case, observed={"lines": nl}, expected={"lines": want_lines}, what="the header row does not appear exactly as selected")
    # (b) correspondence of the printed bytes for the static cases with known inclusion values (the model of the printing layer)
    static = [dict(c) for c in cases if not c["dyn"] and c["opt"].po in PO and c["opt"].pi in PI]
    mism = run_tab_cases(build, static, V, want_spec=False)
    cov = std_coverage(po, len(cases), stats["nontrivial"],
                       "generated statements (flat, nested, pair combinations, private properties) whose leaf texts, annotations, statement ID and original statement are drawn from a hostile alphabet "
                       "(separator, single/double quotes, CR, LF, CRLF, tab, backslash, leading apostrophe, non-ASCII, formula fragments), crossed with both formats, header on/off, the inclusion options "
                       "none/first/all plus arbitrary other strings, IG Core/Extended, annotations on/off, dynamic on/off. Non-trivial = accepted case whose input contains a forbidden character.",
                       [cases[0]["text"], cases[len(cases) // 2]["text"]],
                       {"distribution": dist, "endpoint_level": len(cases), "accepted": stats["accepted"], "lines_checked": stats["lines"], "cells_checked": stats["cells"],
                        "byte_correspondence_cases": len(static), "correspondence_mismatches": mism, "exhaustive": False})
    return V.finish(cov, po["assumptions"])
