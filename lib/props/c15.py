"""C15 The web pages return exactly what the core conversion produces."""
import itertools, json, random
from web_common import *
from pool import run_pool, out_bytes

FILES = ["Tie/C13_tie.v", "Tie/C15_tie.v", "Props/C15.v"]
MARK = "<zq9>&\"'"     # HTML/JS-hostile marker put into user text


def url_true(v):
    return v in ("t", "true", "1")


def spec_options(req):
    """The specification of Model/WebDecode.v (spec_wiring / spec_value): request parameters -> options."""
    post = req["method"] == "POST"
    ps = req.get("form") if post else req.get("query")
    ps = ps or {}

    def on(p, absent=False):
        v = ps.get(p, "")
        return (v == "on") if post else (absent if v == "" else url_true(v))
    return {"dyn": on("dynamicSchema"), "ext": on("igExtended"), "anno": on("annotations"), "hdr": on("includeHeaders", True), "dov": on("dov"),
            "flat": not on("propertyTree", True), "bin": on("binaryTree"), "actop": on("actCondTop")}


def endpoint_request(req):
    """The direct call of the core conversion that the page must reproduce."""
    post = req["method"] == "POST"
    ps = (req.get("form") if post else req.get("query")) or {}
    o = spec_options(req)
    stmt, sid = ps.get("codedStmt", ""), ps.get("stmtId", "")
    if not post:
        # GET: defaults of the form apply where the URL gives nothing
        sid = ps.get("stmtId") or "123"
    if req["page"] == "tab":
        fmt = ps.get("outputType", "")
        po, pi = ps.get("printOriginalStatement", ""), ps.get("printIgScript", "")
        if not post:
            fmt = fmt or GS
            po = po or PO["none"]
            pi = pi or PI["none"]
        orig = ps.get("rawStmt", "")
        if not post and "rawStmt" not in ps and stmt:
            orig = ""
        return {"mode": "tab", "stmt": stmt, "id": sid, "orig": orig, "ext": o["ext"], "anno": o["anno"], "dyn": o["dyn"], "hdr": o["hdr"], "fmt": fmt or "-", "po": po or "-", "pi": pi or "-"}
    return {"mode": "vis", "stmt": stmt, "id": sid, "flat": o["flat"], "bin": o["bin"], "dov": o["dov"], "actop": o["actop"], "anno": o["anno"], "dyn": o["dyn"], "ext": o["ext"]}


def gen(tier, seed):
    rng = random.Random(seed * 911 + 15)
    reqs = []
    s_ok = [STATEMENTS[0], STATEMENTS[4], STATEMENTS[2], "A(Certifiers) D(must) {I(inspect) Bdir(operations) [XOR] {I(review) Bdir(records) [AND] I(file) Bdir(report)}} Cac(annually)"]
    # every kind of statement through both pages with the default options: one table, several tables (component pairs
    # expand into several top-level statements, one result entry each), nested statements, private properties
    for st in STATEMENTS + s_ok[3:]:
        for method in ("POST", "GET"):
            reqs.append(tab_request(st, sid="123", opts={"igExtended": True, "includeHeaders": True}, fmt=rng.choice([GS, CSV]), method=method))
            reqs.append(vis_request(st, opts={"binaryTree": True}, method=method))
    # every combination of the boolean parameters, both pages, POST and GET+execute
    for method in ("POST", "GET"):
        for bits in itertools.product([False, True], repeat=4):
            o = dict(zip(TAB_BOOL, bits))
            if method == "GET" and rng.random() < 0.5:
                o = {k: v for k, v in o.items() if rng.random() < 0.8}      # absent parameters: defaults
            reqs.append(tab_request(rng.choice(s_ok), sid=rng.choice(["7", "id.1"]), orig=rng.choice(["", "original text"]), opts=o, fmt=rng.choice([GS, CSV]),
                                    po=rng.choice(["none", "first", "all"]), pi=rng.choice(["none", "first", "all"]), method=method))
        for bits in itertools.product([False, True], repeat=5):
            o = dict(zip(VIS_BOOL, bits))
            if method == "GET" and rng.random() < 0.5:
                o = {k: v for k, v in o.items() if rng.random() < 0.8}
            reqs.append(vis_request(rng.choice(s_ok), opts=o, method=method))
    # characters that are special in URLs and forms inside the statement, the original statement and the ID: a plus sign,
    # percent sequences, ampersand, equals, hash, semicolon, non-ASCII - through URL parameters and through the form
    for st, sid in [("A(Member States) D(must) I(report) Bdir(costs + benefits) Cex(within 30+ days)", "7+1"),
                    ("A(actor 100%) I(pay 50%25 of a%20b) Bdir(x&y=z) Cex(#1; then)", "id%2B1"),
                    ("A(b\u00fcrger \u20ac5 + tax) I(pay) Cac(if a=b&c)", "7 1"),
                    ("A(x) I(y+z) Bdir(%41%zz) Cac(%)", "a&b=c")]:
        st = st.encode().decode("unicode_escape")
        for method in ("GET", "POST"):
            reqs.append(tab_request(st, sid=sid, orig=st, opts={"igExtended": True, "includeHeaders": True}, fmt=rng.choice([GS, CSV]), po="all", method=method))
            reqs.append(vis_request(st, sid=sid, opts={"annotations": True}, method=method))
    # URL spellings of booleans and junk values
    for v in ["t", "true", "1", "f", "false", "0", "on", "yes", "TRUE", ""]:
        reqs.append(vis_request(s_ok[0], method="GET", extra={"binaryTree": v, "dov": v, "propertyTree": v}))
        reqs.append(tab_request(s_ok[1], method="GET", extra={"igExtended": v, "includeHeaders": v}))
    # selector values: valid and invalid
    for fmt in [GS, CSV, "Excel", ""]:
        for po in ["none", "all", "nonsense"]:
            reqs.append(tab_request(s_ok[0], fmt=fmt, po=po, pi=rng.choice(["none", "first", "junk"]), opts={"includeHeaders": True}, method=rng.choice(["POST", "GET"])))
    # canvas sizes
    for w, h in [("4000", "2000"), ("100", "100"), ("99", "2000"), ("abc", "100"), ("", "50"), ("-5", ""), ("1e3", "300")]:
        reqs.append(vis_request(s_ok[0], opts={"binaryTree": True}, extra={"canvasWidth": w, "canvasHeight": h}))
    # hostile user text (HTML / JS / attribute contexts), rejected statements
    n = 40 if tier == "quick" else 600
    for i in range(n):
        t = rng.choice(["A(x %s) I(y)" % MARK, "A(</script><script>alert(1)</script>) I(y)", "A(x) I(y) Cac(%s)" % MARK.replace("(", ""), "A(a\\u0027b) I(</textarea>)"])
        if i % 3 == 0:
            t = rng.choice(BAD_STATEMENTS + ["A(x %s" % MARK, MARK])
        meth = "POST" if t == "" else rng.choice(["POST", "GET"])    # an empty URL parameter counts as absent: the page's default statement is used
        if rng.random() < 0.5:
            reqs.append(tab_request(t, sid=rng.choice(["7", MARK, "1\"2"]), orig=rng.choice(["", MARK, "line1\nline2 </textarea>"]), opts={k: rng.random() < 0.5 for k in TAB_BOOL}, fmt=rng.choice([GS, CSV]), method=meth))
        else:
            reqs.append(vis_request(t, opts={k: rng.random() < 0.5 for k in VIS_BOOL}, method=meth))
    return reqs


def run(args):
    build = prepare(verbose=True)
    V = Verdict("C15", args.tier, args.seed)
    po = check_props(build, FILES)
    for f in po["broken_files"]:
        V.broke("coq:" + f, po["log"])
    if not build.ok_go:
        V.broke("go-build", build.go_log)
        return V.finish(std_coverage(po, 0, 0, "harness did not build", []), po["assumptions"])
    reqs = gen(args.tier, args.seed)
    if args.replay:
        rep = json.load(open(args.replay))
        if (rep.get("input") or {}).get("request"):
            reqs = [rep["input"]["request"]]
    # pages: a few requests per process (C13 shows the order does not matter; fresh processes keep failures local)
    chunks = [reqs[i:i + 6] for i in range(0, len(reqs), 6)]
    pages = []
    for c, r in zip(chunks, run_lines_fresh(build, [{"seq": c} for c in chunks])):
        rs = r.get("responses") if isinstance(r, dict) else None
        pages += rs if rs and len(rs) == len(c) else [None] * len(c)
    direct = run_pool([build.obs], [endpoint_request(q) for q in reqs], NCPU, timeout=60)
    dist = {"page": {}, "method": {}, "outcome": {}}
    n_embed = 0
    for q, pg, d in zip(reqs, pages, direct):
        case = {"request": q}
        dist["page"][q["page"]] = dist["page"].get(q["page"], 0) + 1
        dist["method"][q["method"]] = dist["method"].get(q["method"], 0) + 1
        if pg is None or "panic" in (pg or {}):
            V.violation("page:no-answer", case, observed=str(pg)[:300], what="the handler did not answer (crash)")
            continue
        if pg.get("status") != 200:
            V.violation("page:status-not-200", case, observed={"status": pg.get("status")}, what="a submitted form is not answered with HTTP 200")
            continue
        body = body_of(pg)
        page = decode_page(body)
        ps = (q.get("form") if q["method"] == "POST" else q.get("query")) or {}
        # user text only in escaped form
        if MARK.encode() in body or b"<script>alert(1)</script>" in body:
            V.violation("page:user-text-unescaped", case, observed={"around": body[max(0, body.find(MARK.encode()) - 60):body.find(MARK.encode()) + 40].decode("utf-8", "replace")},
                        what="user-supplied text appears unescaped in the page")
            continue
        # canvas validation
        cw, ch = ps.get("canvasWidth", ""), ps.get("canvasHeight", "")
        bad_canvas = False
        if q["method"] == "POST":
            for v in (cw, ch):
                if v != "" and not (re.fullmatch(r"[+-]?\d+", v) and int(v) >= 100):
                    bad_canvas = True
        if bad_canvas:
            dist["outcome"]["canvas-rejected"] = dist["outcome"].get("canvas-rejected", 0) + 1
            if not page["error"] or page["output"] is not None or page["json"] is not None:
                V.violation("page:invalid-canvas-not-rejected", case, observed={"error": page["error"]}, what="an invalid canvas size is not reported / output is produced anyway")
            continue
        if "panic" in d or "exit" in d or "timeout" in d:
            continue   # C10's business
        err = d.get("err")
        stmt = ps.get("codedStmt", "")
        if stmt == "":
            if not page["error"] or page["output"] is not None or page["json"] is not None:
                V.violation("page:empty-statement-not-reported", case, observed={"error": page["error"]}, what="an empty statement is not reported as an error without output")
            continue
        dist["outcome"][err] = dist["outcome"].get(err, 0) + 1
        if err != "NO_ERROR_DURING_PARSING":
            # rejected: error code in the page, no output
            if page["output"] is not None or page["json"] is not None:
                V.violation("page:output-despite-error", case, observed={"error": page["error"]}, expected={"error_code": err}, what="a rejected statement produces output in the page")
            elif not page["error"] or (err not in page["error"] and "does not contain IG Script" not in page["error"]):
                V.violation("page:error-code-missing", case, observed={"error": page["error"]}, expected={"error_code": err}, what="the page does not report the core conversion's error code")
            continue
        core = out_bytes(d)
        n_embed += 1
        if q["page"] == "tab":
            got = None if page["output"] is None else page["output"].encode("utf-8", "surrogatepass")
        else:
            got = None if page["json"] is None else page["json"].encode("utf-8", "surrogatepass")
        if got != core:
            dd = first_diff(got or b"", core, 80)
            V.violation("page:output-differs-from-core-conversion", case, observed=dd.get("a"), expected=dd.get("b"),
                        what="the page does not embed exactly the output of the core conversion for the submitted statement, ID and options")
            continue
        # echo of the form (POST): statement, original text, ID; checkbox states
        if q["method"] == "POST":
            norm = lambda s: s.replace("\r\n", "\n")
            for field, key in (("codedStmt", "codedStmt"), ("rawStmt", "rawStmt"), ("stmtId", "stmtId")):
                if page[key] is not None and norm(page[key]) != norm(ps.get(field, "")):
                    V.violation("page:form-not-echoed", case, observed={field: page[key]}, expected={field: ps.get(field, "")}, what="the submitted text is not echoed back unchanged in the form")
                    break
            for k, v in page["checked"].items():
                if v != (ps.get(k) == "on"):
                    V.violation("page:checkbox-not-echoed", case, observed={k: v}, expected={k: ps.get(k) == "on"}, what="a checkbox is not echoed back as submitted")
                    break
    cov = std_coverage(po, len(reqs), n_embed,
                       "POST forms and GET URLs with the execute flag on both pages: every combination of the boolean parameters (16 tabular, 32 visual; on GET with randomly absent parameters), "
                       "URL spellings of booleans incl. junk, all selector values incl. invalid ones, canvas sizes valid and invalid, statements/original text/ID over an HTML/JS-hostile alphabet, rejected statements. "
                       "Each page is decoded (output element / JSON.parse argument / form fields / message) and compared with a direct call of the core conversion under the options of the specification "
                       "(Model/WebDecode.spec_wiring). Non-trivial = accepted request whose embedded output was compared.",
                       [json.dumps(reqs[0])[:300]],
                       {"distribution": dist, "endpoint_level": len(reqs), "embedded_outputs_compared": n_embed, "exhaustive": False})
    return V.finish(cov, po["assumptions"])
