"""C08 Visual output is always a valid JSON document."""
import json, random
from common import *
from pool import run_pool, run_lines, out_bytes
from sxp import *
import gen_trees as GT
from hostile import hostile_text

FILES = ["Tie/C08_tie.v", "Props/C08.v"]
FLAGS = ["%d%d%d%d%d" % (a, b, c, d, e) for a in (0, 1) for b in (0, 1) for c in (0, 1) for d in (0, 1) for e in (0, 1)]


def vis_req(t, f):
    return {"mode": "bvis", "tree": t, "flat": f[0] == '1', "bin": f[1] == '1', "anno": f[2] == '1', "dov": f[3] == '1', "actop": f[4] == '1'}


def gen_cases(tier, seed):
    rng = random.Random(seed * 7919 + 8)
    cases = []
    n = 2500 if tier == "quick" else 30000
    for i in range(n):
        hostile = (lambda r: hostile_text(r, escapes=0.12)) if i % 2 == 0 else None
        g = GT.G(rng, hostile=hostile)
        kind = i % 5
        if kind == 0:   # degenerate: a single component / properties without their component
            st = g.statement(max_depth=1, nfields=rng.randint(1, 2), annot=0.5, shared=0.3, fields=rng.choice([None, ["Ap", "Bdirp", "Ep", "Pp", "ApC", "PpC"]]))
        elif kind == 1:  # deep nesting
            st = g.statement(max_depth=7, nfields=rng.randint(1, 4), annot=0.3, shared=0.2)
        else:
            st = g.statement(max_depth=rng.choice([0, 1, 2, 3]), nfields=rng.randint(1, 9), max_leaves=rng.choice([3, 5]), annot=0.4, shared=0.25)
        if not st:
            continue
        # private links on some leaves (detached values of the matching property type)
        if rng.random() < 0.3:
            st = add_private(rng, g, st)
        fl = FLAGS if (tier == "thorough" and i % 10 == 0) else rng.sample(FLAGS, 3 if tier == "quick" else 4)
        for f in fl:
            cases.append((st, f))
    return cases


PROP_OF = {"A": "A,p", "Bdir": "Bdir,p", "Bind": "Bind,p", "E": "E,p", "P": "P,p"}


def add_private(rng, g, st):
    out = []
    for f, n in st:
        if f in PROP_OF and n[0] == 'L' and isinstance(n[6], bytes):
            k = rng.randint(1, 3)
            priv = [leaf(g.text(), ct=PROP_OF[f], suf=b"1") for _ in range(k)]
            n = n[:7] + (priv,)
        out.append((f, n))
    return out


def endpoint_cases(tier, seed):
    import gen_text as GX
    rng = random.Random(seed * 7919 + 88)
    out = []
    n = 110 if tier == "quick" else 3000
    for i in range(n):
        txt = (lambda r: hostile_text(r, structural=False, escapes=0.12).decode("utf-8", "replace")) if i % 2 == 0 else None
        g = GX.TG(rng, text=txt, annot_p=0.3)
        kind = i % 4
        if kind == 0:
            ast = g.stmt(0, ncomp=rng.randint(1, 2), allow_pairs=False, syms=rng.choice([None, ['A,p', 'Bdir,p', 'E,p', 'P,p', 'Bind,p']]))
        elif kind == 1:
            ast = g.stmt(rng.randint(1, 2 if tier == "quick" else 3), nest_syms=GX.NEST)
        else:
            ast = g.stmt(rng.randint(0, 2))
        out.append((GX.r_stmt(ast), rng.choice(FLAGS)))
    return out


def run_endpoint(build, V, tier, seed, dist):
    """Endpoint level: statements through ParseStatement + ConvertIGScriptToVisualTree; the model prints the dumped tree."""
    cases = endpoint_cases(tier, seed)
    reqs = [dict(vis_req("", f), mode="visd", stmt=t) for t, f in cases]
    for r in reqs:
        del r["tree"]
    impl = run_pool([build.obs], reqs, NCPU, timeout=60)
    lines, idx = [], []
    for i, r in enumerate(impl):
        if r.get("err") == "NO_ERROR_DURING_PARSING" and len(r.get("nodes", [])) == 1 and "(X " not in r["nodes"][0]:
            lines.append("visn\t%s\t%s" % (cases[i][1], r["nodes"][0]))
            idx.append(i)
    model = dict(zip(idx, run_lines([build.modelrun], lines))) if build.modelrun else {}
    accepted = mism = 0
    for i, ((t, f), r) in enumerate(zip(cases, impl)):
        case = {"stmt": t, "flags": f}
        if "timeout" in r:
            dist["endpoint_slow"] = dist.get("endpoint_slow", 0) + 1     # no answer within the pool's limit (load): termination is C10's business
            continue
        if "panic" in r or "exit" in r:
            V.violation("crash:visual-endpoint", case, observed={k: r[k] for k in r if k != "stack"}, what="visual conversion panicked / exited / hung")
            continue
        if r.get("err") != "NO_ERROR_DURING_PARSING":
            dist["endpoint_rejected"] = dist.get("endpoint_rejected", 0) + 1
            continue
        accepted += 1
        ok = r["valid"]
        if not ok:
            V.violation("json-invalid:" + classify_invalid(out_bytes(r).decode("utf-8", "replace")), case, observed={"out": r["out"][:600]},
                        what="successful visual output is not a JSON document")
        m = model.get(i)
        if m is not None:
            exp = bytes.fromhex(m[4:]) if m.startswith("ok:") else None
            got = out_bytes(r)
            if exp != got:
                mism += 1
                if mism <= 2:
                    V.broke("correspondence:vis-endpoint", json.dumps({"diff(a=impl,b=model)": first_diff(got, exp), "model_res": m[:12], "flags": f, "stmt": t}))
    return len(cases), accepted, mism, [{"stmt": cases[0][0], "flags": cases[0][1]}, {"stmt": cases[1][0], "flags": cases[1][1]}]


def run(args):
    build = prepare(verbose=True)
    V = Verdict("C08", args.tier, args.seed)
    po = check_props(build, FILES)
    for f in po["broken_files"]:
        V.broke("coq:" + f, po["log"])
    if not build.ok_go:
        V.broke("go-build", build.go_log)
        return V.finish(std_coverage(po, 0, 0, "harness did not build", []), po["assumptions"])
    cases = gen_cases(args.tier, args.seed)
    if args.replay:
        rep = json.load(open(args.replay))
        if rep.get("input") and rep["input"].get("tree"):
            cases = [(rstmt(rep["input"]["tree"]), rep["input"]["flags"])]
    texts = [wstmt(st) for st, _ in cases]
    impl = run_pool([build.obs], [vis_req(t, f) for t, (_, f) in zip(texts, cases)], NCPU, timeout=20)
    model = run_lines([build.modelrun], ["vis\t%s\t%s" % (f, t) for t, (_, f) in zip(texts, cases)]) if build.modelrun else None
    distinct, nontrivial, mism, fmt_only, nwf = set(), 0, 0, 0, 0
    dist = {"flags": {}, "hostile_bytes": 0, "nested_depth": {}, "invalid_by_first_bad_byte": {}}
    for i, ((st, f), t, r) in enumerate(zip(cases, texts, impl)):
        case = {"tree": t, "flags": f}
        s = GT.stats(st)
        dist["flags"][f] = dist["flags"].get(f, 0) + 1
        dist["nested_depth"][s["maxdepth"]] = dist["nested_depth"].get(s["maxdepth"], 0) + 1
        key = t + f
        if key not in distinct:
            distinct.add(key)
            if s["combs"] + s["nested"] >= 1:
                nontrivial += 1
        m = model[i] if model else None
        if "panic" in r or "exit" in r or "timeout" in r:
            if m is not None and m.split(" ")[-1].startswith("panic"):
                continue
            V.violation("crash:visual-print", case, observed={k: r[k] for k in r if k != "stack"}, what="visual printer panicked / exited / hung on a built tree")
            continue
        if "bad" in r:
            V.broke("harness:bvis", str(r))
            continue
        # (b) the property on the implementation's own output
        if r["err"] == "NO_ERROR":
            ok = r["valid"]
            if ok:
                try:
                    json.loads(out_bytes(r).decode("utf-8", "replace"))
                except Exception:
                    ok = False
            if not ok:
                V.violation("json-invalid:" + classify_invalid(r["out"]), case, observed={"out": r["out"][:600]}, what="successful visual output is not a JSON document")
        # (a) correspondence with the model
        if m is not None:
            if m.startswith("bad:"):
                V.broke("model:vis", m)
                continue
            wf, _, m = m.partition(" ")
            if wf == "nwf":
                nwf += 1
            exp = bytes.fromhex(m[4:]) if m.startswith("ok:") else None
            got = out_bytes(r) if r["err"] == "NO_ERROR" else None
            if exp is None and got is None:
                continue
            if exp != got:
                same_value = False
                try:
                    same_value = exp is not None and got is not None and json.loads(exp) == json.loads(got)
                except Exception:
                    pass
                if same_value:
                    fmt_only += 1
                else:
                    mism += 1
                    if mism <= 3:
                        V.broke("correspondence:vis", json.dumps({"diff(a=impl,b=model)": first_diff(got, exp), "err": r["err"], "model_res": m[:12], "flags": f, "tree": t}))
    if mism:
        V.broken[-1]["detail"] += " (%d disagreeing cases)" % mism
    ep_n, ep_acc, ep_mism, ep_samples = run_endpoint(build, V, args.tier, args.seed, dist) if not args.replay else (0, 0, 0, [])
    if model is None:
        V.broke("model:extraction", build.coq_log[-1500:])
    cov = std_coverage(po, len(cases), nontrivial,
                       "T: random built statements (degenerate: single component / properties without their component; nesting depth <= 7; up to 9 fields; private links), half of them with texts/annotations/shared text over the hostile alphabet (quotes, backslash, backslash in front of every JSON escape letter incl. incomplete \\u escapes, CR, LF, control bytes, non-ASCII, invalid UTF-8), each under 3-4 of the 32 option vectors (thorough: every 10th under all 32). Non-trivial = distinct (statement, vector) with a combination or a nested statement.",
                       [{"tree": texts[0], "flags": cases[0][1]}, {"tree": texts[len(texts) // 2], "flags": cases[len(texts) // 2][1]}],
                       {"distribution": dist, "tree_level": len(cases), "endpoint_level": {"statements": ep_n, "accepted": ep_acc, "correspondence_mismatches": ep_mism, "samples": ep_samples}, "correspondence_mismatches": mism, "outside_theorem_guard": nwf, "format_only_differences": fmt_only})
    return V.finish(cov, po["assumptions"])


def classify_invalid(out):
    """Cause signature: what kind of byte first breaks the document."""
    dec = json.JSONDecoder()
    try:
        dec.decode(out)
        return "go-only"
    except json.JSONDecodeError as e:
        msg = e.msg
        if "control character" in msg:
            return "control-character-in-string"
        if "escape" in msg.lower():
            return "backslash-in-string"
        if "property name" in msg or "Expecting value" in msg:
            return "separator-without-member"
        if "delimiter" in msg:
            return "unescaped-text-in-string"
        return "other"
    except Exception:
        return "other"
