"""C17 Visual display options change presentation only."""
import json, random
from common import *
from vis_common import *

FILES = ["Tie/C08_tie.v", "Props/C17.v"]
PID = "C17"


def entries(j):
    """Set of (component, value text, level); flat labels are attributed to <component>,p at the value's level."""
    out = set()
    for n in walk(j):
        if "comp" in n and not is_op(n):
            out.add((n["comp"], n["name"], n["level"]))
            if n.get("prop") is not None:
                for part in n["prop"].split(", "):
                    out.add((n["comp"] + ",p", part, n["level"]))
    return out


def check_vector_predicates(V, case, f, j):
    o = vis_opts(f)
    for n in walk(j):
        if o["bin"] and is_op(n) and len(n["children"]) != 2:
            V.violation("binary:operator-without-two-children", case, observed={"name": n["name"], "children": len(n["children"])}, what="binary mode: operator node without exactly two children")
        if not o["dov"] and "dov" in n:
            V.violation("member:dov-not-selected", case, observed=n.get("dov"), what="dov member although Degree of Variability is off")
        if o["dov"] and "dov" not in n and not (is_stmt(n) and n is j):
            V.violation("member:dov-missing", case, observed={"name": n.get("name")}, what="node without dov member although Degree of Variability is on")
        if not o["anno"] and "anno" in n:
            V.violation("member:anno-not-selected", case, observed=n.get("anno"), what="anno member although annotations are off")
        if not o["flat"] and "prop" in n:
            V.violation("member:prop-label-in-tree-mode", case, observed=n.get("prop"), what="flat property label although property tree is selected")
        if o["flat"] and "pos" in n:
            V.violation("member:prop-tree-in-flat-mode", case, observed=n.get("name"), what="property subtree although flat properties are selected")


def prop_features(root):
    """Which features that flat printing is known to treat differently occur in a property (shared or private)
    of the root: nested statements (F14), shared text (F18)."""
    feats = {"nested": False, "shared": False}

    def prop_node(n):
        if n[0] == 'C':
            if n[4] or n[5]:
                feats["shared"] = True
            prop_node(n[7])
            prop_node(n[8])
        else:
            if n[4] or n[5]:
                feats["shared"] = True
            if isinstance(n[6], tuple):
                feats["nested"] = True
                any_node(n)

    def any_node(n):
        if n[0] == 'C':
            any_node(n[7])
            any_node(n[8])
            return
        for p in n[7]:
            prop_node(p)
        e = n[6]
        if isinstance(e, tuple) and e[0] == 'T':
            for f, x in e[1]:
                if FIELD_SYMBOL[f].endswith(",p"):
                    prop_node(x)
                any_node(x)
        if isinstance(e, tuple) and e[0] == 'NS':
            for x in e[1]:
                any_node(x)
    any_node(root)
    return feats


def value_names(j, out):
    """Texts of the value objects beneath a property subtree, in order (nested statements make it incomparable)."""
    if is_stmt(j):
        out.append(None)
        return
    if "comp" in j and not is_op(j):
        out.append(j.get("name"))
    for c in j.get("children", []):
        value_names(c, out)


def compare_flat_tree(jf, jt, issues):
    """Parallel walk of the flat-property and the tree-property output of one statement (other options equal):
    same objects, and each value's label is the comma-joined list of the values shown beneath it in tree mode."""
    if jf.get("name") != jt.get("name") or jf.get("comp") != jt.get("comp") or jf.get("level") != jt.get("level"):
        issues.append(("node", jf.get("name"), jt.get("name")))
        return
    if "comp" in jt and not is_op(jt):
        names = []
        for c in jt.get("children", []):
            value_names(c, names)
        if None in names:
            issues.append(("nested", jf.get("prop"), None))
        else:
            exp = ", ".join(names) if names else None
            if jf.get("prop") != exp:
                issues.append(("label", jf.get("prop"), exp))
        return
    cf, ct = jf.get("children", []), jt.get("children", [])
    if len(cf) != len(ct):
        issues.append(("children", len(cf), len(ct)))
        return
    for a, b in zip(cf, ct):
        compare_flat_tree(a, b, issues)


@matcher("dov_with_component_pairs")
def _m3(case, k):
    return "(NS " in case.get("root", "") and case.get("flags", "00000")[3] == '1'


@matcher("flat_mode_nested_property")
def _m(case, k):
    return bool(case.get("features", {}).get("nested")) and case.get("flags", "0")[0] == '1'


@matcher("flat_mode_property_shared_text")
def _m2(case, k):
    return bool(case.get("features", {}).get("shared")) and case.get("flags", "0")[0] == '1'


def run(args):
    build = prepare(verbose=True)
    V = Verdict(PID, args.tier, args.seed)
    po = check_props(build, FILES)
    for f in po["broken_files"]:
        V.broke("coq:" + f, po["log"])
    if not build.ok_go:
        V.broke("go-build", build.go_log)
        return V.finish(std_coverage(po, 0, 0, "harness did not build", []), po["assumptions"])
    roots = gen_roots(args.tier, args.seed, 17, n_quick=260, n_thorough=4000)
    if args.replay:
        rep = json.load(open(args.replay))
        if rep.get("input") and rep["input"].get("root"):
            roots = [rnode(rep["input"]["root"])]
    rtexts = [wnode(r) for r in roots]
    reqs, lines, meta = [], [], []
    for ri, (root, t) in enumerate(zip(roots, rtexts)):
        for f in FLAGS:
            reqs.append(dict(vis_opts(f), mode="bvisn", tree=t))
            lines.append("jsonn\t%s\t%s" % (f, t))
            meta.append((ri, f))
    impl = run_pool([build.obs], reqs, NCPU, timeout=30)
    model = run_lines([build.modelrun], lines) if build.modelrun else None
    mism = nontrivial = 0
    dist = {"roots": len(roots), "pair_roots": 0, "with_nested_property": 0, "hostile": 0}
    per_root = {}
    for i, ((ri, f), r) in enumerate(zip(meta, impl)):
        case = {"root": rtexts[ri], "flags": f}
        m = model[i] if model else None
        if "panic" in r or "exit" in r or "timeout" in r:
            if m is not None and m.startswith("panic"):
                continue
            V.violation("crash:visual-print", case, observed={k: r[k] for k in r if k != "stack"}, what="visual printer panicked / exited / hung")
            continue
        if r.get("err") != "NO_ERROR":
            continue
        j = parse_out(r)
        if j is None:
            continue   # C08's subject
        per_root.setdefault(ri, {})[f] = j
        check_vector_predicates(V, case, f, j)
        if m is not None:
            if m.startswith("bad:"):
                V.broke("model:jsonn", m)
                continue
            exp = unhex(json.loads(m[3:])) if m.startswith("ok:") else None
            if exp != [j]:
                mism += 1
                if mism <= 3:
                    V.broke("correspondence:to_json", json.dumps({"flags": f, "root": rtexts[ri], "impl": j, "model": exp if exp is not None else m[:60]})[:2500])
    # pairwise: within one property mode against its binary baseline; flat against tree by a parallel walk
    for ri, outs in per_root.items():
        feats = prop_features(roots[ri])
        if feats["nested"]:
            dist["with_nested_property"] += 1
        if roots[ri][0] == 'C':
            dist["pair_roots"] += 1
        if outs.get("01000") is not None and len(entries(outs["01000"])) >= 3:
            nontrivial += 1
        for f, j in outs.items():
            case = {"root": rtexts[ri], "flags": f, "features": feats}
            base = outs.get(f[0] + "1000")
            if base is not None and entries(j) != entries(base):
                V.violation("entries-differ:same-property-mode", case, observed=sorted(entries(j) - entries(base))[:6] + sorted(entries(base) - entries(j))[:6],
                            what="set of (component, value, level) entries differs from the binary baseline of the same property mode")
            twin = outs.get(f[0] + "100" + f[4])
            if twin is not None and leafseq(j) != leafseq(twin):
                V.violation("values-differ:bin-dov-anno", case, observed=leafseq(j)[:8], expected=leafseq(twin)[:8], what="value sequence changes with binary / DoV / annotation option")
            # annotation members do not depend on the DoV option, DoV members not on the annotation option
            if f[2] == "1":
                od = outs.get(f[:3] + ("0" if f[3] == "1" else "1") + f[4])
                if od is not None:
                    a1 = [(n.get("name"), n.get("anno")) for n in walk(j) if "anno" in n]
                    a2 = [(n.get("name"), n.get("anno")) for n in walk(od) if "anno" in n]
                    if a1 != a2:
                        V.violation("member:anno-depends-on-dov", case, observed=[x for x in a1 if x not in a2][:4] + [x for x in a2 if x not in a1][:4],
                                    what="the annotation members shown differ with the Degree-of-Variability option")
            if f[3] == "1":
                oa = outs.get(f[:2] + ("0" if f[2] == "1" else "1") + f[3:])
                if oa is not None:
                    d1 = [(n.get("name"), n.get("dov")) for n in walk(j) if "dov" in n]
                    d2 = [(n.get("name"), n.get("dov")) for n in walk(oa) if "dov" in n]
                    if d1 != d2:
                        V.violation("member:dov-depends-on-anno", case, observed=[x for x in d1 if x not in d2][:4] + [x for x in d2 if x not in d1][:4],
                                    what="the Degree-of-Variability members shown differ with the annotation option")
            other = outs.get(f[:4] + ("0" if f[4] == "1" else "1"))
            if other is not None and sorted(map(str, leafseq(j))) != sorted(map(str, leafseq(other))):
                V.violation("actop:changes-values", case, what="moving activation conditions first changes more than the order")
            if f[0] == '1':
                tree = outs.get("0" + f[1:])
                if tree is not None:
                    issues = []
                    compare_flat_tree(j, tree, issues)
                    kinds = {k for k, _, _ in issues}
                    if "nested" in kinds:
                        V.violation("flat-vs-tree:nested-property-flattened", case, observed=[i for i in issues if i[0] == "nested"][:3],
                                    what="flat property mode flattens a nested property statement into the label: its values lose component and level")
                    if "label" in kinds:
                        sig = "flat-vs-tree:label-without-shared-text" if feats["shared"] else "flat-vs-tree:label-differs"
                        V.violation(sig, case, observed=[i for i in issues if i[0] == "label"][:3], what="flat property label is not the list of the property values shown in tree mode")
                    if kinds - {"nested", "label"}:
                        V.violation("flat-vs-tree:structure-differs", case, observed=issues[:3], what="flat and tree property mode differ in more than the property presentation")
    if mism:
        V.broken[-1]["detail"] += " (%d disagreeing cases)" % mism
    if model is None:
        V.broke("model:extraction", build.coq_log[-1500:])
    cov = std_coverage(po, len(reqs), nontrivial,
                       "T: %d root nodes (statements to nesting depth 5, pair combinations, node-array entries, private links, a third with hostile texts), each under all 32 option vectors, compared pairwise against the binary tree-property baseline. Non-trivial = root with at least 3 entries." % len(roots),
                       [{"root": rtexts[0], "flags": "all 32"}, {"root": rtexts[len(rtexts) // 2], "flags": "all 32"}],
                       {"distribution": dist, "tree_level": len(reqs), "correspondence_mismatches": mism, "exhaustive": False})
    return V.finish(cov, po["assumptions"])
