"""C05 Logical linkage cells name the right rows and the right operators."""
import json, random, itertools
from tab_common import *

FILES = ["Tie/C04_tie.v", "Props/C05.v"]
LLC, LLS, SID = b"Logical Linkage (Components)", b"Logical Linkage (Statements)", b"Statement ID"


def parse_stmt_links(cell):
    """'[AND OR].[7.2];[OR].[7.3]' (expanded statements) or '[OR][{7}.2],[XOR OR][{7}.3]' (nested) -> [(ops, id)]"""
    out = []
    for m in re.finditer(rb"\[([A-Za-z ]*)\]\.?\[([^\]]*)\]", cell):
        out.append((tuple(m.group(1).split()), m.group(2)))
    return out


def leaf_paths(n, p=""):
    if n[0] == 'L':
        return [p]
    return leaf_paths(n[7], p + "0") + leaf_paths(n[8], p + "1")


def check_case(c, V, stats, linkq):
    if not c.get("tabs") or c.get("spec") is None or c["impl"].get("err") != "NO_ERROR_DURING_PARSING":
        return
    ntop = len(c["tabs"])
    for j, (tab, spec) in enumerate(zip(c["tabs"], c["spec"])):
        if spec is None:
            continue
        own = own_rows(tab["rows"])
        case = {"tree": c["tree"], "text": c.get("text"), "opt": c["opt"].key(), "statement": j}
        if len(own) != len(spec["links"]):
            continue  # C04's business
        base = c["id"] if ntop == 1 else c["id"] + b"." + str(j + 1).encode()
        multi = set()
        if spec["choices"]:
            names = [a for a, _ in spec["choices"][0]]
            multi = {a for a in names if names.count(a) > 1}
        stats["rows"] += len(own)
        for i, (row, exp) in enumerate(zip(own, spec["links"])):
            if not exp and not row.get(LLC):
                continue
            got = parse_comp_links(row[LLC]) if row.get(LLC) else []
            if any(g is None for g in got):
                V.violation("links:cell-unparsable", case, observed={"row": i, "cell": row.get(LLC)}, what="component linkage cell does not have the form [ops].comp.[refs]")
                continue
            got = [(ops, comp, sorted(sum((expand_ref(r) for r in refs), []))) for ops, comp, refs in got if comp not in multi]
            want = [(ops, comp, sorted(base + b"." + str(k).encode() for k in rs)) for comp, ops, rs in exp if comp not in multi]
            want = [(tuple(o.encode() for o in ops), comp, rs) for ops, comp, rs in want]
            if want:
                stats["linked_rows"] += 1
                stats["entries"] += len(want)
                if any(len(ops) >= 2 for ops, _, _ in want):
                    stats["nontrivial"] += 1
            if got != want:
                V.violation("links:component-linkage-differs", case, observed={"row": i, "links": repr(got)[:600]}, expected={"links": repr(want)[:600]},
                            what="component linkage cell differs from the operators on the tree path / the rows carrying the alternative")
        # mutuality inside the statement's own rows (on the implementation's table alone)
        out = {}
        for row in own:
            st = set()
            for g in (parse_comp_links(row[LLC]) if row.get(LLC) else []):
                if g is None:
                    continue
                for ref in g[2]:
                    for x in expand_ref(ref):
                        st.add((g[1], x))
            out[row.get(SID)] = st
        for rid, st in out.items():
            for comp, tid in st:
                if tid in out and (comp, rid) not in out[tid]:
                    V.violation("links:not-mutual", case, observed={"from": rid, "to": tid, "component": comp}, what="row r points to row s but s does not point back to r")
                    break
    # statement-level linkage of expanded pair statements: expected from the operator tree of the root
    if ntop > 1 and c.get("root") is not None and c["root"][0] == 'C':
        paths = leaf_paths(c["root"])
        if len(paths) == ntop:
            for j in range(ntop):
                for k in range(ntop):
                    if j != k:
                        linkq.append((c, j, k, "link\t%s\t%s\t%s" % (c["tree"], paths[j], paths[k])))
    # mutuality of every statement-level link in the whole table
    allrows = [r for t in c["tabs"] for r in t["rows"]]
    targets = set(tid for r in allrows for _, tid in parse_stmt_links(r.get(LLS, b"")))

    def grp(rid):
        if rid in targets:
            return rid
        head = rid.rsplit(b".", 1)[0]
        return head if head in targets else rid
    groups = {}
    for r in allrows:
        groups.setdefault(grp(r[SID]), []).append(r)
    for r in allrows:
        for ops, tid in parse_stmt_links(r.get(LLS, b"")):
            stats["stmt_links"] += 1
            mine = grp(r[SID])
            for t in groups.get(tid, []):
                if not any(x == mine for _, x in parse_stmt_links(t.get(LLS, b""))):
                    V.violation("links:statement-linkage-not-mutual", {"tree": c["tree"], "text": c.get("text"), "opt": c["opt"].key()},
                                observed={"from": r[SID], "to": tid, "row_without_converse": t[SID]}, what="statement-level link without the converse link")
                    break


def group_of(rid):
    """The statement a row belongs to: '7.1.3' -> '7.1' is ambiguous, so groups are looked up by trying the full id and the id
    without its last number."""
    return rid


def run(args):
    build = prepare(verbose=True)
    V = Verdict("C05", args.tier, args.seed)
    po = check_props(build, FILES)
    for f in po["broken_files"]:
        V.broke("coq:" + f, po["log"])
    if not build.ok_go:
        V.broke("go-build", build.go_log)
        return V.finish(std_coverage(po, 0, 0, "harness did not build", []), po["assumptions"])
    cases = gen_tab_cases(args.tier, args.seed, salt=50, n_trees=1500 if args.tier == "quick" else 20000)
    if args.replay:
        rep = json.load(open(args.replay))
        inp = rep.get("input") or {}
        if inp.get("text"):
            cases = [{"stream": "P", "text": inp["text"], "opt": Opt(), "id": b"7", "orig": b""}]
        elif inp.get("tree"):
            cases = [{"stream": "T", "root": rnode(inp["tree"]), "tree": inp["tree"], "opt": Opt(), "id": b"7", "orig": b"", "igs": b""}]
    fl = function_level(build, V, args.tier, args.seed)
    mism = run_tab_cases(build, cases, V)
    stats = {"rows": 0, "linked_rows": 0, "entries": 0, "nontrivial": 0, "stmt_links": 0, "pair_links": 0}
    linkq = []
    for c in cases:
        fix_groups(c)
        check_case(c, V, stats, linkq)
    # expanded pair statements: cell of statement j must name statement k with collapse(path_ops)
    if linkq and build.modelrun:
        res = run_lines([build.modelrun], [q[3] for q in linkq])
        for (c, j, k, _), l in zip(linkq, res):
            parts = l.split(":")
            if parts[0] != "ok":
                continue
            spec_ops = tuple(collapse_py(parts[3].split()))
            own = own_rows(c["tabs"][j]["rows"])
            tid = c["id"] + b"." + str(k + 1).encode()
            for row in own:
                got = [ops for ops, x in parse_stmt_links(row.get(LLS, b"")) if x == tid]
                stats["pair_links"] += 1
                if got != [tuple(o.encode() for o in spec_ops)]:
                    V.violation("links:statement-linkage-differs", {"tree": c["tree"], "text": c.get("text"), "opt": c["opt"].key()},
                                observed={"row": row[SID], "to": tid, "ops": repr(got)}, expected={"ops": spec_ops},
                                what="linkage between expanded component-pair statements differs from the written operator tree")
                    break
    if mism["crash"]:
        V.broke("correspondence:tab-crash", "%d built trees made the implementation panic where the model does not" % mism["crash"])
    dist = {"stream": {}}
    for c in cases:
        dist["stream"][c["stream"]] = dist["stream"].get(c["stream"], 0) + 1
    cov = std_coverage(po, len(cases) + fl, stats["nontrivial"],
                       "F: FindLogicalLinkage on every ordered pair of leaves of every operator tree (five operators) up to %d leaves and GenerateReferenceSlice on id lists, against the extracted path_ops / expand_refs; "
                       "T/P: tables of built roots and parsed statements: component linkage cells parsed into (operators, component, expanded row ids) and compared with Spec/TabSpec.spec_links, mutuality on the implementation's table, "
                       "statement linkage of expanded pair statements against path_ops of the pair tree. Non-trivial = row whose expected linkage has an entry with >= 2 operators." % (4 if args.tier == "quick" else 6),
                       [c.get("text") or c["tree"][:300] for c in cases[:1] + cases[-2:]],
                       {"distribution": dist, "function_level": fl, "tree_level": dist["stream"].get("T", 0), "endpoint_level": dist["stream"].get("P", 0),
                        "rows_checked": stats["rows"], "rows_with_linkage": stats["linked_rows"], "linkage_entries": stats["entries"],
                        "statement_links": stats["stmt_links"], "pair_links": stats["pair_links"], "correspondence_mismatches": mism, "exhaustive": False})
    return V.finish(cov, po["assumptions"])


def fix_groups(c):
    pass


def collapse_py(ops):
    out = []
    for o in ops:
        if out and o in ("AND", "bAND", "wAND") and out[-1] in ("AND", "bAND", "wAND"):
            continue
        out.append(o)
    return out


def function_level(build, V, tier, seed):
    """FindLogicalLinkage == path_ops (Coq spec) == find_linkage (Coq model) on all small trees; reference slices."""
    rng = random.Random(seed * 31 + 5)
    trees = []
    maxk = 4 if tier == "quick" else 5
    for k in range(2, maxk + 1):
        trees += list(GT.op_trees(k, OPS))
    if tier == "thorough":
        trees += rng.sample(list(GT.op_trees(6, OPS)), 3000)
    elif len(trees) > 1500:
        trees = [t for t in trees if nleaves(t) <= 3] + rng.sample([t for t in trees if nleaves(t) == 4], 900)
    reqs, lines, meta = [], [], []
    for t in trees:
        w = wnode(t)
        ps = leaf_paths(t)
        for p, q in itertools.permutations(ps, 2):
            reqs.append({"mode": "fn", "fn": "link", "args": {"tree": w, "p": p, "q": q}})
            lines.append("link\t%s\t%s\t%s" % (w, p, q))
            meta.append((w, p, q))
    impl = run_pool([build.obs], reqs, NCPU, timeout=30)
    mod = run_lines([build.modelrun], lines) if build.modelrun else [None] * len(lines)
    bad = 0
    for (w, p, q), r, l in zip(meta, impl, mod):
        if l is None:
            continue
        parts = l.split(":")
        if parts[0] != "ok":
            V.broke("model:find_linkage", l[:200])
            continue
        m_found, m_ops, s_ops = parts[1] == "true", parts[2].split(), parts[3].split()
        if not r.get("found") or r.get("ops") != s_ops:
            bad += 1
            if bad <= 2:
                V.violation("linkage:operators-off-tree-path", {"tree": w, "p": p, "q": q}, observed={"found": r.get("found"), "ops": r.get("ops")}, expected={"ops": s_ops},
                            what="FindLogicalLinkage differs from the operators on the tree path")
        if (m_found, m_ops) != (bool(r.get("found")), r.get("ops")):
            V.broke("correspondence:find_linkage", json.dumps({"tree": w, "p": p, "q": q, "impl": r.get("ops"), "model": m_ops}))
    # reference slices: compressed ranges expand to exactly the ids
    idlists = []
    for _ in range(300 if tier == "quick" else 5000):
        n = rng.randint(1, 40)
        ids = sorted(rng.sample(range(0, 60), n))
        idlists.append(ids)
    impl = run_pool([build.obs], [{"mode": "fn", "fn": "refs", "args": {"ids": ids, "ranges": True, "inc": True}} for ids in idlists], NCPU, timeout=20)
    mod = run_lines([build.modelrun], ["refs\t" + ",".join(map(str, ids)) for ids in idlists]) if build.modelrun else []
    for ids, r, l in zip(idlists, impl, mod):
        mrefs, mexp = l.split(":")
        if ",".join(r.get("refs", [])) != mrefs:
            V.broke("correspondence:reference-slice", json.dumps({"ids": ids, "impl": r.get("refs"), "model": mrefs}))
        exp = sum((expand_ref(b"x." + x.encode()) for x in r.get("refs", [])), [])
        if exp != [b"x.%d" % (i + 1) for i in ids]:
            V.violation("refs:range-compression-loses-rows", {"ids": ids}, observed={"refs": r.get("refs")}, expected={"rows": [i + 1 for i in ids]},
                        what="compressed reference list does not expand to the rows it was built from")
    return len(meta) + len(idlists)
