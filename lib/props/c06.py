"""C06 Statement IDs are unique and every reference in the table resolves."""
import json, random
from tab_common import *

FILES = ["Tie/C04_tie.v", "Props/C06.v"]
LLC, LLS, SID = b"Logical Linkage (Components)", b"Logical Linkage (Statements)", b"Statement ID"
ID_ALPHABET = b"abcXYZ0123456789."


def split_group(rid):
    """'{P}.k' / '{P}.k.j' -> (P, k, group id); None when rid is not the id of a nested row."""
    if not rid.startswith(b"{"):
        return None
    depth = 0
    for i, ch in enumerate(rid):
        if ch == 0x7b:
            depth += 1
        elif ch == 0x7d:
            depth -= 1
            if depth == 0:
                rest = rid[i + 1:]
                m = re.match(rb"\.(\d+)(\.\d+)?$", rest)
                if not m:
                    return None
                return rid[1:i], int(m.group(1)), rid[:i + 1] + b"." + m.group(1)
    return None


def check_case(c, V, stats):
    if not c.get("tabs") or c["impl"].get("err") != "NO_ERROR_DURING_PARSING":
        return
    rows = [r for t in c["tabs"] for r in t["rows"]]
    case = {"tree": c.get("tree"), "text": c.get("text"), "opt": c["opt"].key(), "id": c["id"].decode("latin1")}
    ids = [r.get(SID, b"") for r in rows]
    stats["rows"] += len(rows)
    if len(set(ids)) != len(ids):
        dup = sorted(x for x in set(ids) if ids.count(x) > 1)[:3]
        V.violation("ids:duplicate", case, observed={"duplicates": repr(dup)}, what="two rows carry the same Statement ID")
        return
    idset = set(ids)
    groups = set()
    for rid in ids:
        g = split_group(rid)
        if g:
            groups.add(g[2])
    top = c["id"]

    def resolves(ref):
        return ref in idset or ref in groups or any(x.startswith(ref + b".") for x in idset)
    nested_rows = 0
    referenced = set()
    for r in rows:
        rid = r[SID]
        for k, v in r.items():
            if k.endswith(b"-Ref") and c["opt"].ext:
                for ref in v.split(b","):
                    stats["refs"] += 1
                    referenced.add((ref, rid))
                    if not resolves(ref):
                        V.violation("refs:dangling-component-reference", case, observed={"row": rid, "column": k, "reference": ref},
                                    what="a reference cell names a nested statement without rows in the table")
        for g in (parse_comp_links(r[LLC]) if r.get(LLC) else []):
            if g is None:
                continue
            for ref in g[2]:
                for x in expand_ref(ref):
                    stats["refs"] += 1
                    if x not in idset:
                        V.violation("refs:dangling-component-linkage", case, observed={"row": rid, "reference": x},
                                    what="component linkage names a row that is not in the table")
        for m in re.finditer(rb"\]\.?\[([^\]]*)\]", r.get(LLS, b"")):
            stats["refs"] += 1
            if not resolves(m.group(1)):
                V.violation("refs:dangling-statement-linkage", case, observed={"row": rid, "reference": m.group(1)},
                            what="statement linkage names a statement that is not in the table")
    # numbering and parent reference of nested groups
    bygroup = {}
    for rid in ids:
        g = split_group(rid)
        if g:
            nested_rows += 1
            bygroup.setdefault(g[2], []).append(rid)
    stats["nested_groups"] += len(bygroup)
    if bygroup:
        stats["nontrivial"] += 1
    for gid, members in bygroup.items():
        parent = split_group(gid)[0]
        prow = [x for x in ids if x == parent or (x.startswith(parent + b".") and x[len(parent) + 1:].isdigit())]
        if not prow:
            V.violation("ids:nested-group-without-parent", case, observed={"group": gid}, what="a nested row group whose parent statement has no rows")
            continue
        if not any((gid, p) in referenced for p in prow):
            V.violation("ids:nested-group-not-referenced", case, observed={"group": gid, "parent_rows": repr(prow[:3])},
                        what="a nested row group that no row of its parent statement references")
        if len(members) > 1:
            want = [gid + b"." + str(i + 1).encode() for i in range(len(members))]
            if members != want:
                V.violation("ids:nested-rows-off-sequence", case, observed={"rows": repr(members[:4])}, expected={"rows": repr(want[:4])},
                            what="atomic rows of a nested statement are not numbered {parent}.N.1 ...")
    # every nested group number 1..n of a parent is present (numbering from the parent's ID in braces)
    byparent = {}
    for gid in bygroup:
        p, k, _ = split_group(gid)
        byparent.setdefault(p, []).append(k)
    for p, ks in byparent.items():
        if sorted(ks) != list(range(1, len(ks) + 1)):
            V.violation("ids:nested-numbering-has-gaps", case, observed={"parent": p, "numbers": sorted(ks)}, what="nested statements are not numbered {parent}.1 ... {parent}.n")


def run(args):
    build = prepare(verbose=True)
    V = Verdict("C06", args.tier, args.seed)
    po = check_props(build, FILES)
    for f in po["broken_files"]:
        V.broke("coq:" + f, po["log"])
    if not build.ok_go:
        V.broke("go-build", build.go_log)
        return V.finish(std_coverage(po, 0, 0, "harness did not build", []), po["assumptions"])
    rng = random.Random(args.seed * 977 + 6)
    cases = gen_tab_cases(args.tier, args.seed, salt=60, n_trees=1500 if args.tier == "quick" else 20000)
    for c in cases:
        # arbitrary user-supplied IDs made of letters, digits and dots; nested statements force deeper groups
        c["id"] = bytes(rng.choice(ID_ALPHABET) for _ in range(rng.randint(1, 6)))
        if rng.random() < 0.75:
            c["opt"].ext = True
    if args.replay:
        rep = json.load(open(args.replay))
        inp = rep.get("input") or {}
        o = Opt(ext=True)
        sid = (inp.get("id") or "7").encode("latin1")
        if inp.get("text"):
            cases = [{"stream": "P", "text": inp["text"], "opt": o, "id": sid, "orig": b""}]
        elif inp.get("tree"):
            cases = [{"stream": "T", "root": rnode(inp["tree"]), "tree": inp["tree"], "opt": o, "id": sid, "orig": b"", "igs": b""}]
    mism = run_tab_cases(build, cases, V, want_spec=False)
    stats = {"rows": 0, "refs": 0, "nested_groups": 0, "nontrivial": 0}
    for c in cases:
        check_case(c, V, stats)
    if mism["crash"]:
        V.broke("correspondence:tab-crash", "%d built trees made the implementation panic where the model does not" % mism["crash"])
    dist = {"stream": {}, "id_length": {}}
    for c in cases:
        dist["stream"][c["stream"]] = dist["stream"].get(c["stream"], 0) + 1
        dist["id_length"][len(c["id"])] = dist["id_length"].get(len(c["id"]), 0) + 1
    cov = std_coverage(po, len(cases), stats["nontrivial"],
                       "T: built roots (nested statements inside alternatives, inside expanded pair statements, inside nested statements, private nested properties; nesting depth up to 5) / "
                       "P: parsed statements (nesting depth <= 3), IG Extended on 75 % of the cases, user IDs over letters, digits and dots; uniqueness, resolution of every reference "
                       "(reference cells, both linkage columns, ranges expanded), numbering and parent reference of every nested row group evaluated on the implementation's table. "
                       "Non-trivial = table with at least one nested row group.",
                       [c.get("text") or c["tree"][:300] for c in cases[:1] + cases[-2:]],
                       {"distribution": dist, "tree_level": dist["stream"].get("T", 0), "endpoint_level": dist["stream"].get("P", 0),
                        "rows_checked": stats["rows"], "references_checked": stats["refs"], "nested_groups": stats["nested_groups"],
                        "correspondence_mismatches": mism, "exhaustive": False})
    return V.finish(cov, po["assumptions"])
