"""C20 Degree of Variability follows the documented recurrence."""
import json, random
from common import *
from pool import run_pool, run_lines
from sxp import *
import gen_trees as GT

FILES = ["Tie/C20_tie.v", "Props/C20.v"]


def parse_model(line):
    if line.startswith("bad:"):
        return {"bad": line}
    d = {}
    for part in line.split(" "):
        k, _, v = part.partition("=")
        d[k] = v
    fields = {}
    if d.get("fields"):
        for kv in d["fields"].split(","):
            k, _, v = kv.partition("=")
            fields[k] = v
    d["fields"] = fields
    sf = {}
    if d.get("specfields"):
        for kv in d["specfields"].split(","):
            k, _, v = kv.partition("=")
            sf[k] = int(v)
    d["specfields"] = sf
    return d


def gen_cases(tier, seed):
    rng = random.Random(seed * 7919 + 20)
    cases = []
    # exhaustive: every operator tree over the five operators on every field in turn
    maxk = 4 if tier == "quick" else 5
    trees = []
    for k in range(1, maxk + 1):
        trees += list(GT.op_trees(k, OPS))
    if tier == "thorough":
        six = list(GT.op_trees(6, OPS))
        trees += rng.sample(six, 20000)
    for i, t in enumerate(trees):
        fs = FIELDS if (tier == "thorough" or i < 160) else [FIELDS[(i + seed) % 27], FIELDS[(i * 7 + 3 + seed) % 27]]
        for f in fs:
            n = with_ct(t, FIELD_SYMBOL[f])
            if f in COMPLEX_FIELDS:
                # complex fields hold nested statements: put the tree on a field of a nested statement instead
                inner = [("A", leaf(b"a", ct="A")), ("I", with_ct(t, "I"))]
                st = [("A", leaf(b"actor", ct="A")), (f, leaf(('T', inner), ct=FIELD_SYMBOL[f]))]
            else:
                st = [(f, n)]
                if f != "A":
                    st.insert(0, ("A", leaf(b"actor", ct="A")))
            cases.append(("E", st))
    # sampled: several varying fields, nesting to depth 5
    g = GT.G(rng)
    for _ in range(3000 if tier == "quick" else 40000):
        st = g.statement(max_depth=rng.choice([1, 2, 3, 5]), max_leaves=rng.choice([3, 5, 8]), nfields=rng.randint(1, 9))
        if st:
            cases.append(("S", st))
    # outside the recurrence's domain (correspondence only): empty strings, nil entries, node arrays
    for _ in range(60):
        st = g.statement(max_depth=1)
        if not st:
            continue
        f, n = st[rng.randrange(len(st))]
        bad = rng.choice([leaf(b""), leaf(('NS', [leaf(('T', [("A", leaf(b"q", ct="A"))]))]))])
        st = [(ff, comb("AND", nn, bad, ct=nn[1]) if ff == f else nn) for ff, nn in st]
        cases.append(("M", st))
    return cases


def run(args):
    build = prepare(verbose=True)
    V = Verdict("C20", args.tier, args.seed)
    po = check_props(build, FILES)
    for f in po["broken_files"]:
        V.broke("coq:" + f, po["log"])
    if not build.ok_go:
        V.broke("go-build", build.go_log)
        return V.finish(std_coverage(po, 0, 0, "harness did not build", []), po["assumptions"])
    cases = gen_cases(args.tier, args.seed)
    if args.replay:
        rep = json.load(open(args.replay))
        if rep.get("input") and rep["input"].get("tree"):
            cases = [("R", rstmt(rep["input"]["tree"]))]
    texts = [wstmt(st) for _, st in cases]
    impl = run_pool([build.obs], [{"mode": "bdov", "tree": t} for t in texts], NCPU, timeout=20)
    model = [parse_model(l) for l in run_lines([build.modelrun], ["dov\t" + t for t in texts])] if build.modelrun else None
    distinct, nontrivial = set(), 0
    dist = {"leaves": {}, "nested_depth": {}, "stream": {}}
    mism = 0
    for i, ((stream, st), t, r) in enumerate(zip(cases, texts, impl)):
        case = {"tree": t}
        s = GT.stats(st)
        dist["stream"][stream] = dist["stream"].get(stream, 0) + 1
        dist["leaves"][min(s["leaves"], 20)] = dist["leaves"].get(min(s["leaves"], 20), 0) + 1
        dist["nested_depth"][s["maxdepth"]] = dist["nested_depth"].get(s["maxdepth"], 0) + 1
        if t not in distinct:
            distinct.add(t)
            if s["combs"] >= 1:
                nontrivial += 1
        if "panic" in r or "exit" in r or "timeout" in r:
            m = model[i] if model else {}
            if model and (m.get("total", "").startswith("panic")):
                continue  # the model predicts the panic (outside the property's domain)
            V.violation("crash:complexity", case, observed=r, what="complexity calculation panicked / exited / hung")
            continue
        if "bad" in r:
            V.broke("harness:bdov", str(r))
            continue
        m = model[i] if model else None
        if m is not None:
            if "bad" in m:
                V.broke("model:dov", m["bad"])
                continue
            # (a) correspondence: model = implementation (total and every component value)
            mt = m["total"]
            ok = mt == "ok:%d" % r["total"]
            for f, (v, ec) in r["fields"].items():
                mv = m["fields"].get(f)
                exp = "ok:%d" % v if ec == "NO_ERROR" else "err"
                if not (mv == exp or (exp == "err" and mv and mv.startswith("err:"))):
                    ok = False
            if not ok:
                mism += 1
                if mism <= 3:
                    V.broke("correspondence:dov", json.dumps({"tree": t, "impl": r, "model": m})[:1500])
            # (b) the property itself, evaluated on the implementation's values
            if m["wf"] == "true":
                if r["total"] != int(m["spec"]):
                    V.violation("dov:total-off-recurrence", case, observed={"total": r["total"]}, expected={"total": int(m["spec"])},
                                what="statement total differs from the documented recurrence")
                for f, (v, ec) in r["fields"].items():
                    if f in m["specfields"] and (ec != "NO_ERROR" or v != m["specfields"][f]):
                        V.violation("dov:node-off-recurrence", case, observed={f: [v, ec]}, expected={f: m["specfields"][f]},
                                    what="component value differs from the documented recurrence")
    # (c) the visual tree: with Degree of Variability on - alone and together with every other display option - every node
    # carries the value, and the values are those of the model (node_cx, proved equal to the recurrence: C20_node, C20_total)
    vis = {"roots": 0, "conversions": 0, "nodes": 0, "annotated_nodes": 0}
    if model is not None and not args.replay or (args.replay and (rep.get("input") or {}).get("root")):
        import vis_common as VC
        if args.replay and (rep.get("input") or {}).get("root"):
            vroots, vflags = [rep["input"]["root"]], [[rep["input"]["flags"]]]
        else:
            rs = [VC.wnode(r) for r in VC.gen_roots(args.tier, args.seed, 20, n_quick=260, n_thorough=4000)]
            vroots = [t for t in rs if "(NS " not in t]     # component pairs: known finding of C17 (dov_with_component_pairs)
            rng = random.Random(args.seed * 31 + 5)
            dov_flags = [f for f in VC.FLAGS if f[3] == '1']
            vflags = [(dov_flags if args.tier == "thorough" else rng.sample(dov_flags, 4)) for _ in vroots]
        vreq, vlines, vmeta = [], [], []
        for t, fs in zip(vroots, vflags):
            for f in fs:
                vreq.append(dict(VC.vis_opts(f), mode="bvisn", tree=t))
                vlines.append("jsonn\t%s\t%s" % (f, t))
                vmeta.append((t, f))
        vimpl = run_pool([build.obs], vreq, NCPU, timeout=30)
        vmodel = run_lines([build.modelrun], vlines)
        vis["roots"], vis["conversions"] = len(vroots), len(vreq)
        vm = 0
        for (t, f), r, m in zip(vmeta, vimpl, vmodel):
            case = {"root": t, "flags": f}
            if "panic" in r or "exit" in r or "timeout" in r or r.get("err") != "NO_ERROR" or not m.startswith("ok:"):
                continue       # crashes and invalid output: C08 / C10
            j = VC.parse_out(r)
            if j is None:
                continue
            exp = VC.unhex(json.loads(m[3:]))
            got_seq = [(n.get("name"), n.get("dov")) for n in VC.walk(j)]
            exp_seq = [(n.get("name"), n.get("dov")) for e in exp for n in VC.walk(e)]
            vis["nodes"] += len(got_seq)
            vis["annotated_nodes"] += sum(1 for n in VC.walk(j) if "anno" in n)
            missing = [n.get("name") for n in VC.walk(j) if "dov" not in n and not (VC.is_stmt(n) and n is j)]
            if missing:
                V.violation("visual:node-without-dov", case, observed={"nodes": missing[:6]}, what="Degree of Variability is on, but a node of the visual tree carries no value")
            elif [a for a, _ in got_seq] != [a for a, _ in exp_seq]:
                vm += 1
                if vm <= 3:
                    V.broke("correspondence:visual-tree", json.dumps({"root": t, "flags": f})[:1500])
            elif got_seq != exp_seq:
                k = next(i for i, (a, b) in enumerate(zip(got_seq, exp_seq)) if a != b)
                V.violation("visual:dov-off-recurrence", case, observed={"node": got_seq[k][0], "dov": got_seq[k][1]}, expected={"dov": exp_seq[k][1]},
                            what="a node of the visual tree carries a Degree of Variability other than the recurrence gives")
    if mism:
        V.broken[-1]["detail"] += " (%d disagreeing cases)" % mism
    if model is None:
        V.broke("model:extraction", build.coq_log[-1500:])
    cov = std_coverage(po, len(cases), nontrivial,
                       "E: every operator tree <= %d leaves over {AND,OR,XOR,bAND,wAND} on component fields in turn; S: random statements, up to 9 fields, nesting depth <= 5; M: trees outside the recurrence's domain (correspondence only); V: statements (annotations, private properties, hostile texts, nesting depth <= 5) through the visual printer with DoV on under 4 (thorough: all 16) vectors of the other options: every node carries a value, the values are the model's. Non-trivial = distinct serialised statement with at least one combination." % (4 if args.tier == "quick" else 6),
                       [texts[0], texts[len(texts) // 2], texts[-70]], {"distribution": dist, "tree_level": len(cases), "visual_tree": vis, "correspondence_mismatches": mism, "exhaustive": False})
    return V.finish(cov, po["assumptions"])
