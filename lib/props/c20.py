"""C20 Degree of Variability follows the documented recurrence."""
import json, random
from common import *
from pool import run_pool, run_lines
from sxp import *
import gen_trees as GT

FILES = ["Tie/C20_tie.v", "Props/C20.v"]


def parse_model(line):
    if line.startswith("bad:"):
        return {"bad": line}
    d = {}
    for part in line.split(" "):
        k, _, v = part.partition("=")
        d[k] = v
    fields = {}
    if d.get("fields"):
        for kv in d["fields"].split(","):
            k, _, v = kv.partition("=")
            fields[k] = v
    d["fields"] = fields
    sf = {}
    if d.get("specfields"):
        for kv in d["specfields"].split(","):
            k, _, v = kv.partition("=")
            sf[k] = int(v)
    d["specfields"] = sf
    return d


def gen_cases(tier, seed):
    rng = random.Random(seed * 7919 + 20)
    cases = []
    # exhaustive: every operator tree over the five operators on every field in turn
    maxk = 4 if tier == "quick" else 5
    trees = []
    for k in range(1, maxk + 1):
        trees += list(GT.op_trees(k, OPS))
    if tier == "thorough":
        six = list(GT.op_trees(6, OPS))
        trees += rng.sample(six, 20000)
    for i, t in enumerate(trees):
        fs = FIELDS if (tier == "thorough" or i < 160) else [FIELDS[(i + seed) % 27], FIELDS[(i * 7 + 3 + seed) % 27]]
        for f in fs:
            n = with_ct(t, FIELD_SYMBOL[f])
            if f in COMPLEX_FIELDS:
                # complex fields hold nested statements: put the tree on a field of a nested statement instead
                inner = [("A", leaf(b"a", ct="A")), ("I", with_ct(t, "I"))]
                st = [("A", leaf(b"actor", ct="A")), (f, leaf(('T', inner), ct=FIELD_SYMBOL[f]))]
            else:
                st = [(f, n)]
                if f != "A":
                    st.insert(0, ("A", leaf(b"actor", ct="A")))
            cases.append(("E", st))
    # sampled: several varying fields, nesting to depth 5
    g = GT.G(rng)
    for _ in range(3000 if tier == "quick" else 40000):
        st = g.statement(max_depth=rng.choice([1, 2, 3, 5]), max_leaves=rng.choice([3, 5, 8]), nfields=rng.randint(1, 9))
        if st:
            cases.append(("S", st))
    # outside the recurrence's domain (correspondence only): empty strings, nil entries, node arrays
    for _ in range(60):
        st = g.statement(max_depth=1)
        if not st:
            continue
        f, n = st[rng.randrange(len(st))]
        bad = rng.choice([leaf(b""), leaf(('NS', [leaf(('T', [("A", leaf(b"q", ct="A"))]))]))])
        st = [(ff, comb("AND", nn, bad, ct=nn[1]) if ff == f else nn) for ff, nn in st]
        cases.append(("M", st))
    return cases


def run(args):
    build = prepare(verbose=True)
    V = Verdict("C20", args.tier, args.seed)
    po = check_props(build, FILES)
    for f in po["broken_files"]:
        V.broke("coq:" + f, po["log"])
    if not build.ok_go:
        V.broke("go-build", build.go_log)
        return V.finish(std_coverage(po, 0, 0, "harness did not build", []), po["assumptions"])
    cases = gen_cases(args.tier, args.seed)
    if args.replay:
        rep = json.load(open(args.replay))
        if rep.get("input") and rep["input"].get("tree"):
            cases = [("R", rstmt(rep["input"]["tree"]))]
    texts = [wstmt(st) for _, st in cases]
    impl = run_pool([build.obs], [{"mode": "bdov", "tree": t} for t in texts], NCPU, timeout=20)
    model = [parse_model(l) for l in run_lines([build.modelrun], ["dov\t" + t for t in texts])] if build.modelrun else None
    distinct, nontrivial = set(), 0
    dist = {"leaves": {}, "nested_depth": {}, "stream": {}}
    mism = 0
    for i, ((stream, st), t, r) in enumerate(zip(cases, texts, impl)):
        case = {"tree": t}
        s = GT.stats(st)
        dist["stream"][stream] = dist["stream"].get(stream, 0) + 1
        dist["leaves"][min(s["leaves"], 20)] = dist["leaves"].get(min(s["leaves"], 20), 0) + 1
        dist["nested_depth"][s["maxdepth"]] = dist["nested_depth"].get(s["maxdepth"], 0) + 1
        if t not in distinct:
            distinct.add(t)
            if s["combs"] >= 1:
                nontrivial += 1
        if "panic" in r or "exit" in r or "timeout" in r:
            m = model[i] if model else {}
            if model and (m.get("total", "").startswith("panic")):
                continue  # the model predicts the panic (outside the property's domain)
            V.violation("crash:complexity", case, observed=r, what="complexity calculation panicked / exited / hung")
            continue
        if "bad" in r:
            V.broke("harness:bdov", str(r))
            continue
        m = model[i] if model else None
        if m is not None:
            if "bad" in m:
                V.broke("model:dov", m["bad"])
                continue
            # (a) correspondence: model = implementation (total and every component value)
            mt = m["total"]
            ok = mt == "ok:%d" % r["total"]
            for f, (v, ec) in r["fields"].items():
                mv = m["fields"].get(f)
                exp = "ok:%d" % v if ec == "NO_ERROR" else "err"
                if not (mv == exp or (exp == "err" and mv and mv.startswith("err:"))):
                    ok = False
            if not ok:
                mism += 1
                if mism <= 3:
                    V.broke("correspondence:dov", json.dumps({"tree": t, "impl": r, "model": m})[:1500])
            # (b) the property itself, evaluated on the implementation's values
            if m["wf"] == "true":
                if r["total"] != int(m["spec"]):
                    V.violation("dov:total-off-recurrence", case, observed={"total": r["total"]}, expected={"total": int(m["spec"])},
                                what="statement total differs from the documented recurrence")
                for f, (v, ec) in r["fields"].items():
                    if f in m["specfields"] and (ec != "NO_ERROR" or v != m["specfields"][f]):
                        V.violation("dov:node-off-recurrence", case, observed={f: [v, ec]}, expected={f: m["specfields"][f]},
                                    what="component value differs from the documented recurrence")
    if mism:
        V.broken[-1]["detail"] += " (%d disagreeing cases)" % mism
    if model is None:
        V.broke("model:extraction", build.coq_log[-1500:])
    cov = std_coverage(po, len(cases), nontrivial,
                       "E: every operator tree <= %d leaves over {AND,OR,XOR,bAND,wAND} on component fields in turn; S: random statements, up to 9 fields, nesting depth <= 5; M: trees outside the recurrence's domain (correspondence only). Non-trivial = distinct serialised statement with at least one combination." % (4 if args.tier == "quick" else 6),
                       [texts[0], texts[len(texts) // 2], texts[-70]], {"distribution": dist, "tree_level": len(cases), "correspondence_mismatches": mism, "exhaustive": False})
    return V.finish(cov, po["assumptions"])
