"""C04 Tabular export lists every atomic statement exactly once."""
import json, random
from tab_common import *

FILES = ["Tie/C04_tie.v", "Props/C04.v"]


def check_case(c, V, stats):
    """The property evaluated on the implementation's table: per top-level statement the own rows are the product."""
    if not c.get("tabs") or c.get("spec") is None or c["impl"].get("err") != "NO_ERROR_DURING_PARSING":
        return
    gs = c["opt"].gs
    for j, (tab, spec) in enumerate(zip(c["tabs"], c["spec"])):
        if spec is None:
            continue
        own = own_rows(tab["rows"])
        choices = spec["choices"]
        case = {"tree": c["tree"], "text": c.get("text"), "opt": c["opt"].key(), "statement": j}
        stats["statements"] += 1
        stats["rows"] += len(own)
        if len(choices) >= 4 and sum(1 for k in range(len(choices[0])) if len(set(ch[k] for ch in choices)) > 1) >= 2:
            stats["nontrivial"] += 1
        if len(own) != len(choices):
            V.violation("rows:count-differs-from-product", case, observed={"rows": len(own)}, expected={"rows": len(choices)},
                        what="number of atomic statements differs from the product of the alternatives")
            continue
        base = c["id"] if len(c["tabs"]) == 1 else c["id"] + b"." + str(j + 1).encode()
        want_ids = [base] if len(own) == 1 else [base + b"." + str(i + 1).encode() for i in range(len(own))]
        if [r.get(b"Statement ID") for r in own] != want_ids:
            V.violation("rows:identifier-off-sequence", case, observed={"ids": repr([r.get(b"Statement ID") for r in own][:5])}, expected={"ids": repr(want_ids[:5])},
                        what="atomic statements are not numbered id.1 ... id.N")
            continue

        def carries(row, ch):
            for comp, text in ch:
                if text is None:
                    continue
                if adjust_py(text, False) not in row.get(comp, b"").replace(b"''", b"'") and adjust_py(text, gs) not in row.get(comp, b""):
                    return (comp, text)
            return None
        bad = None
        if any(carries(row, ch) for row, ch in zip(own, choices)):
            # not in product order: the property asks for a one-to-one assignment only
            free = list(range(len(own)))
            for ch in choices:
                hit = next((k for k in free if carries(own[k], ch) is None), None)
                if hit is None:
                    miss = carries(own[free[0]], ch) if free else None
                    bad = ("rows:choice-without-row", {"choice": repr(ch)[:300], "first_free_row_lacks": repr(miss)}, None)
                    break
                free.remove(hit)
        if bad:
            V.violation(bad[0], case, observed=bad[1], expected=bad[2], what="a combination of alternatives has no row of its own")
            continue
        # the values of one cell stay apart: between the entries of two chosen leaves of one component there is a separator
        # or shared text, never nothing (two different choices could otherwise print the same cell)
        cores = spec.get("cores") or []
        if len(cores) == len(choices) and not any(carries(row, ch) for row, ch in zip(own, choices)):
            for row, ch, co in zip(own, choices, cores):
                bycomp = {}
                for (comp, text), core in zip(ch, co):
                    if text is not None and core and core.strip() == core and core[:1].isalnum():
                        bycomp.setdefault(comp, []).append(adjust_py(core, gs))
                for comp, cs in bycomp.items():
                    cell = row.get(comp, b"")
                    pos = 0
                    for a, b2 in zip(cs, cs[1:]):
                        ia = cell.find(a, pos)
                        if ia < 0:
                            break
                        ib = cell.find(b2, ia + len(a))
                        if ib == ia + len(a):
                            bad = ("rows:cell-values-run-together", {"cell": repr(cell)[:200], "values": [repr(a), repr(b2)]}, None)
                        pos = ia + len(a)
                if bad:
                    break
        if bad:
            V.violation(bad[0], case, observed=bad[1], expected=bad[2], what="two chosen values of one component are printed in their cell without anything between them")
            continue
        # no atomic statement twice: rows whose choices differ must differ in a component cell
        keyrows = [tuple(sorted((k, v) for k, v in r.items() if k not in (b"Statement ID", b"Logical Linkage (Components)", b"Logical Linkage (Statements)"))) for r in own]
        if len(set(tuple(ch) for ch in choices)) == len(choices) and len(set(keyrows)) != len(keyrows):
            texts = [tuple(t for _, t in ch) for ch in choices]
            if len(set(texts)) == len(texts):
                V.violation("rows:duplicate", case, observed={"distinct": len(set(keyrows))}, expected={"distinct": len(keyrows)}, what="two atomic statements with identical cells")


def run(args):
    build = prepare(verbose=True)
    V = Verdict("C04", args.tier, args.seed)
    po = check_props(build, FILES)
    for f in po["broken_files"]:
        V.broke("coq:" + f, po["log"])
    if not build.ok_go:
        V.broke("go-build", build.go_log)
        return V.finish(std_coverage(po, 0, 0, "harness did not build", []), po["assumptions"])
    if args.replay:
        rep = json.load(open(args.replay))
        inp = rep.get("input") or {}
        o = Opt()
        if inp.get("text"):
            cases = [{"stream": "P", "text": inp["text"], "opt": o, "id": b"7", "orig": b""}]
        elif inp.get("tree"):
            cases = [{"stream": "T", "root": rnode(inp["tree"]), "tree": inp["tree"], "opt": o, "id": b"7", "orig": b"", "igs": b""}]
        else:
            cases = gen_tab_cases(args.tier, args.seed)
    else:
        cases = gen_tab_cases(args.tier, args.seed)
    # function level: the odometer on every vector of array lengths
    odo = odometer_level(build, V, args.tier)
    mism = run_tab_cases(build, cases, V)
    stats = {"statements": 0, "rows": 0, "nontrivial": 0}
    for c in cases:
        check_case(c, V, stats)
    if mism["crash"]:
        V.broke("correspondence:tab-crash", "%d built trees made the implementation panic where the model does not" % mism["crash"])
    dist = {"stream": {}, "rows_per_statement": {}}
    for c in cases:
        dist["stream"][c["stream"]] = dist["stream"].get(c["stream"], 0) + 1
        if c.get("tabs"):
            n = min(sum(len(t["rows"]) for t in c["tabs"]), 300) // 10 * 10
            dist["rows_per_statement"][n] = dist["rows_per_statement"].get(n, 0) + 1
    samples = [c.get("text") or c["tree"][:300] for c in cases[:1] + cases[-2:]]
    cov = std_coverage(po, len(cases) + odo, stats["nontrivial"],
                       "T: built statements/pair combinations/nested node arrays/private links with product <= 256 through GenerateTabularOutputFromParsedStatements; "
                       "P: generated IG Script statements through ConvertIGScriptToTabularOutput; odometer: every vector of array lengths. "
                       "Non-trivial = statement with >= 4 atomic statements and >= 2 varying components.",
                       samples, {"distribution": dist, "tree_level": dist["stream"].get("T", 0), "endpoint_level": dist["stream"].get("P", 0),
                                 "odometer_vectors": odo, "statements_checked": stats["statements"], "rows_checked": stats["rows"],
                                 "correspondence_mismatches": mism, "exhaustive": False})
    return V.finish(cov, po["assumptions"])


def odometer_level(build, V, tier):
    """GenerateNodeArrayPermutations vs the specification cart(filter nonempty) on all small length vectors."""
    import itertools
    vecs = []
    maxk, maxlen = (4, 3) if tier == "quick" else (5, 4)
    for k in range(1, maxk + 1):
        for v in itertools.product(range(0, maxlen + 1), repeat=k):
            vecs.append(list(v))
    impl = run_pool([build.obs], [{"mode": "fn", "fn": "odometer", "args": v} for v in vecs], NCPU, timeout=20)
    bad = 0
    for v, r in zip(vecs, impl):
        arrays = [["%d.%d" % (i, j) for j in range(l)] for i, l in enumerate(v)]
        exp = [list(x) for x in itertools.product(*[a for a in arrays if a])]
        if r.get("rows") != exp:
            bad += 1
            if bad <= 2:
                V.violation("odometer:not-the-product", {"lengths": v}, observed={"rows": (r.get("rows") or [])[:6], "n": len(r.get("rows") or [])}, expected={"n": len(exp)},
                            what="GenerateNodeArrayPermutations differs from the Cartesian product")
    return len(vecs)
