"""C03 Component pair combinations expand into complete, correctly linked statements."""
import json, random
from common import *
from pool import run_pool, run_lines
from sxp import *
import gen_text as TX

FILES = ["Tie/C03_tie.v", "Props/C03.v"]
GROUP_SYMS = ['I', 'Bdir', 'Cac', 'Cex', 'E', 'F', 'P', 'M', 'A', 'Bind', 'D']
OUTSIDE_SYMS = ['A', 'D', 'Cac', 'Cex', 'Bind', 'E', 'M']


def pairs_in_nested_with_sibling_combination(parts, depth=0):
    """A component-pair combination inside a nested statement that also holds two or more other components, one of them
    a component combination (known finding F25)."""
    for p in parts:
        if p[0] == 'nested':
            st = p[4]
            if any(q[0] == 'pairs' for q in st):
                sib = [q for q in st if q[0] == 'comp']
                if len(sib) >= 2 and any(q[4][0] == 'comb' for q in sib):
                    return True
            if pairs_in_nested_with_sibling_combination(st, depth + 1):
                return True
    return False


@matcher("pairs_in_nested_statement_with_sibling_combination")
def _m_f25(case, k):
    try:
        return pairs_in_nested_with_sibling_combination(json.loads(case["ast"]))
    except Exception:
        return False


def gen(tier, seed):
    rng = random.Random(seed * 307 + 3)
    tg = TX.TG(rng, annot_p=0.2, shared_p=0.2)
    cases = []

    def group(n, combos=True, nested=False):
        g = [tg.comp(s, 2) if combos else ('comp', s, '', '', ('leaf', tg.word())) for s in rng.sample(GROUP_SYMS, n)]
        if nested and rng.random() < 0.5:
            g.append(('nested', rng.choice(['Cac', 'Cex', 'Bdir']), '', '', [('comp', 'A', '', '', ('leaf', tg.word())), ('comp', 'I', '', '', ('leaf', tg.word()))]))
        return g

    def fill(sh, sizes, **kw):
        if sh[0] == 'leaf':
            return ('leaf', group(sizes.pop(0), **kw))
        return ('op', sh[1], fill(sh[2], sizes, **kw), fill(sh[3], sizes, **kw))
    # P1: top level: every operator tree over 2 and 3 groups (4: sampled), balanced and unbalanced group sizes, any outside subset
    shapes = list(TX.tree_shapes(2)) + list(TX.tree_shapes(3)) + rng.sample(list(TX.tree_shapes(4)), 8 if tier == "quick" else 80)
    if tier == "quick":
        shapes = rng.sample(shapes, 22)
    for sh in shapes:
        k = TX.d_leaves(sh) if hasattr(TX, "d_leaves") else str(sh).count("'leaf'")
        sizes = [rng.randint(1, 4) for _ in range(k)]
        outside = [tg.comp(s, 2) for s in rng.sample(OUTSIDE_SYMS, rng.randint(0, 4))]
        if rng.random() < 0.5:
            # a nested component written outside the braces is shared by every expanded statement as well
            outside.append(('nested', rng.choice(['Bind', 'Bdir', 'Cac', 'Cex', 'O']), '', '', [('comp', 'A', '', '', ('leaf', tg.word())), ('comp', 'I', '', '', ('leaf', tg.word()))]))
        parts = outside + [('pairs', fill(sh, list(sizes), nested=True))]
        rng.shuffle(parts)
        cases.append(("P1", parts))
    # P2: inside a nested statement, at depth 1 and 2
    for _ in range(16 if tier == "quick" else 300):
        sh = rng.choice(list(TX.tree_shapes(2)) + list(TX.tree_shapes(3)))
        k = str(sh).count("'leaf'")
        inner = [('comp', s, '', '', ('leaf', tg.word())) for s in rng.sample(OUTSIDE_SYMS, rng.randint(0, 2))] + [('pairs', fill(sh, [rng.randint(1, 3) for _ in range(k)], combos=rng.random() < 0.5))]
        parts = [('comp', 'A', '', '', ('leaf', tg.word())), ('nested', rng.choice(TX.NEST_NONPROP), '', '', inner)]
        if rng.random() < 0.3:
            parts = [('comp', 'D', '', '', ('leaf', tg.word())), ('nested', rng.choice(TX.NEST_NONPROP), '', '', parts)]
        cases.append(("P2", parts))
    # S: unrestricted sample (pairs inside nested statements with arbitrary siblings)
    for _ in range(30 if tier == "quick" else 800):
        sh = rng.choice(list(TX.tree_shapes(2)) + list(TX.tree_shapes(3)))
        k = str(sh).count("'leaf'")
        inner = [tg.comp(s, 2) for s in rng.sample(OUTSIDE_SYMS, rng.randint(0, 3))] + [('pairs', fill(sh, [rng.randint(1, 3) for _ in range(k)]))]
        rng.shuffle(inner)
        cases.append(("S", [('comp', 'A', '', '', ('leaf', tg.word())), ('nested', rng.choice(TX.NEST_NONPROP), '', '', inner)] if rng.random() < 0.6 else inner))
    # P3: a component with a suffix-linked private property written outside the braces, and a component of the same type
    #     inside at least one group: every expanded statement carries the outside value together with its private property
    for _ in range(10 if tier == "quick" else 150):
        comp, prop = rng.choice([('A', 'A,p'), ('Bdir', 'Bdir,p'), ('Bind', 'Bind,p'), ('E', 'E,p'), ('P', 'P,p')])
        outside = [('comp', comp, '1', '', ('leaf', tg.word())), ('comp', prop, '1', '', ('leaf', tg.word()))]
        if rng.random() < 0.5:
            outside.append(('comp', prop, '', '', ('leaf', tg.word())))
        if comp != 'A':
            outside.append(('comp', 'A', '', '', ('leaf', tg.word())))
        g1 = [('comp', 'I', '', '', ('leaf', tg.word())), ('comp', comp, '', '', ('leaf', tg.word()))]
        g2 = [('comp', 'I', '', '', ('leaf', tg.word()))] + ([('comp', comp, '', '', ('leaf', tg.word()))] if rng.random() < 0.4 else [])
        gs = [g1, g2]
        rng.shuffle(gs)
        t = ('op', rng.choice(TX.OPS), ('leaf', gs[0]), ('leaf', gs[1]))
        if rng.random() < 0.3:
            t = ('op', rng.choice(TX.OPS), t, ('leaf', [('comp', 'I', '', '', ('leaf', tg.word())), ('comp', 'Cac', '', '', ('leaf', tg.word()))]))
        parts = outside + [('pairs', t)]
        rng.shuffle(parts)
        cases.append(("P3", parts))
    return cases


def proj_priv(n, root=True):
    """Projection that keeps the private links (stream P3)."""
    def ent(e):
        if isinstance(e, tuple) and e[0] == 'T':
            return ('T', [(f, proj_priv(x)) for f, x in e[1]])
        if isinstance(e, tuple) and e[0] == 'NS':
            return ('NS', [proj_priv(x) for x in e[1]])
        return e
    if n[0] == 'L':
        return ('L', n[1] if root else b"", n[2], n[3], [x for x in n[4] if x], [x for x in n[5] if x], ent(n[6]), [proj_priv(x, True) for x in n[7]])
    return ('C', n[1] if root else b"", n[2], n[3], [x for x in n[4] if x], [x for x in n[5] if x], n[6], proj_priv(n[7], False), proj_priv(n[8], False))


def expanded_statements(n):
    """Statements held by the leaves of a pair tree, in order."""
    if n[0] == 'C':
        return expanded_statements(n[7]) + expanded_statements(n[8])
    e = n[6]
    if isinstance(e, tuple) and e[0] == 'NS':
        return [x[6][1] for x in e[1] if x[0] == 'L' and isinstance(x[6], tuple) and x[6][0] == 'T']
    if isinstance(e, tuple) and e[0] == 'T':
        return [e[1]]
    return []


def run(args):
    build = prepare(verbose=True)
    V = Verdict("C03", args.tier, args.seed)
    po = check_props(build, FILES)
    for f in po["broken_files"]:
        V.broke("coq:" + f, po["log"])
    if not build.ok_go:
        V.broke("go-build", build.go_log)
        return V.finish(std_coverage(po, 0, 0, "harness did not build", []), po["assumptions"])
    cases = gen(args.tier, args.seed)
    texts = [TX.r_stmt(p) for _, p in cases]
    if args.replay:
        rep = json.load(open(args.replay))
        if (rep.get("input") or {}).get("text"):
            texts, cases = [rep["input"]["text"]], [("R", None)]
    res = run_pool([build.obs], [{"mode": "parse", "stmt": t} for t in texts], NCPU, timeout=90)
    dist = {"stream": {}, "outcome": {}, "groups": {}}
    nontrivial = 0
    for (stream, parts), t, r in zip(cases, texts, res):
        dist["stream"][stream] = dist["stream"].get(stream, 0) + 1
        if parts is None:
            print(json.dumps(r)[:2000])
            continue
        case = {"text": t, "ast": json.dumps(parts)}
        if "timeout" in r:
            oc = "slow"                  # no answer within the pool's limit (load): termination is C10's business
        elif "panic" in r or "exit" in r:
            oc = "crash"
        elif r.get("err") != "NO_ERROR_DURING_PARSING":
            oc = "rejected:" + str(r.get("err"))
        elif stream == "P3":
            # the outside components are linked (Model/Priv.v on their denotation) before they are shared by the groups
            outside = [p for p in parts if p[0] != 'pairs']
            pt = next(p for p in parts if p[0] == 'pairs')[1]
            m = run_lines([build.modelrun], ["privn\t" + wnode(('L', b"", None, None, [], [], ('T', TX.d_fields(outside)), []))])[0] if build.modelrun else "bad:no model"
            if m.startswith("bad:"):
                oc = "ok"
                V.broke("model:privn", m[:200])
            else:
                exp = proj_priv(TX.d_ptree(pt, rnode(m)[6][1]))
                got = proj_priv(rnode(r["nodes"][0]))
                oc = "ok" if got == exp else "differs"
        else:
            got = TX.strip_full(rnode(r["nodes"][0]))
            exp = TX.strip_full(TX.d_root(parts))
            oc = "ok" if got == exp else "differs"
        dist["outcome"][oc] = dist["outcome"].get(oc, 0) + 1
        nontrivial += 1
        if oc in ("ok", "slow"):
            continue
        if pairs_in_nested_with_sibling_combination(parts):
            V.violation("pairs:in-nested-statement-with-sibling-combination:" + ("rejected" if oc.startswith("rejected") else oc), case, observed={"outcome": oc},
                        what="a component-pair combination inside a nested statement that also holds a component combination is rejected or mis-read")
            continue
        if oc == "crash":
            V.violation("pairs:crash", case, what="a well-formed statement with component pairs crashes the parser")
        elif oc.startswith("rejected"):
            V.violation("pairs:wellformed-statement-" + oc, case, what="a well-formed statement with a component-pair combination is rejected")
        else:
            # which clause fails: the operator tree, or the content of an expanded statement
            g_st, e_st = expanded_statements(rnode(r["nodes"][0])), expanded_statements(TX.d_root(parts))
            what = "the expanded statements are not linked by the written operator tree"
            if len(g_st) == len(e_st):
                for i, (a, b) in enumerate(zip(g_st, e_st)):
                    fa, fb = [f for f, _ in a], [f for f, _ in b]
                    if fa != fb:
                        what = "expanded statement %d holds components %s, written: group + outside = %s" % (i + 1, fa, fb)
                        break
            V.violation("pairs:expansion-differs-from-written", case, observed={"expanded": len(g_st)}, expected={"expanded": len(e_st)}, what=what)
    cov = std_coverage(po, len(cases), nontrivial,
                       "P1: top-level pair combinations: operator trees over 2-4 groups with brace precedence, groups of 1-4 components (unbalanced, with component combinations and nested components), "
                       "any subset of outside components; P2: the same inside nested statements (depth 1-2); S: unrestricted siblings. ParseStatement's tree (operator tree over the expanded statements, "
                       "every expanded statement = group + outside) is compared with the denotation of the generating AST. Non-trivial = every case (each has a pair combination).",
                       [texts[0], texts[len(texts) // 2]], {"distribution": dist, "endpoint_level": len(cases), "exhaustive": False})
    return V.finish(cov, po["assumptions"])
